#!/usr/bin/env python3
"""C02 context probe (component of ./check C02): `collect_cycles()` called from inside a
`config(|c| ..)` closure - the one API context with user code that the program language of the
correspondence cannot express - must reclaim a three-object garbage cycle exactly like a plain
call (every member finalized once, destroyed once, allocated_bytes() back to 0, no leaked byte);
that is what `Props/C02h.C02h_collect_cmd` proves of the model's `collect`.  And `Cc::new` from inside
such a closure (the configuration is unreadable there) allocates but starts no automatic collection,
whatever the settings (the crate reads an unreadable configuration as 'do not collect').  Debug and release.
Prints `CONTEXTS ok scenarios=<n>` and exits 0, or the mismatching facts and exits 1."""
import argparse, json, os, shutil, subprocess, sys
sys.path.insert(0, os.path.dirname(os.path.abspath(__file__)))
import rcc

EXPECT = dict(garbage_before=1, fin=3, dropped=3, bytes=0, leak=0)


def main():
    ap = argparse.ArgumentParser()
    ap.add_argument('--json')
    a = ap.parse_args()
    out = dict(cases=0, mismatches=[], samples=[])
    pd = os.path.join(rcc.VERIF, 'probes', 'limits')
    if not os.path.exists(os.path.join(pd, 'Cargo.lock')) and os.path.exists('/repo/Cargo.lock'):
        shutil.copy('/repo/Cargo.lock', os.path.join(pd, 'Cargo.lock'))
    for release in (False, True):
        prof = 'release' if release else 'debug'
        cmd = ['cargo', 'build', '--offline', '--target-dir', os.path.join(rcc.BUILD, 'limits-target')] + (['--release'] if release else [])
        with rcc.Lock('cargo-limits'):
            rc, o = rcc.sh(cmd, cwd=pd, env=rcc.ENV, check=False, timeout=1200)
        if rc != 0:
            out['mismatches'].append('the probe does not build against /repo: ' + o[-400:])
            break
        exe = os.path.join(rcc.BUILD, 'limits-target', prof, 'limits-probe')
        p = subprocess.run([exe, 'ctx'], stdout=subprocess.PIPE, stderr=subprocess.STDOUT, text=True, timeout=300)
        got = {}
        for l in p.stdout.splitlines():
            t = l.split()
            if t and t[0] == 'S':
                got[t[1]] = {k: int(v) for k, v in (x.split('=') for x in t[2:])}
        if p.returncode != 0 or 'DONE' not in p.stdout:
            out['mismatches'].append(f'[{prof}] the probe died (exit {p.returncode}): {p.stdout.strip().splitlines()[-1:]}')
        for n in ('ctx_collect_plain', 'ctx_collect_in_config_closure'):
            out['cases'] += 1
            for k, v in EXPECT.items():
                g = got.get(n, {}).get(k)
                if g != v:
                    out['mismatches'].append(f'[{prof}] scenario {n}: {k} = {g}, expected {v}')
        for n in ('ctx_new_in_config_closure_auto0', 'ctx_new_in_config_closure_auto1'):
            out['cases'] += 1
            for k, v in dict(made=1, exec_delta=0, garbage_dropped_inside=0).items():
                g = got.get(n, {}).get(k)
                if g != v:
                    out['mismatches'].append(f'[{prof}] scenario {n}: {k} = {g}, expected {v}')
        out['samples'] = [dict(scenario='ctx_collect_in_config_closure', observed=got.get('ctx_collect_in_config_closure'))]
    if a.json:
        json.dump(out, open(a.json, 'w'), indent=1)
    if out['mismatches']:
        for m in out['mismatches'][:8]:
            print('CONTEXTS mismatch:', m)
        sys.exit(1)
    print(f"CONTEXTS ok scenarios={out['cases']}")


if __name__ == '__main__':
    main()
