#!/usr/bin/env python3
"""C19: per-thread collectors are independent; thread teardown is safe in both destruction orders.

  check_threads.py [--repo PATH] [--json PATH] [--tier quick|thorough] [--seed N]

1. builds coq/Threads.v (product-of-machines model + teardown model), refuses unfinished proofs,
   checks `Print Assumptions` of the C19 theorems;
2. builds the probe crate against the CURRENT working tree of --repo (debug and release);
3. `threads run`: for N in 2,4,8,16 OS threads, N independent seeded programs run interleaved, then
   each one alone on a fresh thread; the per-thread observable traces must be identical
   (the implementation-side statement of Threads.C19_trace);
4. `threads teardown <order> <content>`: each scenario in its own child process (a crash is
   attributed to it): a user thread-local holding Ccs destroyed before / after POSSIBLE_CYCLES, with
   objects uniquely owned / buffered / in cycles / garbage still buffered / destructors that
   re-enter the API; no double drop, no double or foreign free, no write to freed memory, and after
   the buffer's destructor no leaked object is still marked or linked (Threads.teardown_pc_clears;
   a departure from this last, stronger-than-C19 model fact is a note unless --strict-model);
5. four compile-fail probes: Cc<T> and Weak<T> are neither Send nor Sync (E0277), plus a control
   file that must compile.

Prints `THREADS ok threads=<list> programs=<n> teardown_scenarios=<n>` and exits 0, or the first
failing line and exits 1.
"""
import os
import subprocess
import sys
import time

sys.path.insert(0, os.path.dirname(os.path.abspath(__file__)))
from check_layout import (CheckFailure, PROBE_DIR, build_coq, cargo_build, check_assumptions, common_args,  # noqa: E402
                          finish, parse_kv, run_probe, work_dir)

THREADS_THEOREMS = [
    "C19_independent", "frame", "frame_step", "C19_independent_of_others", "C19_sched_equiv", "sys_step_comm",
    "C19_independent_prefix", "C19_trace", "C19_transfer", "C19_invariant", "C19_invariant_always",
    "C19_invariant_local", "teardown_pc_clears", "add_to_list_dead_noop", "remove_from_list_dead_noop",
    "drop_cc_ok", "run_drops_ok", "C19_teardown_user_then_pc", "C19_teardown_pc_then_user", "C19_teardown",
    "drop_cc_after_teardown_ok",
]
ORDERS = ["user_first", "pc_first"]
CONTENTS = ["unique", "buffered", "cycle", "garbage_buffered", "mixed", "reenter"]
COMPILE_FAIL = ["cc_send", "cc_sync", "weak_send", "weak_sync"]


def rustc_probe(name, rlib, deps, outdir):
    src = os.path.join(PROBE_DIR, "compile_fail", name + ".rs")
    cmd = ["rustc", "--edition", "2021", "--crate-type", "lib", "--crate-name", name, "--emit=metadata",
           "-o", os.path.join(outdir, "cf_%s.rmeta" % name), "-L", "dependency=" + deps,
           "--extern", "rust_cc=" + rlib, "--cfg", "rust_cc_verif", src]
    p = subprocess.run(cmd, stdout=subprocess.PIPE, stderr=subprocess.PIPE, text=True, timeout=120)
    return p.returncode, p.stderr


def main():
    t0 = time.time()
    ap = common_args(__doc__)
    ap.add_argument("--strict-model", action="store_true",
                    help="fail (instead of noting) when a LEAKED object is still marked / linked after the buffer's "
                         "destructor, i.e. when the implementation departs from Threads.teardown_pc_clears although "
                         "no crash, double drop or access to freed memory occurs")
    args = ap.parse_args()
    summary = {"cases": 0, "mismatches": [], "samples": []}
    try:
        build_coq()
        wd = work_dir(args.repo)
        summary["theorems_closed"] = check_assumptions(wd, "Threads", THREADS_THEOREMS)

        thorough = args.tier == "thorough"
        threads = "2,4,8,16"
        seeds = [args.seed] if not thorough else [args.seed + k for k in range(4)]
        rounds, ops = (2, 300) if not thorough else (6, 800)
        programs = 0
        scenarios = 0
        samples = []
        orders_forced = set()
        notes = []
        rlib_debug = None
        for release, feats in ((False, None), (True, None), (False, ["pedantic"])):
            prof = ("release" if release else "debug") + ("+pedantic-debug-assertions" if feats else "")
            exes, rlib, deps = cargo_build(args.repo, release, ["threads"], features=feats)
            if not release and not feats:
                rlib_debug = (rlib, deps)
            # --- independent programs
            for seed in (seeds if not feats else seeds[:1]):
                rc, out, err = run_probe(exes["threads"], ["run", "--seed", str(seed), "--threads", threads,
                                                           "--rounds", str(rounds), "--ops", str(ops)], timeout=600)
                lines = out.splitlines()
                thr = [l for l in lines if l.startswith("thr ")]
                for l in thr + [l for l in lines if l.startswith("main ")]:
                    if not l.endswith(" ok"):
                        raise CheckFailure("[%s seed=%d] %s" % (prof, seed, l))
                end = [l for l in lines if l.startswith("end ")]
                if not end or not end[0].endswith(" ok") or rc != 0:
                    last = end[0] if end else (err.strip().splitlines() or ["<no output>"])[-1]
                    raise CheckFailure("[%s seed=%d] threads run: exit %s: %s" % (prof, seed, rc, last))
                seen_n = sorted({int(parse_kv(l)["n"]) for l in thr})
                if seen_n != [2, 4, 8, 16]:
                    raise CheckFailure("[%s] thread counts exercised: %r" % (prof, seen_n))
                programs += len(thr)
                if not samples:
                    samples += [thr[0], thr[-1]]
            # --- teardown, one child process per scenario
            for order in ORDERS:
                for content in CONTENTS:
                    targs = ["teardown", order, content] + (["--strict-model"] if args.strict_model else [])
                    rc, out, err = run_probe(exes["threads"], targs, timeout=120)
                    td = [l for l in out.splitlines() if l.startswith("td ")]
                    name = "%s teardown %s %s" % (prof, order, content)
                    if rc < 0:
                        raise CheckFailure("[%s] child process killed by signal %d%s" % (name, -rc, (": " + td[0]) if td else ""))
                    if not td:
                        raise CheckFailure("[%s] no result line (exit %s): %s"
                                           % (name, rc, (err.strip().splitlines() or ["<no stderr>"])[-1]))
                    if not td[0].endswith(" ok") or rc != 0:
                        raise CheckFailure("[%s] %s (exit %s)" % (name, td[0], rc))
                    d = parse_kv(td[0])
                    want_alive = "true" if order == "user_first" else "false"
                    if d.get("pc_alive_at_user_dtor") != want_alive:
                        raise CheckFailure("[%s] destruction order could not be forced: %s" % (name, td[0]))
                    orders_forced.add(order)
                    scenarios += 1
                    if d.get("notes", "-") != "-":
                        notes.append("[%s] %s" % (name, d["notes"]))
                    if content == "mixed" and not release:
                        samples.append(td[0])
        # --- Send / Sync
        rlib, deps = rlib_debug
        if not rlib:
            raise CheckFailure("cargo did not report the rust_cc rlib")
        rc, err = rustc_probe("control_ok", rlib, deps, wd)
        if rc != 0:
            raise CheckFailure("compile probe control_ok.rs must compile but did not: " + err.strip()[:400])
        cf = {}
        for name in COMPILE_FAIL:
            rc, err = rustc_probe(name, rlib, deps, wd)
            trait = "Send" if name.endswith("send") else "Sync"
            phrase = "cannot be sent between threads safely" if trait == "Send" else "cannot be shared between threads safely"
            if rc == 0:
                raise CheckFailure("compile-fail probe %s.rs COMPILED: the type is %s" % (name, trait))
            if "E0277" not in err or phrase not in err:
                raise CheckFailure("compile-fail probe %s.rs failed for another reason: %s" % (name, err.strip()[:400]))
            cf[name] = "E0277"
        summary["compile_fail"] = cf
        summary["cases"] = programs + scenarios + len(cf)
        summary["programs"] = programs
        summary["threads"] = [2, 4, 8, 16]
        summary["teardown_scenarios"] = scenarios
        summary["teardown_orders_forced"] = sorted(orders_forced)
        summary["teardown_contents"] = CONTENTS
        summary["profiles"] = ["debug", "release", "debug+pedantic-debug-assertions"]
        summary["samples"] = samples[:5]
        summary["noted"] = notes[:40]
        for n in notes[:5]:
            print("NOTE (not a C19 violation; model Threads.teardown_pc_clears is stronger): " + n, file=sys.stderr)
        finish("THREADS", True, summary, args, t0,
               okline="THREADS ok threads=2,4,8,16 programs=%d teardown_scenarios=%d" % (programs, scenarios))
    except CheckFailure as e:
        summary["mismatches"] = [str(e)]
        finish("THREADS", False, summary, args, t0, failure=str(e))
    except subprocess.TimeoutExpired as e:
        finish("THREADS", False, summary, args, t0, failure="timeout: %s" % e)


if __name__ == "__main__":
    main()
