"""Seeded generator of programs in the text format of DESIGN.md Appendix D.

All random choices come from one random.Random(seed).  Programs are mostly valid (a shadow of
which slots are probably occupied steers the choice of operands); a small share of commands is
deliberately malformed-but-legal (empty slots, dead weaks, shared try_unwrap, ...).
"""
import random

NSLOTS = 6

# relative weights of main-program commands per profile
BASE = dict(new=14, clone=10, clonef=12, drop=12, dropf=6, move=5, markalive=3, collect=7, obs=6, sobs=4,
            downgrade=0, upgrade=0, wclone=0, wdrop=0, wnew=0, wobs=0, tryunwrap=0, dropvalue=0,
            finagain=0, newcyclic=0, register=0, clean=0, cdrop=0, bag=0, unbag=0, borrow=0, unborrow=0,
            cfgauto=0, cfgpercent=0, cfgbuffered=0, arm=0, panic=0, buffer=8)

PROFILES = {
    'core':     dict(BASE),
    'fin':      dict(BASE, finagain=2, collect=10),
    'weak':     dict(BASE, downgrade=9, upgrade=9, wclone=4, wdrop=5, wnew=1, wobs=6, tryunwrap=2, dropvalue=1),
    'unwrap':   dict(BASE, tryunwrap=10, dropvalue=5, downgrade=5, upgrade=4, wobs=3, newcyclic=2),
    'cyclic':   dict(BASE, newcyclic=10, upgrade=5, wclone=4, wobs=5, wdrop=3, downgrade=3, arm=2),
    'clean':    dict(BASE, register=10, clean=8, cdrop=3, downgrade=2, upgrade=2, new=16),
    'auto':     dict(BASE, cfgauto=2, cfgpercent=4, cfgbuffered=3, new=22, sobs=8, collect=4),
    'faults':   dict(BASE, arm=7, panic=1, downgrade=4, upgrade=4, newcyclic=2, register=3, clean=3, finagain=1),
    'limits':   dict(BASE, bag=5, unbag=5, downgrade=3, upgrade=3, wclone=2),
    'all':      dict(BASE, downgrade=5, upgrade=5, wclone=2, wdrop=3, wnew=1, wobs=3, tryunwrap=3, dropvalue=2,
                     finagain=1, newcyclic=3, register=4, clean=4, cdrop=1, borrow=1, unborrow=1, arm=2,
                     cfgauto=1, cfgpercent=1, cfgbuffered=1),
}


def pick(rng, weights):
    items = [(k, w) for k, w in weights.items() if w > 0]
    tot = sum(w for _, w in items)
    x = rng.uniform(0, tot)
    for k, w in items:
        x -= w
        if x <= 0:
            return k
    return items[-1][0]


class Gen:
    def __init__(self, seed, profile='all', feats=None, auto=False, size=(20, 90), suffix=None):
        self.suffix = suffix
        self.rng = random.Random(seed)
        self.profile = profile
        self.w = PROFILES[profile]
        self.feats = feats or dict(fin=1, weak=1, clean=1, auto=1)
        self.auto = auto
        self.size = size
        self.classes = []
        self.scripts = []

    # ---- operands
    def slot(self, occupied=None, want=True):
        r = self.rng
        if occupied is not None and r.random() < 0.93:
            c = [i for i in range(NSLOTS) if (occupied[i] is not False) == want]
            if c:
                return r.choice(c)
        return r.randrange(NSLOTS)

    def fld(self, occ, s):
        """a strong field index that probably exists in the object held by slot s"""
        c = occ[s]
        nf = self.classes[c]['nf'] if (c is not False and c is not True and c < len(self.classes)) else 2
        if nf == 0 or self.rng.random() < 0.05:
            return self.rng.randrange(3)
        return self.rng.randrange(nf)

    def nslot(self, occ, pred):
        """an occupied slot whose (shadow) class satisfies pred, else any occupied slot"""
        c = [i for i in range(NSLOTS) if occ[i] is not False and occ[i] is not True and pred(self.classes[occ[i]])]
        if c and self.rng.random() < 0.9:
            return self.rng.choice(c)
        return self.slot(occ, True)

    # ---- scripts
    def script_cmds(self, kind):
        r = self.rng
        n = r.choice([0, 1, 1, 2, 2, 3, 4])
        out = []
        plain = 0  # class 0 is always script-free
        for _ in range(n):
            if kind == 'fin':
                c = r.choice(['clonef', 'clonef', 'movef', 'dropf', 'upgradef', 'upgradew', 'new', 'newcyc', 'collect', 'drops', 'obsf',
                              'sobs', 'wobsf', 'tryunwrap', 'clean', 'storef', 'finagain', 'panic' if r.random() < 0.1 else 'sobs'])
            elif kind == 'drop':
                c = r.choice(['upgradef', 'upgradew', 'new', 'newcyc', 'drops', 'collect', 'sobs', 'wobsf', 'clones', 'clean', 'obss',
                              'tryunwrap', 'panic' if r.random() < 0.08 else 'sobs'])
            elif kind == 'action':
                c = r.choice(['drops', 'new', 'newcyc', 'upgradew', 'clean', 'collect', 'sobs', 'obss', 'clones', 'panic' if r.random() < 0.08 else 'sobs'])
            else:  # closure
                c = r.choice(['wclonep', 'upgradep', 'wobsp', 'new', 'collect', 'sobs', 'drops', 'wclonep', 'panic' if r.random() < 0.1 else 'sobs'])
            s, f, w = r.randrange(NSLOTS), r.randrange(3), r.randrange(2)
            if c == 'clonef': out.append(f'clone f{f} s{s}')
            elif c == 'movef': out.append(f'move f{f} s{s}')
            elif c == 'storef': out.append(f'clone s{s} f{f}')
            elif c == 'dropf': out.append(f'drop f{f}')
            elif c == 'upgradef': out.append(f'upgrade wf{w} s{s}') if self.feats['weak'] else None
            elif c == 'upgradew': out.append(f'upgrade w{r.randrange(NSLOTS)} s{s}') if self.feats['weak'] else None
            elif c == 'new': out.append(f'new s{s} {plain}')
            elif c == 'newcyc':
                if self.feats['weak'] and self.closure_scripts:
                    out.append(f'newcyclic s{s} {plain} {r.choice(self.closure_scripts)} 1')
            elif c == 'collect': out.append('collect')
            elif c == 'drops': out.append(f'drop s{s}')
            elif c == 'clones': out.append(f'clone s{s} s{r.randrange(NSLOTS)}')
            elif c == 'obsf': out.append(f'obs f{f}')
            elif c == 'obss': out.append(f'obs s{s}')
            elif c == 'sobs': out.append('sobs')
            elif c == 'wobsf': out.append(f'wobs wf{w}') if self.feats['weak'] else None
            elif c == 'tryunwrap': out.append(f'tryunwrap s{s} {r.randrange(NSLOTS)}')
            elif c == 'clean': out.append(f'clean {r.randrange(NSLOTS)}') if self.feats['clean'] else None
            elif c == 'finagain': out.append(f'finagain s{s}') if self.feats['fin'] else None
            elif c == 'panic': out.append('panic')
            elif c == 'wclonep': out.append(f'wclone wp w{r.randrange(NSLOTS)}')
            elif c == 'upgradep': out.append(f'upgrade wp s{s}')
            elif c == 'wobsp': out.append('wobs wp')
        return out

    def add_script(self, kind):
        self.scripts.append((kind, self.script_cmds(kind)))
        return len(self.scripts) - 1

    def make_classes(self):
        r = self.rng
        # class 0: plain node, 2 traced fields, 1 weak field, no callbacks (the only class scripts allocate)
        self.classes.append(dict(nf=2, traced='11', nw=1, cleaner=0, fin='-', drop='-'))
        self.closure_scripts = []
        self.closure_scripts = [self.add_script('closure') for _ in range(2)] if self.feats['weak'] else []
        ncls = r.choice([2, 3, 3, 4])
        for _ in range(ncls):
            nf = r.choice([0, 1, 2, 2, 3])
            traced = ''.join('1' if r.random() < 0.85 else '0' for _ in range(nf))
            nw = r.choice([0, 1, 1, 2]) if self.feats['weak'] else 0
            cleaner = 1 if (self.feats['clean'] and r.random() < (0.7 if self.profile == 'clean' else 0.25)) else 0
            fin = str(self.add_script('fin')) if (self.feats['fin'] and r.random() < 0.6) else '-'
            drop = str(self.add_script('drop')) if r.random() < 0.4 else '-'
            self.classes.append(dict(nf=nf, traced=traced, nw=nw, cleaner=cleaner, fin=fin, drop=drop))
        self.action_scripts = [self.add_script('action') for _ in range(2)] if self.feats['clean'] else []

    def structured_prelude(self, main):
        """A directed scenario: a traced cycle of 2-4 objects, some of whose finalizers resurrect a
        neighbour into a global; optionally a first collection (so that some members are already
        finalized survivors), fresh members spliced in, then everything released and collected
        twice.  Buffer order (hence the collector's list order) is randomised."""
        r = self.rng
        if not self.feats['fin']:
            return
        # class R: one traced field, finalizer stores the neighbour in s5; class Q: same shape, no finalizer
        self.scripts.append(('fin', ['clone f0 s5']))
        rs = len(self.scripts) - 1
        self.classes.append(dict(nf=1, traced='1', nw=1 if self.feats['weak'] else 0, cleaner=0, fin=str(rs), drop='-'))
        R = len(self.classes) - 1
        self.classes.append(dict(nf=1, traced='1', nw=0, cleaner=0, fin='-', drop='-'))
        Q = len(self.classes) - 1
        n = r.choice([2, 2, 3, 4])
        kinds = [r.choice([R, R, Q]) for _ in range(n)]
        for i, k in enumerate(kinds):
            main.append(f'new s{i} {k}')
        for i in range(n):
            main.append(f'clone s{(i + 1) % n} a{i}.0')
        order = list(range(n)); r.shuffle(order)
        if r.random() < 0.6:
            # first round: release, collect (finalizers run, something may be resurrected into s5)
            for i in order:
                main.append(f'drop s{i}')
            main.append('collect')
            main.append('obs s5')
            # splice a fresh member in front of the survivor and release again
            k = r.choice([R, R, Q])
            main.append(f'new s0 {k}')
            main.append('clone a5.0 a0.0')      # fresh.f0 = survivor.f0
            main.append('clone s0 a5.0')        # survivor.f0 = fresh
            if r.random() < 0.5:
                main.append('drop s0'); main.append('drop s5')
            else:
                main.append('drop s5'); main.append('drop s0')
        else:
            for i in order:
                main.append(f'drop s{i}')
        if r.random() < 0.3:
            main.append(f"arm {r.choice(['fin', 'drop', 'trace'])} {r.choice([1, 2, 3])}")
        main.append('collect'); main.append('obs s5'); main.append('obs a5.0'); main.append('sobs')
        main.append('collect'); main.append('obs s5'); main.append('sobs')
        if r.random() < 0.5:
            main.append('drop s5'); main.append('collect'); main.append('sobs')

    # ---- main program
    def program(self):
        r = self.rng
        self.make_classes()
        occ = [False] * NSLOTS
        wocc = [False] * NSLOTS
        main = []
        if not self.auto and self.feats['auto']:
            main.append('cfgauto 0')
        if self.profile in ('fin', 'all', 'faults', 'weak') and r.random() < (0.5 if self.profile == 'fin' else 0.2):
            self.structured_prelude(main)
            occ[5] = True
        n = r.randint(*self.size)
        ncls = len(self.classes)
        w = dict(self.w)
        if not self.feats['weak']:
            for k in ['downgrade', 'upgrade', 'wclone', 'wdrop', 'wnew', 'wobs', 'newcyclic', 'register', 'clean', 'cdrop']:
                w[k] = 0
        if not self.feats['clean']:
            for k in ['register', 'clean', 'cdrop']:
                w[k] = 0
        if not self.feats['fin']:
            w['finagain'] = 0
        if not self.feats['auto']:
            for k in ['cfgauto', 'cfgpercent', 'cfgbuffered']:
                w[k] = 0
        cleaner_classes = [i for i, c in enumerate(self.classes) if c['cleaner']]
        for step in range(n):
            c = pick(r, w)
            if (step < 3 or not any(o is not False for o in occ)) and c not in ('cfgauto', 'cfgpercent', 'cfgbuffered', 'arm'):
                c = 'new'
            if c == 'new':
                s = self.slot(occ, False) if r.random() < 0.7 else self.slot()
                cls = r.randrange(ncls)
                if self.profile == 'clean' and cleaner_classes and r.random() < 0.5:
                    cls = r.choice(cleaner_classes)
                main.append(f'new s{s} {cls}'); occ[s] = cls
            elif c == 'clone':
                a, b = self.slot(occ, True), self.slot()
                main.append(f'clone s{a} s{b}'); occ[b] = occ[a] if occ[a] is not False else occ[b]
            elif c == 'clonef':
                a, b = self.slot(occ, True), self.nslot(occ, lambda k: k['nf'] > 0)
                j = self.fld(occ, b)
                if r.random() < 0.7:
                    main.append(f'clone s{a} a{b}.{j}')
                else:
                    d = self.slot(); main.append(f'clone a{b}.{j} s{d}'); occ[d] = True if occ[d] is False else occ[d]
            elif c == 'drop':
                s = self.slot(occ, True); main.append(f'drop s{s}'); occ[s] = False
            elif c == 'dropf':
                b = self.nslot(occ, lambda k: k['nf'] > 0); main.append(f'drop a{b}.{self.fld(occ, b)}')
            elif c == 'move':
                a = self.slot(occ, True)
                if r.random() < 0.5:
                    b = self.slot(); main.append(f'move s{a} s{b}')
                    if a != b:
                        occ[b] = occ[a] if occ[a] is not False else occ[b]; occ[a] = False
                else:
                    b = self.nslot(occ, lambda k: k['nf'] > 0)
                    if b == a:
                        # moving a handle into a field reached through that very handle is not expressible in
                        # safe Rust (the Cc would be moved while borrowed): emit a clone + drop instead
                        main.append(f'clone s{a} a{b}.{self.fld(occ, b)}'); main.append(f'drop s{a}'); occ[a] = False
                    else:
                        main.append(f'move s{a} a{b}.{self.fld(occ, b)}'); occ[a] = False
            elif c == 'buffer':  # clone + drop: the classic way to buffer an object
                a, b = self.slot(occ, True), self.slot(occ, False)
                main.append(f'clone s{a} s{b}'); main.append(f'drop s{b}')
            elif c == 'markalive': main.append(f'markalive s{self.slot(occ, True)}')
            elif c == 'collect': main.append('collect')
            elif c == 'obs':
                b = self.slot(occ, True); main.append(r.choice([f'obs s{b}', f'obs s{b}', f'obs a{b}.{self.fld(occ, b)}']))
            elif c == 'sobs': main.append('sobs')
            elif c == 'downgrade':
                a = self.slot(occ, True)
                if r.random() < 0.7:
                    b = self.slot(wocc, False) if r.random() < 0.6 else self.slot(); main.append(f'downgrade s{a} w{b}'); wocc[b] = True
                else:
                    main.append(f"downgrade s{a} wa{self.nslot(occ, lambda k: k['nw'] > 0)}.0")
            elif c == 'upgrade':
                src = f'w{self.slot(wocc, True)}' if r.random() < 0.7 else f"wa{self.nslot(occ, lambda k: k['nw'] > 0)}.0"
                b = self.slot(); main.append(f'upgrade {src} s{b}'); occ[b] = True if occ[b] is False else occ[b]
            elif c == 'wclone':
                a, b = self.slot(wocc, True), self.slot(); main.append(f'wclone w{a} w{b}'); wocc[b] = wocc[a] or wocc[b]
            elif c == 'wdrop':
                a = self.slot(wocc, True); main.append(f'wdrop w{a}'); wocc[a] = False
            elif c == 'wnew':
                a = self.slot(); main.append(f'wnew w{a}'); wocc[a] = True
            elif c == 'wobs': main.append(r.choice([f'wobs w{self.slot(wocc, True)}', f"wobs wa{self.nslot(occ, lambda k: k['nw'] > 0)}.0"]))
            elif c == 'tryunwrap':
                a = self.slot(occ, True); main.append(f'tryunwrap s{a} {r.randrange(NSLOTS)}')
            elif c == 'dropvalue': main.append(f'dropvalue {r.randrange(NSLOTS)}')
            elif c == 'finagain': main.append(f'finagain s{self.slot(occ, True)}')
            elif c == 'newcyclic':
                s = self.slot(); cls = r.randrange(ncls)
                main.append(f'newcyclic s{s} {cls} {r.choice(self.closure_scripts)} {r.randrange(2)}'); occ[s] = cls
            elif c == 'register':
                main.append(f"register n{self.nslot(occ, lambda k: k['cleaner'])} {r.choice(self.action_scripts)} {r.randrange(NSLOTS)}")
            elif c == 'clean': main.append(f'clean {r.randrange(NSLOTS)}')
            elif c == 'cdrop': main.append(f'cdrop {r.randrange(NSLOTS)}')
            elif c == 'bag':
                a = self.slot(occ, True)
                k = r.choice([1, 2, 3, 10, 16379, 16380, 16381, 16382, 16383, 20000]) if r.random() < 0.6 else r.randrange(1, 40)
                main.append(f'bag s{a} {k}')
            elif c == 'unbag': main.append(f'unbag {r.choice([1, 2, 5, 100, 16381, 16382, 30000])}')
            elif c == 'borrow': main.append(f'borrow n{self.slot(occ, True)}')
            elif c == 'unborrow': main.append(f'unborrow n{self.slot(occ, True)}')
            elif c == 'cfgauto': main.append(f'cfgauto {r.randrange(2)}')
            elif c == 'cfgpercent':
                x = r.random()
                if x < 0.15: num, e = 0, 0
                elif x < 0.25: num, e = 1, 0
                elif x < 0.35: num, e = 3602879701896397, 55
                elif x < 0.75: num, e = r.randrange(0, 1025), 10
                elif x < 0.85: num, e = 3, 1   # 1.5: rejected with a panic
                else:
                    f = r.random(); num, den = f.as_integer_ratio(); e = den.bit_length() - 1
                main.append(f'cfgpercent {num} {e}')
            elif c == 'cfgbuffered': main.append(f'cfgbuffered {r.choice([0, 1, 1, 2, 3, 5])}')
            elif c == 'arm':
                main.append(f"arm {r.choice(['trace', 'trace', 'fin', 'drop', 'drop', 'action', 'closure'])} {r.choice([1, 1, 2, 2, 3, 4, 6])}")
                if r.random() < 0.5:
                    # make garbage and collect right away so that the fuse fires inside the collector
                    a = self.slot(occ, True); main.append(f'drop s{a}'); occ[a] = False; main.append('collect')
            elif c == 'panic': main.append('panic')
        if self.suffix:
            main += self.suffix
        return self.render(main)

    def render(self, main):
        lines = []
        for i, c in enumerate(self.classes):
            lines.append(f"class {i} nf={c['nf']} traced={c['traced'] or '-'} nw={c['nw']} cleaner={c['cleaner']} fin={c['fin']} drop={c['drop']}")
        for i, (kind, cmds) in enumerate(self.scripts):
            lines.append(f"script {i} : " + ' ; '.join(cmds))
        lines.append('main : ' + ' ; '.join(main))
        return lines


def gen_program(seed, profile='all', feats=None, auto=False, size=(20, 90), suffix=None):
    g = Gen(seed, profile, feats, auto, size, suffix)
    return g.program()


# ---------------------------------------------------------------- bounded-exhaustive family

EXH_CLASSES = [
    "class 0 nf=2 traced=11 nw=1 cleaner=0 fin=- drop=-",
    "class 1 nf=1 traced=1 nw=1 cleaner=0 fin=0 drop=-",
    "script 0 : clone f0 s2",
]
EXH_PREFIX = ['cfgauto 0', 'new s0 1', 'new s1 1']
EXH_ALPHABET = ['clone s0 a1.0', 'clone s1 a0.0', 'clone s0 a0.0', 'drop s0', 'drop s1', 'drop s2', 'collect',
                'clone s0 s2', 'move s2 s0', 'markalive s1', 'drop a0.0', 'downgrade s0 w0', 'upgrade w0 s1', 'arm trace 2']


def exhaustive_programs(length, alphabet=None):
    """every program PREFIX ++ w ++ [obs/sobs suffix] for w in alphabet^length"""
    import itertools
    alphabet = alphabet or EXH_ALPHABET
    for w in itertools.product(alphabet, repeat=length):
        yield EXH_CLASSES + ['main : ' + ' ; '.join(EXH_PREFIX + list(w) + ['obs s0', 'obs s1', 'obs s2', 'collect', 'sobs'])]
