#!/usr/bin/env python3
"""C20 (trait-forwarding half): Eq/Ord/PartialOrd/Hash/Debug/Display/Default on Cc<T> versus T.

  check_forward.py [--repo PATH] [--json PATH] [--tier quick|thorough] [--seed N]

Builds the probe crate against the CURRENT working tree of --repo (debug and release), runs the
forwarding probe and compares, line by line, the result computed on `Cc<T>` with the result
computed on `T` (`fwd <type> <op> <a> <b> cc=<r> t=<r>`), for i64, (i32,u8), String, f64 (NaN,
signed zeros, infinities) and a type whose operators are deliberately unrelated to each other.
`fwdinfo` lines (a `PartialEq::ne` that violates its contract) are reported, never failed.

Prints `FORWARD ok comparisons=<n>` and exits 0, or the first differing line and exits 1.
"""
import os
import re
import subprocess
import sys
import time

sys.path.insert(0, os.path.dirname(os.path.abspath(__file__)))
from check_layout import CheckFailure, cargo_build, common_args, finish, run_probe  # noqa: E402

LINE = re.compile(r"^(fwd|fwdinfo) (\S+) (\S+) (\S+) (\S+) cc=(\S*) t=(\S*)$")


def main():
    t0 = time.time()
    args = common_args(__doc__).parse_args()
    summary = {"cases": 0, "mismatches": [], "samples": [], "noted": []}
    try:
        total = 0
        noted = {}
        ops = set()
        types = set()
        samples = []
        for release in (False, True):
            prof = "release" if release else "debug"
            exes, _, _ = cargo_build(args.repo, release, ["forward"])
            rc, out, err = run_probe(exes["forward"], ["--seed", str(args.seed)])
            lines = out.splitlines()
            if not any(l.startswith("end ") for l in lines):
                raise CheckFailure("[%s] forwarding probe did not finish (exit %s): %s"
                                   % (prof, rc, (err.strip().splitlines() or ["<no stderr>"])[-1]))
            n = 0
            for l in lines:
                if l.startswith("end "):
                    continue
                m = LINE.match(l)
                if not m:
                    raise CheckFailure("[%s] unparsable probe line: %r" % (prof, l))
                tag, ty, op, a, b, cc, t = m.groups()
                n += 1
                if cc != t:
                    if tag == "fwd":
                        summary["mismatches"].append("[%s] %s" % (prof, l))
                    else:
                        noted.setdefault("%s %s" % (ty, op.split("@")[0]), []).append(l)
                types.add(ty)
                ops.add(op.split("@")[0])
            if n < 1000:
                raise CheckFailure("[%s] only %d comparisons were made" % (prof, n))
            total += n
            if not release:
                step = max(1, n // 5)
                samples = [lines[i] for i in range(step // 2, n, step)][:5]
            if summary["mismatches"]:
                break
            if rc != 0:
                raise CheckFailure("[%s] forwarding probe exit status %s" % (prof, rc))
        summary["cases"] = total
        summary["types"] = sorted(types)
        summary["operations"] = sorted(ops)
        summary["samples"] = samples
        summary["noted"] = [
            {"what": k, "lines": len(v), "example": v[0],
             "explanation": "impl PartialEq for Cc<T> defines only eq, so `!=` on Cc<T> is !T::eq; it differs from T::ne "
                            "only for a T whose ne is not the negation of eq (a violation of PartialEq's documented contract)"}
            for k, v in sorted(noted.items())
        ]
        nmis = len(summary["mismatches"])
        summary["mismatch_count"] = nmis
        summary["mismatches"] = summary["mismatches"][:20]
        if nmis:
            raise CheckFailure(summary["mismatches"][0])
        finish("FORWARD", True, summary, args, t0, okline="FORWARD ok comparisons=%d" % total)
    except CheckFailure as e:
        finish("FORWARD", False, summary, args, t0, failure=str(e))
    except subprocess.TimeoutExpired as e:
        finish("FORWARD", False, summary, args, t0, failure="timeout: %s" % e)


if __name__ == "__main__":
    main()
