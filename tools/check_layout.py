#!/usr/bin/env python3
"""C03 (layout half) / C20 (address half): Coq model `Layout.ccbox` versus the compiled crate.

  check_layout.py [--repo PATH] [--json PATH] [--tier quick|thorough] [--seed N]

1. builds the Coq development (coq/Makefile.lay: Layout.v, Threads.v), refuses unfinished proofs
   and checks `Print Assumptions` of the main theorems;
2. builds the probe crate /verif/probes/layout against the CURRENT working tree of --repo
   (debug and release, --cfg rust_cc_verif) and runs the layout grid;
3. evaluates `Layout.ccbox hdr t` in Coq (vm_compute) for the measured header and every payload
   layout (size_of, align_of) seen by the probe, and compares box size, box alignment and elem
   offset with: size_of/align_of::<CcBox<T>>(), the (size, align) the global allocator received on
   alloc, the (size, align) it received on dealloc, and the measured `&*cc - box address`;
4. requires every probe line to end in `ok`.

Prints `LAYOUT ok types=<n> routes=<n>` and exits 0, or the first failing line and exits 1.

This file also hosts the helpers shared with check_forward.py and check_threads.py.
"""
import argparse
import hashlib
import json
import os
import re
import subprocess
import sys
import time

VERIF = os.path.dirname(os.path.dirname(os.path.abspath(__file__)))
COQ_DIR = os.path.join(VERIF, "coq")
PROBE_DIR = os.path.join(VERIF, "probes", "layout")
BUILD = os.path.join(VERIF, "build")
FORBIDDEN = re.compile(r"\b(Admitted|admit|Axiom|Axioms|Parameter|Parameters|Conjecture|Abort)\b|Program\s+Fixpoint|\bEquations\b")


class CheckFailure(Exception):
    pass


def default_seed():
    try:
        return int(os.environ.get("VERIF_SEED", "1"))
    except ValueError:
        return 1


def common_args(doc):
    ap = argparse.ArgumentParser(description=doc, formatter_class=argparse.RawDescriptionHelpFormatter)
    ap.add_argument("--repo", default="/repo")
    ap.add_argument("--json", default=None)
    ap.add_argument("--tier", choices=["quick", "thorough"], default="quick")
    ap.add_argument("--seed", type=int, default=default_seed())
    return ap


def repo_tag(repo):
    real = os.path.realpath(repo)
    if real == "/repo":
        return "default"
    return hashlib.sha1(real.encode()).hexdigest()[:10]


def work_dir(repo):
    tag = repo_tag(repo)
    d = os.path.join(BUILD, "layout") if tag == "default" else os.path.join(BUILD, "layout", tag)
    os.makedirs(d, exist_ok=True)
    return d


def target_dir(repo):
    tag = repo_tag(repo)
    return os.path.join(BUILD, "target-probes" if tag == "default" else "target-probes-" + tag)


def write_if_changed(path, text):
    try:
        with open(path) as f:
            if f.read() == text:
                return
    except OSError:
        pass
    with open(path, "w") as f:
        f.write(text)


def prepare_crate(repo):
    """Renders the manifest template so that the path dependency follows --repo."""
    real = os.path.realpath(repo)
    if not os.path.isfile(os.path.join(real, "Cargo.toml")):
        raise CheckFailure("no Cargo.toml in --repo %s" % repo)
    crate = os.path.join(BUILD, "layout", "crate-" + repo_tag(repo))
    os.makedirs(crate, exist_ok=True)
    with open(os.path.join(PROBE_DIR, "Cargo.toml.in")) as f:
        tmpl = f.read()
    write_if_changed(os.path.join(crate, "Cargo.toml"), tmpl.replace("@REPO@", real))
    src = os.path.join(crate, "src")
    want = os.path.join(PROBE_DIR, "src")
    if os.path.islink(src) and os.readlink(src) != want:
        os.unlink(src)
    if not os.path.lexists(src):
        os.symlink(want, src)
    lock = os.path.join(crate, "Cargo.lock")
    if not os.path.exists(lock) and os.path.exists(os.path.join(real, "Cargo.lock")):
        with open(os.path.join(real, "Cargo.lock")) as f:
            write_if_changed(lock, f.read())
    return crate


def cargo_build(repo, release, bins, features=None):
    """Builds the probe binaries; returns ({bin: path}, rust_cc rlib path, deps dir)."""
    crate = prepare_crate(repo)
    tdir = target_dir(repo)
    env = dict(os.environ)
    env["CARGO_NET_OFFLINE"] = "true"
    env["RUSTFLAGS"] = "--cfg rust_cc_verif"
    if features:
        tdir = tdir + "-" + "-".join(features)
    cmd = ["cargo", "build", "--offline", "--target-dir", tdir, "--message-format=json"]
    if features:
        cmd += ["--features", ",".join(features)]
    if release:
        cmd.append("--release")
    for b in bins:
        cmd += ["--bin", b]
    p = subprocess.run(cmd, cwd=crate, env=env, stdout=subprocess.PIPE, stderr=subprocess.PIPE, text=True)
    exes, rlib, errors = {}, None, []
    for line in p.stdout.splitlines():
        try:
            m = json.loads(line)
        except ValueError:
            continue
        if m.get("reason") == "compiler-artifact":
            name = m.get("target", {}).get("name")
            if m.get("executable") and name in bins:
                exes[name] = m["executable"]
            if name in ("rust_cc", "rust-cc"):
                for fn in m.get("filenames", []):
                    if fn.endswith(".rlib"):
                        rlib = fn
        elif m.get("reason") == "compiler-message":
            msg = m.get("message", {})
            if msg.get("level") == "error":
                errors.append(msg.get("rendered") or msg.get("message") or "")
    if p.returncode != 0:
        first = (errors[0].strip() if errors else p.stderr.strip().splitlines()[-1] if p.stderr.strip() else "cargo failed")
        raise CheckFailure("BUILD FAILED (%s, repo %s): %s" % ("release" if release else "debug", repo, first))
    for b in bins:
        if b not in exes:
            raise CheckFailure("cargo did not report an executable for %s" % b)
    deps = os.path.join(tdir, "release" if release else "debug", "deps")
    return exes, rlib, deps


def build_coq():
    """make -f Makefile.lay; no unfinished proofs / global assumptions in the two files.
    Serialised with a file lock: the three checkers may run at the same time."""
    import fcntl
    os.makedirs(os.path.join(BUILD, "layout"), exist_ok=True)
    with open(os.path.join(BUILD, "layout", ".coq.lock"), "w") as lock:
        fcntl.flock(lock, fcntl.LOCK_EX)
        try:
            _build_coq_locked()
        finally:
            fcntl.flock(lock, fcntl.LOCK_UN)


def _build_coq_locked():
    mk = os.path.join(COQ_DIR, "Makefile.lay")
    proj = os.path.join(COQ_DIR, "_CoqProject.lay")
    if not os.path.exists(mk) or os.path.getmtime(mk) < os.path.getmtime(proj):
        p = subprocess.run(["coq_makefile", "-f", "_CoqProject.lay", "-o", "Makefile.lay"], cwd=COQ_DIR,
                           stdout=subprocess.PIPE, stderr=subprocess.STDOUT, text=True)
        if p.returncode != 0:
            raise CheckFailure("coq_makefile failed: " + p.stdout.strip())
    p = subprocess.run(["make", "-f", "Makefile.lay", "-j8"], cwd=COQ_DIR, stdout=subprocess.PIPE,
                       stderr=subprocess.STDOUT, text=True, timeout=900)
    if p.returncode != 0:
        tail = "\n".join(p.stdout.strip().splitlines()[-15:])
        raise CheckFailure("COQ BUILD FAILED:\n" + tail)
    for fn in ("Layout.v", "Threads.v"):
        with open(os.path.join(COQ_DIR, fn)) as f:
            text = f.read()
        # comments cannot hide anything here: the scan is on the raw text
        m = FORBIDDEN.search(text)
        if m:
            line = text[: m.start()].count("\n") + 1
            raise CheckFailure("%s:%d: forbidden construct %r" % (fn, line, m.group(0)))


def run_coqc(path, timeout=300):
    p = subprocess.run(["coqc", "-Q", COQ_DIR, "RC", path], cwd=os.path.dirname(path), stdout=subprocess.PIPE,
                       stderr=subprocess.PIPE, text=True, timeout=timeout)
    if p.returncode != 0:
        raise CheckFailure("coqc %s failed: %s" % (path, (p.stderr or p.stdout).strip()[-800:]))
    return p.stdout


def check_assumptions(workdir, module, names):
    """`Print Assumptions` of every name must be `Closed under the global context`."""
    path = os.path.join(workdir, "assumptions_%s.v" % module.lower())
    body = "From RC Require Import %s.\n" % module + "".join("Print Assumptions %s.\n" % n for n in names)
    write_if_changed(path, body)
    out = run_coqc(path)
    closed = out.count("Closed under the global context")
    if closed != len(names):
        raise CheckFailure("Print Assumptions: %d of %d theorems closed under the global context:\n%s"
                           % (closed, len(names), out.strip()[:600]))
    return closed


def run_probe(exe, args, timeout=300, env=None):
    e = dict(os.environ)
    if env:
        e.update(env)
    try:
        p = subprocess.run([exe] + list(args), stdout=subprocess.PIPE, stderr=subprocess.PIPE, timeout=timeout, env=e)
    except subprocess.TimeoutExpired:
        raise CheckFailure("probe %s %s timed out after %ds" % (os.path.basename(exe), " ".join(args), timeout))
    out = p.stdout.decode("utf-8", "replace")
    err = p.stderr.decode("utf-8", "replace")
    return p.returncode, out, err


def finish(tag, ok, summary, args, t0, okline=None, failure=None):
    summary["check"] = tag
    summary["repo"] = os.path.realpath(args.repo)
    summary["tier"] = args.tier
    summary["seed"] = args.seed
    summary["ok"] = ok
    summary["wall_s"] = round(time.time() - t0, 2)
    if failure is not None:
        summary["first_failure"] = failure
        if not summary.get("mismatches"):
            summary["mismatches"] = [failure]
    if args.json:
        d = os.path.dirname(os.path.abspath(args.json))
        os.makedirs(d, exist_ok=True)
        with open(args.json, "w") as f:
            json.dump(summary, f, indent=1, sort_keys=True)
    if ok:
        print(okline)
        sys.exit(0)
    print(failure)
    print("%s FAIL" % tag)
    sys.exit(1)


# --------------------------------------------------------------------------------------------------

LAYOUT_THEOREMS = [
    "ccbox_is_repr_c", "ccbox_align", "ccbox_off_aligned", "ccbox_off_ge_hsize", "ccbox_off_lt",
    "ccbox_off_least", "ccbox_size_aligned", "ccbox_elem_fits", "ccbox_size_least", "ccbox_no_tail_pad",
    "ccbox_size_pos", "ccbox_zst_size", "elem_addr_aligned", "header_addr_aligned", "elem_addr_inj",
    "ccbox_unit", "release_layout_eq", "live_boxes_distinct_base", "ptr_eq_same_allocation",
    "live_boxes_distinct_elem", "live_boxes_elem_disjoint", "live_box_elem_aligned",
    "ledger_no_double_free", "ledger_wrong_layout_rejected",
]

KV = re.compile(r"(\w+)=(\S+)")


def parse_kv(line):
    return dict(KV.findall(line))


def model_eval(workdir, hdr, cases):
    """Evaluates Layout.ccbox for hdr and every (tsize, talign); returns {(tsize, talign): (size, align, off, wf)}."""
    hs, ha = hdr
    lst = "; ".join("(%d, %d)" % c for c in cases)
    text = """(* generated by tools/check_layout.py - do not edit *)
From Coq Require Import NArith List.
From RC Require Import Layout.
Import ListNotations.
Local Open Scope N_scope.
Definition hdr : layout := {| l_size := %d; l_align := %d |}.
Definition show (t : layout) : list N :=
  let '(l, o) := ccbox hdr t in
  [l_size t; l_align t; l_size l; l_align l; o; (if wf_layoutb t then 1 else 0); (if pow2b (l_align hdr) then 1 else 0)].
Definition cases : list (N * N) := [%s].
Eval vm_compute in (map (fun p => show {| l_size := fst p; l_align := snd p |}) cases).
""" % (hs, ha, lst)
    path = os.path.join(workdir, "cases.v")
    write_if_changed(path, text)
    out = run_coqc(path)
    flat = re.sub(r"\s+", "", out).replace("%N", "")
    rows = re.findall(r"\[(\d+(?:;\d+){6})\]", flat)
    res = {}
    for r in rows:
        v = [int(x) for x in r.split(";")]
        res[(v[0], v[1])] = (v[2], v[3], v[4], v[5] == 1 and v[6] == 1)
    if len(res) != len(set(cases)):
        raise CheckFailure("could not parse the model's answers: %d rows for %d cases" % (len(res), len(set(cases))))
    return res


def check_profile(name, out, rc, err):
    """Parses one run of the layout probe. Returns (hdr, [line dicts]) or raises."""
    lines = out.splitlines()
    hdr_lines = [l for l in lines if l.startswith("hdr ")]
    lay = [l for l in lines if l.startswith("lay ")]
    end = [l for l in lines if l.startswith("end ")]
    for l in lay:
        if not l.endswith(" ok"):
            raise CheckFailure("[%s] %s" % (name, l))
    if not hdr_lines or not end:
        types = [l for l in lines if l.startswith("type ")]
        where = (" while probing %s" % types[-1][5:]) if types else ""
        how = ("killed by signal %d" % -rc) if rc < 0 else ("exit %s" % rc)
        raise CheckFailure("[%s] layout probe did not finish (%s)%s: %s"
                           % (name, how, where, (err.strip().splitlines() or ["<no stderr>"])[-1]))
    for l in lay:
        if not l.endswith(" ok"):
            raise CheckFailure("[%s] %s" % (name, l))
    if not end[0].endswith(" ok") or rc != 0:
        raise CheckFailure("[%s] %s (exit %s)" % (name, end[0], rc))
    h = parse_kv(hdr_lines[0])
    return h, lay


def main():
    t0 = time.time()
    args = common_args(__doc__).parse_args()
    summary = {"cases": 0, "mismatches": [], "samples": []}
    try:
        build_coq()
        wd = work_dir(args.repo)
        summary["theorems_closed"] = check_assumptions(wd, "Layout", LAYOUT_THEOREMS)
        runs = 1 if args.tier == "quick" else 3
        all_lines = []
        hdr = None
        for release in (False, True):
            prof = "release" if release else "debug"
            exes, _, _ = cargo_build(args.repo, release, ["layout"])
            for k in range(runs):
                env = {"MALLOC_PERTURB_": str((args.seed * 37 + k * 101) % 255 + 1)} if k else None
                rc, out, err = run_probe(exes["layout"], ["--seed", str(args.seed)], env=env)
                h, lay = check_profile(prof, out, rc, err)
                this = (int(h["hsize"]), int(h["halign"]), int(h["hdr_size_of"]))
                if hdr is None:
                    hdr = this
                elif hdr != this:
                    raise CheckFailure("[%s] header layout differs between builds: %r vs %r" % (prof, hdr, this))
                all_lines += [(prof, l) for l in lay]
        hsize, halign, hdr_size_of = hdr
        summary["header"] = {"hsize": hsize, "halign": halign, "size_of_CcBox_unit": hdr_size_of}
        parsed = []
        for prof, l in all_lines:
            d = parse_kv(l)
            if int(d["hsize"]) != hsize or int(d["halign"]) != halign:
                raise CheckFailure("[%s] inconsistent header in line: %s" % (prof, l))
            parsed.append((prof, l, d))
        cases = sorted({(int(d["tsize"]), int(d["talign"])) for _, _, d in parsed} | {(0, 1)})
        model = model_eval(wd, (hsize, halign), cases)
        # the header hook itself: CcBox<()> per the model (Layout.ccbox_unit)
        usize, ualign, uoff, _ = model[(0, 1)]
        mismatches = []
        if (usize, ualign, uoff) != (hdr_size_of, halign, hsize):
            mismatches.append("header_layout(): size_of::<CcBox<()>>()=%d align=%d, model says size=%d align=%d off=%d"
                              % (hdr_size_of, halign, usize, ualign, uoff))
        for prof, l, d in parsed:
            key = (int(d["tsize"]), int(d["talign"]))
            msize, malign, moff, wf = model[key]
            if not wf:
                mismatches.append("[%s] payload layout %r violates the theorems' hypotheses (power-of-two alignment, size multiple of alignment): %s" % (prof, key, l))
                continue
            got = {
                "box_size": int(d["box_size"]), "box_align": int(d["box_align"]),
                "free_size": int(d["free_size"]), "free_align": int(d["free_align"]),
                "decl_size": int(d["decl_size"]), "decl_align": int(d["decl_align"]),
            }
            want = {"box_size": msize, "box_align": malign, "free_size": msize, "free_align": malign,
                    "decl_size": msize, "decl_align": malign}
            if d["off"] != "NA":
                got["off"] = int(d["off"])
                want["off"] = moff
            bad = [k for k in want if got[k] != want[k]]
            if bad:
                mismatches.append("[%s] model(ccbox hdr=(%d,%d) t=(%d,%d)) = size %d align %d off %d, implementation differs in %s: %s"
                                  % (prof, hsize, halign, key[0], key[1], msize, malign, moff, ",".join(bad), l))
        types = sorted({d["T"] for _, _, d in parsed})
        routes = sorted({(d["T"], d["route"]) for _, _, d in parsed})
        summary["cases"] = len(parsed)
        summary["types"] = len(types)
        summary["routes"] = len(routes)
        summary["payload_layouts"] = len(cases)
        summary["zero_sized_types"] = len({d["T"] for _, _, d in parsed if d["tsize"] == "0"})
        summary["max_talign"] = max(c[1] for c in cases)
        taligns = {c[1] for c in cases}
        summary["taligns_above_4096"] = sorted(a for a in taligns if a > 4096)
        summary["types_above_4096"] = len({d["T"] for _, _, d in parsed if int(d["talign"]) > 4096})
        summary["zero_sized_types_above_4096"] = len({d["T"] for _, _, d in parsed
                                                      if int(d["talign"]) > 4096 and d["tsize"] == "0"})
        # the grid itself is part of the check: alignments 1..4096 AND beyond the page size, each with
        # a zero-sized payload (a clamp of the allocation alignment must be observable)
        need = {1, 2, 4, 8, 16, 32, 64, 128, 256, 512, 1024, 2048, 4096, 8192, 16384, 65536}
        missing = sorted(need - taligns) + sorted(a for a in need if (0, a) not in set(cases))
        if missing:
            mismatches.append("the probe's grid lacks payload alignments (or their zero-sized payload): %r" % missing)
        summary["profiles"] = ["debug", "release"]
        summary["mismatches"] = mismatches[:20]
        by_case = {}
        for _, l, d in parsed:
            by_case.setdefault((int(d["talign"]), int(d["tsize"]), d["route"]), l)
        keys = sorted(by_case)
        step = max(1, len(keys) // 5)
        summary["samples"] = [by_case[keys[i]] for i in range(step // 2, len(keys), step)][:5]
        if mismatches:
            raise CheckFailure(mismatches[0])
        finish("LAYOUT", True, summary, args, t0, okline="LAYOUT ok types=%d routes=%d" % (len(types), len(routes)))
    except CheckFailure as e:
        finish("LAYOUT", False, summary, args, t0, failure=str(e))
    except subprocess.TimeoutExpired as e:
        finish("LAYOUT", False, summary, args, t0, failure="timeout: %s" % e)


if __name__ == "__main__":
    main()
