"""Per-property configuration of ./check: proof obligations, correspondence profiles, monitors."""
import json, shutil, os, re, subprocess, sys, time
import rcc

VERIF = rcc.VERIF
COQ = rcc.COQ

TRUSTED_BASE = [
    'Coq 8.16.1 kernel including vm_compute (no native_compute)',
    'no axioms declared; Print Assumptions of every property theorem must be "Closed under the global context" (allowlist in coq/obligations.json)',
    'tools/rs2v.py (Rust-subset -> Gallina translator for counter_marker.rs, weak_counter_marker.rs, config.rs, state.rs, cc.rs forwarding impls), cross-checked exhaustively against the real functions by tools/leafcheck.py',
    'Extraction with ExtrOcamlBasic only (Extract Inductive bool/option/unit/list/prod/sumbool/comparison; no Extract Constant); nat, positive, N stay extracted datatypes; ocaml/driver.ml (parser, loop, printer); OCaml 4.13',
    'correspondence harness (harness/: interpreter of the program text on the real crate, instrumented quarantining allocator, canaries), generators (tools/gen.py) and monitors (tools/rcc.py): assurance for the hand-written machine model is bounded by what they reach',
    'hand-written model coq/Machine.v of src/cc.rs, src/lib.rs, src/lists.rs, src/weak/mod.rs, src/cleaners/mod.rs, src/utils.rs: modelled, tied to the code by the correspondence only',
    'rustc/LLVM, slotmap, the OS allocator and thread-local implementation',
]

ALL = ('full', False)

def R(quick, thorough):
    return dict(quick=quick, thorough=thorough)

def std_runs(profiles, nq=120, nt=1500, extra_feats=('nofin', 'noweak', 'noauto', 'bare', 'weaknoclean')):
    quick = [('full', False, profiles, nq)]
    # a small sample of the other build configurations on every run: changes guarded by
    # cfg(not(feature = ...)) or visible only without debug assertions must not wait for the thorough tier
    for k, f in enumerate(extra_feats):
        # the first two get a fifth of the programs, the others a small sample (plus the corpus, which runs in every configuration)
        quick.append((f, False, profiles, max(8, nq // 5) if k < 2 else max(6, nq // 12)))
    quick.append(('full', True, profiles, max(8, nq // 5)))
    quick.append(('pedantic', False, profiles, max(8, nq // 5)))
    thorough = [('full', False, profiles, nt), ('full', True, profiles, nt // 2)]
    for f in tuple(extra_feats) + ('pedantic',):
        thorough.append((f, False, profiles, nt // 4))
    return R(quick, thorough)

GENERIC_ASSUME = [
    'the Coq machine model (coq/Machine.v) is hand-written; its tie to the Rust code is the correspondence run of this check, not a translation',
    'user callbacks follow the Trace/Drop contract of the crate documentation (trace only reports children or panics; Drop impls and cleaning actions do not touch their own Cc fields)',
]

PROPS = {
 'C01': dict(level='proof', state=True, exhaustive=4, monitors={'REACH', 'C01'}, runs=std_runs([('all', False), ('fin', False), ('weak', False), ('faults', False)]),
             explanation='Safety core: the trace pass theorem (Pass.v) + machine correspondence with full state comparison (rc, tc, mark, flags, buffer order after every command) + canary/quarantine monitor on the real crate.',
             assumptions=GENERIC_ASSUME),
 'C02': dict(level='proof', state=True, exhaustive=3, monitors={'REACH', 'C01', 'C11'}, runs=std_runs([('core', False), ('fin', False), ('all', False)]),
             explanation='Completeness of the pass over the model + correspondence (events and state).', assumptions=GENERIC_ASSUME),
 'C03': dict(level='proof', state=False, monitors={'C03'}, runs=std_runs([('all', False), ('unwrap', False), ('faults', False)]),
             explanation='Lifecycle invariant over the model + allocator pairing/layout monitor on the real crate + layout grid.', assumptions=GENERIC_ASSUME),
 'C04': dict(level='proof', state=False, exhaustive=3, monitors={'C03'}, runs=std_runs([('core', False), ('all', False), ('fin', False)]),
             explanation='Count invariant over the model; strong_count and last-owner reclamation compared on every program.', assumptions=GENERIC_ASSUME),
 'C05': dict(level='proof', state=True, monitors={'REACH', 'C05'}, runs=std_runs([('fin', False), ('all', False), ('faults', False)], extra_feats=('nofin', 'noweak')),
             explanation='Finalizer discipline over the model + per-object finalizer monitor on the real crate.', assumptions=GENERIC_ASSUME),
 'C06': dict(level='proof', state=False, monitors={'REACH', 'C01', 'C05'}, runs=std_runs([('fin', False), ('weak', False)], extra_feats=('noweak',)),
             explanation='Resurrection: safety is C01 over programs with resurrecting finalizers; bounded passes by construction.', assumptions=GENERIC_ASSUME),
 'C07': dict(level='proof', state=True, monitors={'REACH', 'C07', 'C01', 'C03', 'C05', 'C12'}, runs=std_runs([('faults', False), ('faults', True)]),
             explanation='Flags-idle invariant over the model + fault-injected correspondence (every callback kind, fuse values 1..6).', assumptions=GENERIC_ASSUME),
 'C08': dict(level='proof', state=False, monitors={'C01'}, runs=std_runs([('weak', False), ('unwrap', False), ('cyclic', False)], extra_feats=('weaknoclean', 'nofin', 'noauto')),
             explanation='Upgrade characterisation over the model + correspondence of every upgrade result.', assumptions=GENERIC_ASSUME),
 'C09': dict(level='proof', state=False, monitors={'C09', 'C03'}, runs=std_runs([('weak', False), ('unwrap', False), ('cyclic', False)], extra_feats=('weaknoclean', 'nofin', 'noauto')),
             explanation='Weak/strong count exactness over the model + side-record pairing monitor.', assumptions=GENERIC_ASSUME),
 'C10': dict(level='proof', state=False, monitors={'C01', 'C03'}, runs=std_runs([('clean', False)], extra_feats=('nofin',)),
             explanation='Cleaner actions: at-most-once over the model + correspondence including action order.', assumptions=GENERIC_ASSUME),
 'C11': dict(level='proof', state=True, exhaustive=3, monitors={'C11'}, runs=std_runs([('core', False), ('all', False), ('auto', True)]),
             explanation='Buffer/byte-count invariant over the model + buffer walk and allocator totals on the real crate.', assumptions=GENERIC_ASSUME),
 'C12': dict(level='proof', state=False, monitors={'C12', 'C07'}, runs=std_runs([('fin', False), ('faults', False), ('all', True)]),
             explanation='Flag discipline over the model (generated is_tracing formula) + flags sampled in every callback on the real crate.', assumptions=GENERIC_ASSUME),
 'C13': dict(level='proof', state=False, monitors={'C03', 'C01'}, runs=std_runs([('unwrap', False)], extra_feats=('weaknoclean', 'nofin', 'noauto')),
             explanation='try_unwrap single-step characterisation over the model + correspondence.', assumptions=GENERIC_ASSUME),
 'C14': dict(level='proof', state=False, monitors={'C14', 'C03', 'C01'}, runs=std_runs([('cyclic', False), ('cyclic', True)], extra_feats=('weaknoclean', 'nofin', 'noauto')),
             explanation='new_cyclic over the model + correspondence with closure/trigger faults.', assumptions=GENERIC_ASSUME),
 'C15': dict(level='proof', state=True, monitors={'C11'}, runs=std_runs([('auto', True)], extra_feats=('nofin',)),
             explanation='Trigger/threshold policy: theorem on the generated should_collect/adjust + threshold compared after every command.', assumptions=GENERIC_ASSUME + ['f64 products are modelled exactly (round-to-nearest-even at 53 bits) for thresholds 100*2^k and allocated bytes below 2^53']),
 'C16': dict(level='proof', state=False, monitors={'C03', 'C01'}, runs=std_runs([('limits', False)], nq=40, nt=300, extra_feats=('weaknoclean', 'nofin', 'noauto')),
             explanation='Saturation: exhaustive-word theorems on the generated counter code + machine correspondence at the 16382/32767 boundaries.', assumptions=GENERIC_ASSUME),
 'C17': dict(level='proof', state=False, monitors=set(), runs=R([], []),
             explanation='Theorem over the container model (Containers.v) + complete probe grid on the real impls.', assumptions=['Containers.v is a hand-written model of src/trace.rs; tie = probe grid']),
 'C18': dict(level='proof', state=False, monitors=set(), runs=R([], []),
             explanation='Theorem over the derive model (Derive.v) + generated-type probes and compile probes with the real macro.', assumptions=['Derive.v is a hand-written model of derive/src/lib.rs; tie = generated types']),
 'C19': dict(level='proof', state=False, monitors={'C01', 'C03'}, runs=R([], []),
             explanation='Product-of-machines theorem (Threads.v) + multi-thread correspondence and teardown probes. Partial: thread-locality of the statics and !Send/!Sync are exhibited by probes only.', assumptions=['Threads.v abstracts the per-thread machine; thread-local storage itself is not modelled']),
 'C20': dict(level='proof', state=False, monitors=set(), runs=R([], []),
             explanation='Forwarding impls proved on generated code; layout theorem (Layout.v) + address grid probes.', assumptions=['Layout.v models repr(C); tie = layout grid']),
}

ORACLE = {
    'C01': r'^(obs |BAD |free |cb drop |res (some|none))', 'C02': r'^(sobs |free |cb drop )', 'C03': r'^(free |sfree |alloc |cb drop )',
    'C04': r'^(obs |free |cb (fin|drop) )', 'C05': r'^(cb (fin|drop) |obs )', 'C06': r'^(obs |cb (fin|drop) |free |res (some|none)|sobs )',
    'C07': r'^(res panicked|state |sobs )', 'C08': r'^(res (some|none)|obs )', 'C09': r'^(wobs |obs |sfree |salloc )',
    'C10': r'^(cb action )', 'C11': r'^(sobs |buf |snap )', 'C12': r'^(cb |sobs |res (unwrap|panicked))', 'C13': r'^(res unwrap|free |sobs |res (some|none)|wobs )',
    'C14': r'^(wobs |res (some|none)|free |sfree |cb drop |obs )', 'C15': r'^(state |sobs |cb trace )', 'C16': r'^(res panicked|obs |wobs )',
}

COMPONENTS = {
    'C03': [('layout', 'check_layout.py')],
    'C11': [('lists', 'check_lists.py')],
    'C20': [('layout', 'check_layout.py'), ('forward', 'check_forward.py'), ('leaf', 'leafcheck.py')],
    'C17': [('containers', 'check_containers.py')],
    'C18': [('derive', 'check_derive.py')],
    'C19': [('threads', 'check_threads.py')],
    'C15': [('leaf', 'leafcheck.py'), ('contexts', 'check_contexts.py')],
    'C16': [('leaf', 'leafcheck.py'), ('limits', 'check_limits.py')],
    'C09': [('limits', 'check_limits.py')],
    'C02': [('contexts', 'check_contexts.py'), ('containers', 'check_containers.py')],
    'C05': [('containers', 'check_containers.py')],
    'C01': [('containers', 'check_containers.py')],
    'C04': [('threads', 'check_threads.py')],
    'C12': [('leaf', 'leafcheck.py')],
}


def load_obligations():
    p = os.path.join(COQ, 'obligations.json')
    if os.path.exists(p):
        return json.load(open(p))
    return {}


FORBIDDEN = re.compile(r'\b(Admitted|admit|Axiom|Axioms|Conjecture|Parameter|Parameters)\b|Unset\s+Guard|bypass_check|type-in-type|impredicative-set|Admit\s+Obligations')


def strip_comments(s):
    out, depth, i = [], 0, 0
    while i < len(s):
        if s.startswith('(*', i):
            depth += 1; i += 2
        elif s.startswith('*)', i) and depth > 0:
            depth -= 1; i += 2
        else:
            if depth == 0:
                out.append(s[i])
            i += 1
    return ''.join(out)


def scan_forbidden():
    bad = []
    for f in rcc.coq_project_files():
        src = strip_comments(open(os.path.join(COQ, f)).read())
        for m in FORBIDDEN.finditer(src):
            bad.append(f'{f}: {m.group(0)}')
        depth = 0
        for line in src.splitlines():
            t = line.strip()
            if re.match(r'^(Section|Module Type|Module)\s', t) and ':=' not in t:
                depth += 1
            elif re.match(r'^End\s', t):
                depth = max(0, depth - 1)
            elif depth == 0 and re.match(r'^(Variable|Variables|Hypothesis|Hypotheses|Context)\b', t):
                bad.append(f'{f}: section-less {t[:40]}')
    return bad


def check_obligations(prop, tier):
    ok_regen, regen_msg = rcc.regen_leaf()
    ok_make, log = rcc.build_coq()
    obl = load_obligations()
    mine = obl.get(prop, [])
    allow = set(obl.get('_allow_axioms', []))
    broken, names, assumptions = [], [], {}
    if not ok_regen:
        broken.append(dict(name='translator', why='rs2v.py rejected the current source (fail-closed): ' + regen_msg[-300:]))

    def uptodate(module):
        vo = module.replace('.', '/') + '.vo'
        rc, _ = rcc.sh(['make', '-q', vo], cwd=COQ, check=False)
        return rc == 0 and os.path.exists(os.path.join(COQ, vo))

    model_built = uptodate('Extract')
    mods = {}
    for o in mine:
        names.append(f"{o['module']}.{o['name']}")
        if o['module'] not in mods:
            mods[o['module']] = uptodate(o['module'])
        if not mods[o['module']]:
            m = re.search(r'File "\./' + re.escape(o['module'].replace('.', '/')) + r'\.v", line (\d+).*?\n(Error:.*?)(?:\n\n|\nmake)', log, re.S)
            why = (m.group(0)[:400] if m else 'module does not compile (or a module it depends on does not)')
            broken.append(dict(name=f"{o['module']}.{o['name']}", why=why.replace('\n', ' ')))
    good = [o for o in mine if mods.get(o['module'])]
    if good:
        d = os.path.join(rcc.BUILD, 'obl')
        os.makedirs(d, exist_ok=True)
        src = ''.join(f"From RC Require {m}.\n" for m in sorted({o['module'] for o in good}))
        for o in good:
            src += f'Print Assumptions {o["module"]}.{o["name"]}.\n'
        path = os.path.join(d, f'{prop}.v')
        open(path, 'w').write(src)
        rc, out = rcc.sh(['coqc', '-noglob', '-Q', COQ, 'RC', path], check=False, cwd=d, timeout=600)
        chunks = re.split(r'(?=Closed under the global context|Axioms:)', out)
        chunks = [c for c in chunks if c.startswith('Closed') or c.startswith('Axioms:')]
        if rc != 0 or len(chunks) != len(good):
            for o in good:
                broken.append(dict(name=f"{o['module']}.{o['name']}", why='Print Assumptions could not be evaluated: ' + out[-300:].replace('\n', ' ')))
        else:
            for o, c in zip(good, chunks):
                nm = f"{o['module']}.{o['name']}"
                if c.startswith('Closed'):
                    assumptions[nm] = 'Closed under the global context'
                else:
                    axs = re.findall(r'^\s*([A-Za-z_][\w\.\']*)\s*:', c, re.M)
                    assumptions[nm] = 'Axioms: ' + ', '.join(axs)
                    extra = [x for x in axs if x not in allow]
                    if extra:
                        broken.append(dict(name=nm, why='depends on axioms outside the allowlist: ' + ', '.join(extra)))
    coqchk = None
    if tier == 'thorough' and good:
        mods = sorted({'RC.' + o['module'] for o in good})
        rc, out = rcc.sh(['timeout', '1200', 'coqchk', '-silent', '-o', '-Q', COQ, 'RC'] + mods, check=False, cwd=COQ, timeout=1300)
        tail = out.strip().splitlines()[-12:]
        coqchk = dict(rc=rc, modules=mods, tail=tail)
        axs = re.findall(r'^\s*\*\s*Axioms:\s*(.*)$', out, re.M)
        if rc != 0:
            broken.append(dict(name='coqchk', why='coqchk rejected the compiled development: ' + ' | '.join(tail[-4:])))
        elif axs and not all(a.strip() in ('<none>', '') for a in axs):
            extra = [a for a in axs if a.strip() not in ('<none>', '')]
            if any(x.strip() not in allow for a in extra for x in a.split()):
                broken.append(dict(name='coqchk', why='coqchk reports axioms: ' + '; '.join(extra)))
    fb = scan_forbidden()
    for b in fb:
        broken.append(dict(name='hygiene', why='forbidden construct: ' + b))
    return dict(total=len(mine) + (1 if fb or not ok_regen else 0), broken=broken, names=names, assumptions=assumptions,
                model_built=model_built, coqchk=coqchk, checker_cmd='cd coq && coq_makefile -f _CoqProject -o Makefile && make -j16 (full .vo) ; coqc Print Assumptions per theorem',
                make_ok=ok_make)


LEAF_OPS = {0: 'CounterMarker::new_with_counter_to_one', 1: 'CounterMarker::increment_counter', 2: 'CounterMarker::decrement_counter',
            3: 'CounterMarker::increment_tracing_counter', 4: 'CounterMarker::reset_tracing_counter', 5: 'CounterMarker::is_dropped',
            6: 'CounterMarker::set_dropped', 7: 'CounterMarker::mark', 8: 'CounterMarker::set_finalized',
            9: 'CounterMarker::set_allocated_for_metadata', 10: 'CounterMarker::is_not_marked', 11: 'CounterMarker::is_in_possible_cycles',
            12: 'CounterMarker::is_in_list', 13: 'CounterMarker::is_in_list_or_queue', 14: 'CounterMarker::needs_finalization',
            15: 'CounterMarker::has_allocated_for_metadata', 16: 'CounterMarker::counter', 17: 'CounterMarker::tracing_counter',
            21: 'WeakCounterMarker::increment_counter', 22: 'WeakCounterMarker::decrement_counter', 23: 'WeakCounterMarker::counter',
            24: 'WeakCounterMarker::is_accessible', 25: 'WeakCounterMarker::set_accessible'}


def leaf_search():
    """Failing-input search for broken header-refinement obligations: evaluates coq/search/LeafSearch.v
    (boolean forms of the gen_*_spec statements) on the freshly generated code and returns
    [(operation, tracing word, counter word)] for the first word on which each operation of the
    current source differs from the abstract header operation the machine model uses."""
    import hashlib
    srcs = [os.path.join(COQ, 'gen', 'CounterMarkerGen.v'), os.path.join(COQ, 'gen', 'WeakCounterGen.v'), os.path.join(COQ, 'search', 'LeafSearch.v')]
    if not all(os.path.exists(x) for x in srcs):
        return None
    h = hashlib.sha256(b''.join(open(x, 'rb').read() for x in srcs)).hexdigest()[:16]
    cache = os.path.join(rcc.BUILD, f'leafsearch-{h}.json')
    if os.path.exists(cache):
        return json.load(open(cache))
    with rcc.Lock('leafsearch'):
        if os.path.exists(cache):
            return json.load(open(cache))
        d = os.path.join(rcc.BUILD, 'leafsearch')
        os.makedirs(d, exist_ok=True)
        dst = os.path.join(d, 'LeafSearch.v')
        shutil.copy(srcs[2], dst)
        rc, out = rcc.sh(['timeout', '900', 'coqc', '-noglob', '-Q', COQ, 'RC', dst], check=False, cwd=d, timeout=1000)
        if rc != 0:
            return None
        flat = ' '.join(out.split())
        res = [(LEAF_OPS.get(int(a), a), int(b), int(c)) for a, b, c in re.findall(r'\((\d+)%nat, Some \((\d+), (\d+)\)\)', flat)]
        json.dump(res, open(cache, 'w'))
        return res


def run_components(prop, tier, seed):
    out = dict(failures=[], cases=0, samples=[], summary={})
    for name, script in COMPONENTS.get(prop, []):
        path = os.path.join(VERIF, 'tools', script)
        if not os.path.exists(path):
            out['summary'][name] = 'not built yet'
            continue
        jpath = os.path.join(rcc.BUILD, f'comp-{prop}-{name}.json')
        if os.path.exists(jpath):
            os.remove(jpath)
        if script == 'leafcheck.py':
            cmd = [sys.executable, path, '--seed', str(seed), '--n', '2000' if tier == 'quick' else '20000']
        else:
            cmd = [sys.executable, path, '--json', jpath]
        env = dict(rcc.ENV, VERIF_SEED=str(seed), VERIF_TIER=tier)
        t0 = time.time()
        with rcc.Lock('comp-' + name):
            rc, o = rcc.sh(cmd, check=False, timeout=1700, env=env, cwd=VERIF)
        j = {}
        if os.path.exists(jpath):
            try:
                j = json.load(open(jpath))
            except Exception:
                j = {}
        if script == 'leafcheck.py':
            mm = re.search(r'LEAFCHECK ok ops=(\d+) cases=(\d+)', o)
            if mm:
                j = dict(cases=int(mm.group(2)), samples=[dict(leafcheck=mm.group(0), note='generated Coq definitions evaluated by vm_compute and the real functions (verif::leaf hooks) agree on every 16-bit word for each counter operation and on the seeded should_collect/adjust cases')])
            elif rc != 0:
                j = dict(cases=0, mismatches=[l for l in o.splitlines() if 'rust' in l and 'coq' in l][:5])
        cases = int(j.get('cases', 0) or 0)
        out['cases'] += cases
        out['summary'][name] = dict(rc=rc, cases=cases, wall_s=round(time.time() - t0, 1), tail=o.strip().splitlines()[-1][:200] if o.strip() else '')
        for s in (j.get('samples') or [])[:3]:
            out['samples'].append(s)
        if rc != 0:
            out['failures'].append(dict(name=name, detail=o.strip()[-1200:], extra=[str(x)[:300] for x in (j.get('mismatches') or [])[:5]],
                                        found_input=bool(j.get('mismatches'))))
    return out


def known_findings():
    p = os.path.join(VERIF, 'known_findings.json')
    if os.path.exists(p):
        return json.load(open(p))
    return []


def finding_present(kf, hexe):
    """Is the listed deviation still exhibited by the real crate on its corpus history?"""
    path = os.path.join(VERIF, kf['history'])
    lines = []
    for l in open(path):
        if l.strip() == 'end':
            break
        if l.strip() and not l.startswith('#'):
            lines.append(l.rstrip('\n'))
    conf = rcc.harness_layout(hexe)
    tmp = os.path.join(rcc.BUILD, 'work', 'kf-' + kf['id'] + '.prog')
    os.makedirs(os.path.dirname(tmp), exist_ok=True)
    rcc.write_progfile(tmp, [(kf['id'], lines)], conf)
    logs, crashed = rcc.run_harness(hexe, tmp, 1, False)
    text = '\n'.join(logs.get(0, []))
    return re.search(kf['expect'], text, re.S) is not None
