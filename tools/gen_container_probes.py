#!/usr/bin/env python3
"""Generates the C17 container probe grid, identically on both sides:

  * <probe-crate>/src/generated.rs   - one `run_case(id, k, keep, |l| <value>)` per case
  * <coq-out>/cases.v                - the same cases as Coq `value` terms + the vm_compute row

Every case is a container *value* with numbered leaf slots.  A slot is filled either with a
clone of the leaf `Cc` number i (`VLeaf i`, Rust `l[i].clone()`) or with a user value
(`VUser i`, Rust `user(i)`); every shape is instantiated with both fillings.

Usage: gen_container_probes.py --crate DIR --coq-out DIR [--list]
The generation is deterministic (fixed seed), files are only rewritten when they change.
"""
import argparse
import os
import random
import sys

SEED = 20260923

# --------------------------------------------------------------------------------------------
# Shape AST.  Nodes are tuples; slots/weak targets get their identity in `number()`.
# --------------------------------------------------------------------------------------------
SCALARS = [
    ("7u32", "u32"),
    ("()", "()"),
    ('String::from("s")', "String"),
    ("true", "bool"),
    ("1.5f64", "f64"),
    ("'c'", "char"),
    ("-3i64", "i64"),
    ("9usize", "usize"),
]


def slot():
    return ["slot", None]


def dup(i):
    """A slot with a forced identity (the same Cc at several positions)."""
    return ["slot", i]


def scalar(i=0):
    return ["scalar", i % len(SCALARS)]


def weak():
    return ["weak", None]


def zst():
    """A zero-sized user value (`Zst` / `VZst`)."""
    return ["zst"]


def cleaner():
    return ["cleaner"]


def cleanable():
    return ["cleanable"]


def phantom():
    return ["phantom"]


def tuple_(*c):
    assert 1 <= len(c) <= 12
    return ["tuple", list(c)]


def array(c, like=None):
    return ["array", list(c), like]


def vec(c, like=None):
    return ["vec", list(c), like]


def bslice(c, like=None):
    return ["bslice", list(c), like]


def box(c):
    return ["box", c]


def some(c):
    return ["some", c]


def none(like):
    return ["none", like]


def ok(c, other=None):
    return ["ok", c, other if other is not None else scalar(0)]


def err(c, other=None):
    return ["err", c, other if other is not None else scalar(0)]


def refcell(state, c):
    assert state in ("free", "shared", "mut")
    return ["refcell", state, c]


def md(c):
    return ["md", c]


def aus(c):
    return ["aus", c]


def number(node, counter):
    """Assigns identities to the unnumbered slots / weak targets in traversal order."""
    k = node[0]
    if k in ("slot", "weak"):
        if node[1] is None:
            node[1] = counter[0]
            counter[0] += 1
        else:
            counter[0] = max(counter[0], node[1] + 1)
    elif k in ("tuple", "array", "vec", "bslice"):
        for c in node[1]:
            number(c, counter)
    elif k in ("box", "some", "md", "aus"):
        number(node[1], counter)
    elif k in ("ok", "err"):
        number(node[1], counter)
    elif k == "refcell":
        number(node[2], counter)
    # type-only templates (`like`, the other side of a Result, None) are never numbered


def raw(rust_ty, rust_expr, coq_term="VScalar"):
    """A leaf given verbatim (used by the derive generator, e.g. for a non-Trace field type)."""
    return ["raw", rust_ty, rust_expr, coq_term]


def cslot():
    """A slot that is a Cc whatever the filling."""
    return ["slot", None, "cc"]


def uslot():
    """A slot that is a user value whatever the filling."""
    return ["slot", None, "user"]


def kind_of(node, fill):
    if len(node) > 2:
        return node[2]
    return slot_kind(fill, node[1] if node[1] is not None else 0)


def slot_kind(fill, i):
    if fill == "cc":
        return "cc"
    if fill == "user":
        return "user"
    if fill == "mixed":
        return "cc" if i % 2 == 0 else "user"
    raise ValueError(fill)


def ty(node, fill):
    k = node[0]
    if k == "slot":
        # templates are unnumbered: their kind is the kind of slot 0 unless mixed (mixed shapes
        # never use templates with slots)
        return "Cc<Leaf>" if kind_of(node, fill) == "cc" else "User"
    if k == "raw":
        return node[1]
    if k == "zst":
        return "Zst"
    if k == "scalar":
        return SCALARS[node[1]][1]
    if k == "weak":
        return "Weak<Leaf>"
    if k == "cleaner":
        return "Cleaner"
    if k == "cleanable":
        return "Cleanable"
    if k == "phantom":
        return "PhantomData<Cc<Leaf>>"
    if k == "tuple":
        return "(" + "".join(ty(c, fill) + "," for c in node[1]) + ")"
    if k in ("array", "vec", "bslice"):
        el = ty(node[1][0], fill) if node[1] else ty(node[2], fill)
        if k == "array":
            return "[%s; %d]" % (el, len(node[1]))
        if k == "vec":
            return "Vec<%s>" % el
        return "Box<[%s]>" % el
    if k == "box":
        return "Box<%s>" % ty(node[1], fill)
    if k == "some":
        return "Option<%s>" % ty(node[1], fill)
    if k == "none":
        return "Option<%s>" % ty(node[1], fill)
    if k == "ok":
        return "Result<%s, %s>" % (ty(node[1], fill), ty(node[2], fill))
    if k == "err":
        return "Result<%s, %s>" % (ty(node[2], fill), ty(node[1], fill))
    if k == "refcell":
        return "RefCell<%s>" % ty(node[2], fill)
    if k == "md":
        return "ManuallyDrop<%s>" % ty(node[1], fill)
    if k == "aus":
        return "AssertUnwindSafe<%s>" % ty(node[1], fill)
    raise ValueError(k)


def rs(node, fill):
    k = node[0]
    if k == "slot":
        return "l[%d].clone()" % node[1] if kind_of(node, fill) == "cc" else "user(%d)" % node[1]
    if k == "raw":
        return node[2]
    if k == "zst":
        return "Zst"
    if k == "scalar":
        return SCALARS[node[1]][0]
    if k == "weak":
        return "l[%d].downgrade()" % node[1]
    if k == "cleaner":
        return "mk_cleaner()"
    if k == "cleanable":
        return "mk_cleanable()"
    if k == "phantom":
        return "PhantomData::<Cc<Leaf>>"
    if k == "tuple":
        return "(" + "".join(rs(c, fill) + ", " for c in node[1]) + ")"
    if k in ("array", "vec", "bslice"):
        items = ", ".join(rs(c, fill) for c in node[1])
        if k == "array":
            if node[1]:
                return "[" + items + "]"
            return "([] as [%s; 0])" % ty(node[2], fill)
        v = "vec![" + items + "]" if node[1] else "Vec::<%s>::new()" % ty(node[2], fill)
        return v if k == "vec" else v + ".into_boxed_slice()"
    if k == "box":
        return "Box::new(%s)" % rs(node[1], fill)
    if k == "some":
        return "Some(%s)" % rs(node[1], fill)
    if k == "none":
        return "None::<%s>" % ty(node[1], fill)
    if k == "ok":
        return "Ok::<%s, %s>(%s)" % (ty(node[1], fill), ty(node[2], fill), rs(node[1], fill))
    if k == "err":
        return "Err::<%s, %s>(%s)" % (ty(node[2], fill), ty(node[1], fill), rs(node[1], fill))
    if k == "refcell":
        return "rc_%s(%s)" % (node[1], rs(node[2], fill))
    if k == "md":
        return "ManuallyDrop::new(%s)" % rs(node[1], fill)
    if k == "aus":
        return "AssertUnwindSafe(%s)" % rs(node[1], fill)
    raise ValueError(k)


def coq(node, fill):
    k = node[0]
    if k == "slot":
        return "(VLeaf %d)" % node[1] if kind_of(node, fill) == "cc" else "(VUser %d)" % node[1]
    if k == "raw":
        return node[3]
    if k == "zst":
        return "VZst"
    if k == "scalar":
        return "VScalar"
    if k == "weak":
        return "(VWeak %d)" % node[1]
    if k == "cleaner":
        return "VCleaner"
    if k == "cleanable":
        return "VCleanable"
    if k == "phantom":
        return "VPhantom"
    if k in ("tuple", "array", "vec", "bslice"):
        items = "[" + "; ".join(coq(c, fill) for c in node[1]) + "]"
        if k == "bslice":
            return "(VBox (VSlice %s))" % items
        return "(%s %s)" % ({"tuple": "VTuple", "array": "VArray", "vec": "VVec"}[k], items)
    if k == "box":
        return "(VBox %s)" % coq(node[1], fill)
    if k == "some":
        return "(VSome %s)" % coq(node[1], fill)
    if k == "none":
        return "VNone"
    if k == "ok":
        return "(VOk %s)" % coq(node[1], fill)
    if k == "err":
        return "(VErr %s)" % coq(node[1], fill)
    if k == "refcell":
        return "(VRefCell %s %s)" % ({"free": "BFree", "shared": "BShared", "mut": "BMut"}[node[1]], coq(node[2], fill))
    if k == "md":
        return "(VManuallyDrop %s)" % coq(node[1], fill)
    if k == "aus":
        return "(VAssertUnwindSafe %s)" % coq(node[1], fill)
    raise ValueError(k)


def first_owned(node, fill):
    """Identity of the first owned Cc in field order (the model computes the same: hd (owned v))."""
    k = node[0]
    if k == "slot":
        return node[1] if kind_of(node, fill) == "cc" else None
    if k in ("tuple", "array", "vec", "bslice"):
        for c in node[1]:
            r = first_owned(c, fill)
            if r is not None:
                return r
        return None
    if k in ("box", "some", "md", "aus", "ok", "err"):
        return first_owned(node[1], fill)
    if k == "refcell":
        return first_owned(node[2], fill)
    return None


# --------------------------------------------------------------------------------------------
# The grid
# --------------------------------------------------------------------------------------------
def unary_wrappers():
    """(name, f) where f(mk) builds a container around fresh inner values made by mk()."""
    return [
        ("box", lambda mk: box(mk())),
        ("some", lambda mk: some(mk())),
        ("none", lambda mk: none(mk())),
        ("ok", lambda mk: ok(mk())),
        ("err", lambda mk: err(mk(), scalar(2))),
        ("rc_free", lambda mk: refcell("free", mk())),
        ("rc_shared", lambda mk: refcell("shared", mk())),
        ("rc_mut", lambda mk: refcell("mut", mk())),
        ("md", lambda mk: md(mk())),
        ("aus", lambda mk: aus(mk())),
        ("tuple1", lambda mk: tuple_(mk())),
        ("tuple2", lambda mk: tuple_(mk(), mk())),
        ("tuple3s", lambda mk: tuple_(scalar(1), mk(), scalar(2))),
        ("array0", lambda mk: array([], mk())),
        ("array3", lambda mk: array([mk(), mk(), mk()])),
        ("vec0", lambda mk: vec([], mk())),
        ("vec3", lambda mk: vec([mk(), mk(), mk()])),
        ("bslice2", lambda mk: bslice([mk(), mk()])),
    ]


def grid():
    """Returns [(name, shape, fills)]."""
    g = []
    both = ("cc", "user")

    # single leaves and non-owning / data-only types
    g.append(("leaf", slot(), both))
    g.append(("weak", weak(), ("cc",)))
    g.append(("cleaner", cleaner(), ("cc",)))
    g.append(("cleanable", cleanable(), ("cc",)))
    g.append(("cleaner+cleanable", tuple_(cleaner(), cleanable()), ("cc",)))
    g.append(("phantom", phantom(), ("cc",)))
    for i in range(len(SCALARS)):
        g.append(("scalar%d" % i, scalar(i), ("cc",)))
    g.append(("weak+strong", tuple_(weak(), slot(), weak()), both))
    g.append(("vec_weak", vec([weak(), weak(), weak()]), ("cc",)))
    g.append(("opt_weak", some(weak()), ("cc",)))
    g.append(("tuple_nonowning", tuple_(weak(), cleaner(), cleanable(), phantom(), scalar(0), slot()), both))

    # tuples: every arity 1..12, the Cc at every position, and at all positions at once
    for n in range(1, 13):
        for p in range(n):
            g.append(("tuple%d@%d" % (n, p), tuple_(*[slot() if i == p else scalar(i + p) for i in range(n)]), both))
        g.append(("tuple%d@all" % n, tuple_(*[slot() for _ in range(n)]), both))

    # arrays 0..32
    for n in range(0, 33):
        g.append(("array%d" % n, array([slot() for _ in range(n)], slot()), both))

    # Vec 0..40 (+ a longer one) and boxed slices
    for n in list(range(0, 41)) + [64, 100]:
        g.append(("vec%d" % n, vec([slot() for _ in range(n)], slot()), both))
    for n in list(range(0, 9)) + [40]:
        g.append(("bslice%d" % n, bslice([slot() for _ in range(n)], slot()), both))

    # one-argument containers around a leaf, and every two-level nesting of them
    ws = unary_wrappers()
    for name, f in ws:
        g.append((name, f(slot), both))
    for n1, f1 in ws:
        for n2, f2 in ws:
            g.append(("%s<%s>" % (n1, n2), f1(lambda: f2(slot)), both))

    # mixed variants inside sequences
    g.append(("vec_opt_mixed", vec([some(slot()), none(slot()), some(slot()), none(slot())]), both))
    g.append(("vec_res_mixed", vec([ok(slot(), slot()), err(slot(), slot()), ok(slot(), slot())]), both))
    g.append(("arr_res_mixed", array([err(slot(), slot()), ok(slot(), slot())]), both))
    g.append(("vec_rc_mixed", vec([refcell("free", slot()), refcell("shared", slot()), refcell("mut", slot()), refcell("free", slot())]), both))
    g.append(("tuple_rc_mixed", tuple_(refcell("mut", slot()), slot(), refcell("shared", vec([slot(), slot()])), refcell("free", some(slot()))), both))
    g.append(("res_both_cc_ok", ok(slot(), vec([], slot())), both))
    g.append(("res_both_cc_err", err(vec([slot(), slot()]), slot()), both))
    g.append(("rc_in_rc_free_mut", refcell("free", refcell("mut", slot())), both))
    g.append(("rc_in_rc_shared_free", refcell("shared", refcell("free", slot())), both))
    g.append(("kitchen_sink", tuple_(
        vec([some(box(slot())), none(box(slot()))]),
        refcell("free", vec([tuple_(slot(), scalar(3)), tuple_(slot(), scalar(3))])),
        ok(array([slot(), slot()]), scalar(2)),
        md(aus(bslice([slot()]))),
        weak(), phantom(), scalar(4),
        refcell("shared", slot()),
    ), both))

    # the same Cc at several positions (reported once per position)
    g.append(("dup_vec", vec([dup(0), dup(0)]), both))
    g.append(("dup_tuple", tuple_(dup(0), vec([dup(1), dup(0), dup(1)]), some(dup(0))), both))
    g.append(("dup_borrowed", tuple_(dup(0), refcell("mut", dup(0)), refcell("shared", dup(1)), dup(1)), both))
    g.append(("dup_weak", tuple_(dup(0), ["weak", 0]), both))

    # Cc and user values side by side
    g.append(("mixed_tuple", tuple_(slot(), slot(), slot(), slot()), ("mixed",)))
    g.append(("mixed_vec_pairs", vec([tuple_(slot(), slot()), tuple_(slot(), slot())]), ("mixed",)))
    g.append(("mixed_rc", tuple_(refcell("shared", tuple_(slot(), slot())), refcell("mut", tuple_(slot(), slot())), refcell("free", tuple_(slot(), slot()))), ("mixed",)))
    g.append(("mixed_opt_res", tuple_(some(slot()), ok(slot()), err(slot()), some(slot())), ("mixed",)))

    # ZERO-SIZED element types: once per element like any other (user-trace calls and finalize)
    one = ("cc",)
    for n in list(range(0, 9)) + [40]:
        g.append(("vec_zst%d" % n, vec([zst() for _ in range(n)], zst()), one))
    for n in list(range(0, 9)) + [32]:
        g.append(("array_zst%d" % n, array([zst() for _ in range(n)], zst()), one))
    for n in list(range(0, 9)) + [17]:
        g.append(("bslice_zst%d" % n, bslice([zst() for _ in range(n)], zst()), one))
    g.append(("zst", zst(), one))
    g.append(("some_zst", some(zst()), one))
    g.append(("none_zst", none(zst()), one))
    g.append(("some_vec_zst", some(vec([zst(), zst(), zst()])), one))
    g.append(("none_vec_zst", none(vec([], zst())), one))
    g.append(("some_array_zst", some(array([zst()] * 5)), one))
    g.append(("some_bslice_zst", some(bslice([zst(), zst()])), one))
    g.append(("tuple_zsts", tuple_(zst(), zst(), zst()), one))
    g.append(("tuple_zst_seqs", tuple_(vec([zst()] * 4), array([zst()] * 3), bslice([zst()] * 2), zst()), one))
    g.append(("vec_zst_tuples", vec([tuple_(zst(), zst()) for _ in range(3)]), one))  # (Zst, Zst) is zero-sized too
    g.append(("vec_zst_arrays", vec([array([zst(), zst()]) for _ in range(4)]), one))
    g.append(("array_zst_opts", array([some(zst()), none(zst()), some(zst())]), one))
    g.append(("vec_md_zst", vec([md(zst()), md(zst())]), one))
    g.append(("box_aus_vec_zst", box(aus(vec([zst()] * 6))), one))
    g.append(("ok_vec_zst", ok(vec([zst()] * 2)), one))
    g.append(("err_array_zst", err(array([zst()] * 2)), one))
    for st in ("free", "shared", "mut"):
        g.append(("rc_%s_vec_zst" % st, refcell(st, vec([zst()] * 3)), one))
        g.append(("vec_rc_%s_zst" % st, vec([refcell(st, zst()), refcell("free", zst())]), one))
    g.append(("zst_with_leaves", tuple_(slot(), vec([zst()] * 3), slot(), array([zst()] * 2)), both))
    g.append(("zst_user_interleaved", vec([tuple_(zst(), slot()), tuple_(zst(), slot())]), ("user", "cc")))

    # seeded random three-level nestings
    rnd = random.Random(SEED)
    for i in range(60):
        (n1, f1), (n2, f2), (n3, f3) = rnd.choice(ws), rnd.choice(ws), rnd.choice(ws)
        g.append(("rand%d:%s<%s<%s>>" % (i, n1, n2, n3), f1(lambda: f2(lambda: f3(slot))), both))
    return g


def cases():
    out = []
    cid = 0
    for name, shape, fills in grid():
        cnt = [0]
        number(shape, cnt)
        k = cnt[0]
        for fill in fills:
            keep = first_owned(shape, fill)
            out.append({
                "id": cid, "name": name + "/" + fill, "k": k, "keep": -1 if keep is None else keep,
                "rs": rs(shape, fill), "ty": ty(shape, fill), "coq": coq(shape, fill),
            })
            cid += 1
    return out


# The vm_compute result is printed as plain `list (nat * list (list nat))`.  coqc's printer costs
# ~0.2 ms per numeral, so the cases are split over CHUNKS files that the checker evaluates in
# parallel.
CHUNKS = 8

COQ_ROW = """
Definition row (c : nat * (nat * value)) : nat * list (list nat) :=
  let '(id, (k, v)) := c in
  (id, [counts k (visit v); e2e_expect k v; keep_expect k v; fin_visit v; utrace v]).

Eval vm_compute in (map row cases).
"""

RS_HEADER = """// @generated by tools/gen_container_probes.py - do not edit
#![allow(unused_imports, unused_parens, clippy::all)]
use crate::support::*;
use rust_cc::cleaners::{Cleanable, Cleaner};
use rust_cc::weak::Weak;
use rust_cc::*;
use std::cell::RefCell;
use std::marker::PhantomData;
use std::mem::ManuallyDrop;
use std::panic::AssertUnwindSafe;

fn mk_cleaner() -> Cleaner {
    let c = Cleaner::new();
    let a = c.register(|| {});
    std::mem::forget(a);
    c
}

fn mk_cleanable() -> Cleanable {
    let c = Cleaner::new();
    c.register(|| {})
}

"""


def write_if_changed(path, text):
    try:
        with open(path) as f:
            if f.read() == text:
                return False
    except FileNotFoundError:
        pass
    os.makedirs(os.path.dirname(path), exist_ok=True)
    with open(path, "w") as f:
        f.write(text)
    return True


def gen_rust(cs):
    parts = [RS_HEADER]
    for c in cs:
        parts.append("// %s : %s\nfn c%d() {\n    run_case(%d, %d, %d, |l: &[Cc<Leaf>]| -> %s { let _ = l; %s });\n}\n" % (
            c["name"], c["ty"], c["id"], c["id"], c["k"], c["keep"], c["ty"], c["rs"]))
    parts.append("\npub fn run_all() {\n")
    for c in cs:
        parts.append("    c%d();\n" % c["id"])
    parts.append("}\n")
    return "".join(parts)


def gen_coq(cs):
    parts = ["(* @generated by tools/gen_container_probes.py - do not edit *)\n",
             "From Coq Require Import List Arith.\nImport ListNotations.\nFrom RC Require Import Containers.\n\n",
             "Definition cases : list (nat * (nat * value)) := [\n"]
    parts.append(";\n".join("  (%d, (%d, %s))" % (c["id"], c["k"], c["coq"]) for c in cs))
    parts.append("\n].\n")
    parts.append(COQ_ROW)
    return "".join(parts)


def write_coq_chunks(cs, outdir, chunks=CHUNKS):
    """Writes cases_<i>.v (round-robin split) and returns their paths."""
    paths = []
    changed = False
    for i in range(chunks):
        part = cs[i::chunks]
        if not part:
            continue
        p = os.path.join(outdir, "cases_%d.v" % i)
        changed |= write_if_changed(p, gen_coq(part))
        paths.append(p)
    return paths, changed


def main():
    ap = argparse.ArgumentParser()
    ap.add_argument("--crate", default="/verif/probes/containers")
    ap.add_argument("--coq-out", default="/verif/build/containers")
    ap.add_argument("--list", action="store_true")
    a = ap.parse_args()
    cs = cases()
    if a.list:
        for c in cs:
            print(c["id"], c["name"], c["ty"])
        return
    ch1 = write_if_changed(os.path.join(a.crate, "src", "generated.rs"), gen_rust(cs))
    _, ch2 = write_coq_chunks(cs, a.coq_out)
    print("cases=%d distinct_types=%d rust_changed=%s coq_changed=%s" % (
        len(cs), len(set(c["ty"] for c in cs)), ch1, ch2))


if __name__ == "__main__":
    main()
