#!/usr/bin/env python3
"""Writes the seeded-change table (markdown) from seeded/*/meta.json and build/seedtests/*.json,
and copies each detection result into seeded/<id>/results.json."""
import json, os, glob
VERIF = os.path.dirname(os.path.dirname(os.path.abspath(__file__)))
rows = []
for d in sorted(glob.glob(os.path.join(VERIF, 'seeded', '*'))):
    i = os.path.basename(d)
    mp = os.path.join(d, 'meta.json')
    if not os.path.exists(mp):
        continue
    m = json.load(open(mp))
    rp = os.path.join(VERIF, 'build', 'seedtests', i + '.json')
    if os.path.exists(rp):
        r = json.load(open(rp))
        json.dump(r, open(os.path.join(d, 'results.json'), 'w'), indent=1)
    r = json.load(open(os.path.join(d, 'results.json'))) if os.path.exists(os.path.join(d, 'results.json')) else {}
    res = r.get('results', {})
    cells = []
    for p, v in res.items():
        if v['rc'] == 0:
            cells.append(f'{p}: missed')
        else:
            fi = any(x['found_input'] for x in v['violations'])
            cells.append(f"{p}: caught ({'failing input' if fi else 'no-failing-input-found'})")
    rows.append((i, m.get('property', i[:3]), (m.get('title') or '').replace('|', '/')[:110], '; '.join(cells) or 'not run'))
print('| seeded change | property | what | checks |')
print('|---|---|---|---|')
for r in rows:
    print('| ' + ' | '.join(r) + ' |')
