#!/usr/bin/env python3
"""seedtest.py <seeded-dir> [props...]: applies seeded/<id>/patch.diff to /repo, runs the quick
checks of the given properties (default: all 20), undoes the patch, and records which checks
raised a violation in seeded/<id>/results.json.  Nothing else may run checks meanwhile."""
import json, os, re, subprocess, sys, time

VERIF = os.path.dirname(os.path.dirname(os.path.abspath(__file__)))
ALL = [f'C{i:02d}' for i in range(1, 21)]


def sh(cmd, **kw):
    return subprocess.run(cmd, shell=True, stdout=subprocess.PIPE, stderr=subprocess.STDOUT, text=True, **kw)


def main():
    d = os.path.abspath(sys.argv[1])
    props = sys.argv[2:] or ALL
    patch = os.path.join(d, 'patch.diff')
    st = sh('git -C /repo status --porcelain --untracked-files=no')
    if st.stdout.strip():
        print('refusing: /repo has uncommitted changes:\n' + st.stdout)
        sys.exit(2)
    r = sh(f'git -C /repo apply {patch}')
    if r.returncode != 0:
        print('patch does not apply:\n' + r.stdout)
        sys.exit(2)
    results = {}
    try:
        for p in props:
            t0 = time.time()
            r = sh(f'./check {p} --tier quick', cwd=VERIF, timeout=3000)
            viol = re.findall(r'^VIOLATION property=(\S+) replay=(\S+)(.*)$', r.stdout, re.M)
            results[p] = dict(rc=r.returncode, wall_s=round(time.time() - t0, 1),
                              violations=[dict(replay=v[1], found_input=('no-failing-input-found' not in v[2])) for v in viol],
                              detail=[l.strip()[:300] for l in r.stdout.splitlines() if l.startswith('  ')][:4])
            print(p, 'rc', r.returncode, results[p]['violations'], results[p]['detail'][:1], flush=True)
    finally:
        sh('git -C /repo checkout -- .')
    json.dump(dict(ran='tools/seedtest.py ' + ' '.join(sys.argv[1:]), at=time.strftime('%Y-%m-%d %H:%M'), results=results),
              open(os.path.join(d, 'results.json'), 'w'), indent=1)
    caught = [p for p, v in results.items() if v['rc'] != 0]
    print('caught by:', caught)


if __name__ == '__main__':
    main()
