#!/usr/bin/env python3
"""Writes MANIFEST.json from tools/props.py and coq/obligations.json."""
import json, os, sys
sys.path.insert(0, os.path.dirname(os.path.abspath(__file__)))
import props, rcc

obl = props.load_obligations()
titles = {json.loads(l)['id']: json.loads(l)['title'] for l in open(os.path.join(rcc.VERIF, 'properties.jsonl'))}
checks, na = [], []
for pid in sorted(titles):
    P = props.PROPS.get(pid)
    if P is None or P.get('not_applicable'):
        na.append(dict(property_id=pid, reason=(P or {}).get('not_applicable', 'no check built')))
        continue
    n = len(obl.get(pid, []))
    level = P['level'] if n else 'translation_validation'
    checks.append(dict(
        property_id=pid,
        quick_cmd=f'./check {pid} --tier quick',
        thorough_cmd=f'./check {pid} --tier thorough',
        evidence_file=f'/verif/evidence/{pid}.json',
        replay_cmd_template=f'./check {pid} --replay {{path}}',
        engine='rocq-machine',
        level_claimed=dict(category=level, text=P['explanation'] + (f' {n} pinned theorems (coq/obligations.json).' if n else ' No theorem of this property is pinned yet: until then the check is the model/implementation correspondence plus monitors.'), design_ref='DESIGN.md section 5, ' + pid),
        level_note='; '.join(P['assumptions']) + '; trusted base: Coq 8.16.1 kernel + vm_compute, tools/rs2v.py translator, ExtrOcamlBasic extraction + ocaml/driver.ml, harness/ and tools/gen.py (see DESIGN.md section 6)',
        technique=P.get('technique', 'Rocq proof over executable model + model/implementation correspondence'),
    ))
m = dict(
    version=1,
    setup_cmd='python3 tools/setup.py',
    hooks=dict(guard='rust_cc_verif', enable='RUSTFLAGS="--cfg rust_cc_verif" (set by tools/rcc.py for its own target dir /verif/build/target)',
               baseline_off_cmd='cd /repo && cargo test --workspace --no-fail-fast --offline',
               source_commits=['5a411bd', '7bc0279', '75b1668'], add_only=True),
    engines=[dict(name='rocq-machine', path='/verif/coq', serves_properties=sorted(titles), kind_free_text='Rocq (Coq 8.16.1) development: generated leaf code + hand-written machine model + theorems; extracted model compared with the real crate by harness/')],
    checks=checks,
    notes='Genuine defects repaired in /repo by fix: commits 2464e7b (F1), f652d88 (F2), 0dbd7e5 (F3), 8b1f0c8 (F6); known findings F4 (C08, C09) and F5 (C10) in known_findings.json.',
    not_applicable=na,
)
json.dump(m, open(os.path.join(rcc.VERIF, 'MANIFEST.json'), 'w'), indent=1)
print('checks', len(checks), 'not_applicable', len(na))
