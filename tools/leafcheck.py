#!/usr/bin/env python3
"""leafcheck.py -- self-check of the translator tools/rs2v.py against the real code.

  1. runs rs2v.py on the CURRENT Rust sources (into <build>/gen),
  2. builds (if needed) and runs the Rust binary tools/leafcheck, which calls the real leaf functions
     through rust_cc::verif::leaf (--cfg rust_cc_verif): every counter-marker / weak-counter op over
     all 65536 values of the word it touches, is_tracing over its 8 inputs, should_collect and adjust
     over N seeded random inputs (including boundary values),
  3. generates Coq files that `Eval vm_compute` the GENERATED definitions on the same inputs (the
     exhaustive ops through the same rolling hash h := (h*31 + code) land (2^61-1); `adjust` with the
     float Section instantiated by exact rationals num/1024),
  4. compares.  Prints `LEAFCHECK ok ops=<n> cases=<n>` and exits 0, or prints the first
     mismatching input and exits 1.  Exit 2: the translator failed closed / a tool failed.

usage: python3 tools/leafcheck.py [--repo /repo] [--coq /verif/coq] [--build /verif/build/leafcheck]
                                  [--seed 1] [--n 2000]
"""
import argparse, os, re, subprocess, sys, time
from concurrent.futures import ThreadPoolExecutor

HERE = os.path.dirname(os.path.abspath(__file__))

CM_OPS = {   # op -> Coq expression of type (counter_marker * N), s is the input record
    0: 'let r := G.increment_counter s in (fst r, b2n (snd r))',
    1: 'let r := G.decrement_counter s in (fst r, b2n (snd r))',
    2: 'let r := G.increment_tracing_counter s in (fst r, b2n (snd r))',
    3: '(s, G.counter s)',
    4: '(s, G.tracing_counter s)',
    5: '(G.reset_tracing_counter s, 0)',
    6: '(s, b2n (G.needs_finalization s))',
    7: '(G.set_finalized s true, 0)',
    8: '(G.set_finalized s false, 0)',
    9: '(s, b2n (G.has_allocated_for_metadata s))',
    10: '(G.set_allocated_for_metadata s true, 0)',
    11: '(s, b2n (G.is_dropped s))',
    12: '(G.set_dropped s true, 0)',
    13: '(s, b2n (G.is_not_marked s))',
    14: '(s, b2n (G.is_in_possible_cycles s))',
    15: '(s, b2n (G.is_in_list s))',
    16: '(s, b2n (G.is_in_list_or_queue s))',
    17: '(G.mark s G.NonMarked, 0)',
    18: '(G.mark s G.PossibleCycles, 0)',
    19: '(G.mark s G.InList, 0)',
    20: '(G.mark s G.InQueue, 0)',
}
CM_TOUCHES_COUNTER = {0, 1, 3, 6, 7, 8, 9, 10}
WCM_OPS = {
    0: 'let r := W.increment_counter s in (fst r, b2n (snd r))',
    1: 'let r := W.decrement_counter s in (fst r, b2n (snd r))',
    2: '(s, W.counter s)',
    3: '(s, b2n (W.is_accessible s))',
    4: '(W.set_accessible s true, 0)',
    5: '(W.set_accessible s false, 0)',
}

PRELUDE = """From Coq Require Import NArith Bool List.
From RC Require Import Word.
From LeafGen Require CounterMarkerGen WeakCounterGen ConfigGen StateGen.
Import ListNotations.
Module G := CounterMarkerGen. Module W := WeakCounterGen. Module C := ConfigGen. Module S := StateGen.
Local Open Scope N_scope.
Definition b2n (b : bool) : N := if b then 1 else 0.
Definition MASK : N := N.ones 61.
Definition code (tw cw r : N) : N := tw + 65536 * cw + 4294967296 * r.
Definition cm_words (counter : bool) (other w : N) : G.counter_marker :=
  if counter then G.mk_counter_marker other w else G.mk_counter_marker w other.
Definition cm_hash (f : G.counter_marker -> G.counter_marker * N) (counter : bool) (other : N) : N :=
  fold_left (fun h w => let r := f (cm_words counter other w) in
     N.land (h * 31 + code (G.tracing_counter_cell (fst r)) (G.counter_cell (fst r)) (snd r)) MASK)
     all_u16 0.
Definition wcm_hash (f : W.weak_counter_marker -> W.weak_counter_marker * N) : N :=
  fold_left (fun h w => let r := f (W.mk_weak_counter_marker w) in
     N.land (h * 31 + code (W.weak_counter_cell (fst r)) 0 (snd r)) MASK) all_u16 0.
(* exact rational model of the floats: a value x is represented by the integer x * 1024 *)
Definition q_of_usize (n : N) : N := n * 1024.
Definition q_mul (a b : N) : N := a * b / 1024.
Definition q_le (a b : N) : bool := a <=? b.
Definition q_eq0 (a : N) : bool := a =? 0.
Definition q_adjust (thr j alloc : N) : N :=
  match C.adjust N q_of_usize q_mul q_le q_eq0 300 thr j alloc with Some t => t | None => 2 ^ 64 end.
Definition sc (x : N * N * N * N * N) : N :=
  let '(a, thr, bt, alloc, buf) := x in
  b2n (C.should_collect (negb (a =? 0)) thr (if bt =? 0 then None else Some bt) alloc buf).
Definition adj (x : N * N * N) : N := let '(thr, j, alloc) := x in q_adjust thr j alloc.
"""


def run(cmd, **kw):
    return subprocess.run(cmd, stdout=subprocess.PIPE, stderr=subprocess.PIPE, universal_newlines=True, **kw)


def die(msg, code=2):
    print('LEAFCHECK error: ' + msg)
    sys.exit(code)


def coq_values(out):
    """All `= value : type` answers of a coqc run, each as the list of integers it contains."""
    res = []
    for m in re.finditer(r'^\s*= (.*?)^\s*: ', out, re.S | re.M):
        res.append([int(x) for x in re.findall(r'\d+', m.group(1))])
    return res


def compile_v(path, qargs):
    r = run(['coqc'] + qargs + [path])
    if r.returncode != 0:
        die('coqc failed on %s:\n%s' % (path, (r.stdout + r.stderr)[-3000:]))
    return r.stdout


def main():
    ap = argparse.ArgumentParser()
    ap.add_argument('--repo', default='/repo')
    ap.add_argument('--coq', default=os.path.join(os.path.dirname(HERE), 'coq'))
    ap.add_argument('--build', default=os.path.join(os.path.dirname(HERE), 'build', 'leafcheck'))
    ap.add_argument('--target-dir', default=os.path.join(os.path.dirname(HERE), 'build', 'target-leafcheck'))
    ap.add_argument('--seed', type=int, default=1)
    ap.add_argument('--n', type=int, default=2000)
    a = ap.parse_args()
    t0 = time.time()
    gen = os.path.join(a.build, 'gen')
    os.makedirs(gen, exist_ok=True)

    # 1. translator
    r = run([sys.executable, os.path.join(HERE, 'rs2v.py'), '--repo', a.repo, '--out', gen, '--quiet'])
    if r.returncode != 0:
        die('translator failed (exit %d): %s' % (r.returncode, r.stderr.strip()))

    # 2. Word.vo (through the leaf makefile) and the generated modules
    word_v, word_vo = os.path.join(a.coq, 'Word.v'), os.path.join(a.coq, 'Word.vo')
    if not os.path.exists(word_vo) or os.path.getmtime(word_vo) < os.path.getmtime(word_v):
        mk = os.path.join(a.coq, 'Makefile.leaf')
        if not os.path.exists(mk):
            r = run(['coq_makefile', '-f', '_CoqProject.leaf', '-o', 'Makefile.leaf'], cwd=a.coq)
            if r.returncode != 0: die('coq_makefile failed: ' + r.stderr)
        r = run(['make', '-f', 'Makefile.leaf', 'Word.vo'], cwd=a.coq)
        if r.returncode != 0: die('cannot build Word.vo: ' + r.stderr[-2000:])
    qargs = ['-Q', a.coq, 'RC', '-Q', gen, 'LeafGen']
    with ThreadPoolExecutor(4) as ex:
        list(ex.map(lambda f: compile_v(os.path.join(gen, f), qargs),
                    ['CounterMarkerGen.v', 'WeakCounterGen.v', 'ConfigGen.v', 'StateGen.v']))

    # 3. the real code
    crate = os.path.join(HERE, 'leafcheck')
    lock = os.path.join(crate, 'Cargo.lock')
    if not os.path.exists(lock) and os.path.exists(os.path.join(a.repo, 'Cargo.lock')):
        import shutil; shutil.copy(os.path.join(a.repo, 'Cargo.lock'), lock)
    env = dict(os.environ, CARGO_NET_OFFLINE='true', RUSTFLAGS='--cfg rust_cc_verif')
    r = run(['cargo', 'build', '--offline', '--release', '--target-dir', a.target_dir], cwd=crate, env=env)
    if r.returncode != 0: die('cargo build failed:\n' + r.stderr[-3000:])
    binary = os.path.join(a.target_dir, 'release', 'leafcheck')
    r = run([binary, str(a.seed), str(a.n)])
    if r.returncode != 0: die('leafcheck binary failed: ' + r.stderr[-2000:])
    rust = [l.split() for l in r.stdout.splitlines() if l.strip()]
    by = {}
    for l in rust: by.setdefault(l[0], []).append(l[1:])

    # 4. Coq side: several files compiled in parallel
    files = {}
    cm_cases = [(int(op), int(other)) for op, other, _ in by['CM']]
    chunks = [cm_cases[i::6] for i in range(6)]
    for ci, chunk in enumerate(chunks):
        body = PRELUDE
        for op, other in chunk:
            body += 'Eval vm_compute in (cm_hash (fun s => %s) %s %d).\n' % (
                CM_OPS[op], 'true' if op in CM_TOUCHES_COUNTER else 'false', other)
        files['cm%d' % ci] = body
    body = PRELUDE
    for (op, _) in [(int(x[0]), x[1]) for x in by['WCM']]:
        body += 'Eval vm_compute in (wcm_hash (fun s => %s)).\n' % WCM_OPS[op]
    body += 'Eval vm_compute in [G.MAX; W.MAX; C.DEFAULT_BYTES_THRESHOLD].\n'
    for b in ('false', 'true'):
        body += ('Eval vm_compute in (let s := G.new_with_counter_to_one %s in '
                 '[G.tracing_counter_cell s; G.counter_cell s; W.weak_counter_cell (W.new %s)]).\n' % (b, b))
    body += 'Eval vm_compute in (map (fun x : bool * bool * bool => let \'(c, f, d) := x in b2n (S.is_tracing true c f d)) [%s]).\n' % '; '.join(
        '(%s, %s, %s)' % tuple('true' if x == '1' else 'false' for x in t[:3]) for t in by['TR'])
    files['misc'] = body
    sc_cases, adj_cases = by.get('SC', []), by.get('ADJ', [])
    def chunked(xs, k): return [xs[i:i + k] for i in range(0, len(xs), k)] or [[]]
    sc_chunks, adj_chunks = chunked(sc_cases, 1000), chunked(adj_cases, 1000)
    for i, ch in enumerate(sc_chunks):
        files['sc%d' % i] = PRELUDE + 'Eval vm_compute in (map sc [%s]).\n' % '; '.join(
            '(%s, %s, %s, %s, %s)' % tuple(c[:5]) for c in ch)
    for i, ch in enumerate(adj_chunks):
        files['adj%d' % i] = PRELUDE + 'Eval vm_compute in (map adj [%s]).\n' % '; '.join(
            '(%s, %s, %s)' % tuple(c[:3]) for c in ch)
    paths = {}
    for name, text in files.items():
        p = os.path.join(a.build, 'cases_%s.v' % name)
        with open(p, 'w') as f: f.write(text)
        paths[name] = p
    # the single-file view asked for by the task description: cases.v = all of the above
    with open(os.path.join(a.build, 'cases.v'), 'w') as f:
        f.write('(* the checks are compiled as the parallel files cases_*.v next to this index *)\n' +
                ''.join('(* %s *)\n' % os.path.basename(p) for p in paths.values()))
    with ThreadPoolExecutor(8) as ex:
        outs = dict(zip(paths, ex.map(lambda n: coq_values(compile_v(paths[n], qargs)), list(paths))))

    # 5. compare
    nops = 0; ncases = 0
    def mismatch(msg):
        print('LEAFCHECK MISMATCH: ' + msg)
        sys.exit(1)
    for ci, chunk in enumerate(chunks):
        vals = outs['cm%d' % ci]
        if len(vals) != len(chunk): die('unexpected coqc output for cm%d' % ci)
        for (op, other), v in zip(chunk, vals):
            want = int([x for x in by['CM'] if int(x[0]) == op and int(x[1]) == other][0][2])
            if v[0] != want:
                first = locate_cm(binary, a, qargs, op, other)
                mismatch('counter_marker op %d (other word = %d): %s' % (op, other, first))
            nops += 1; ncases += 65536
    vals = outs['misc']
    k = len(by['WCM'])
    for x, v in zip(by['WCM'], vals[:k]):
        if v[0] != int(x[1]):
            mismatch('weak_counter_marker op %s: %s' % (x[0], locate_wcm(binary, a, qargs, int(x[0]))))
        nops += 1; ncases += 65536
    consts = vals[k]
    want = [int(by['CM_MAX'][0][0]), int(by['WCM_MAX'][0][0]), int(by['DEFAULT_BYTES_THRESHOLD'][0][0])]
    if consts != want: mismatch('constants [cm MAX, weak MAX, DEFAULT_BYTES_THRESHOLD]: rust %s coq %s' % (want, consts))
    for bi, b in enumerate(('0', '1')):
        cmn = [x for x in by['CM_NEW'] if x[0] == b][0]; wn = [x for x in by['WCM_NEW'] if x[0] == b][0]
        want = [int(cmn[1]), int(cmn[2]), int(wn[1])]
        if vals[k + 1 + bi] != want: mismatch('new(%s): rust %s coq %s' % (b, want, vals[k + 1 + bi]))
        ncases += 2
    nops += 4
    tr = vals[k + 3]
    for t, v in zip(by['TR'], tr):
        if int(t[3]) != v: mismatch('is_tracing(collecting=%s, finalizing=%s, dropping=%s): rust %s coq %d' % (t[0], t[1], t[2], t[3], v))
        ncases += 1
    nops += 1
    for i, ch in enumerate(sc_chunks):
        if not ch: continue
        got = outs['sc%d' % i][0]
        if len(got) != len(ch): die('unexpected coqc output for sc%d' % i)
        for c, v in zip(ch, got):
            if int(c[5]) != v:
                mismatch('should_collect(auto=%s, thr=%s, buffered_thr=%s, alloc=%s, buffered=%s): rust %s coq %d' % (*c[:5], c[5], v))
            ncases += 1
    for i, ch in enumerate(adj_chunks):
        if not ch: continue
        got = outs['adj%d' % i][0]
        if len(got) != len(ch): die('unexpected coqc output for adj%d' % i)
        for c, v in zip(ch, got):
            if int(c[3]) != v:
                mismatch('adjust(thr=%s, percent=%s/1024, alloc=%s): rust %s coq %s' % (
                    c[0], c[1], c[2], c[3], 'OUT-OF-FUEL' if v == 2 ** 64 else v))
            ncases += 1
    nops += 2
    print('LEAFCHECK ok ops=%d cases=%d (seed=%d n=%d, %.1fs)' % (nops, ncases, a.seed, a.n, time.time() - t0))
    return 0


def locate(binary, a, qargs, rust_args, coq_expr):
    """Find the first input (in evaluation order) where the Rust and the Coq results differ."""
    r = run([binary, 'detail'] + [str(x) for x in rust_args])
    rust = [tuple(int(x) for x in l.split()[1:]) for l in r.stdout.splitlines() if l.startswith('D ')]
    p = os.path.join(a.build, 'cases_detail.v')
    with open(p, 'w') as f:
        f.write(PRELUDE + 'Definition detail_f := %s.\n' % coq_expr)
        for base in range(63 * 1024, -1, -1024):   # 64 chunks, words in decreasing order like the binary
            f.write('Eval vm_compute in (map (fun i => detail_f (%d + i)) (below 1024)).\n' % base)
    vals = [x for chunk in coq_values(compile_v(p, qargs)) for x in chunk]
    coq = [tuple(vals[i:i + 4]) for i in range(0, len(vals), 4)]
    for x, y in zip(rust, coq):
        if x != y:
            return 'first mismatch at word %d: rust (tw, cw, result) = %s, coq = %s' % (x[0], x[1:], y[1:])
    return 'hash differs but no differing input found (length %d vs %d)' % (len(rust), len(coq))


def locate_cm(binary, a, qargs, op, other):
    expr = ('(fun w => let r := (fun s => %s) (cm_words %s %d w) in '
            '(w, G.tracing_counter_cell (fst r), G.counter_cell (fst r), snd r))' % (
                CM_OPS[op], 'true' if op in CM_TOUCHES_COUNTER else 'false', other))
    return locate(binary, a, qargs, ['cm', op, other], expr)


def locate_wcm(binary, a, qargs, op):
    expr = ('(fun w => let r := (fun s => %s) (W.mk_weak_counter_marker w) in '
            '(w, W.weak_counter_cell (fst r), 0, snd r))' % WCM_OPS[op])
    return locate(binary, a, qargs, ['wcm', op], expr)


if __name__ == '__main__':
    sys.exit(main())
