"""Shared machinery of ./check: builds, program runs, log comparison, monitors, evidence."""
import fcntl, hashlib, json, os, re, resource, shutil, subprocess, sys, time

VERIF = os.path.dirname(os.path.dirname(os.path.abspath(__file__)))
REPO = '/repo'
BUILD = os.path.join(VERIF, 'build')
COQ = os.path.join(VERIF, 'coq')
ENV = dict(os.environ, CARGO_NET_OFFLINE='true')

FEATSETS = {
    'full':   dict(fin=1, weak=1, clean=1, auto=1),
    'nofin':  dict(fin=0, weak=1, clean=1, auto=1),
    'noweak': dict(fin=1, weak=0, clean=0, auto=1),
    'noauto': dict(fin=1, weak=1, clean=1, auto=0),
    'bare':   dict(fin=0, weak=0, clean=0, auto=0),
    'pedantic': dict(fin=1, weak=1, clean=1, auto=1, pedantic=1),
    'weaknoclean': dict(fin=1, weak=1, clean=0, auto=1),
}


def sh(cmd, cwd=None, timeout=1800, env=None, check=True, stack=False):
    def pre():
        if stack:
            try:
                resource.setrlimit(resource.RLIMIT_STACK, (resource.RLIM_INFINITY, resource.RLIM_INFINITY))
            except Exception:
                pass
    p = subprocess.run(cmd, cwd=cwd, env=env or ENV, stdout=subprocess.PIPE, stderr=subprocess.STDOUT,
                       timeout=timeout, shell=isinstance(cmd, str), preexec_fn=pre)
    out = p.stdout.decode('utf-8', 'replace')
    if check and p.returncode != 0:
        raise BuildError(f"command failed ({p.returncode}): {cmd}\n{out[-4000:]}")
    return p.returncode, out


class BuildError(Exception):
    pass


class Lock:
    def __init__(self, name):
        os.makedirs(BUILD, exist_ok=True)
        self.path = os.path.join(BUILD, name + '.lock')

    def __enter__(self):
        self.f = open(self.path, 'w')
        fcntl.flock(self.f, fcntl.LOCK_EX)
        return self

    def __exit__(self, *a):
        fcntl.flock(self.f, fcntl.LOCK_UN)
        self.f.close()


# ------------------------------------------------------------------ builds

def coq_project_files():
    """The .v files of the official build: coq/FILES (one path per line) that exist on disk."""
    files = []
    for l in open(os.path.join(COQ, 'FILES')):
        l = l.strip()
        if l and not l.startswith('#') and os.path.exists(os.path.join(COQ, l)):
            files.append(l)
    return files


def regen_leaf():
    """Regenerate coq/gen from /repo's current source (translator).  Returns (ok, message)."""
    tr = os.path.join(VERIF, 'tools', 'rs2v.py')
    if not os.path.exists(tr):
        return True, 'translator not present'
    tmp = os.path.join(BUILD, 'gen.tmp')
    shutil.rmtree(tmp, ignore_errors=True)
    rc, out = sh([sys.executable, tr, '--repo', REPO, '--out', tmp], check=False)
    if rc != 0:
        return False, out[-2000:]
    dst = os.path.join(COQ, 'gen')
    os.makedirs(dst, exist_ok=True)
    for n in sorted(os.listdir(tmp)):
        a, b = os.path.join(tmp, n), os.path.join(dst, n)
        new = open(a).read()
        if not os.path.exists(b) or open(b).read() != new:
            with open(b, 'w') as f:
                f.write(new)
    return True, out.strip()[-500:]


def build_coq(targets=None):
    """Full .vo build through coq_makefile.  Returns (ok, log)."""
    with Lock('coq'):
        files = coq_project_files()
        proj = '-Q . RC\n' + '\n'.join(files) + '\n'
        pp = os.path.join(COQ, '_CoqProject')
        if not os.path.exists(pp) or open(pp).read() != proj:
            open(pp, 'w').write(proj)
            sh(['coq_makefile', '-f', '_CoqProject', '-o', 'Makefile'], cwd=COQ)
        elif not os.path.exists(os.path.join(COQ, 'Makefile')):
            sh(['coq_makefile', '-f', '_CoqProject', '-o', 'Makefile'], cwd=COQ)
        cmd = ['make', '-j16', '-k'] + (targets or [])
        rc, out = sh(['timeout', '1500'] + cmd, cwd=COQ, check=False, timeout=1600)
        return rc == 0, out


def build_model():
    """Extraction output -> native modelrun binary."""
    with Lock('ocaml'):
        d = os.path.join(BUILD, 'ocaml')
        os.makedirs(d, exist_ok=True)
        srcs = [os.path.join(VERIF, 'ocaml', n) for n in ('model.mli', 'model.ml', 'driver.ml')]
        h = hashlib.sha256(b''.join(open(s, 'rb').read() for s in srcs)).hexdigest()
        stamp = os.path.join(d, 'stamp')
        exe = os.path.join(d, 'modelrun')
        if os.path.exists(exe) and os.path.exists(stamp) and open(stamp).read() == h:
            return exe
        for s in srcs:
            shutil.copy(s, d)
        sh(['ocamlfind', 'ocamlopt', '-O2', '-w', '-a', 'model.mli', 'model.ml', 'driver.ml', '-o', 'modelrun.new'], cwd=d)
        os.replace(os.path.join(d, 'modelrun.new'), exe)
        open(stamp, 'w').write(h)
        return exe


def build_harness(featset='full', release=False):
    feats = FEATSETS[featset]
    fl = ','.join(k for k, v in feats.items() if v)
    with Lock('cargo'):
        hd = os.path.join(VERIF, 'harness')
        lock = os.path.join(hd, 'Cargo.lock')
        if not os.path.exists(lock) and os.path.exists(os.path.join(REPO, 'Cargo.lock')):
            shutil.copy(os.path.join(REPO, 'Cargo.lock'), lock)
        cmd = ['cargo', 'build', '--offline', '--no-default-features', '--target-dir', os.path.join(BUILD, 'target')]
        if fl:
            cmd += ['--features', fl]
        if release:
            cmd += ['--release']
        env = dict(ENV, RUSTFLAGS='--cfg rust_cc_verif')
        rc, out = sh(cmd, cwd=hd, env=env, check=False, timeout=1500)
        if rc != 0:
            raise BuildError('harness build failed:\n' + out[-3000:])
        exe = os.path.join(BUILD, 'target', 'release' if release else 'debug', 'harness')
        # each feature set overwrites the same binary: keep a private copy
        dst = os.path.join(BUILD, f"harness-{featset}-{'release' if release else 'debug'}")
        tmp = dst + f'.tmp{os.getpid()}'
        shutil.copy(exe, tmp)
        os.replace(tmp, dst)
        return dst


def harness_layout(exe):
    rc, out = sh([exe, '--layout'])
    return out.strip()


# ------------------------------------------------------------------ running programs

def write_progfile(path, programs, conf):
    """programs: list of (header, lines-without-conf)."""
    with open(path, 'w') as f:
        for hdr, lines in programs:
            f.write('# ' + hdr + '\n')
            f.write('conf ' + conf + '\n')
            for l in lines:
                f.write(l + '\n')
            f.write('end\n')


def split_logs(text):
    """-> dict idx -> list of lines (between '== program k' and '== end k')."""
    out, cur, idx = {}, None, None
    for line in text.splitlines():
        if line.startswith('== program '):
            idx = int(line.split()[2]); cur = []
        elif line.startswith('== end '):
            if cur is not None:
                out[idx] = cur
            cur = None
        elif cur is not None:
            cur.append(line)
    return out, (idx if cur is not None else None)


def run_model(exe, progfile, snap=True, inv=True):
    """-> (logs, rc, inv_failures): the model also evaluates the Coq invariant checker (Inv.v) after
    every top-level command; those lines are split off the log."""
    cmd = [exe] + ([] if snap else ['--no-snap']) + (['--inv'] if inv else []) + [progfile]
    rc, out = sh(cmd, check=False, stack=True, timeout=900)
    logs, partial = split_logs(out)
    invf = {}
    for k, lines in logs.items():
        bad = [l for l in lines if l.startswith('INV ')]
        if bad:
            invf[k] = bad
            logs[k] = [l for l in lines if not l.startswith('INV ')]
    return logs, rc, invf


def run_harness(exe, progfile, nprogs, snap=True):
    """Runs the whole file; if the process dies, re-runs the remaining programs one by one."""
    cmd = [exe] + ([] if snap else ['--no-snap']) + [progfile]
    rc, out = sh(cmd, check=False, timeout=900)
    logs, partial = split_logs(out)
    crashed = {}
    if rc != 0 or len(logs) < nprogs:
        for k in range(nprogs):
            if k in logs:
                continue
            rc1, out1 = sh(cmd[:-1] + ['--stream', '--only', str(k), progfile], check=False, timeout=300)
            l1, p1 = split_logs(out1)
            if k in l1 and rc1 == 0:
                logs[k] = l1[k]
            else:
                body = [x for x in out1.splitlines() if not x.startswith('== ')]
                logs[k] = body + [f'BAD HarnessCrashed {rc1}']
                crashed[k] = rc1
    return logs, crashed


# ------------------------------------------------------------------ projections and diff

STATE_RE = re.compile(r'^(snap|buf|state) ')


def project(lines, keep_state=True, keep=None, drop_fields=()):
    out = []
    for l in lines:
        if STATE_RE.match(l):
            if not keep_state:
                continue
        if keep is not None and not keep(l):
            continue
        for pat, rep in drop_fields:
            l = pat.sub(rep, l)
        out.append(l)
    return out


def first_diff(a, b):
    n = min(len(a), len(b))
    for i in range(n):
        if a[i] != b[i]:
            return i
    return None if len(a) == len(b) else n


def cmd_index(lines, pos):
    """index of the top-level command containing line pos."""
    k = -1
    for l in lines[:pos + 1]:
        if l.startswith('-- '):
            k = int(l.split()[1])
    return k


# ------------------------------------------------------------------ monitors (model-independent, on the implementation's log)

def monitors(lines, feats, main=None):
    """Returns list of (property, message, line_no)."""
    v = []
    allocs, freed, dropped, fins, rearm, sides = {}, {}, {}, {}, {}, {}
    unwrapped = set()
    live_bytes = 0
    last_cmd_had_panic = False
    in_cmd = -1
    exec_seen = None
    pending_finagain = None
    last_free = None
    cur_cmd = ''
    rearm_total = 0
    seg_drop_seen = False       # a collector 'drop' callback seen in the current top-level command
    for n, l in enumerate(lines):
        t = l.split()
        if not t:
            continue
        if t[0] == '--':
            in_cmd = int(t[1]); seg_drop_seen = False; last_free = None
            cur_cmd = main[in_cmd] if (main is not None and in_cmd < len(main)) else ''
            continue
        if t[0] == 'BAD':
            kind = t[1]
            prop = {'UseAfterDrop': 'C01', 'UseAfterFree': 'C01', 'DoubleDrop': 'C03', 'DoubleFree': 'C03',
                    'LayoutMismatch': 'C03', 'UninitDrop': 'C14', 'DanglingLink': 'C11', 'BufferLinks': 'C11',
                    'HarnessCrashed': 'C01', 'HarnessThreadPanicked': 'C07',
                    'FinalizeReachable': 'REACH', 'DropReachable': 'REACH'}.get(kind, 'C01')
            v.append((prop, l, n))
        elif t[0] == 'alloc':
            o = int(t[1]); allocs[o] = (int(t[2]), int(t[3])); live_bytes += int(t[2])
        elif t[0] == 'free':
            o = int(t[1]); sz, al = int(t[2]), int(t[3])
            if o in freed:
                v.append(('C03', f'allocation {o} freed twice', n))
            if o in allocs and allocs[o] != (sz, al):
                v.append(('C03', f'allocation {o} freed with layout {(sz, al)} but allocated with {allocs[o]}', n))
            if o not in allocs:
                v.append(('C03', f'free of unknown allocation {o}', n))
            freed[o] = n; live_bytes -= allocs.get(o, (0, 0))[0]; last_free = o
        elif t[0] == 'salloc':
            o = int(t[1])
            if sides.get(o) == 'live':
                v.append(('C09', f'second side record for {o}', n))
            sides[o] = 'live'
        elif t[0] == 'sfree':
            o = int(t[1])
            if sides.get(o) != 'live':
                v.append(('C09', f'side record of {o} released but not live', n))
            sides[o] = 'freed'
        elif t[0] == 'cb':
            kind, o, fl = t[1], int(t[2]), t[3]
            c, f, d, tr = (ch == '1' for ch in fl)
            if kind == 'trace':
                if not tr:
                    v.append(('C12', f'Trace::trace of {o} with is_tracing() = false', n))
                if o in freed:
                    v.append(('C01', f'trace of freed object {o}', n))
            else:
                if tr:
                    v.append(('C12', f'{kind} callback of {o} with is_tracing() = true', n))
            if kind == 'fin':
                if not feats['fin']:
                    v.append(('C05', f'finalize called on {o} with finalization disabled', n))
                fins[o] = fins.get(o, 0) + 1
                if fins[o] > 1 + rearm_total:
                    v.append(('C05', f'object {o} finalized {fins[o]} times with {rearm_total} successful finalize_again calls in the program so far', n))
                if o in dropped:
                    v.append(('C05', f'finalize of {o} after its drop', n))
                if not f:
                    v.append(('C05', f'finalizer of {o} ran with finalizing = false', n))
            if kind == 'drop':
                if o in dropped:
                    v.append(('C03', f'value {o} dropped twice', n))
                if o in freed and o not in unwrapped:
                    v.append(('C03', f'value {o} dropped after its allocation was freed', n))
                dropped[o] = n
                if c:
                    seg_drop_seen = True
        elif t[0] == 'res':
            if t[1] == 'unwrap-ok' and last_free is not None:
                unwrapped.add(last_free)
            if t[1] == 'ok' and cur_cmd.startswith('finagain'):
                rearm_total += 1
        elif t[0] == 'obs':
            o = int(t[1])
            kv = dict(x.split('=') for x in t[2:])
            if kv.get('alive') != '1':
                v.append(('C01', f'object {o} reached through a held Cc is not alive', n))
            if o in freed:
                v.append(('C01', f'object {o} reached through a held Cc was freed', n))
        elif t[0] == 'sobs':
            kv = dict(x.split('=') for x in t[1:])
            if kv['bytes'] != 'err' and int(kv['bytes']) != live_bytes:
                v.append(('C11', f'allocated_bytes() = {kv["bytes"]} but live boxes total {live_bytes}', n))
            if kv['tracing'] == '1':
                v.append(('C12', 'is_tracing() true outside Trace::trace', n))
        elif t[0] == 'buf' and len(t) > 1 and t[1] != 'err':
            ids = [x for x in t[1:] if not x.startswith('size=')]
            size = int(t[-1].split('=')[1])
            if len(ids) != size:
                v.append(('C11', f'buffer holds {len(ids)} objects but buffered_objects_count is {size}', n))
            if len(set(ids)) != len(ids):
                v.append(('C11', 'an object is buffered twice', n))
        elif t[0] == 'state':
            kv = dict(x.split('=') for x in t[1:])
            if kv['c'] != '0' or kv['f'] != '0' or kv['d'] != '0':
                v.append(('C07', f'collector flags not idle between top-level commands: {l}', n))
    return v


def note_unwraps(lines):
    pass


# ------------------------------------------------------------------ evidence

def write_evidence(prop, data):
    os.makedirs(os.path.join(VERIF, 'evidence'), exist_ok=True)
    with open(os.path.join(VERIF, 'evidence', prop + '.json'), 'w') as f:
        json.dump(data, f, indent=1)
