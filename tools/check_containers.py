#!/usr/bin/env python3
"""C17 correspondence check: the Coq model of the built-in Trace/Finalize impls
(coq/Containers.v) against the real crate, on the whole generated container grid.

  1. regenerates probes/containers/src/generated.rs and build/containers/cases.v
     (tools/gen_container_probes.py: same cases, same ids on both sides),
  2. builds the Coq model (make -f Makefile.cont) and the probe crate from the CURRENT
     working tree of the crate under test (--repo, default /repo),
  3. runs `Eval vm_compute` over the cases and the probe binary,
  4. compares the observation lines one by one,
  5. prints `CONTAINERS ok cases=<n> distinct_shapes=<n>` and exits 0, or prints the first
     mismatching case and exits 1.  `--json <path>` writes a machine-readable summary.

The helper functions of this file are reused by check_derive.py.
"""
import argparse
import fcntl
import json
import os
import re
import shutil
import subprocess
import sys
import time

HERE = os.path.dirname(os.path.abspath(__file__))
VERIF = os.path.dirname(HERE)
sys.path.insert(0, HERE)

TARGET_DIR = os.path.join(VERIF, "build", "target-probes")
RUSTFLAGS = "--cfg rust_cc_verif"


class CheckError(Exception):
    pass


# --------------------------------------------------------------------------------------------
# Coq side
# --------------------------------------------------------------------------------------------
def build_coq_model(log):
    """make -f Makefile.cont in coq/ (serialized: both checks may run at the same time)."""
    coqdir = os.path.join(VERIF, "coq")
    os.makedirs(os.path.join(VERIF, "build"), exist_ok=True)
    with open(os.path.join(VERIF, "build", ".cont.lock"), "w") as lock:
        fcntl.flock(lock, fcntl.LOCK_EX)
        mk = os.path.join(coqdir, "Makefile.cont")
        proj = os.path.join(coqdir, "_CoqProject.cont")
        if not os.path.exists(mk) or os.path.getmtime(mk) < os.path.getmtime(proj):
            run(["coq_makefile", "-f", "_CoqProject.cont", "-o", "Makefile.cont"], cwd=coqdir, log=log)
        run(["make", "-f", "Makefile.cont", "-j8"], cwd=coqdir, log=log, timeout=900)


def run(cmd, cwd=None, env=None, log=None, timeout=1800, check=True):
    t0 = time.time()
    p = subprocess.run(cmd, cwd=cwd, env=env, stdout=subprocess.PIPE, stderr=subprocess.PIPE,
                       text=True, timeout=timeout)
    if log is not None:
        log.append({"cmd": " ".join(cmd), "cwd": cwd, "rc": p.returncode, "s": round(time.time() - t0, 2)})
    if check and p.returncode != 0:
        raise CheckError("command failed (%d): %s\n%s\n%s" % (p.returncode, " ".join(cmd), p.stdout[-4000:], p.stderr[-4000:]))
    return p


def eval_cases(case_files, log, width=5):
    """coqc every cases_<i>.v (in parallel); returns [(id, [visits, e2e, keep, fin])] parsed from
    the single `Eval vm_compute` of each file."""
    from concurrent.futures import ThreadPoolExecutor

    def one(path):
        p = run(["coqc", "-Q", os.path.join(VERIF, "coq"), "RC", path], cwd=os.path.dirname(path), log=log, timeout=900)
        return parse_coq_eval(p.stdout)

    with ThreadPoolExecutor(max_workers=max(1, min(len(case_files), os.cpu_count() or 1))) as ex:
        parts = list(ex.map(one, case_files))
    rows = []
    for part in parts:
        for r in part:
            if not (isinstance(r, tuple) and len(r) == 2 and isinstance(r[1], list) and len(r[1]) == width):
                raise CheckError("unexpected shape of a vm_compute row: %r" % (r,))
            rows.append(r)
    rows.sort(key=lambda r: r[0])
    return rows


_TOK = re.compile(r"\d+|[\[\]();,]")


def parse_coq_eval(out):
    """Parses `     = <term>\n     : <type>` where <term> is built from nat literals, lists
    `[a; b]` and tuples `(a, b)`, however coqc wrapped it.  Lists -> list, tuples -> tuple."""
    i = out.find("=")
    j = out.rfind("\n     :")
    if i < 0 or j < 0:
        raise CheckError("cannot find the vm_compute result in coqc's output:\n" + out[:2000])
    body = out[i + 1:j]
    body = body.replace("%N", "").replace("%nat", "")
    junk = re.sub(r"[\d\[\]();,\s]", "", body)
    if junk:
        raise CheckError("unexpected characters in coqc's output: %r" % junk[:200])
    toks = _TOK.findall(body)
    pos = [0]

    def term():
        t = toks[pos[0]]
        pos[0] += 1
        if t.isdigit():
            return int(t)
        if t == "[":
            items = []
            if toks[pos[0]] == "]":
                pos[0] += 1
                return items
            while True:
                items.append(term())
                t2 = toks[pos[0]]
                pos[0] += 1
                if t2 == "]":
                    return items
                if t2 != ";":
                    raise CheckError("list syntax")
        if t == "(":
            items = [term()]
            while True:
                t2 = toks[pos[0]]
                pos[0] += 1
                if t2 == ")":
                    return tuple(items)
                if t2 != ",":
                    raise CheckError("tuple syntax")
                items.append(term())
        raise CheckError("unexpected token %r" % t)

    v = term()
    if pos[0] != len(toks):
        raise CheckError("trailing tokens in coqc's output")
    return v


# --------------------------------------------------------------------------------------------
# Rust side
# --------------------------------------------------------------------------------------------
def cargo_env():
    env = dict(os.environ)
    env["RUSTFLAGS"] = RUSTFLAGS
    env["CARGO_NET_OFFLINE"] = "true"
    return env


def prepare_crate(crate_dir, repo, log):
    """Returns (dir to build in, binary name).  For the default repo the crate is built in place;
    for another --repo a copy with a patched Cargo.toml (and another package name, so that the
    binaries do not clobber each other in the shared target dir) is made under build/."""
    with open(os.path.join(crate_dir, "Cargo.toml")) as f:
        toml = f.read()
    name = re.search(r'^name\s*=\s*"([^"]+)"', toml, re.M).group(1)
    repo = os.path.abspath(repo)
    lock = os.path.join(crate_dir, "Cargo.lock")
    if not os.path.exists(lock):
        shutil.copy(os.path.join(repo, "Cargo.lock"), lock)
    if repo == "/repo":
        return crate_dir, name
    alt = os.path.join(VERIF, "build", "alt-crates", name + "-alt")
    if os.path.isdir(alt):
        shutil.rmtree(alt)
    os.makedirs(alt)
    toml2 = toml.replace('name = "%s"' % name, 'name = "%s-alt"' % name).replace('path = "/repo"', 'path = "%s"' % repo)
    if toml2.count(repo) == 0:
        raise CheckError("could not patch the rust-cc path in " + crate_dir)
    with open(os.path.join(alt, "Cargo.toml"), "w") as f:
        f.write(toml2)
    shutil.copytree(os.path.join(crate_dir, "src"), os.path.join(alt, "src"), symlinks=False)
    shutil.copy(os.path.join(repo, "Cargo.lock"), os.path.join(alt, "Cargo.lock"))
    return alt, name + "-alt"


def cargo_build(build_dir, log, extra=(), check=True):
    cmd = ["cargo", "build", "--offline", "--release", "--target-dir", TARGET_DIR] + list(extra)
    return run(cmd, cwd=build_dir, env=cargo_env(), log=log, timeout=3000, check=check)


def run_probe(binary, log):
    p = run([os.path.join(TARGET_DIR, "release", binary)], log=log, timeout=600, check=False)
    lines = p.stdout.splitlines()
    crash = None
    if p.returncode != 0:
        crash = "probe binary exited with %d; last line: %r; stderr tail: %s" % (
            p.returncode, lines[-1] if lines else None, p.stderr[-1500:])
    return lines, crash


# --------------------------------------------------------------------------------------------
# Comparison
# --------------------------------------------------------------------------------------------
def line(prefix, nums):
    return " ".join([prefix] + [str(n) for n in nums])


def expected_lines(cid, row):
    """row = [visits, e2e, keep, fin, utrace] as computed by the model (see gen_*_probes.py)."""
    visits, e2e, keep, fin, utrace = row
    out = [line("case %d visits" % cid, visits), line("case %d utrace" % cid, utrace), line("case %d e2e" % cid, e2e)]
    if keep:
        out.append(line("case %d keep" % cid, keep))
        out.append(line("case %d after" % cid, e2e))
    else:
        out.append("case %d keep none" % cid)
    out.append(line("case %d findirect" % cid, fin))
    out.append(line("case %d findrop" % cid, fin))
    return out


def group_by_case(lines):
    d = {}
    order = []
    for ln in lines:
        m = re.match(r"case (\d+) ", ln)
        if not m:
            continue
        cid = int(m.group(1))
        if cid not in d:
            d[cid] = []
            order.append(cid)
        d[cid].append(ln)
    return d, order


def compare(cases, rows, actual_lines, crash):
    """Returns (mismatches, samples)."""
    by_id = {c["id"]: c for c in cases}
    exp = {cid: expected_lines(cid, row) for cid, row in rows}
    if set(exp) != set(by_id):
        raise CheckError("the model evaluated %d cases, the generator produced %d" % (len(exp), len(by_id)))
    act, _ = group_by_case(actual_lines)
    mismatches = []
    for c in cases:
        cid = c["id"]
        e = exp[cid]
        a = act.get(cid, [])
        if e != a:
            first = next((i for i in range(max(len(e), len(a))) if i >= len(e) or i >= len(a) or e[i] != a[i]), 0)
            mismatches.append({
                "id": cid, "name": c["name"], "rust_type": c.get("ty"), "model_term": c.get("coq"),
                "expected": e[first] if first < len(e) else None,
                "actual": a[first] if first < len(a) else None,
                "expected_all": e, "actual_all": a,
            })
    extra = sorted(set(act) - set(exp))
    if extra:
        mismatches.append({"id": extra[0], "name": "<unknown case printed by the probe>", "expected": None,
                           "actual": act[extra[0]][0], "expected_all": [], "actual_all": act[extra[0]]})
    if crash and not mismatches:
        mismatches.append({"id": -1, "name": "<probe crashed>", "expected": "exit status 0", "actual": crash,
                           "expected_all": [], "actual_all": []})
    samples = []
    if cases:
        n = len(cases)
        for idx in sorted(set([0, n // 5, n // 2, (3 * n) // 4, n - 1])):
            c = cases[idx]
            samples.append({"id": c["id"], "name": c["name"], "rust_type": c.get("ty"), "model_term": c.get("coq"),
                            "expected": exp[c["id"]], "actual": act.get(c["id"], [])})
    return mismatches, samples


def report(tag, cases, mismatches, samples, extra_summary, json_path, t0, compile_probes, log, crash):
    wall = round(time.time() - t0, 2)
    if json_path:
        os.makedirs(os.path.dirname(os.path.abspath(json_path)), exist_ok=True)
        with open(json_path, "w") as f:
            json.dump({"check": tag, "cases": len(cases), "mismatches": mismatches[:50],
                       "mismatch_count": len(mismatches), "samples": samples,
                       "compile_probes": compile_probes, "wall_s": wall, "crash": crash,
                       "commands": log, **extra_summary}, f, indent=1)
    bad_cp = [p for p in compile_probes if p["expected"] != p["got"]]
    if mismatches or bad_cp:
        print("%s FAIL mismatches=%d compile_probe_failures=%d cases=%d wall_s=%s" % (
            tag, len(mismatches), len(bad_cp), len(cases), wall))
        for n, m in enumerate(mismatches[:2]):
            print("%s mismatching case: id=%s name=%s" % ("first" if n == 0 else "next", m["id"], m["name"]))
            if m.get("rust_type"):
                print("  rust type : %s" % m["rust_type"])
            if m.get("model_term"):
                print("  model term: %s" % m["model_term"])
            print("  expected  : %s" % m["expected"])
            print("  actual    : %s" % m["actual"])
        for p in bad_cp:
            print("compile probe %s: expected %s, got %s" % (p["name"], p["expected"], p["got"]))
        if crash:
            print("probe crash: %s" % crash)
        return 1
    print("%s ok cases=%d %s wall_s=%s" % (tag, len(cases), " ".join("%s=%s" % kv for kv in extra_summary.items()), wall))
    return 0


def main():
    ap = argparse.ArgumentParser()
    ap.add_argument("--repo", default="/repo", help="working tree of the crate under test")
    ap.add_argument("--json", default=None)
    a = ap.parse_args()
    t0 = time.time()
    log = []
    import gen_container_probes as gen

    crate = os.path.join(VERIF, "probes", "containers")
    out = os.path.join(VERIF, "build", "containers")
    try:
        cases = gen.cases()
        gen.write_if_changed(os.path.join(crate, "src", "generated.rs"), gen.gen_rust(cases))
        case_files, _ = gen.write_coq_chunks(cases, out)
        build_coq_model(log)
        rows = eval_cases(case_files, log)
        build_dir, binary = prepare_crate(crate, a.repo, log)
        cargo_build(build_dir, log)
        actual, crash = run_probe(binary, log)
        mismatches, samples = compare(cases, rows, actual, crash)
    except CheckError as e:
        print("CONTAINERS ERROR %s" % e)
        if a.json:
            with open(a.json, "w") as f:
                json.dump({"check": "CONTAINERS", "error": str(e), "cases": 0, "mismatches": [], "samples": [],
                           "compile_probes": [], "wall_s": round(time.time() - t0, 2)}, f, indent=1)
        return 1
    distinct = len(set(c["ty"] for c in cases))
    return report("CONTAINERS", cases, mismatches, samples, {"distinct_shapes": distinct, "repo": os.path.abspath(a.repo)},
                  a.json, t0, [], log, crash)


if __name__ == "__main__":
    sys.exit(main())
