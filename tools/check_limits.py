#!/usr/bin/env python3
"""C16 limit probe (component of ./check C16): drives the public API of the crate at /repo to the
strong and weak pointer limits and compares what it observes with the values that follow from the
constants of the Coq development (Hdr.max_rc, Hdr.max_weak, read with coqc on every run).

  check_limits.py [--json PATH]

Scenarios (probes/limits): weak limit reached by Weak::clone / Cc::downgrade / mixed, object
uniquely owned or in a cycle, before and AFTER the object's death; strong limit reached by
Cc::clone / Weak::upgrade / mixed, with a side record, object fresh or already finalized, unique
or self-cyclic; at the limit every creating operation panics with both counts unchanged, one below
it exactly one more creation succeeds, the flags sharing the words (finalized, side record,
accessible) are intact, and afterwards the object is finalized once (never if already finalized),
destroyed once, and every byte is freed.  Debug and release builds.
Prints `LIMITS ok scenarios=<n> facts=<n>` and exits 0, or the mismatching facts and exits 1."""
import argparse, json, os, re, shutil, subprocess, sys
sys.path.insert(0, os.path.dirname(os.path.abspath(__file__)))
import rcc


def consts():
    d = os.path.join(rcc.BUILD, 'limits')
    os.makedirs(d, exist_ok=True)
    v = os.path.join(d, 'Consts.v')
    open(v, 'w').write('From Coq Require Import NArith.\nFrom RC Require Import Hdr.\nOpen Scope N_scope.\nEval vm_compute in (max_rc, max_weak).\n')
    rc, out = rcc.sh(['coqc', '-noglob', '-Q', rcc.COQ, 'RC', v], check=False, cwd=d, timeout=120)
    m = re.search(r'\((\d+)%N?, (\d+)%N?\)|\((\d+), (\d+)\)', ' '.join(out.split()))
    if rc != 0 or not m:
        raise RuntimeError('cannot read Hdr.max_rc / Hdr.max_weak: ' + out[-300:])
    g = [x for x in m.groups() if x]
    return int(g[0]), int(g[1])


def expected(MR, MW):
    e = {}
    for how in ('clone', 'downgrade', 'mixed'):
        for cyc in (False, True):
            n = f"weak_{how}_{'cycle' if cyc else 'unique'}"
            dead = 2 if cyc else 1
            e[n] = dict(at=MW, p_clone=1, after_clone=MW, p_down=1, after_down=MW, up_some=1, strong_with_up=3 if cyc else 2,
                        strong=2 if cyc else 1, below=MW - 1, p_again=0, back=MW, p_over=1, len=MW, fin=dead, dropped=dead,
                        expected=dead, up_dead=0, strong_dead=0, weak_dead=MW, p_dead=1, weak_dead_after=MW, p_dead_below=0,
                        weak_dead_back=MW, leak=0)
    for how in ('clone', 'upgrade', 'mixed'):
        for cyc in (False, True):
            for pre in (False, True):
                n = f"strong_{how}_{'cycle' if cyc else 'unique'}_{'prefin' if pre else 'fresh'}"
                e[n] = dict(at=MR, p_clone=1, after_clone=MR, p_up=1, after_up=MR, weak=1, finalized=int(pre), below=MR - 1, p_again=0,
                            back=MR, p_over=1, canary=1, after_clear=2 if cyc else 1, fin_before=0, dropped_before=0,
                            fin=0 if pre else 1, dropped=1, up_dead=0, strong_dead=0, weak_dead=1, leak=0)
    return e


def main():
    ap = argparse.ArgumentParser()
    ap.add_argument('--json')
    a = ap.parse_args()
    out = dict(cases=0, mismatches=[], samples=[])
    rcrc = 0
    try:
        MR, MW = consts()
        exp = expected(MR, MW)
        pd = os.path.join(rcc.VERIF, 'probes', 'limits')
        if not os.path.exists(os.path.join(pd, 'Cargo.lock')) and os.path.exists('/repo/Cargo.lock'):
            shutil.copy('/repo/Cargo.lock', os.path.join(pd, 'Cargo.lock'))
        facts = 0
        for release in (False, True):
            cmd = ['cargo', 'build', '--offline', '--target-dir', os.path.join(rcc.BUILD, 'limits-target')] + (['--release'] if release else [])
            with rcc.Lock('cargo-limits'):
                rc, o = rcc.sh(cmd, cwd=pd, env=rcc.ENV, check=False, timeout=1200)
            if rc != 0:
                out['mismatches'].append('the limits probe does not build against /repo: ' + o[-400:])
                break
            exe = os.path.join(rcc.BUILD, 'limits-target', 'release' if release else 'debug', 'limits-probe')
            p = subprocess.run([exe, str(MR), str(MW)], stdout=subprocess.PIPE, stderr=subprocess.STDOUT, text=True, timeout=600)
            got = {}
            for l in p.stdout.splitlines():
                t = l.split()
                if t and t[0] == 'S':
                    got.setdefault(t[1], {}).update({k: int(v) for k, v in (x.split('=') for x in t[2:])})
            prof = 'release' if release else 'debug'
            if p.returncode != 0 or 'DONE' not in p.stdout:
                last = p.stdout.strip().splitlines()[-1:] or ['']
                out['mismatches'].append(f'[{prof}] the probe died (exit {p.returncode}) after: {last[0][:200]}')
            for n, e in exp.items():
                for k, v in e.items():
                    facts += 1
                    g = got.get(n, {}).get(k)
                    if g != v and (p.returncode == 0 or n in got):
                        out['mismatches'].append(f'[{prof}] scenario {n}: {k} = {g}, expected {v} (max_rc={MR}, max_weak={MW} from Hdr.v)')
            out['cases'] += len(exp)
        out['facts'] = facts
        out['samples'] = [dict(constants=dict(max_rc=MR, max_weak=MW), scenario='weak_mixed_cycle', expected=exp['weak_mixed_cycle'])]
    except Exception as ex:
        out['mismatches'].append('limits check could not run: ' + str(ex)[:400])
    if a.json:
        json.dump(out, open(a.json, 'w'), indent=1)
    if out['mismatches']:
        for m in out['mismatches'][:12]:
            print('LIMITS mismatch:', m)
        sys.exit(1)
    print(f"LIMITS ok scenarios={out['cases']} facts={out.get('facts', 0)}")


if __name__ == '__main__':
    main()
