#!/usr/bin/env python3
"""rs2v.py -- translate the leaf arithmetic of rust-cc from Rust source text to Gallina.

Usage: python3 tools/rs2v.py --repo /repo --out /verif/coq/gen      (exit 0; one line per function)

  src/counter_marker.rs            -> CounterMarkerGen.v  (all consts, enum Mark, every fn of impl CounterMarker)
  src/weak/weak_counter_marker.rs  -> WeakCounterGen.v    (all consts, every fn of impl WeakCounterMarker)
  src/config.rs                    -> ConfigGen.v         (DEFAULT_BYTES_THRESHOLD, Config::new, should_collect, adjust)
  src/state.rs                     -> StateGen.v          (State::new, is_tracing, record_(de)allocation, increment_executions_count)
  src/cc.rs                        -> ForwardGen.v        (PartialEq/Ord/PartialOrd/Hash/Debug/Display/Default/AsRef/Borrow for Cc<T>)

The translator tokenizes the whole file (comments, strings, chars/lifetimes, numeric literals), splits
it into items, parses the selected items with a recursive descent / precedence climbing parser and
symbolically executes the function bodies: the result of a body is a decision tree (if / match on
Option / loop call) whose leaves carry the final value of every mutable place, the returned value,
and the debug assertions / overflow side conditions met on that path.  Gallina is printed from that
tree, so the output depends only on the semantics of the accepted subset: comments, whitespace,
attributes, order of functions, names of locals and `utils::cold()` calls do not change it.

FAIL-CLOSED: anything outside the subset inside a translated item raises TranslateError (exit 2) with
file, function, line and construct.  Accepted subset:
  items       const NAME: uN = expr;  struct with named fields (Cell<uN>/Cell<bool>/uN/f64/bool/
              Option<NonZeroUsize>/PhantomData);  #[repr(uN)] enum with explicit discriminants;
              impl Type { fn .. };  impl Trait for Cc<T> { fn .. };  #[cfg(..)] with feature = "..",
              all/any/not, test, rust_cc_verif (every other item kind is skipped, never translated)
  statements  let x = e;  let x: T = e;  let Some(x) = e else { diverging block };  e;  tail e;
              #[cfg(..)] on statements and block expressions
  control     if / else if / else, if let Some(x) = e { } else { }, loop, while, break, return [e],
              block expressions; loops may not nest, may not contain return / debug_assert / overflow
              checked arithmetic, and must assign at least one field
  expressions integer literals (dec/hex/bin/oct, suffixes, _), bool literals, the float literal 0.0
              as comparand, named constants, uN::BITS, uN::MAX, Enum::Variant, locals, parameters;
              ! (bool and integer), + - * & | ^ << >>, == != < <= > >=, && || (short circuit),
              `as` between integers / enum->integer / usize->f64; float: *, <=, >=, == 0.0 only;
              self.f.get() / self.f.set(e) on Cell fields, cell.get() / cell.set(e) on a &Cell<uN>
              parameter, self.f / self.f = e on plain fields (&mut self), self.method(..) of the
              same impl (non mutating), Self::f(&self.cell, ..) for functions taking &Cell<uN>,
              x.checked_shl(n), nz.get() on NonZeroUsize, Some(e) / None, Ok(()) / Err(UnitStruct),
              struct literals with Cell::new(e), debug_assert!/debug_assert_eq!/debug_assert_ne!,
              utils::cold(); the accessors state.allocated_bytes(), possible_cycles.size(),
              layout.size() are bound to parameters by the tables CONFIG_SPEC / STATE_SPEC
  forwarding  *e, &e on &Cc<T> / Cc<T> / &T / T with Deref, == < <= > >= on T, .cmp/.partial_cmp/.eq/
              .lt/.le/.gt/.ge/.hash on T, Trait::method(&T, ..) calls, Debug::fmt / Display::fmt,
              Cc::new(e), <T as Default>::default(), T::default(), !, &&, ||, deref coercion of the
              returned `self`
"""
import sys, os, re, argparse

class TranslateError(Exception):
    pass

CUR = {'file': '?', 'fn': None}

def fail(msg, line=None):
    where = CUR['file']
    if CUR['fn']:
        where += ': fn ' + CUR['fn']
    if line is not None:
        where += ': line %d' % line
    raise TranslateError('%s: %s' % (where, msg))

# ------------------------------------------------------------------------------------------------
# Tokenizer
# ------------------------------------------------------------------------------------------------
class Tok:
    __slots__ = ('kind', 'val', 'line')
    def __init__(self, kind, val, line):
        self.kind, self.val, self.line = kind, val, line
    def __repr__(self):
        return '%s:%r@%d' % (self.kind, self.val, self.line)

PUNCTS = ['<<=', '>>=', '...', '..=', '::', '->', '=>', '==', '!=', '<=', '>=', '&&', '||', '<<', '>>',
          '+=', '-=', '*=', '/=', '%=', '^=', '&=', '|=', '..',
          '+', '-', '*', '/', '%', '^', '!', '&', '|', '=', '<', '>', '@', '.', ',', ';', ':', '#',
          '$', '?', '~', '(', ')', '[', ']', '{', '}']
CHAR_RE = re.compile(r"'(?:\\(?:x[0-9a-fA-F]{2}|u\{[0-9a-fA-F_]+\}|.)|[^\\'\n])'")
IDENT_RE = re.compile(r'[A-Za-z_][A-Za-z0-9_]*')
NUM_RE = re.compile(r'0b[01_]+|0x[0-9a-fA-F_]+|0o[0-7_]+|[0-9][0-9_]*')

def tokenize(text):
    toks = []
    i, n, line = 0, len(text), 1
    while i < n:
        c = text[i]
        if c == '\n':
            line += 1; i += 1; continue
        if c in ' \t\r':
            i += 1; continue
        if text.startswith('//', i):
            j = text.find('\n', i)
            i = n if j < 0 else j
            continue
        if text.startswith('/*', i):
            depth, j = 1, i + 2
            while j < n and depth > 0:
                if text.startswith('/*', j): depth += 1; j += 2
                elif text.startswith('*/', j): depth -= 1; j += 2
                else:
                    if text[j] == '\n': line += 1
                    j += 1
            if depth: fail('unterminated block comment', line)
            i = j; continue
        # raw strings / byte strings
        m = re.match(r'b?r(#*)"', text[i:i + 40])
        if m:
            hashes = m.group(1)
            end = text.find('"' + hashes, i + len(m.group(0)))
            if end < 0: fail('unterminated raw string', line)
            s = text[i:end + 1 + len(hashes)]
            toks.append(Tok('str', s, line)); line += s.count('\n'); i += len(s); continue
        if c == '"' or (c == 'b' and text.startswith('b"', i)):
            j = i + (2 if c == 'b' else 1)
            while j < n and text[j] != '"':
                j += 2 if text[j] == '\\' else 1
            if j >= n: fail('unterminated string', line)
            s = text[i:j + 1]
            toks.append(Tok('str', s, line)); line += s.count('\n'); i = j + 1; continue
        if c == "'" or (c == 'b' and text.startswith("b'", i)):
            k = i + (1 if c == 'b' else 0)
            m = CHAR_RE.match(text, k)
            if m:
                toks.append(Tok('char', text[i:m.end()], line)); i = m.end(); continue
            if c == "'":
                m = IDENT_RE.match(text, i + 1)
                if m:
                    toks.append(Tok('lifetime', text[i:m.end()], line)); i = m.end(); continue
                fail("stray ' character", line)
        if c.isdigit():
            m = NUM_RE.match(text, i)
            j = m.end()
            body = m.group(0)
            is_float = False
            if not body.startswith(('0b', '0x', '0o')):
                if j + 1 < n and text[j] == '.' and text[j + 1].isdigit():
                    m2 = re.compile(r'\.[0-9][0-9_]*').match(text, j)
                    j = m2.end(); is_float = True
                elif (j < n and text[j] == '.' and not text.startswith('..', j)
                      and not (j + 1 < n and (text[j + 1].isalpha() or text[j + 1] == '_'))):
                    j += 1; is_float = True
                m3 = re.compile(r'[eE][+-]?[0-9][0-9_]*').match(text, j)
                if m3:
                    j = m3.end(); is_float = True
            body = text[i:j]
            suffix = ''
            m4 = IDENT_RE.match(text, j)
            if m4:
                suffix = m4.group(0); j = m4.end()
            toks.append(Tok('num', (body, suffix, is_float), line)); i = j; continue
        m = IDENT_RE.match(text, i)
        if m:
            if m.group(0) == 'r' and text.startswith('r#', i):
                m5 = IDENT_RE.match(text, i + 2)
                if m5:
                    toks.append(Tok('ident', m5.group(0), line)); i = m5.end(); continue
            toks.append(Tok('ident', m.group(0), line)); i = m.end(); continue
        for p in PUNCTS:
            if text.startswith(p, i):
                toks.append(Tok('punct', p, line)); i += len(p); break
        else:
            fail('unexpected character %r' % c, line)
    toks.append(Tok('eof', None, line))
    return toks

# ------------------------------------------------------------------------------------------------
# AST
# ------------------------------------------------------------------------------------------------
class Node:
    def __init__(self, kind, line, **kw):
        self.kind = kind; self.line = line
        self.__dict__.update(kw)
    def __repr__(self):
        d = dict(self.__dict__); d.pop('line', None); k = d.pop('kind')
        return '%s(%s)' % (k, ', '.join('%s=%r' % kv for kv in d.items()))

BINPREC = {'*': 12, '/': 12, '%': 12, '+': 11, '-': 11, '<<': 10, '>>': 10, '&': 9, '^': 8, '|': 7,
           '==': 6, '!=': 6, '<': 6, '>': 6, '<=': 6, '>=': 6, '&&': 5, '||': 4, '..': 3, '..=': 3,
           '=': 2, '+=': 2, '-=': 2, '*=': 2, '/=': 2, '%=': 2, '^=': 2, '&=': 2, '|=': 2,
           '<<=': 2, '>>=': 2}
BLOCKLIKE = ('If', 'IfLet', 'Loop', 'While', 'Block')
ITEM_KWS = ('fn', 'struct', 'enum', 'impl', 'use', 'const', 'static', 'mod', 'trait', 'type',
            'macro_rules', 'extern', 'union')

class Parser:
    def __init__(self, toks):
        self.toks = toks; self.i = 0

    # -- token helpers
    def peek(self, k=0): return self.toks[min(self.i + k, len(self.toks) - 1)]
    def next(self):
        t = self.toks[self.i]
        if t.kind != 'eof': self.i += 1
        return t
    def at(self, val, k=0):
        t = self.peek(k); return t.kind in ('punct', 'ident') and t.val == val
    def accept(self, val):
        if self.at(val): return self.next()
        return None
    def expect(self, val):
        if not self.at(val):
            t = self.peek()
            fail('parse error: expected %r but found %r' % (val, t.val), t.line)
        return self.next()
    def ident(self):
        t = self.peek()
        if t.kind != 'ident': fail('parse error: expected identifier, found %r' % (t.val,), t.line)
        return self.next().val
    def split_shift(self):
        """Turn a '>>' (or '>=' / '>>=') token into two tokens when closing generics."""
        t = self.peek()
        if t.kind == 'punct' and t.val in ('>>', '>=', '>>='):
            rest = t.val[1:]
            self.toks[self.i:self.i + 1] = [Tok('punct', '>', t.line), Tok('punct', rest, t.line)]

    # -- attributes: returns list of token lists (contents between the brackets)
    def attrs(self):
        out = []
        while self.at('#') and (self.at('[', 1) or (self.at('!', 1) and self.at('[', 2))):
            self.next(); self.accept('!')
            out.append(self.group('[', ']'))
        return out
    def group(self, op, cl):
        """Consume a balanced delimiter group, return inner tokens."""
        t0 = self.expect(op)
        depth, start = 1, self.i
        while depth:
            t = self.next()
            if t.kind == 'eof': fail('unbalanced %r' % op, t0.line)
            if t.kind == 'punct':
                if t.val in '([{' and len(t.val) == 1: depth += 1
                elif t.val in ')]}' and len(t.val) == 1: depth -= 1
        return self.toks[start:self.i - 1]

    # -- types
    def parse_type(self):
        t = self.peek()
        if self.at('&') or self.at('&&'):
            if self.at('&&'):
                self.toks[self.i:self.i + 1] = [Tok('punct', '&', t.line), Tok('punct', '&', t.line)]
            self.next()
            if self.peek().kind == 'lifetime': self.next()
            mut = bool(self.accept('mut'))
            return ('ref', mut, self.parse_type())
        if self.at('('):
            self.next()
            if self.accept(')'): return ('unit',)
            tys = [self.parse_type()]
            while self.accept(','):
                if self.at(')'): break
                tys.append(self.parse_type())
            self.expect(')')
            return ('tuple', tys) if len(tys) > 1 else tys[0]
        if t.kind == 'ident' and t.val not in ('impl', 'dyn', 'fn', 'unsafe', 'extern', 'for'):
            segs = []
            while True:
                name = self.ident(); args = []
                if self.at('<') or (self.at('::') and self.at('<', 1)):
                    self.accept('::'); args = self.generic_args()
                segs.append((name, args))
                if self.at('::') and self.peek(1).kind == 'ident': self.next(); continue
                break
            return ('path', segs)
        fail('unsupported type syntax starting at %r' % (t.val,), t.line)

    def generic_args(self):
        self.expect('<'); args = []
        while True:
            self.split_shift()
            if self.accept('>'): break
            if self.peek().kind == 'lifetime': self.next(); args.append(('lifetime',))
            elif self.peek().kind == 'num': args.append(('const', self.next().val))
            else: args.append(self.parse_type())
            self.split_shift()
            if not self.accept(','):
                self.split_shift(); self.expect('>'); break
        return args

    def skip_generics(self):
        """Skip a <...> generic parameter list (item headers); returns the skipped tokens."""
        start = self.i
        self.expect('<'); depth = 1
        while depth:
            self.split_shift()
            t = self.next()
            if t.kind == 'eof': fail('unbalanced generics', t.line)
            if t.kind == 'punct' and t.val == '<': depth += 1
            elif t.kind == 'punct' and t.val == '>': depth -= 1
            elif t.kind == 'punct' and t.val == '->': pass
        return self.toks[start:self.i]

    # -- patterns
    def parse_pattern(self):
        t = self.peek()
        if t.kind == 'ident' and t.val == '_':
            self.next(); return Node('PWild', t.line)
        if t.kind == 'ident' and t.val in ('mut', 'ref'):
            fail('unsupported pattern: %s binding' % t.val, t.line)
        if t.kind == 'ident':
            segs = [self.ident()]
            while self.at('::'):
                self.next(); segs.append(self.ident())
            if self.at('('):
                self.next(); pats = []
                while not self.at(')'):
                    pats.append(self.parse_pattern())
                    if not self.accept(','): break
                self.expect(')')
                return Node('PTupleStruct', t.line, path=segs, pats=pats)
            if self.at('{'): fail('unsupported pattern: struct pattern', t.line)
            if len(segs) == 1 and (segs[0][0].islower() or segs[0][0] == '_'):
                return Node('PIdent', t.line, name=segs[0])
            return Node('PPath', t.line, path=segs)
        fail('unsupported pattern starting at %r' % (t.val,), t.line)

    # -- blocks and statements
    def parse_block(self):
        t0 = self.expect('{')
        stmts = []
        while not self.at('}'):
            if self.peek().kind == 'eof': fail('unterminated block', t0.line)
            s = self.parse_stmt()
            if s is not None: stmts.append(s)
        self.expect('}')
        return Node('Block', t0.line, stmts=stmts, attrs=[])

    def parse_stmt(self):
        attrs = self.attrs()
        t = self.peek()
        if self.accept(';'): return None
        if self.at('let'):
            self.next()
            pat = self.parse_pattern(); ty = None; init = None; els = None
            if self.accept(':'): ty = self.parse_type()
            if self.accept('='):
                init = self.parse_expr()
                if self.accept('else'): els = self.parse_block()
            self.expect(';')
            return Node('Let', t.line, pat=pat, ty=ty, init=init, els=els, attrs=attrs)
        if t.kind == 'ident' and t.val in ITEM_KWS and t.val not in ('union', 'macro_rules'):
            fail('unsupported construct: nested item `%s` inside a function body' % t.val, t.line)
        if t.kind == 'ident' and t.val in ('pub', 'unsafe', 'async'):
            fail('unsupported construct: `%s` inside a function body' % t.val, t.line)
        e = self.parse_expr(stmt_start=True)
        if self.accept(';'):
            return Node('ExprStmt', t.line, e=e, semi=True, attrs=attrs)
        if e.kind in BLOCKLIKE or self.at('}'):
            return Node('ExprStmt', t.line, e=e, semi=False, attrs=attrs)
        fail('parse error: expected `;` or `}` after expression, found %r' % (self.peek().val,), self.peek().line)

    # -- expressions
    def parse_expr(self, min_prec=0, no_struct=False, stmt_start=False):
        t = self.peek()
        if stmt_start and t.kind == 'ident' and t.val in ('if', 'loop', 'while', 'match', 'for') or (stmt_start and self.at('{')):
            e = self.parse_primary(no_struct)
            # a block-like expression at the start of a statement is a complete statement
            if self.at('.') or self.at('?'):
                fail('unsupported construct: postfix operator after a block-like statement', t.line)
            return e
        lhs = self.parse_unary(no_struct)
        while True:
            t = self.peek()
            if t.kind == 'ident' and t.val == 'as':
                if 13 < min_prec: break
                self.next(); ty = self.parse_type()
                lhs = Node('Cast', t.line, e=lhs, ty=ty); continue
            if t.kind != 'punct' or t.val not in BINPREC: break
            op = t.val; prec = BINPREC[op]
            if prec < min_prec: break
            self.next()
            if op in ('..', '..='):
                fail('unsupported construct: range expression `%s`' % op, t.line)
            if prec == 2:
                rhs = self.parse_expr(prec, no_struct)
                lhs = Node('Assign', t.line, op=op, lhs=lhs, rhs=rhs)
            else:
                rhs = self.parse_expr(prec + 1, no_struct)
                if prec == 6 and lhs.kind == 'Binary' and BINPREC.get(lhs.op) == 6 and not getattr(lhs, 'paren', False):
                    fail('parse error: chained comparison operators', t.line)
                lhs = Node('Binary', t.line, op=op, l=lhs, r=rhs)
        return lhs

    def parse_unary(self, no_struct):
        t = self.peek()
        if t.kind == 'punct' and t.val in ('!', '-', '*'):
            self.next(); return Node('Unary', t.line, op=t.val, e=self.parse_unary(no_struct))
        if t.kind == 'punct' and t.val in ('&', '&&'):
            self.next()
            mut = bool(self.accept('mut'))
            inner = Node('Unary', t.line, op='&mut' if mut else '&', e=self.parse_unary(no_struct))
            if t.val == '&&': inner = Node('Unary', t.line, op='&', e=inner)
            return inner
        return self.parse_postfix(self.parse_primary(no_struct), no_struct)

    def parse_args(self):
        self.expect('('); args = []
        while not self.at(')'):
            args.append(self.parse_expr())
            if not self.accept(','): break
        self.expect(')')
        return args

    def parse_postfix(self, e, no_struct):
        while True:
            t = self.peek()
            if self.at('.'):
                self.next()
                if self.peek().kind == 'num':
                    n = self.next(); e = Node('Field', t.line, e=e, name=n.val[0]); continue
                name = self.ident()
                if name == 'await': fail('unsupported construct: .await', t.line)
                turbofish = None
                if self.at('::'):
                    self.next(); turbofish = self.generic_args()
                if self.at('('):
                    args = self.parse_args()
                    e = Node('MethodCall', t.line, recv=e, name=name, args=args, turbofish=turbofish)
                else:
                    if turbofish is not None: fail('parse error: turbofish without call', t.line)
                    e = Node('Field', t.line, e=e, name=name)
                continue
            if self.at('('):
                args = self.parse_args(); e = Node('Call', t.line, f=e, args=args); continue
            if self.at('['):
                fail('unsupported construct: index expression', t.line)
            if self.at('?'):
                fail('unsupported construct: `?` operator', t.line)
            return e

    def parse_path_expr(self):
        """Path in expression position; returns (segments, qself)."""
        t = self.peek(); qself = None; segs = []
        if self.at('<'):
            self.next(); ty = self.parse_type(); self.expect('as'); tr = self.parse_type()
            self.split_shift(); self.expect('>'); self.expect('::')
            qself = (ty, tr)
        while True:
            segs.append(self.ident())
            if self.at('::'):
                if self.at('<', 1):
                    self.next(); self.generic_args()  # turbofish on a path: types are not needed
                    if self.at('::'): self.next(); continue
                    break
                if self.peek(1).kind == 'ident': self.next(); continue
            break
        return segs, qself

    def parse_primary(self, no_struct):
        t = self.peek()
        if t.kind == 'num':
            self.next(); body, suffix, is_float = t.val
            return Node('Lit', t.line, lk='float' if (is_float or suffix in ('f32', 'f64')) else 'int',
                        body=body, suffix=suffix)
        if t.kind in ('str', 'char'):
            self.next(); return Node('Lit', t.line, lk=t.kind, body=t.val, suffix='')
        if t.kind == 'lifetime':
            fail('unsupported construct: labeled block/loop', t.line)
        if self.at('('):
            self.next()
            if self.accept(')'): return Node('Unit', t.line)
            e = self.parse_expr()
            if self.at(','):
                fail('unsupported construct: tuple expression', t.line)
            self.expect(')')
            e.paren = True
            return e
        if self.at('{'):
            return self.parse_block()
        if self.at('['): fail('unsupported construct: array expression', t.line)
        if self.at('|') or self.at('||'): fail('unsupported construct: closure', t.line)
        if self.at('<'):
            segs, qself = self.parse_path_expr()
            return Node('Path', t.line, segs=segs, qself=qself)
        if t.kind != 'ident':
            fail('parse error: unexpected token %r in expression' % (t.val,), t.line)
        kw = t.val
        if kw in ('true', 'false'):
            self.next(); return Node('Lit', t.line, lk='bool', body=kw, suffix='')
        if kw == 'if':
            self.next()
            if self.accept('let'):
                pat = self.parse_pattern(); self.expect('=')
                scrut = self.parse_expr(5 + 1, no_struct=True)  # no lazy boolean operators (let chains)
                if self.at('&&') or self.at('||'): fail('unsupported construct: let chain', t.line)
                then = self.parse_block(); els = self.parse_else()
                return Node('IfLet', t.line, pat=pat, scrut=scrut, then=then, els=els)
            cond = self.parse_expr(no_struct=True)
            then = self.parse_block(); els = self.parse_else()
            return Node('If', t.line, cond=cond, then=then, els=els)
        if kw == 'loop':
            self.next(); return Node('Loop', t.line, body=self.parse_block())
        if kw == 'while':
            self.next()
            if self.at('let'): fail('unsupported construct: while let', t.line)
            cond = self.parse_expr(no_struct=True)
            return Node('While', t.line, cond=cond, body=self.parse_block())
        if kw in ('match', 'for', 'unsafe', 'async', 'move', 'const', 'static', 'yield', 'do', 'try', 'box'):
            fail('unsupported construct: `%s` expression' % kw, t.line)
        if kw == 'return':
            self.next()
            e = None
            if not (self.at(';') or self.at('}') or self.at(',') or self.at(')')): e = self.parse_expr()
            return Node('Return', t.line, e=e)
        if kw == 'break':
            self.next()
            if self.peek().kind == 'lifetime': fail('unsupported construct: labeled break', t.line)
            if not (self.at(';') or self.at('}') or self.at(',') or self.at(')')):
                fail('unsupported construct: break with value', t.line)
            return Node('Break', t.line)
        if kw == 'continue':
            self.next()
            if self.peek().kind == 'lifetime': fail('unsupported construct: labeled continue', t.line)
            return Node('Continue', t.line)
        segs, qself = self.parse_path_expr()
        if self.at('!') and (self.at('(', 1) or self.at('[', 1) or self.at('{', 1)):
            self.next()
            op = self.peek().val
            inner = self.group(op, {'(': ')', '[': ']', '{': '}'}[op])
            return Node('MacroCall', t.line, segs=segs, toks=inner)
        if self.at('{') and not no_struct and (segs[-1][0].isupper()):
            self.next(); fields = []
            while not self.at('}'):
                fattrs = self.attrs()
                if self.at('..'): fail('unsupported construct: struct update syntax', self.peek().line)
                ft = self.peek(); fname = self.ident()
                if self.accept(':'): fe = self.parse_expr()
                else: fe = Node('Path', ft.line, segs=[fname], qself=None)
                fields.append((fname, fe, fattrs))
                if not self.accept(','): break
            self.expect('}')
            return Node('StructLit', t.line, segs=segs, fields=fields)
        return Node('Path', t.line, segs=segs, qself=qself)

    def parse_else(self):
        if not self.accept('else'): return None
        if self.at('if'):
            e = self.parse_primary(False)
            return Node('Block', e.line, stmts=[Node('ExprStmt', e.line, e=e, semi=False, attrs=[])], attrs=[])
        return self.parse_block()

# ------------------------------------------------------------------------------------------------
# Items
# ------------------------------------------------------------------------------------------------
class Item:
    def __init__(self, kind, name, attrs, line, **kw):
        self.kind, self.name, self.attrs, self.line = kind, name, attrs, line
        self.__dict__.update(kw)

def skip_item(p):
    """Skip an item we do not translate: ends at `;` or at the close of the first `{}` group."""
    t0 = p.peek()
    semi_only = t0.kind == 'ident' and t0.val in ('use', 'const', 'static', 'type', 'extern')
    depth = 0
    while True:
        t = p.next()
        if t.kind == 'eof': fail('unterminated item', t0.line)
        if t.kind != 'punct': continue
        if t.val in ('(', '[', '{'): depth += 1
        elif t.val in (')', ']', '}'):
            depth -= 1
            if depth == 0 and t.val == '}' and not semi_only:
                return
        elif t.val == ';' and depth == 0:
            return

def skip_vis(p):
    if p.accept('pub'):
        if p.at('('): p.group('(', ')')

def parse_fn_item(p, attrs):
    """At `fn`. Returns Item('fn') with params and a *token range* for the body (parsed lazily)."""
    t0 = p.expect('fn'); name = p.ident(); generics = []
    if p.at('<'): generics = p.skip_generics()
    p.expect('(')
    params = []; selfk = None
    while not p.at(')'):
        p.attrs()
        if p.at('&') and (p.at('self', 1) or (p.at('mut', 1) and p.at('self', 2)) or
                          (p.peek(1).kind == 'lifetime' and (p.at('self', 2) or p.at('self', 3)))):
            p.next()
            if p.peek().kind == 'lifetime': p.next()
            selfk = '&mut self' if p.accept('mut') else '&self'
            p.expect('self')
        elif p.at('self') or (p.at('mut') and p.at('self', 1)):
            p.accept('mut'); p.next(); selfk = 'self'
            if p.accept(':'): p.parse_type()
        else:
            mutpat = bool(p.accept('mut'))
            pat = p.parse_pattern(); p.expect(':')
            if mutpat: pat = Node('PMut', pat.line, inner=pat)
            # `impl Trait` parameters etc. raise here only if the function is translated
            save = p.i
            try:
                ty = p.parse_type()
            except TranslateError as e:
                ty = ('unsupported', str(e))
                p.i = save; depth = 0
                while not ((p.at(',') or p.at(')')) and depth == 0):
                    t = p.next()
                    if t.kind == 'punct' and t.val in '([{<': depth += 1
                    elif t.kind == 'punct' and t.val in ')]}>': depth -= 1
                    elif t.kind == 'punct' and t.val == '>>': depth -= 2
            params.append((pat, ty))
        if not p.accept(','): break
    p.expect(')')
    ret = ('unit',)
    if p.accept('->'):
        save = p.i
        try:
            ret = p.parse_type()
        except TranslateError as e:
            ret = ('unsupported', str(e)); p.i = save
            while not (p.at('{') or p.at(';') or p.at('where')): p.next()
    if p.at('where'):
        while not (p.at('{') or p.at(';')): p.next()
    body = None
    if p.accept(';'): pass
    else:
        start = p.i
        p.group('{', '}')
        body = (start, p.i)
    return Item('fn', name, attrs, t0.line, params=params, selfk=selfk, ret=ret, body=body,
                generics=generics)

def parse_items(p, in_impl=False):
    """Parse the item list of a file (or of an impl body)."""
    items = []
    while p.peek().kind != 'eof' and not (in_impl and p.at('}')):
        attrs = p.attrs()
        t = p.peek()
        if t.kind == 'eof': break
        start = p.i
        skip_vis(p)
        while p.peek().kind == 'ident' and p.peek().val in ('unsafe', 'async', 'default') or \
                (p.at('const') and p.at('fn', 1)) or (p.at('extern') and p.peek(1).kind == 'str' and p.at('fn', 2)):
            p.next()
            if p.peek().kind == 'str': p.next()
        t = p.peek()
        if p.at('fn'):
            items.append(parse_fn_item(p, attrs)); continue
        if p.at('const') and p.peek(1).kind == 'ident' and p.at(':', 2):
            p.next(); name = p.ident(); p.expect(':')
            s = p.i
            depth = 0
            while not (p.at(';') and depth == 0):
                tt = p.next()
                if tt.kind == 'eof': fail('unterminated const', t.line)
                if tt.kind == 'punct' and tt.val in ('(', '[', '{'): depth += 1
                elif tt.kind == 'punct' and tt.val in (')', ']', '}'): depth -= 1
            items.append(Item('const', name, attrs, t.line, rng=(s, p.i)))
            p.expect(';'); continue
        if p.at('struct') and p.peek(1).kind == 'ident':
            p.next(); name = p.ident()
            if p.at('<'): p.skip_generics()
            if p.at('where'):
                while not (p.at('{') or p.at(';')): p.next()
            if p.at('{'):
                s = p.i; p.group('{', '}')
                items.append(Item('struct', name, attrs, t.line, rng=(s, p.i), unit=False))
            elif p.at('('):
                p.group('(', ')'); p.accept(';')
                items.append(Item('struct', name, attrs, t.line, rng=None, unit=False))
            else:
                p.expect(';')
                items.append(Item('struct', name, attrs, t.line, rng=None, unit=True))
            continue
        if p.at('enum') and p.peek(1).kind == 'ident':
            p.next(); name = p.ident()
            if p.at('<'): p.skip_generics()
            s = p.i; p.group('{', '}')
            items.append(Item('enum', name, attrs, t.line, rng=(s, p.i)))
            continue
        if p.at('impl'):
            p.next()
            if p.at('<'): p.skip_generics()
            hs = p.i
            while not p.at('{'):
                if p.peek().kind == 'eof': fail('unterminated impl header', t.line)
                if p.at('<'): p.skip_generics()
                else: p.next()
            header = p.toks[hs:p.i]
            p.expect('{')
            p.attrs()
            sub = parse_items(p, in_impl=True)
            p.expect('}')
            items.append(Item('impl', None, attrs, t.line, header=header, items=sub))
            continue
        p.i = start
        skip_vis(p)
        skip_item(p)
    return items

def impl_header(item):
    """Return (trait_name or None, self_type_name) from impl header tokens (generic args dropped)."""
    names = []; depth = 0
    for t in item.header:
        if t.kind == 'punct' and t.val == '<': depth += 1
        elif t.kind == 'punct' and t.val == '>': depth -= 1
        elif t.kind == 'punct' and t.val == '>>': depth -= 2
        elif depth == 0 and t.kind == 'ident':
            if t.val == 'where': break
            names.append(t.val)
    if 'for' in names:
        k = names.index('for')
        return (names[k - 1] if k > 0 else None, names[-1])
    return (None, names[-1] if names else None)

# cfg evaluation --------------------------------------------------------------------------------
FEATURES_ON = {'finalization', 'weak-ptrs', 'auto-collect', 'std', 'derive', 'cleaners'}
FEATURES_OFF = {'nightly', 'pedantic-debug-assertions'}

def cfg_eval(toks, features=None):
    """Evaluate the predicate of a cfg attribute given as tokens (after `cfg`)."""
    p = Parser(list(toks) + [Tok('eof', None, toks[-1].line if toks else 0)])
    def pred():
        t = p.peek(); name = p.ident()
        if name in ('all', 'any', 'not'):
            p.expect('('); subs = []
            while not p.at(')'):
                subs.append(pred())
                if not p.accept(','): break
            p.expect(')')
            if name == 'all': return all(subs)
            if name == 'any': return any(subs)
            if len(subs) != 1: fail('malformed cfg(not(..))', t.line)
            return not subs[0]
        if name == 'feature':
            p.expect('='); s = p.next()
            f = s.val.strip('"')
            if features is not None and f in features: return features[f]
            if f in FEATURES_ON: return True
            if f in FEATURES_OFF: return False
            fail('unknown cargo feature %r in cfg' % f, t.line)
        if name in ('rust_cc_verif', 'test', 'doc', 'doc_auto_cfg', 'miri'):
            return False
        fail('unsupported cfg predicate `%s`' % name, t.line)
    p.expect('('); r = pred(); p.expect(')')
    return r

def attrs_enabled(attrs, features=None):
    """cfg attributes decide inclusion; every other attribute is semantically irrelevant here."""
    ok = True
    for a in attrs:
        if a and a[0].kind == 'ident' and a[0].val == 'cfg':
            ok = ok and cfg_eval(a[1:], features)
        elif a and a[0].kind == 'ident' and a[0].val == 'cfg_attr':
            pass
    return ok

def attrs_mention_feature(attrs, feat):
    for a in attrs:
        if a and a[0].kind == 'ident' and a[0].val == 'cfg':
            if any(t.kind == 'str' and t.val.strip('"') == feat for t in a): return True
    return False

class SourceFile:
    def __init__(self, path, label):
        self.path, self.label = path, label
        CUR['file'] = label; CUR['fn'] = None
        with open(path) as f: text = f.read()
        self.toks = tokenize(text)
        self.items = parse_items(Parser(self.toks))
    def sub(self, rng):
        s, e = rng
        return Parser(self.toks[s:e] + [Tok('eof', None, self.toks[e - 1].line)])
    def fn_body(self, fn):
        if fn.body is None: fail('function has no body', fn.line)
        return self.sub(fn.body).parse_block()
    def const_expr(self, c):
        p = self.sub(c.rng); ty = p.parse_type(); p.expect('='); e = p.parse_expr()
        if p.peek().kind != 'eof': fail('parse error: trailing tokens in const %s' % c.name, c.line)
        return ty, e
    def struct_fields(self, st):
        if st.rng is None: fail('struct %s has no named fields' % st.name, st.line)
        s, e = st.rng
        p = Parser(self.toks[s + 1:e - 1] + [Tok('eof', None, st.line)])
        out = []
        while p.peek().kind != 'eof':
            attrs = p.attrs(); skip_vis(p)
            name = p.ident(); p.expect(':'); ty = p.parse_type()
            out.append((name, ty, attrs))
            if not p.accept(','): break
        return out
    def enum_variants(self, en):
        s, e = en.rng
        p = Parser(self.toks[s + 1:e - 1] + [Tok('eof', None, en.line)])
        out = []
        while p.peek().kind != 'eof':
            p.attrs(); name = p.ident()
            if p.at('(') or p.at('{'): fail('enum %s: variant %s carries data (unsupported)' % (en.name, name), en.line)
            disc = None
            if p.accept('='): disc = p.parse_expr()
            out.append((name, disc))
            if not p.accept(','): break
        return out

# ------------------------------------------------------------------------------------------------
# Gallina terms
#   ('id', name) ('num', n) ('bool', b) ('app', head, [args]) ('infix', op, a, b)
#   ('if', c, a, b) ('tuple', [ts]) ('rec', ctor, [(field, t)]) ('some', t) ('none',)
#   ('matchopt', scrut, var, some_t, none_t)
# ------------------------------------------------------------------------------------------------
TRUE, FALSE = ('bool', True), ('bool', False)
COQ_KEYWORDS = {'at', 'as', 'in', 'if', 'then', 'else', 'fun', 'let', 'match', 'end', 'with', 'return',
                'fix', 'cofix', 'forall', 'exists', 'Type', 'Prop', 'Set', 'SProp', 'using', 'where',
                'for', 'IF', 'struct', 'mod', 'by'}

def cid(name):
    return name + '_' if name in COQ_KEYWORDS else name

def app(h, *args): return ('app', h, list(args))

def negb(t):
    if t[0] == 'app' and t[1] == 'negb': return t[2][0]
    if t == TRUE: return FALSE
    if t == FALSE: return TRUE
    return app('negb', t)

def conj(ts):
    out = []
    for t in ts:
        if t == TRUE or t in out: continue
        out.append(t)
    if not out: return TRUE
    r = out[0]
    for t in out[1:]: r = ('infix', '&&', r, t)
    return r

def mk_if(c, a, b):
    if a == b: return a
    if c == TRUE: return a
    if c == FALSE: return b
    return ('if', c, a, b)

def free_ids(t, acc=None):
    if acc is None: acc = set()
    k = t[0]
    if k == 'id': acc.add(t[1])
    elif k == 'app':
        for a in t[2]: free_ids(a, acc)
    elif k == 'infix': free_ids(t[2], acc); free_ids(t[3], acc)
    elif k == 'if':
        for a in t[1:]: free_ids(a, acc)
    elif k == 'tuple':
        for a in t[1]: free_ids(a, acc)
    elif k == 'rec':
        for _, a in t[2]: free_ids(a, acc)
    elif k == 'some': free_ids(t[1], acc)
    elif k == 'matchopt':
        free_ids(t[1], acc); free_ids(t[4], acc)
        inner = free_ids(t[3]); inner.discard(t[2]); acc |= inner
    elif k == 'matchloop':
        free_ids(t[1], acc)
        inner = free_ids(t[3]); inner -= set(t[2]); acc |= inner
    return acc

def rename_id(t, old, new):
    k = t[0]
    if k == 'id': return ('id', new) if t[1] == old else t
    if k == 'app': return ('app', t[1], [rename_id(a, old, new) for a in t[2]])
    if k == 'infix': return ('infix', t[1], rename_id(t[2], old, new), rename_id(t[3], old, new))
    if k == 'if': return ('if',) + tuple(rename_id(a, old, new) for a in t[1:])
    if k == 'tuple': return ('tuple', [rename_id(a, old, new) for a in t[1]])
    if k == 'rec': return ('rec', t[1], [(f, rename_id(a, old, new)) for f, a in t[2]])
    if k == 'some': return ('some', rename_id(t[1], old, new))
    if k == 'matchopt':
        return ('matchopt', rename_id(t[1], old, new), t[2], rename_id(t[3], old, new), rename_id(t[4], old, new))
    if k == 'matchloop':
        return ('matchloop', rename_id(t[1], old, new), t[2], rename_id(t[3], old, new))
    return t

ATOMIC = ('id', 'num', 'bool', 'none', 'tuple', 'rec')

def pp(t, ind=0, top=False):
    """Pretty print a term. Non-atomic sub terms are parenthesised."""
    k = t[0]; pad = ' ' * ind
    def sub(x):
        s = pp(x, ind + 2)
        return s if x[0] in ATOMIC else '(' + s + ')'
    if k == 'id': return cid(t[1])
    if k == 'num': return str(t[1])
    if k == 'bool': return 'true' if t[1] else 'false'
    if k == 'none': return 'None'
    if k == 'some': return 'Some ' + sub(t[1])
    if k == 'app':
        return t[1] + ''.join(' ' + sub(a) for a in t[2])
    if k == 'infix':
        return '%s %s %s' % (sub(t[2]), t[1], sub(t[3]))
    if k == 'tuple':
        return '(' + ', '.join(pp(a, ind + 2) for a in t[1]) + ')'
    if k == 'rec':
        return '{| ' + '; '.join('%s := %s' % (f, pp(a, ind + 2)) for f, a in t[2]) + ' |}'
    if k == 'if':
        return 'if %s\n%sthen %s\n%selse %s' % (pp(t[1], ind + 2), pad + '  ', pp(t[2], ind + 2),
                                               pad + '  ', pp(t[3], ind + 2))
    if k == 'matchopt':
        return ('match %s with\n%s| Some %s => %s\n%s| None => %s\n%send' %
                (pp(t[1], ind + 2), pad + '  ', cid(t[2]), pp(t[3], ind + 4), pad + '  ', pp(t[4], ind + 4), pad + '  '))
    if k == 'matchloop':
        vs = t[2]
        pat = cid(vs[0]) if len(vs) == 1 else '(' + ', '.join(cid(v) for v in vs) + ')'
        return ('match %s with\n%s| Some %s => %s\n%s| None => None\n%send' %
                (pp(t[1], ind + 2), pad + '  ', pat, pp(t[3], ind + 4), pad + '  ', pad + '  '))
    raise AssertionError(t)

# Integer types ------------------------------------------------------------------------------------
INT_BITS = {'u8': 8, 'u16': 16, 'u32': 32, 'u64': 64, 'usize': 64}
INT_MOD = {'u16': 'U16', 'u32': 'U32', 'usize': 'Usz', 'u64': 'Usz'}

def int_mod(ty, line):
    if ty not in INT_MOD: fail('unsupported integer type %s for arithmetic' % (ty,), line)
    return INT_MOD[ty]

def coq_type(ty):
    if ty in INT_BITS: return 'N'
    if ty == 'bool': return 'bool'
    if ty == 'f64': return 'F'
    if ty == 'nzusize': return 'N'
    if isinstance(ty, tuple) and ty[0] == 'option': return 'option ' + coq_type(ty[1])
    if isinstance(ty, tuple) and ty[0] == 'enum': return ty[1]
    if isinstance(ty, tuple) and ty[0] == 'struct': return ty[1]
    if ty == 'result': return 'bool'
    fail('no Coq type for %r' % (ty,))

class ConstEvalError(Exception):
    pass

def ceval(t, consts):
    """Evaluate a closed integer term exactly like rustc's const evaluator would (overflow = error)."""
    k = t[0]
    if k == 'num': return t[1]
    if k == 'id':
        if t[1] in consts: return consts[t[1]]['value']
        raise ConstEvalError('not a constant: ' + t[1])
    if k == 'app':
        h = t[1]
        m = re.match(r'(U16|U32|Usz)\.(\w+)$', h)
        if m:
            bits = {'U16': 16, 'U32': 32, 'Usz': 64}[m.group(1)]; op = m.group(2)
            a = [ceval(x, consts) for x in t[2]]
            if a[0] is None or (len(a) > 1 and a[1] is None): raise ConstEvalError('non-integer')
            M = 1 << bits
            def chk(v):
                if not (0 <= v < M): raise ConstEvalError('arithmetic overflow in constant expression')
                return v
            if op == 'add': return chk(a[0] + a[1])
            if op == 'sub': return chk(a[0] - a[1])
            if op == 'mul': return chk(a[0] * a[1])
            if op == 'shl':
                if a[1] >= bits: raise ConstEvalError('shift overflow in constant expression')
                return (a[0] << a[1]) % M
            if op == 'shr':
                if a[1] >= bits: raise ConstEvalError('shift overflow in constant expression')
                return a[0] >> a[1]
            if op == 'not': return (M - 1) ^ a[0]
            if op == 'and': return a[0] & a[1]
            if op == 'or': return a[0] | a[1]
            if op == 'xor': return a[0] ^ a[1]
            if op == 'trunc': return a[0] % M
        raise ConstEvalError('cannot evaluate ' + h)
    raise ConstEvalError('cannot evaluate term')

# ------------------------------------------------------------------------------------------------
# Symbolic execution of function bodies
# ------------------------------------------------------------------------------------------------
class Env:
    def __init__(self):
        self.locals = {}   # rust local / parameter name -> (term, type)
        self.cells = {}    # mutable places: self field name, or '@'+name for a &Cell parameter
        self.asserts = []  # debug assertions met so far on this path
        self.ovfs = []     # "no overflow" side conditions met so far on this path
    def clone(self):
        e = Env()
        e.locals = dict(self.locals); e.cells = dict(self.cells)
        e.asserts = list(self.asserts); e.ovfs = list(self.ovfs)
        return e

def leaf(kind, env, val=None):
    return ('leaf', kind, env, val)

UNITV = (('id', 'tt'), 'unit')

def tree_then(tree, k):
    """Continue execution at every fall-through leaf."""
    tag = tree[0]
    if tag == 'leaf':
        return k(tree[2], tree[3]) if tree[1] == 'fall' else tree
    if tag == 'if': return ('if', tree[1], tree_then(tree[2], k), tree_then(tree[3], k))
    if tag == 'matchopt': return ('matchopt', tree[1], tree[2], tree_then(tree[3], k), tree_then(tree[4], k))
    if tag == 'loopbind': return ('loopbind', tree[1], tree[2], tree_then(tree[3], k))
    raise AssertionError(tag)

def tree_leaves(tree):
    tag = tree[0]
    if tag == 'leaf': yield tree
    elif tag == 'if': yield from tree_leaves(tree[2]); yield from tree_leaves(tree[3])
    elif tag == 'matchopt': yield from tree_leaves(tree[3]); yield from tree_leaves(tree[4])
    elif tag == 'loopbind': yield from tree_leaves(tree[3])

def tree_to_term(tree, leaf_fn):
    tag = tree[0]
    if tag == 'leaf': return leaf_fn(tree[1], tree[2], tree[3])
    if tag == 'if': return mk_if(tree[1], tree_to_term(tree[2], leaf_fn), tree_to_term(tree[3], leaf_fn))
    if tag == 'matchopt':
        a, b = tree_to_term(tree[3], leaf_fn), tree_to_term(tree[4], leaf_fn)
        if a == b and tree[2] not in free_ids(a): return a
        return ('matchopt', tree[1], tree[2], a, b)
    if tag == 'loopbind':
        return ('matchloop', tree[1], tree[2], tree_to_term(tree[3], leaf_fn))
    raise AssertionError(tag)

def walk(node):
    """All AST nodes below (and including) node."""
    if isinstance(node, Node):
        yield node
        for k, v in node.__dict__.items():
            if k in ('kind', 'line'): continue
            yield from walk(v)
    elif isinstance(node, (list, tuple)):
        for x in node: yield from walk(x)

def macro_args(node):
    """Parse the arguments of a macro invocation as comma separated expressions (cached)."""
    if not hasattr(node, 'parsed'):
        toks = list(node.toks)
        p = Parser(toks + [Tok('eof', None, node.line)])
        args = []
        while p.peek().kind != 'eof':
            args.append(p.parse_expr())
            if not p.accept(','): break
        if p.peek().kind != 'eof': fail('parse error in macro arguments', node.line)
        node.parsed = args
    return node.parsed

def snake(name):
    return re.sub(r'(?<!^)(?=[A-Z])', '_', name).lower()

EXT_TYPES = {'State', 'PossibleCycles', 'Layout'}

class FnInfo:
    pass

class ModuleTranslator:
    """Translates one `impl Struct { .. }` (plus the file's constants and enums).

    mode 'record'  : self is a Coq record of the Cell fields, functions take/return the record.
    mode 'exploded': the fields a function uses are separate parameters, fixed by `spec`.
    """
    def __init__(self, sf, struct_name, mode, spec=None, hintdb='gen'):
        self.sf, self.struct_name, self.mode, self.spec, self.hintdb = sf, struct_name, mode, spec or {}, hintdb
        self.consts = {}; self.const_order = []
        self.enums = {}
        self.out = []          # emitted vernacular chunks
        self.report = []       # one line per translated function
        self.features = None
        self.globals = set()
        self.uses_float = False
        CUR['file'] = sf.label; CUR['fn'] = None
        self.collect()

    # ---- type translation
    def tty(self, ty, line=None):
        if ty[0] == 'unit': return 'unit'
        if ty[0] == 'unsupported': fail('unsupported type in signature (%s)' % ty[1], line)
        if ty[0] == 'ref': return ('ref', self.tty(ty[2], line))
        if ty[0] == 'tuple': fail('unsupported type: tuple', line)
        segs = ty[1]; name, args = segs[-1]
        if name in INT_BITS and not args:
            if name not in INT_MOD: fail('unsupported integer type %s' % name, line)
            return name
        if name in ('bool', 'f64') and not args: return name
        if name == 'Option' and len(args) == 1: return ('option', self.tty(args[0], line))
        if name == 'NonZeroUsize': return 'nzusize'
        if name == 'Cell' and len(args) == 1: return ('cell', self.tty(args[0], line))
        if name == 'PhantomData': return 'phantom'
        if name == 'Result' and len(args) == 2 and args[0] == ('unit',): return 'result'
        if name in ('Self', self.struct_name) and not args: return ('struct', self.struct_name)
        if name in self.enums: return ('enum', name)
        if name in EXT_TYPES: return ('ext', name)
        fail('unsupported type `%s`' % name, line)

    # ---- collection of constants, struct, enums, functions
    def collect(self):
        sf = self.sf
        self.struct_item = None; self.fn_items = []
        for it in sf.items:
            if it.kind == 'enum' and attrs_enabled(it.attrs) and self.mode == 'record':
                self.enums[it.name] = it
        for it in sf.items:
            if not attrs_enabled(it.attrs): continue
            if it.kind == 'const': self.consts[it.name] = {'item': it}; self.const_order.append(it.name)
            elif it.kind == 'struct' and it.name == self.struct_name: self.struct_item = it
            elif it.kind == 'impl':
                tr, ty = impl_header(it)
                if tr is None and ty == self.struct_name:
                    for f in it.items:
                        if f.kind == 'fn' and attrs_enabled(f.attrs): self.fn_items.append(f)
                        elif f.kind == 'const': fail('unsupported: associated const %s' % f.name, f.line)
        if self.struct_item is None: fail('struct %s not found' % self.struct_name)
        self.fields = []   # (name, inner type, is_cell, attrs)
        for name, ty, attrs in sf.struct_fields(self.struct_item):
            t = self.tty(ty, self.struct_item.line)
            if t == 'phantom': continue
            if isinstance(t, tuple) and t[0] == 'cell': self.fields.append((name, t[1], True, attrs))
            else: self.fields.append((name, t, False, attrs))
        self.field = {f[0]: f for f in self.fields}
        self.unit_structs = {it.name for it in sf.items if it.kind == 'struct' and it.unit}
        self.fn_by_name = {}
        for f in self.fn_items:
            if f.name in self.fn_by_name: fail('duplicate function %s' % f.name, f.line)
            self.fn_by_name[f.name] = f

    def fcoq(self, fname):
        return fname + '_cell' if self.mode == 'record' else fname

    # ---- constants
    def translate_consts(self, only=None):
        names = self.const_order if only is None else [n for n in self.const_order if n in only]
        done = set()
        def go(name, stack):
            if name in done: return
            if name in stack: fail('cyclic constant definition %s' % name)
            c = self.consts[name]; it = c['item']
            CUR['fn'] = 'const ' + name
            ty, e = self.sf.const_expr(it)
            t = self.tty(ty, it.line)
            if t not in INT_MOD: fail('unsupported constant type for %s' % name, it.line)
            for nd in walk(e):
                if nd.kind == 'Path' and len(nd.segs) == 1 and nd.segs[0] in self.consts and nd.segs[0] != name:
                    go(nd.segs[0], stack + [name])
            CUR['fn'] = 'const ' + name
            env = Env()
            term, vt = self.eval(e, env, t)
            if vt != t: fail('constant %s: expression has type %s, declared %s' % (name, vt, t), it.line)
            try:
                val = ceval(term, self.consts)
            except ConstEvalError as ex:
                fail('constant %s: %s' % (name, ex), it.line)
            c.update(ty=t, term=term, value=val)
            self.globals.add(name)
            self.out.append('(* %s : %s = %d *)\nDefinition %s : N := %s.\n' % (name, t, val, cid(name), pp(term, 2)))
            self.hints.append(cid(name))
            done.add(name)
        for n in names: go(n, [])
        CUR['fn'] = None

    # ---- enums (C-like, with explicit discriminants)
    def translate_enums(self):
        for name, it in sorted(self.enums.items()):
            CUR['fn'] = 'enum ' + name
            repr_ty = None
            for a in it.attrs:
                if a and a[0].val == 'repr':
                    repr_ty = a[2].val if len(a) >= 3 else None
            if repr_ty not in INT_MOD: fail('enum %s needs an integer #[repr]' % name, it.line)
            vs = self.sf.enum_variants(it)
            arms = []
            for v, disc in vs:
                if disc is None: fail('enum %s: variant %s has no explicit discriminant' % (name, v), it.line)
                term, vt = self.eval(disc, Env(), repr_ty)
                arms.append((v, term))
            self.enums[name] = {'variants': [v for v, _ in vs], 'repr': repr_ty}
            self.out.append('Inductive %s : Set := %s.\n' % (name, ' | '.join(v for v, _ in vs)))
            self.out.append('Definition %s_as_%s (m : %s) : N :=\n  match m with\n%s\n  end.\n' % (
                name, repr_ty, name, '\n'.join('  | %s => %s' % (v, pp(t, 4)) for v, t in arms)))
            self.hints.append('%s_as_%s' % (name, repr_ty))
            self.globals.update([name] + [v for v, _ in vs])
        CUR['fn'] = None

    # ---- expression evaluation (pure, value position)
    def lit_int(self, e, expected):
        ty = e.suffix or expected
        if ty not in INT_BITS: fail('cannot infer the type of integer literal %s' % e.body, e.line)
        b = e.body.replace('_', '')
        v = int(b[2:], 2) if b.startswith('0b') else int(b[2:], 16) if b.startswith('0x') else \
            int(b[2:], 8) if b.startswith('0o') else int(b)
        if v >= (1 << INT_BITS[ty]): fail('literal %s out of range for %s' % (e.body, ty), e.line)
        return ('num', v), ty

    def is_untyped_lit(self, e):
        return e.kind == 'Lit' and e.lk == 'int' and not e.suffix

    def state_term(self, env):
        if self.mode != 'record': fail('internal: state_term in exploded mode')
        fs = [(self.fcoq(n), env.cells[n]) for n, _, _, _ in self.fields]
        if all(t == app(fc, ('id', 's')) for fc, t in fs): return ('id', 's')
        return ('rec', None, fs)

    def guarded(self, e, env, guard, expected=None):
        """Evaluate e; its side conditions only count when `guard` holds (short circuit / branch)."""
        sub = env.clone(); sub.asserts = []; sub.ovfs = []
        v = self.eval(e, sub, expected)
        for c in sub.asserts: env.asserts.append(app('implb', guard, c))
        for c in sub.ovfs: env.ovfs.append(app('implb', guard, c))
        return v

    def pure_block(self, blk, env, expected):
        """A block in value position: only `let`s and a tail expression."""
        stmts = [s for s in blk.stmts if attrs_enabled(s.attrs, self.features)]
        if not stmts: return UNITV
        saved = dict(env.locals)
        for s in stmts[:-1]:
            if s.kind != 'Let' or s.els is not None or s.init is None:
                fail('unsupported construct: statement with effects inside a value-position block', s.line)
            self.do_let(s, env)
        last = stmts[-1]
        if last.kind != 'ExprStmt' or last.semi:
            fail('unsupported construct: value-position block without tail expression', last.line)
        v = self.eval(last.e, env, expected)
        env.locals = saved
        return v

    def do_let(self, s, env):
        v = self.eval(s.init, env, self.tty(s.ty, s.line) if s.ty else None)
        if s.ty and self.tty(s.ty, s.line) != v[1]: fail('let: type annotation mismatch', s.line)
        if s.pat.kind == 'PIdent': env.locals[s.pat.name] = v
        elif s.pat.kind == 'PWild': pass
        else: fail('unsupported pattern in let', s.line)

    def eval(self, e, env, expected=None):
        k = e.kind; line = e.line
        if k == 'Lit':
            if e.lk == 'int': return self.lit_int(e, expected)
            if e.lk == 'bool': return (TRUE if e.body == 'true' else FALSE), 'bool'
            if e.lk == 'float': return ('floatlit', e.body, e.suffix), 'f64'
            fail('unsupported literal %s' % e.body, line)
        if k == 'Unit': return UNITV
        if k == 'Path':
            if e.qself: fail('unsupported construct: qualified path', line)
            segs = e.segs
            if len(segs) == 1:
                n = segs[0]
                if n in env.locals: return env.locals[n]
                if n in self.consts:
                    c = self.consts[n]
                    if 'ty' not in c: fail('constant %s used before translation' % n, line)
                    return ('id', n), c['ty']
                if n == 'None':
                    if not (isinstance(expected, tuple) and expected[0] == 'option'):
                        fail('cannot infer the type of None', line)
                    return ('none',), expected
                if n in self.unit_structs: return ('id', n), ('unitstruct', n)
                if n == 'self': fail('unsupported use of `self` as a value', line)
                fail('unknown identifier `%s`' % n, line)
            if len(segs) == 2 and segs[0] in INT_BITS and segs[1] == 'BITS':
                return ('num', INT_BITS[segs[0]]), 'u32'
            if len(segs) == 2 and segs[0] in INT_MOD and segs[1] == 'MAX':
                return ('num', (1 << INT_BITS[segs[0]]) - 1), segs[0]
            if len(segs) == 2 and segs[0] in self.enums and isinstance(self.enums[segs[0]], dict):
                if segs[1] not in self.enums[segs[0]]['variants']: fail('unknown variant %s' % segs[1], line)
                return ('id', segs[1]), ('enum', segs[0])
            fail('unsupported path `%s`' % '::'.join(segs), line)
        if k == 'Unary':
            if e.op == '!':
                t, ty = self.eval(e.e, env, expected)
                if ty == 'bool': return negb(t), 'bool'
                if ty in INT_MOD: return app(INT_MOD[ty] + '.not', t), ty
                fail('unsupported operand type for `!`', line)
            fail('unsupported unary operator `%s`' % e.op, line)
        if k == 'Binary': return self.eval_binary(e, env, expected)
        if k == 'Cast':
            t, ty = self.eval(e.e, env, None)
            to = self.tty(e.ty, line)
            if isinstance(ty, tuple) and ty[0] == 'enum' and to in INT_MOD:
                r = self.enums[ty[1]]['repr']
                t2 = app('%s_as_%s' % (ty[1], r), t)
                if INT_BITS[to] < INT_BITS[r]: t2 = app(INT_MOD[to] + '.trunc', t2)
                return t2, to
            if ty in INT_MOD and to in INT_MOD:
                if INT_BITS[to] < INT_BITS[ty]: t = app(INT_MOD[to] + '.trunc', t)
                return t, to
            if ty == 'usize' and to == 'f64':
                self.uses_float = True
                return app('of_usize', t), 'f64'
            fail('unsupported cast from %s to %s' % (ty, to), line)
        if k == 'Field':
            if e.e.kind == 'Path' and e.e.segs == ['self'] and e.name in self.field:
                name, ty, is_cell, _ = self.field[e.name]
                if is_cell: fail('Cell field `%s` used without .get()/.set()' % name, line)
                return self.read_field(name, env, line), ty
            fail('unsupported field access `.%s`' % e.name, line)
        if k == 'MethodCall': return self.eval_method(e, env, expected)
        if k == 'Call': return self.eval_call(e, env, expected)
        if k == 'If':
            c, cty = self.eval(e.cond, env, 'bool')
            if cty != 'bool': fail('if condition is not bool', line)
            if e.els is None: fail('unsupported construct: value-position `if` without else', line)
            sub1 = env.clone(); sub1.asserts = []; sub1.ovfs = []
            a = self.pure_block(e.then, sub1, expected)
            sub2 = env.clone(); sub2.asserts = []; sub2.ovfs = []
            b = self.pure_block(e.els, sub2, expected or a[1])
            for cnd in sub1.asserts: env.asserts.append(app('implb', c, cnd))
            for cnd in sub1.ovfs: env.ovfs.append(app('implb', c, cnd))
            for cnd in sub2.asserts: env.asserts.append(app('implb', negb(c), cnd))
            for cnd in sub2.ovfs: env.ovfs.append(app('implb', negb(c), cnd))
            if a[1] != b[1]: fail('if branches have different types', line)
            return mk_if(c, a[0], b[0]), a[1]
        if k == 'Block':
            if not attrs_enabled(e.attrs, self.features): fail('cfg-disabled block in value position', line)
            return self.pure_block(e, env, expected)
        if k == 'StructLit': return self.eval_struct(e, env)
        if k == 'MacroCall':
            fail('unsupported construct: macro `%s!` in value position' % '::'.join(e.segs), line)
        fail('unsupported construct: %s expression in value position' % k, line)

    def read_field(self, name, env, line):
        if name not in env.cells:
            fail('field `%s` is not in the binding specification of this function' % name, line)
        self.used_fields.add(name)
        return env.cells[name]

    def eval_binary(self, e, env, expected):
        op, line = e.op, e.line
        if op in ('&&', '||'):
            a, ta = self.eval(e.l, env, 'bool')
            b, tb = self.guarded(e.r, env, a if op == '&&' else negb(a), 'bool')
            if ta != 'bool' or tb != 'bool': fail('operands of `%s` must be bool' % op, line)
            return ('infix', op, a, b), 'bool'
        cmp_ops = ('==', '!=', '<', '<=', '>', '>=')
        exp_l = None if op in cmp_ops else expected
        if op in ('<<', '>>'):
            a, ta = self.eval(e.l, env, expected)
            b, tb = self.eval(e.r, env, 'u32')
        elif self.is_untyped_lit(e.l) and not self.is_untyped_lit(e.r):
            b, tb = self.eval(e.r, env, exp_l)
            a, ta = self.eval(e.l, env, tb)
        else:
            a, ta = self.eval(e.l, env, exp_l)
            b, tb = self.eval(e.r, env, ta)
        if op in ('<<', '>>'):
            if ta not in INT_MOD or tb not in INT_MOD: fail('unsupported operand types for `%s`' % op, line)
            M = INT_MOD[ta]; fn = 'shl' if op == '<<' else 'shr'
            try:
                amount = ceval(b, self.consts)
            except ConstEvalError:
                amount = None
            if amount is None: env.ovfs.append(negb(app('%s.%s_ovf' % (M, fn), a, b)))
            elif amount >= INT_BITS[ta]: fail('shift amount %d overflows %s' % (amount, ta), line)
            return app('%s.%s' % (M, fn), a, b), ta
        if ta == 'f64' or tb == 'f64':
            if ta != tb: fail('mixed float/integer operands', line)
            self.uses_float = True
            def isz(t):
                if t[0] != 'floatlit': return False
                try: return float(t[1].replace('_', '')) == 0.0
                except ValueError: return False
            if a[0] == 'floatlit' and b[0] == 'floatlit': fail('unsupported: float literal arithmetic', line)
            if op == '*':
                if a[0] == 'floatlit' or b[0] == 'floatlit': fail('unsupported: float literal operand of `*`', line)
                return app('fmul', a, b), 'f64'
            if op == '==':
                if isz(b): return app('feq0', a), 'bool'
                if isz(a): return app('feq0', b), 'bool'
                fail('unsupported float comparison: only `== 0.0` is modelled', line)
            if a[0] == 'floatlit' or b[0] == 'floatlit': fail('unsupported float literal operand of `%s`' % op, line)
            if op == '<=': return app('fle', a, b), 'bool'
            if op == '>=': return app('fle', b, a), 'bool'
            fail('unsupported float operator `%s` (only *, <=, >=, == 0.0 are modelled)' % op, line)
        if ta != tb: fail('operand type mismatch for `%s`: %s vs %s' % (op, ta, tb), line)
        if op in cmp_ops:
            if ta in INT_BITS or ta == 'nzusize':
                r = {'==': ('infix', '=?', a, b), '!=': negb(('infix', '=?', a, b)),
                     '<': ('infix', '<?', a, b), '<=': ('infix', '<=?', a, b),
                     '>': ('infix', '<?', b, a), '>=': ('infix', '<=?', b, a)}[op]
                return r, 'bool'
            if ta == 'bool' and op in ('==', '!='):
                r = app('Bool.eqb', a, b)
                return (r if op == '==' else negb(r)), 'bool'
            fail('unsupported comparison on type %s' % (ta,), line)
        if ta not in INT_MOD:
            fail('unsupported operand type %s for `%s`' % (ta, op), line)
        M = INT_MOD[ta]
        if op in ('+', '-', '*'):
            fn = {'+': 'add', '-': 'sub', '*': 'mul'}[op]
            env.ovfs.append(negb(app('%s.%s_ovf' % (M, fn), a, b)))
            return app('%s.%s' % (M, fn), a, b), ta
        if op in ('&', '|', '^'):
            fn = {'&': 'and', '|': 'or', '^': 'xor'}[op]
            return app('%s.%s' % (M, fn), a, b), ta
        fail('unsupported binary operator `%s`' % op, line)

    def cell_key(self, recv, env):
        """If recv denotes a mutable place with .get()/.set(): return (key, inner type)."""
        if recv.kind == 'Field' and recv.e.kind == 'Path' and recv.e.segs == ['self'] and recv.name in self.field:
            name, ty, is_cell, _ = self.field[recv.name]
            if is_cell: return name, ty
        if recv.kind == 'Path' and len(recv.segs) == 1 and ('@' + recv.segs[0]) in env.cells:
            return '@' + recv.segs[0], self.cellparam_ty[recv.segs[0]]
        return None

    def call_fn(self, name, args, env, line, want_value=True):
        """Call of a non-mutating function of the same impl in value position."""
        info = self.fninfo[name]
        if info.loops: fail('unsupported: call to a function containing loops', line)
        if len(args) != len(info.rparams): fail('wrong number of arguments for %s' % name, line)
        targs = []
        for a, (pn, pty) in zip(args, info.rparams):
            t, ty = self.eval(a, env, pty)
            if ty != pty: fail('argument type mismatch in call to %s' % name, line)
            targs.append(t)
        return info, targs

    def eval_method(self, e, env, expected):
        line = e.line; recv = e.recv; name = e.name
        ck = self.cell_key(recv, env)
        if ck is not None:
            key, ty = ck
            if name == 'get' and not e.args:
                if key not in env.cells: fail('field `%s` is not in the binding specification' % key, line)
                if not key.startswith('@'): self.used_fields.add(key)
                return env.cells[key], ty
            if name == 'set': fail('unsupported construct: Cell::set in value position', line)
            fail('unsupported Cell method `%s`' % name, line)
        if recv.kind == 'Path' and recv.segs == ['self']:
            if name not in self.fn_by_name: fail('unknown method `self.%s()`' % name, line)
            if self.mode != 'record': fail('unsupported: call of method `%s` in exploded mode' % name, line)
            info = self.fninfo.get(name)
            if info is None: fail('internal: callee %s not translated yet' % name, line)
            if info.kind != 'method': fail('`%s` is not a &self method' % name, line)
            if info.mutating: fail('unsupported: mutating method `%s` called in value position' % name, line)
            info, targs = self.call_fn(name, e.args, env, line)
            st = self.state_term(env)
            if not info.triv_asserts: env.asserts.append(app(cid(name) + '_asserts', st, *targs))
            if not info.triv_noovf: env.ovfs.append(app(cid(name) + '_noovf', st, *targs))
            return app(cid(name), st, *targs), info.ret
        # external accessors fixed by the binding specification, e.g. state.allocated_bytes()
        if recv.kind == 'Path' and len(recv.segs) == 1 and recv.segs[0] in env.locals:
            t, ty = env.locals[recv.segs[0]]
            if isinstance(ty, tuple) and ty[0] == 'ext':
                key = (ty[1], name)
                if key in self.ext and not e.args:
                    pn, pty = self.ext[key]
                    self.used_ext.add(pn)
                    return ('id', pn), pty
                fail('unsupported external call `%s.%s()` (not in the binding specification)' % (ty[1], name), line)
        t, ty = self.eval(recv, env, None)
        if ty == 'nzusize' and name == 'get' and not e.args: return t, 'usize'
        if ty in INT_MOD and name == 'checked_shl' and len(e.args) == 1:
            a, aty = self.eval(e.args[0], env, 'u32')
            if aty != 'u32': fail('checked_shl: shift amount must be u32', line)
            M = INT_MOD[ty]
            if a == ('num', 1) and M == 'Usz': return app('Usz.checked_shl1', t), ('option', ty)
            return app(M + '.checked_shl', t, a), ('option', ty)
        if ty == 'result' and name in ('is_err', 'is_ok') and not e.args:
            return (t if name == 'is_err' else negb(t)), 'bool'
        fail('unsupported method call `.%s()` on a value of type %s' % (name, ty), line)

    def eval_call(self, e, env, expected):
        line = e.line
        if e.f.kind != 'Path' or e.f.qself: fail('unsupported call target', line)
        segs = e.f.segs
        if segs == ['Some'] and len(e.args) == 1:
            inner = expected[1] if isinstance(expected, tuple) and expected[0] == 'option' else None
            t, ty = self.eval(e.args[0], env, inner)
            return ('some', t), ('option', ty)
        if segs == ['Ok'] and len(e.args) == 1 and e.args[0].kind == 'Unit': return FALSE, 'result'
        if segs == ['Err'] and len(e.args) == 1:
            t, ty = self.eval(e.args[0], env, None)
            if not (isinstance(ty, tuple) and ty[0] == 'unitstruct'): fail('unsupported Err payload', line)
            return TRUE, 'result'
        if segs == ['Cell', 'new'] and len(e.args) == 1:
            inner = expected[1] if isinstance(expected, tuple) and expected[0] == 'cell' else None
            t, ty = self.eval(e.args[0], env, inner)
            return t, ('cell', ty)
        if len(segs) == 2 and segs[0] in ('Self', self.struct_name) and segs[1] in self.fn_by_name:
            name = segs[1]; info = self.fninfo.get(name)
            if info is None: fail('internal: callee %s not translated yet' % name, line)
            if info.kind != 'static': fail('unsupported: call of `%s` in value position' % name, line)
            info, targs = self.call_fn(name, e.args, env, line)
            if not info.triv_asserts: env.asserts.append(app(cid(name) + '_asserts', *targs))
            if not info.triv_noovf: env.ovfs.append(app(cid(name) + '_noovf', *targs))
            return app(cid(name), *targs), info.ret
        fail('unsupported call `%s(..)`' % '::'.join(segs), line)

    def eval_struct(self, e, env):
        line = e.line
        if e.segs not in (['Self'], [self.struct_name]): fail('unsupported struct literal `%s`' % '::'.join(e.segs), line)
        given = {}
        for fname, fe, fattrs in e.fields:
            if not attrs_enabled(fattrs, self.features): continue
            if fname in given: fail('duplicate field %s' % fname, line)
            given[fname] = fe
        vals = []
        for name, ty, is_cell, _ in self.fields:
            if name not in given: fail('struct literal misses field `%s`' % name, line)
            t, vt = self.eval(given.pop(name), env, ('cell', ty) if is_cell else ty)
            want = ('cell', ty) if is_cell else ty
            if vt != want: fail('field `%s`: expected %s, found %s' % (name, want, vt), line)
            vals.append((name, t))
        for name, fe in given.items():
            if fe.kind == 'Path' and fe.segs == ['PhantomData']: continue
            fail('struct literal has unknown field `%s`' % name, line)
        return ('structval', vals), ('struct', self.struct_name)

    # ---- statement / control-flow execution -----------------------------------------------------
    def fresh(self):
        self.nfresh += 1
        return 'x%d' % self.nfresh

    def live_stmts(self, blk):
        if not attrs_enabled(blk.attrs, self.features): fail('cfg-disabled block', blk.line)
        out = []
        for s in blk.stmts:
            for a in s.attrs:
                if a and a[0].kind == 'ident' and a[0].val not in ('cfg', 'allow', 'inline', 'rustfmt', 'doc', 'expect'):
                    fail('unsupported attribute #[%s] on a statement' % a[0].val, s.line)
            if attrs_enabled(s.attrs, self.features): out.append(s)
        return out

    def exec_block(self, blk, env):
        saved = dict(env.locals)
        tree = self.exec_stmts(self.live_stmts(blk), 0, env)
        # block-local names go out of scope at fall-through
        def restore(env2, val):
            env2.locals = {k: v for k, v in env2.locals.items() if k in saved}
            env2.locals.update({k: v for k, v in saved.items()})
            return leaf('fall', env2, val)
        return tree_then(tree, restore)

    def bind_some(self, pat, scrut, env, line):
        """`Some(x)` pattern against an option valued expression. Returns (term, var, inner type, name)."""
        if not (pat.kind == 'PTupleStruct' and pat.path == ['Some'] and len(pat.pats) == 1
                and pat.pats[0].kind in ('PIdent', 'PWild')):
            fail('unsupported pattern (only `Some(x)` is supported)', line)
        t, ty = self.eval(scrut, env, None)
        if not (isinstance(ty, tuple) and ty[0] == 'option'): fail('`Some(x)` pattern on a non-Option value', line)
        var = self.fresh()
        name = pat.pats[0].name if pat.pats[0].kind == 'PIdent' else None
        return t, var, ty[1], name

    def exec_stmts(self, stmts, i, env):
        if i == len(stmts): return leaf('fall', env, UNITV)
        s = stmts[i]; last = (i == len(stmts) - 1)
        if s.kind == 'Let':
            if s.init is None: fail('unsupported construct: let without initializer', s.line)
            if s.els is not None:
                t, var, ity, name = self.bind_some(s.pat, s.init, env, s.line)
                env_none = env.clone()
                none_tree = self.exec_block(s.els, env_none)
                for lf in tree_leaves(none_tree):
                    if lf[1] == 'fall': fail('let-else: the else block must diverge (break/return)', s.line)
                env_some = env.clone()
                if name: env_some.locals[name] = (('id', var), ity)
                return ('matchopt', t, var, self.exec_stmts(stmts, i + 1, env_some), none_tree)
            self.do_let(s, env)
            return self.exec_stmts(stmts, i + 1, env)
        if s.kind != 'ExprStmt': fail('unsupported statement', s.line)
        tree = self.exec_expr(s.e, env)
        if last and not s.semi: return tree
        def cont(env2, val):
            if not s.semi and val[1] != 'unit':
                fail('expression statement without `;` must have type ()', s.line)
            return self.exec_stmts(stmts, i + 1, env2)
        return tree_then(tree, cont)

    def exec_expr(self, e, env):
        k = e.kind; line = e.line
        if k == 'If':
            c, cty = self.eval(e.cond, env, 'bool')
            if cty != 'bool': fail('if condition is not bool', line)
            t1 = self.exec_block(e.then, env.clone())
            t2 = self.exec_block(e.els, env.clone()) if e.els is not None else leaf('fall', env.clone(), UNITV)
            return ('if', c, t1, t2)
        if k == 'IfLet':
            t, var, ity, name = self.bind_some(e.pat, e.scrut, env, line)
            env_some = env.clone()
            if name: env_some.locals[name] = (('id', var), ity)
            t1 = self.exec_block(e.then, env_some)
            t2 = self.exec_block(e.els, env.clone()) if e.els is not None else leaf('fall', env.clone(), UNITV)
            return ('matchopt', t, var, t1, t2)
        if k == 'Block': return self.exec_block(e, env)
        if k in ('Loop', 'While'): return self.exec_loop(e, env)
        if k == 'Return':
            v = self.eval(e.e, env, self.cur_ret) if e.e is not None else UNITV
            return leaf('ret', env, v)
        if k == 'Break': return leaf('brk', env, UNITV)
        if k == 'Continue': return leaf('cont', env, UNITV)
        if k == 'MacroCall':
            name = '::'.join(e.segs)
            if name == 'debug_assert':
                args = macro_args(e)
                if not args: fail('debug_assert! without condition', line)
                c, cty = self.eval(args[0], env, 'bool')
                if cty != 'bool': fail('debug_assert! condition is not bool', line)
                env.asserts.append(c)
                return leaf('fall', env, UNITV)
            if name in ('debug_assert_eq', 'debug_assert_ne'):
                args = macro_args(e)
                if len(args) < 2: fail('%s! needs two arguments' % name, line)
                eq = Node('Binary', line, op='==' if name.endswith('eq') else '!=', l=args[0], r=args[1])
                c, _ = self.eval(eq, env, 'bool')
                env.asserts.append(c)
                return leaf('fall', env, UNITV)
            fail('unsupported construct: macro `%s!`' % name, line)
        if k == 'Call' and e.f.kind == 'Path' and not e.f.qself:
            segs = e.f.segs
            if segs == ['utils', 'cold'] and not e.args:
                return leaf('fall', env, UNITV)     # #[cold] fn cold() {} : a pure optimisation hint
            if len(segs) == 2 and segs[0] in ('Self', self.struct_name) and segs[1] in self.fn_by_name \
                    and self.fninfo.get(segs[1]) is not None and self.fninfo[segs[1]].kind == 'cellfn':
                return self.exec_cellfn_call(e, env)
        if k == 'MethodCall' and e.name == 'set':
            ck = self.cell_key(e.recv, env)
            if ck is not None:
                key, ty = ck
                if len(e.args) != 1: fail('Cell::set takes one argument', line)
                if key not in env.cells: fail('field `%s` is not in the binding specification' % key, line)
                t, vt = self.eval(e.args[0], env, ty)
                if vt != ty: fail('Cell::set: value has type %s, cell holds %s' % (vt, ty), line)
                env.cells[key] = t
                if not key.startswith('@'): self.written.add(key)
                return leaf('fall', env, UNITV)
        if k == 'Assign':
            if e.op != '=': fail('unsupported construct: compound assignment `%s`' % e.op, line)
            l = e.lhs
            if l.kind == 'Field' and l.e.kind == 'Path' and l.e.segs == ['self'] and l.name in self.field:
                name, ty, is_cell, _ = self.field[l.name]
                if is_cell: fail('assignment to a Cell field', line)
                if self.cur_selfk != '&mut self': fail('assignment to a field through &self', line)
                if name not in env.cells: fail('field `%s` is not in the binding specification' % name, line)
                t, vt = self.eval(e.rhs, env, ty)
                if vt != ty: fail('assignment type mismatch for field `%s`' % name, line)
                env.cells[name] = t; self.written.add(name)
                return leaf('fall', env, UNITV)
            fail('unsupported assignment target', line)
        # the declared return type is only a hint for untyped literals / None / Some(..) in tail position
        v = self.eval(e, env, self.cur_ret if k in ('Lit', 'Path', 'Call') else None)
        return leaf('fall', env, v)

    def exec_cellfn_call(self, e, env):
        line = e.line; name = e.f.segs[1]; info = self.fninfo[name]
        nargs = len(info.cellparams) + len(info.rparams)
        if len(e.args) != nargs: fail('wrong number of arguments for %s' % name, line)
        cells = []; targs = []
        for a, (pn, pty, iscell) in zip(e.args, info.allparams):
            if iscell:
                if not (a.kind == 'Unary' and a.op == '&'): fail('cell argument of %s must be `&self.<field>`' % name, line)
                ck = self.cell_key(a.e, env)
                if ck is None or ck[1] != pty: fail('cell argument of %s must be `&self.<field>` of type Cell<%s>' % (name, pty), line)
                if ck[0] in cells: fail('the same cell is passed twice', line)
                cells.append(ck[0]); targs.append(env.cells[ck[0]])
            else:
                t, ty = self.eval(a, env, pty)
                if ty != pty: fail('argument type mismatch in call to %s' % name, line)
                targs.append(t)
        if info.ret != 'unit' or len(cells) != 1: fail('unsupported shape of cell function %s' % name, line)
        if not info.triv_asserts: env.asserts.append(app(cid(name) + '_asserts', *targs))
        if not info.triv_noovf: env.ovfs.append(app(cid(name) + '_noovf', *targs))
        env.cells[cells[0]] = app(cid(name), *targs)
        if not cells[0].startswith('@'): self.written.add(cells[0])
        return leaf('fall', env, UNITV)

    def assigned_cells(self, node, env):
        keys = []
        for nd in walk(node):
            key = None
            if nd.kind == 'MethodCall' and nd.name == 'set':
                ck = self.cell_key(nd.recv, env); key = ck[0] if ck else None
            elif nd.kind == 'Assign' and nd.lhs.kind == 'Field' and nd.lhs.e.kind == 'Path' and nd.lhs.e.segs == ['self']:
                key = nd.lhs.name
            elif nd.kind == 'Call' and nd.f.kind == 'Path' and len(nd.f.segs) == 2 and nd.f.segs[1] in self.fn_by_name:
                info = self.fninfo.get(nd.f.segs[1])
                if info is not None and info.kind == 'cellfn':
                    for a in nd.args:
                        if a.kind == 'Unary' and a.op == '&':
                            ck = self.cell_key(a.e, env)
                            if ck and ck[0] not in keys: keys.append(ck[0])
            elif nd.kind == 'MacroCall':
                if '::'.join(nd.segs).startswith('debug_assert'):
                    for a in macro_args(nd): keys += [x for x in self.assigned_cells(a, env) if x not in keys]
            if key and key not in keys: keys.append(key)
        return keys

    def exec_loop(self, e, env):
        line = e.line
        if self.loop_depth > 0: fail('unsupported construct: nested loop', line)
        order = [f[0] for f in self.fields]
        carried = sorted(self.assigned_cells(e, env), key=lambda k: order.index(k) if k in order else -1)
        for key in carried:
            if key not in env.cells: fail('field `%s` is not in the binding specification' % key, line)
        if not carried: fail('unsupported construct: loop that assigns no field', line)
        lenv = env.clone(); lenv.asserts = []; lenv.ovfs = []
        for key in carried: lenv.cells[key] = ('id', 'cur$' + key)
        self.loop_depth += 1
        if e.kind == 'While':
            c, cty = self.eval(e.cond, lenv, 'bool')
            if cty != 'bool': fail('while condition is not bool', line)
            body = ('if', c, self.exec_block(e.body, lenv.clone()), leaf('brk', lenv.clone(), UNITV))
        else:
            body = self.exec_block(e.body, lenv.clone())
        self.loop_depth -= 1
        def tup(vals): return vals[0] if len(vals) == 1 else ('tuple', vals)
        def leaf_fn(kind, env2, val):
            if env2.asserts or env2.ovfs:
                fail('unsupported: debug assertion or overflow-checked arithmetic inside a loop', line)
            vals = [env2.cells[k] for k in carried]
            if kind in ('fall', 'cont'): return ('app', '$REC', vals)
            if kind == 'brk': return ('some', tup(vals))
            fail('unsupported construct: `return` inside a loop', line)
        term = tree_to_term(body, leaf_fn)
        free = free_ids(term)
        self.nloops += 1
        lname = '%s_loop%d' % (cid(self.cur_name), self.nloops)
        params = [(pn, pt) for pn, pt in self.cur_coq_params if pn in free]
        cnames = []
        for key in carried:
            base = self.fcoq(key.lstrip('@'))
            nm = base if base not in free else base + '_cur'
            if nm in free or nm in [p for p, _ in params] and nm != base: fail('internal: loop variable name clash', line)
            params = [(pn, pt) for pn, pt in params if pn != nm]
            term = rename_id(term, 'cur$' + key, nm); cnames.append(nm)
        def fix(t):
            k = t[0]
            if k == 'app' and t[1] == '$REC':
                return app(lname, ('id', "fuel'"), *[('id', pn) for pn, _ in params], *t[2])
            if k == 'app': return ('app', t[1], [fix(a) for a in t[2]])
            if k == 'infix': return ('infix', t[1], fix(t[2]), fix(t[3]))
            if k == 'if': return ('if', fix(t[1]), fix(t[2]), fix(t[3]))
            if k == 'some': return ('some', fix(t[1]))
            if k == 'matchopt': return ('matchopt', fix(t[1]), t[2], fix(t[3]), fix(t[4]))
            return t
        term = fix(term)
        ctys = [coq_type(self.cellparam_ty[k[1:]] if k.startswith('@') else self.field[k][1]) for k in carried]
        rty = ctys[0] if len(ctys) == 1 else '(' + ' * '.join(ctys) + ')'
        binders = ''.join(' (%s : %s)' % (cid(pn), pt) for pn, pt in params)
        binders += ''.join(' (%s : %s)' % (cid(n), t) for n, t in zip(cnames, ctys))
        self.pending.append(
            'Fixpoint %s (fuel : nat)%s {struct fuel} : option %s :=\n  match fuel with\n  | O => None\n'
            "  | S fuel' =>\n    %s\n  end.\n" % (lname, binders, rty, pp(term, 4)))
        self.hints_loop.append(lname)
        call = app(lname, ('id', 'fuel'), *[('id', pn) for pn, _ in params], *[env.cells[k] for k in carried])
        vars_ = []
        for key in carried:
            v = self.fresh(); vars_.append(v); env.cells[key] = ('id', v)
        return ('loopbind', call, vars_, leaf('fall', env, UNITV))

    # ---- functions -------------------------------------------------------------------------------
    def callees(self, f):
        body = self.sf.fn_body(f)
        out = set()
        for nd in walk(body):
            if nd.kind == 'MacroCall' and '::'.join(nd.segs).startswith('debug_assert'):
                for a in macro_args(nd):
                    for nd2 in walk(a): out |= self.callee_of(nd2)
            out |= self.callee_of(nd)
        out.discard(f.name)
        return out, body

    def callee_of(self, nd):
        if nd.kind == 'MethodCall' and nd.recv.kind == 'Path' and nd.recv.segs == ['self'] and nd.name in self.fn_by_name:
            return {nd.name}
        if nd.kind == 'Call' and nd.f.kind == 'Path' and len(nd.f.segs) == 2 and \
                nd.f.segs[0] in ('Self', self.struct_name) and nd.f.segs[1] in self.fn_by_name:
            return {nd.f.segs[1]}
        return set()

    def topo_order(self, names):
        deps = {}; bodies = {}
        for n in names:
            CUR['fn'] = n
            deps[n], bodies[n] = self.callees(self.fn_by_name[n])
            missing = deps[n] - set(names)
            if missing: fail('calls %s which is not translated' % sorted(missing))
        CUR['fn'] = None
        order = []; done = set()
        while len(order) < len(names):
            ready = sorted(n for n in names if n not in done and deps[n] <= done)
            if not ready: fail('recursive functions are not supported: %s' % sorted(set(names) - done))
            order.append(ready[0]); done.add(ready[0])
        return order, bodies

    def is_mutating(self, body, env):
        return bool(self.assigned_cells(body, env))

    def reset_fn_state(self, f):
        self.nfresh = 0; self.nloops = 0; self.loop_depth = 0; self.pending = []; self.hints_loop = []
        self.used_fields = set(); self.used_ext = set(); self.written = set()
        self.cur_name = f.name; self.cur_selfk = f.selfk
        self.cellparam_ty = {}

    def check_name(self, n, line):
        if n in self.globals or n in ('s', 'fuel', "fuel'", 'tt') or re.match(r'x\d+$', n) or \
                n in ('F', 'of_usize', 'fmul', 'fle', 'feq0', 'feat_fin') or n in self.fn_by_name or \
                any(self.fcoq(fl[0]) == n for fl in self.fields if self.mode == 'record'):
            fail('parameter name `%s` clashes with a generated name' % n, line)

    def translate_record_fn(self, f, body):
        CUR['fn'] = f.name
        self.reset_fn_state(f)
        info = FnInfo(); info.name = f.name; info.loops = False
        info.rparams = []; info.cellparams = []; info.allparams = []
        env = Env()
        for pat, ty in f.params:
            if pat.kind != 'PIdent': fail('unsupported parameter pattern', f.line)
            self.check_name(pat.name, f.line)
            t = self.tty(ty, f.line)
            if isinstance(t, tuple) and t[0] == 'ref' and isinstance(t[1], tuple) and t[1][0] == 'cell' and t[1][1] in INT_MOD:
                info.cellparams.append((pat.name, t[1][1])); info.allparams.append((pat.name, t[1][1], True))
                self.cellparam_ty[pat.name] = t[1][1]
                env.cells['@' + pat.name] = ('id', pat.name)
            elif t in INT_MOD or t == 'bool' or (isinstance(t, tuple) and t[0] == 'enum'):
                info.rparams.append((pat.name, t)); info.allparams.append((pat.name, t, False))
                env.locals[pat.name] = (('id', pat.name), t)
            else:
                fail('unsupported parameter type for `%s`' % pat.name, f.line)
        info.ret = self.tty(f.ret, f.line)
        if f.selfk == '&self':
            info.kind = 'method'
            if info.cellparams: fail('unsupported: &self method with &Cell parameter', f.line)
            for n, _, _, _ in self.fields: env.cells[n] = app(self.fcoq(n), ('id', 's'))
        elif f.selfk is None:
            info.kind = 'cellfn' if info.cellparams else ('ctor' if info.ret == ('struct', self.struct_name) else 'static')
        else:
            fail('unsupported receiver `%s`' % f.selfk, f.line)
        if info.kind == 'method' and info.ret == ('struct', self.struct_name): fail('unsupported return type', f.line)
        if info.ret not in ('unit', 'bool', 'result') and info.ret not in INT_MOD and info.kind != 'ctor':
            fail('unsupported return type %s' % (info.ret,), f.line)
        info.mutating = self.is_mutating(body, env)
        self.cur_ret = info.ret
        rec = snake(self.struct_name)
        params = ([('s', rec)] if info.kind == 'method' else []) + \
                 [(pn, coq_type(pt)) for pn, pt, _ in info.allparams]
        self.cur_coq_params = params
        self.fninfo[f.name] = None     # no recursion
        tree = self.exec_block(body, env)
        if self.nloops: fail('unsupported: loop in a record-mode function', f.line)
        def result(kind, env2, val):
            if kind not in ('fall', 'ret'): fail('`break`/`continue` outside of a loop', f.line)
            vt, vty = val
            if vty != info.ret: fail('returned value has type %s, expected %s' % (vty, info.ret), f.line)
            if info.kind == 'ctor':
                return ('rec', None, [(self.fcoq(n), t) for n, t in vt[1]])
            if info.kind == 'cellfn':
                return env2.cells['@' + info.cellparams[0][0]]
            if info.kind == 'static': return vt
            st = self.state_term(env2)
            if info.ret == 'result': return ('tuple', [st, vt])
            if info.ret == 'unit':
                if not info.mutating: fail('function neither returns a value nor mutates', f.line)
                return st
            return ('tuple', [st, vt]) if info.mutating else vt
        if info.kind == 'ctor': rty = rec
        elif info.kind == 'cellfn':
            if len(info.cellparams) != 1 or info.ret != 'unit': fail('unsupported shape of cell function', f.line)
            rty = 'N'
        elif info.kind == 'static': rty = coq_type(info.ret)
        elif info.ret == 'result': rty = '%s * bool' % rec
        elif info.ret == 'unit': rty = rec
        else: rty = ('%s * %s' % (rec, coq_type(info.ret))) if info.mutating else coq_type(info.ret)
        self.emit_fn(f, info, params, rty, tree, result)
        return info

    def emit_fn(self, f, info, params, rty, tree, result, fuel=False, prefix=None):
        main = tree_to_term(tree, result)
        asserts = tree_to_term(tree, lambda k, e, v: conj(e.asserts))
        noovf = tree_to_term(tree, lambda k, e, v: conj(e.ovfs))
        info.triv_asserts = asserts == TRUE; info.triv_noovf = noovf == TRUE
        self.fninfo[f.name] = info
        self.emit_defs(f.name, params, rty, main, asserts, noovf, fuel)

    def emit_defs(self, name, params, rty, main, asserts, noovf, fuel=False, extra_params=()):
        n = cid(name)
        self.globals.update([n, n + '_asserts', n + '_noovf'])
        b = ''.join(' (%s : %s)' % (cid(pn), pt) for pn, pt in list(extra_params) + list(params))
        for chunk in self.pending: self.out.append(chunk)
        self.out.append('Definition %s%s%s : %s :=\n  %s.\n' % (n, ' (fuel : nat)' if fuel else '', b, rty, pp(main, 2)))
        self.out.append('Definition %s_asserts%s : bool :=\n  %s.\n' % (n, b, pp(asserts, 2)))
        self.out.append('Definition %s_noovf%s : bool :=\n  %s.\n' % (n, b, pp(noovf, 2)))
        self.hints += [n, n + '_asserts', n + '_noovf']
        self.report.append('%s: fn %s -> %s (asserts: %s, overflow checks: %s%s)' % (
            self.sf.label, name, n, 'none' if asserts == TRUE else 'yes', 'none' if noovf == TRUE else 'yes',
            ', loops: %d' % len(self.pending) if self.pending else ''))

    def translate_record_module(self):
        self.hints = []; self.fninfo = {}
        rec = snake(self.struct_name)
        self.globals.update([rec] + [self.fcoq(f[0]) for f in self.fields])
        self.translate_consts()
        self.translate_enums()
        self.out.append('Record %s : Set := mk_%s { %s }.\n' % (
            rec, rec, '; '.join('%s : %s' % (self.fcoq(n), coq_type(t)) for n, t, c, _ in self.fields)))
        for n, t, c, _ in self.fields:
            if not c or t not in INT_MOD: fail('record mode needs Cell<integer> fields (field %s)' % n)
        order, bodies = self.topo_order(sorted(self.fn_by_name))
        for n in order: self.translate_record_fn(self.fn_by_name[n], bodies[n])
        CUR['fn'] = None

    # ---- exploded mode ---------------------------------------------------------------------------
    def translate_exploded_fn(self, name, fspec):
        if name not in self.fn_by_name: fail('function %s not found in impl %s' % (name, self.struct_name))
        f = self.fn_by_name[name]
        CUR['fn'] = name
        body = self.sf.fn_body(f)
        sym = fspec.get('features', {})
        variants = []
        vals = [dict()] if not sym else [{k: True for k in sym}, {k: False for k in sym}]
        if len(sym) > 1: fail('internal: at most one symbolic feature is supported')
        for fv in vals:
            self.features = fv or None
            variants.append(self.exploded_variant(f, body, fspec))
        self.features = None
        params, rty, fuel = variants[0][0], variants[0][1], variants[0][5]
        for v in variants[1:]:
            if v[0] != params or v[1] != rty or v[5] != fuel: fail('cfg variants have different signatures', f.line)
        if len(variants) == 1:
            main, asserts, noovf = variants[0][2:5]; extra = []
        else:
            g = ('id', list(sym.values())[0])
            main, asserts, noovf = [mk_if(g, variants[0][i], variants[1][i]) for i in (2, 3, 4)]
            if variants[0][6] or variants[1][6]: fail('unsupported: loops under a symbolic feature', f.line)
            extra = [(list(sym.values())[0], 'bool')]
        self.pending = variants[0][6]
        info = FnInfo(); info.name = name
        self.emit_defs(name, params, rty, main, asserts, noovf, fuel, extra)
        self.pending = []
        CUR['fn'] = None

    def exploded_variant(self, f, body, fspec):
        self.reset_fn_state(f)
        if f.selfk not in ('&self', '&mut self'): fail('unsupported receiver', f.line)
        env = Env(); params = []
        self.ext = {}
        for p in fspec['params']:
            if p[0] == 'field':
                if p[1] not in self.field: fail('binding specification names unknown field `%s`' % p[1], f.line)
                n, ty, is_cell, _ = self.field[p[1]]
                env.cells[n] = ('id', n); params.append((n, coq_type(ty)))
            else:
                _, key, pn, pty = p
                self.ext[key] = (pn, pty); params.append((pn, coq_type(pty)))
        for pat, ty in f.params:
            if pat.kind != 'PIdent': fail('unsupported parameter pattern', f.line)
            t = self.tty(ty, f.line)
            if isinstance(t, tuple) and t[0] == 'ref': t = t[1]
            if not (isinstance(t, tuple) and t[0] == 'ext'):
                fail('unsupported parameter type for `%s` (only State/PossibleCycles/Layout accessors are bound)' % pat.name, f.line)
            env.locals[pat.name] = (None, t)
        ret = self.tty(f.ret, f.line)
        if ret not in ('unit', 'bool') and ret not in INT_MOD: fail('unsupported return type', f.line)
        self.cur_ret = ret
        self.cur_coq_params = params
        self.fninfo = {}
        written_syn = [k for k in self.assigned_cells(body, env)]
        for k in written_syn:
            if k not in env.cells: fail('field `%s` is assigned but not in the binding specification' % k, f.line)
        wr = [p[1] for p in fspec['params'] if p[0] == 'field' and p[1] in written_syn]
        tree = self.exec_block(body, env)
        fuel = self.nloops > 0
        def result(kind, env2, val):
            if kind not in ('fall', 'ret'): fail('`break`/`continue` outside of a loop', f.line)
            vt, vty = val
            if vty != ret: fail('returned value has type %s, expected %s' % (vty, ret), f.line)
            parts = [env2.cells[k] for k in wr] + ([vt] if ret != 'unit' else [])
            if not parts: fail('function neither returns a value nor assigns a field', f.line)
            r = parts[0] if len(parts) == 1 else ('tuple', parts)
            return ('some', r) if fuel else r
        tys = [coq_type(self.field[k][1]) for k in wr] + ([coq_type(ret)] if ret != 'unit' else [])
        rty = tys[0] if len(tys) == 1 else ' * '.join(tys)
        if fuel: rty = 'option ' + (rty if len(tys) == 1 else '(' + rty + ')')
        main = tree_to_term(tree, result)
        for lf in tree_leaves(tree):
            if fuel and (lf[2].asserts or lf[2].ovfs):
                fail('unsupported: debug assertion / overflow-checked arithmetic in a function with loops', f.line)
        asserts = tree_to_term(tree, lambda k, e, v: conj(e.asserts)) if not fuel else TRUE
        noovf = tree_to_term(tree, lambda k, e, v: conj(e.ovfs)) if not fuel else TRUE
        return (params, rty, main, asserts, noovf, fuel, list(self.pending))

    def initial_values(self, ctor='new'):
        """Initial field values of `const fn new() -> Self { Self { .. } }`."""
        if ctor not in self.fn_by_name: fail('constructor %s not found' % ctor)
        f = self.fn_by_name[ctor]
        CUR['fn'] = ctor
        self.reset_fn_state(f); self.fninfo = {}
        if f.selfk is not None or f.params: fail('unsupported constructor signature', f.line)
        body = self.sf.fn_body(f)
        stmts = self.live_stmts(body)
        if len(stmts) != 1 or stmts[0].kind != 'ExprStmt' or stmts[0].semi or stmts[0].e.kind != 'StructLit':
            fail('constructor body must be a single struct literal', f.line)
        lit = stmts[0].e
        if lit.segs not in (['Self'], [self.struct_name]): fail('unexpected struct literal', lit.line)
        given = {fn: fe for fn, fe, fa in lit.fields if attrs_enabled(fa)}
        for name, ty, is_cell, _ in self.fields:
            if name not in given: fail('constructor misses field `%s`' % name, lit.line)
            fe = given.pop(name)
            dn = '%s_%s_%s' % (self.struct_name, ctor, name)
            if ty == 'f64':
                if is_cell or fe.kind != 'Lit' or fe.lk != 'float' or not re.match(r'^[0-9_]+\.[0-9_]*$|^[0-9_]+$', fe.body):
                    fail('unsupported float initializer for `%s`' % name, fe.line)
                b = fe.body.replace('_', '')
                ip, _, fp = b.partition('.')
                self.out.append('(* %s = %s : mantissa m and decimal exponent e with value m / 10^e *)\n'
                                'Definition %s_dec : N * N := (%d, %d).\n' % (name, fe.body, dn, int(ip + fp), len(fp)))
                self.hints.append(dn + '_dec')
            else:
                t, vt = self.eval(fe, Env(), ('cell', ty) if is_cell else ty)
                if vt != (('cell', ty) if is_cell else ty): fail('initializer type mismatch for `%s`' % name, fe.line)
                self.out.append('Definition %s : %s := %s.\n' % (dn, coq_type(ty), pp(t, 2)))
                self.hints.append(dn)
            self.report.append('%s: %s::%s field %s -> %s' % (self.sf.label, self.struct_name, ctor, name, dn + ('_dec' if ty == 'f64' else '')))
        for name, fe in given.items():
            if fe.kind == 'Path' and fe.segs == ['PhantomData']: continue
            fail('constructor has unknown field `%s`' % name, lit.line)
        CUR['fn'] = None

# ------------------------------------------------------------------------------------------------
# Forwarding trait impls of cc.rs
# ------------------------------------------------------------------------------------------------
FWD_HEADER_VARS = """Variables (T Cc H Fm R : Type).
(* T's own trait methods, bundled in ONE record so that every generated definition takes the whole
   bundle and names the operation it forwards to by projection: [cc_lt] forwarding to [T_le] is a
   different term from [cc_lt] forwarding to [T_lt] (with separate Section variables the two would
   only differ by the *name* of an abstracted argument, which is lost when the Section is closed). *)
Record T_ops : Type := {
  T_eq : T -> T -> bool;                          (* PartialEq::eq *)
  T_cmp : T -> T -> comparison;                   (* Ord::cmp *)
  T_partial_cmp : T -> T -> option comparison;    (* PartialOrd::partial_cmp *)
  T_lt : T -> T -> bool; T_le : T -> T -> bool;   (* PartialOrd::lt / le *)
  T_gt : T -> T -> bool; T_ge : T -> T -> bool;   (* PartialOrd::gt / ge *)
  T_hash : T -> H -> H;                           (* Hash::hash, the hasher state is threaded *)
  T_debug_fmt : T -> Fm -> R;                     (* Debug::fmt *)
  T_display_fmt : T -> Fm -> R;                   (* Display::fmt *)
  T_default : T                                   (* Default::default *)
}.
Variables (deref : Cc -> T) (cc_new : T -> Cc) (ops : T_ops).
"""

def top(name, *args):
    """Application of one of T's operations (a projection of the bundle [ops])."""
    return app(name, ('id', 'ops'), *args)

# trait -> {fn name -> (generated name, expected parameter shape, return kind)}
FWD_REQUIRED = [
    ('PartialEq', 'eq', 'cc_eq', ('self', 'other'), 'bool'),
    ('Ord', 'cmp', 'cc_cmp', ('self', 'other'), 'ordering'),
    ('PartialOrd', 'partial_cmp', 'cc_partial_cmp', ('self', 'other'), 'optordering'),
    ('PartialOrd', 'lt', 'cc_lt', ('self', 'other'), 'bool'),
    ('PartialOrd', 'le', 'cc_le', ('self', 'other'), 'bool'),
    ('PartialOrd', 'gt', 'cc_gt', ('self', 'other'), 'bool'),
    ('PartialOrd', 'ge', 'cc_ge', ('self', 'other'), 'bool'),
    ('Hash', 'hash', 'cc_hash', ('self', 'hasher'), 'unit'),
    ('Debug', 'fmt', 'cc_debug_fmt', ('self', 'fmt'), 'R'),
    ('Display', 'fmt', 'cc_display_fmt', ('self', 'fmt'), 'R'),
    ('Default', 'default', 'cc_default', (), 'Cc'),
    ('AsRef', 'as_ref', 'cc_as_ref', ('self',), 'TRef'),
    ('Borrow', 'borrow', 'cc_borrow', ('self',), 'TRef'),
]
T_BINOPS = {'==': 'T_eq', '<': 'T_lt', '<=': 'T_le', '>': 'T_gt', '>=': 'T_ge'}
T_METHODS = {'eq': ('T_eq', 'bool'), 'lt': ('T_lt', 'bool'), 'le': ('T_le', 'bool'), 'gt': ('T_gt', 'bool'),
             'ge': ('T_ge', 'bool'), 'cmp': ('T_cmp', 'ordering'), 'partial_cmp': ('T_partial_cmp', 'optordering')}
T_TRAIT_OF = {'eq': 'PartialEq', 'lt': 'PartialOrd', 'le': 'PartialOrd', 'gt': 'PartialOrd', 'ge': 'PartialOrd',
              'cmp': 'Ord', 'partial_cmp': 'PartialOrd'}

class ForwardTranslator:
    def __init__(self, sf):
        self.sf = sf; self.out = []; self.report = []; self.hints = []
        CUR['file'] = sf.label; CUR['fn'] = None

    def find(self, trait, fname):
        found = []
        for it in self.sf.items:
            if it.kind == 'impl' and attrs_enabled(it.attrs) and impl_header(it) == (trait, 'Cc'):
                for f in it.items:
                    if f.kind == 'fn' and f.name == fname and attrs_enabled(f.attrs): found.append(f)
        if len(found) != 1:
            fail('expected exactly one `fn %s` in `impl %s for Cc<T>` (found %d); a missing method means the '
                 'trait default is used, which this translator does not model' % (fname, trait, len(found)))
        return found[0]

    def ptype(self, ty, line):
        """Classify a parameter / return type of the forwarding impls."""
        if ty[0] == 'unit': return 'unit'
        if ty[0] == 'unsupported': fail('unsupported type in signature', line)
        if ty[0] == 'ref':
            inner = self.ptype(ty[2], line)
            if inner in ('Cc', 'T', 'Hm', 'Fmt'): return inner + 'Ref'
            fail('unsupported reference type', line)
        if ty[0] == 'path':
            name, args = ty[1][-1]
            if name == 'Self' and not args: return 'Cc'
            if name == 'Cc': return 'Cc'
            if name == 'T' and not args: return 'T'
            if name == 'bool': return 'bool'
            if name == 'Ordering': return 'ordering'
            if name == 'Option' and len(args) == 1 and self.ptype(args[0], line) == 'ordering': return 'optordering'
            if name == 'Formatter': return 'Fmt'
            if name == 'Result' and [s for s, _ in ty[1]] == ['fmt', 'Result'] and not args: return 'R'
            if name == 'H' and not args: return 'Hm'
        fail('unsupported type in forwarding impl signature', line)

    def translate_fn(self, trait, fname, gname, shape, retk):
        f = self.find(trait, fname)
        CUR['fn'] = '%s::%s' % (trait, fname)
        line = f.line
        env = {}; binders = []; self.hasher = None
        if shape and shape[0] == 'self':
            if f.selfk != '&self': fail('expected a `&self` receiver', line)
            env['self'] = (('id', 'a'), 'CcRef'); binders.append(('a', 'Cc'))
        elif f.selfk is not None: fail('unexpected receiver', line)
        want = list(shape[1:]) if shape and shape[0] == 'self' else list(shape)
        if len(f.params) != len(want): fail('unexpected number of parameters', line)
        for (pat, ty), w in zip(f.params, want):
            if pat.kind != 'PIdent': fail('unsupported parameter pattern', line)
            pt = self.ptype(ty, line)
            if w == 'other':
                if pt != 'CcRef': fail('parameter `%s` must have type &Self' % pat.name, line)
                env[pat.name] = (('id', 'b'), 'CcRef'); binders.append(('b', 'Cc'))
            elif w == 'hasher':
                if pt != 'HmRef' or ty[1] is not True: fail('parameter `%s` must have type &mut H' % pat.name, line)
                env[pat.name] = (('id', 'st'), 'HmRef'); binders.append(('st', 'H')); self.hasher = pat.name
            elif w == 'fmt':
                if pt != 'FmtRef' or ty[1] is not True: fail('parameter `%s` must have type &mut Formatter' % pat.name, line)
                env[pat.name] = (('id', 'f'), 'FmtRef'); binders.append(('f', 'Fm'))
        rk = self.ptype(f.ret, line)
        if rk != retk: fail('unexpected return type (%s, expected %s)' % (rk, retk), line)
        body = self.sf.fn_body(f)
        stmts = [s for s in body.stmts if attrs_enabled(s.attrs)]
        for s in stmts[:-1]:
            if s.kind == 'Let' and s.els is None and s.init is not None and s.pat.kind == 'PIdent' and s.ty is None:
                env[s.pat.name] = self.ev(s.init, env)
            else:
                fail('unsupported statement in forwarding impl', s.line)
        if not stmts or stmts[-1].kind != 'ExprStmt': fail('empty or unsupported body', line)
        last = stmts[-1]
        if retk == 'unit':
            # Hash::hash: one call with effect on the hasher
            if not last.semi and last.e.kind in BLOCKLIKE: fail('unsupported body', last.line)
            term = self.ev_hash(last.e, env)
            rty = 'H'
        else:
            if last.semi: fail('body must end with a tail expression', last.line)
            term, ty = self.ev(last.e, env)
            if retk == 'TRef' and ty == 'CcRef': term, ty = app('deref', term), 'TRef'   # deref coercion &Cc<T> -> &T
            if ty != retk: fail('body has type %s, expected %s' % (ty, retk), last.line)
            rty = {'bool': 'bool', 'ordering': 'comparison', 'optordering': 'option comparison', 'R': 'R',
                   'Cc': 'Cc', 'TRef': 'T'}[retk]
        b = ''.join(' (%s : %s)' % bt for bt in binders)
        self.out.append('Definition %s%s : %s :=\n  %s.\n' % (gname, b, rty, pp(term, 2)))
        self.hints.append(gname)
        self.report.append('%s: impl %s for Cc<T>: fn %s -> %s' % (self.sf.label, trait, fname, gname))
        CUR['fn'] = None

    def as_tref(self, v, line, what):
        t, ty = v
        if ty == 'TRef': return t
        fail('%s must be a `&T` (e.g. `&**self`); found %s. A `&Cc<T>` here would call the Cc impl itself '
             '(infinite recursion) or not type-check' % (what, ty), line)

    def ev_hash(self, e, env):
        line = e.line
        if e.kind == 'MethodCall' and e.name == 'hash' and len(e.args) == 1:
            t, ty = self.ev(e.recv, env)
            if ty not in ('T', 'TRef'): fail('`.hash()` receiver must be T / &T (found %s)' % ty, line)
            recv = t
        elif e.kind == 'Call' and e.f.kind == 'Path' and e.f.segs == ['Hash', 'hash'] and len(e.args) == 2:
            recv = self.as_tref(self.ev(e.args[0], env), line, 'first argument of Hash::hash')
        else:
            fail('unsupported body for Hash::hash', line)
        a = e.args[-1]
        if not (a.kind == 'Path' and a.segs == [self.hasher]): fail('the hasher must be passed through unchanged', line)
        return top('T_hash', recv, ('id', 'st'))

    def ev(self, e, env):
        k = e.kind; line = e.line
        if k == 'Path':
            if e.qself:
                ty, tr = e.qself
                if ty == ('path', [('T', [])]) and tr == ('path', [('Default', [])]) and e.segs == ['default']:
                    return ('fn', 'T_default'), 'fn0'
                fail('unsupported qualified path', line)
            if len(e.segs) == 1 and e.segs[0] in env: return env[e.segs[0]]
            if e.segs == ['T', 'default']: return ('fn', 'T_default'), 'fn0'
            fail('unsupported path `%s`' % '::'.join(e.segs), line)
        if k == 'Unary':
            t, ty = self.ev(e.e, env)
            if e.op == '*':
                if ty == 'CcRef': return t, 'Cc'
                if ty == 'Cc': return app('deref', t), 'T'       # <Cc<T> as Deref>::deref
                if ty == 'TRef': return t, 'T'
                fail('cannot dereference a value of type %s' % ty, line)
            if e.op == '&':
                if ty == 'T': return t, 'TRef'
                if ty == 'Cc': return t, 'CcRef'
                fail('unsupported borrow of a value of type %s' % ty, line)
            if e.op == '!':
                if ty == 'bool': return negb(t), 'bool'
            fail('unsupported unary operator `%s` on %s' % (e.op, ty), line)
        if k == 'Binary':
            if e.op in ('&&', '||'):
                a, ta = self.ev(e.l, env); b, tb = self.ev(e.r, env)
                if ta != 'bool' or tb != 'bool': fail('operands of `%s` must be bool' % e.op, line)
                return ('infix', e.op, a, b), 'bool'
            a, ta = self.ev(e.l, env); b, tb = self.ev(e.r, env)
            if e.op in T_BINOPS and ta == tb and ta in ('T', 'TRef'):
                return top(T_BINOPS[e.op], a, b), 'bool'
            if ta == tb == 'Cc' or ta == tb == 'CcRef':
                fail('operator `%s` applied to Cc<T> operands calls the Cc impl itself (infinite recursion)' % e.op, line)
            fail('unsupported operator `%s` on operands of type %s, %s' % (e.op, ta, tb), line)
        if k == 'MethodCall':
            t, ty = self.ev(e.recv, env)
            if e.name in T_METHODS and len(e.args) == 1:
                if ty not in ('T', 'TRef'):
                    fail('method `.%s()` on a receiver of type %s resolves to the Cc impl itself (infinite recursion)' % (e.name, ty), line)
                a = self.as_tref(self.ev(e.args[0], env), line, 'argument of .%s()' % e.name)
                op, rk = T_METHODS[e.name]
                return top(op, t, a), rk
            fail('unsupported method call `.%s()`' % e.name, line)
        if k == 'Call' and e.f.kind == 'Path':
            f, fty = (None, None)
            segs = e.f.segs
            if e.f.qself or segs == ['T', 'default']:
                f, fty = self.ev(e.f, env)
                if fty == 'fn0' and not e.args: return top(f[1]), 'T'
                fail('unsupported call', line)
            if segs in (['Cc', 'new'], ['Self', 'new']) and len(e.args) == 1:
                t, ty = self.ev(e.args[0], env)
                if ty != 'T': fail('Cc::new expects a T', line)
                return app('cc_new', t), 'Cc'
            if len(segs) == 2 and segs[1] in T_METHODS and segs[0] == T_TRAIT_OF[segs[1]] and len(e.args) == 2:
                a = self.as_tref(self.ev(e.args[0], env), line, 'first argument of %s' % '::'.join(segs))
                b = self.as_tref(self.ev(e.args[1], env), line, 'second argument of %s' % '::'.join(segs))
                op, rk = T_METHODS[segs[1]]
                return top(op, a, b), rk
            if segs in (['Debug', 'fmt'], ['Display', 'fmt']) and len(e.args) == 2:
                a = self.as_tref(self.ev(e.args[0], env), line, 'first argument of %s' % '::'.join(segs))
                ft, fty = self.ev(e.args[1], env)
                if fty != 'FmtRef': fail('the formatter must be passed through unchanged', line)
                return top('T_debug_fmt' if segs[0] == 'Debug' else 'T_display_fmt', a, ft), 'R'
            fail('unsupported call `%s(..)`' % '::'.join(segs), line)
        fail('unsupported construct: %s expression' % k, line)

    def run(self):
        for trait, fname, gname, shape, retk in sorted(FWD_REQUIRED, key=lambda r: r[2]):
            self.translate_fn(trait, fname, gname, shape, retk)

# ------------------------------------------------------------------------------------------------
# Driver
# ------------------------------------------------------------------------------------------------
HEADER = """(* GENERATED by tools/rs2v.py from %(src)s -- DO NOT EDIT. Regenerated on every run.

   Conventions
   - Machine integers are [N]; the width of every operation is explicit ([U16.add], [Usz.shr], ...
     from RC.Word).  [f] has release semantics (wrapping arithmetic).
   - [f_asserts ..  : bool] is the conjunction of the [debug_assert!]s met on the path taken by
     [f] (evaluated at the program point where they occur, callee assertions included);
     [f_noovf .. : bool] is the conjunction of "this +,-,*,<<,>> does not overflow" on that path.
     In a debug build [f] panics iff [f_asserts && f_noovf = false]; in a release build it computes [f].
   - A struct of [Cell<uN>] fields is a record of [N]s (field [x] becomes [x_cell]).  A [&self]
     method that calls [.set] returns the new record; [Result<(), E>] is returned as
     [(record * bool)] where the bool is [is_err] ([true] = [Err]).  Non mutating methods
     returning a value return just the value.  A function taking [&Cell<uN>] takes the cell
     content and returns the new content.
   - Loops become [Fixpoint .. (fuel : nat)]; out of fuel is [None].
   - cfg(feature = ..) items are translated with features finalization, weak-ptrs, auto-collect,
     cleaners, std, derive on; items under cfg(rust_cc_verif) / cfg(test) are skipped.
   - [utils::cold()] (an empty #[cold] function) and attributes are dropped.
   - Local variables are substituted away, bound variables are numbered x1, x2, ... *)
From Coq Require Import NArith Bool.
From RC Require Import Word.
Local Open Scope N_scope.
Local Open Scope bool_scope.
"""

def hint_block(db, names):
    out = 'Create HintDb %s.\n' % db
    for i in range(0, len(names), 6):
        out += '#[global] Hint Unfold %s : %s.\n' % (' '.join(names[i:i + 6]), db)
    return out

def write_file(outdir, name, src, chunks):
    path = os.path.join(outdir, name)
    text = HEADER % {'src': src} + '\n' + '\n'.join(chunks)
    # the file is regenerated on every run; it is only *rewritten* when its content changed, so that
    # make does not rebuild the proofs when the translation is unchanged
    try:
        with open(path) as f: same = (f.read() == text)
    except OSError:
        same = False
    if not same:
        with open(path, 'w') as f: f.write(text)
    return path

def gen_counter_marker(repo, outdir):
    sf = SourceFile(os.path.join(repo, 'src/counter_marker.rs'), 'src/counter_marker.rs')
    m = ModuleTranslator(sf, 'CounterMarker', 'record', hintdb='cmgen')
    m.translate_record_module()
    write_file(outdir, 'CounterMarkerGen.v', sf.label, m.out + [hint_block('cmgen', m.hints)])
    return m.report

def gen_weak(repo, outdir):
    sf = SourceFile(os.path.join(repo, 'src/weak/weak_counter_marker.rs'), 'src/weak/weak_counter_marker.rs')
    m = ModuleTranslator(sf, 'WeakCounterMarker', 'record', hintdb='wkgen')
    m.translate_record_module()
    write_file(outdir, 'WeakCounterGen.v', sf.label, m.out + [hint_block('wkgen', m.hints)])
    return m.report

FLOAT_SECTION = """Section Float.
(* The float operations used by Config::adjust, abstract: no axioms, every theorem of ConfigSpec
   holds for every interpretation.  of_usize = `as f64`, fmul = `*`, fle = `<=`, feq0 = `== 0.0`. *)
Variables (F : Type) (of_usize : N -> F) (fmul : F -> F -> F) (fle : F -> F -> bool) (feq0 : F -> bool).
"""

CONFIG_SPEC = {
    'should_collect': {'params': [('field', 'auto_collect'), ('field', 'bytes_threshold'), ('field', 'buffered_threshold'),
                                  ('ext', ('State', 'allocated_bytes'), 'allocated_bytes', 'usize'),
                                  ('ext', ('PossibleCycles', 'size'), 'buffered', 'usize')]},
    'adjust': {'params': [('field', 'bytes_threshold'), ('field', 'adjustment_percent'),
                          ('ext', ('State', 'allocated_bytes'), 'allocated_bytes', 'usize')]},
}
STATE_SPEC = {
    'is_tracing': {'params': [('field', 'collecting'), ('field', 'finalizing'), ('field', 'dropping')],
                   'features': {'finalization': 'feat_fin'}},
    'record_allocation': {'params': [('field', 'allocated_bytes'), ('ext', ('Layout', 'size'), 'size', 'usize')]},
    'record_deallocation': {'params': [('field', 'allocated_bytes'), ('ext', ('Layout', 'size'), 'size', 'usize')]},
    'increment_executions_count': {'params': [('field', 'executions_counter')]},
}

def gen_config(repo, outdir):
    sf = SourceFile(os.path.join(repo, 'src/config.rs'), 'src/config.rs')
    m = ModuleTranslator(sf, 'Config', 'exploded', hintdb='cfggen')
    m.hints = []; m.fninfo = {}
    m.translate_consts(only={'DEFAULT_BYTES_THRESHOLD'})
    if 'value' not in m.consts.get('DEFAULT_BYTES_THRESHOLD', {}): fail('constant DEFAULT_BYTES_THRESHOLD not found')
    m.initial_values('new')
    m.out.append(FLOAT_SECTION)
    m.hints_loop = []
    for name in sorted(CONFIG_SPEC):
        m.translate_exploded_fn(name, CONFIG_SPEC[name])
    m.out.append('End Float.\n')
    write_file(outdir, 'ConfigGen.v', sf.label, m.out + [hint_block('cfggen', m.hints)])
    return m.report

def gen_state(repo, outdir):
    sf = SourceFile(os.path.join(repo, 'src/state.rs'), 'src/state.rs')
    m = ModuleTranslator(sf, 'State', 'exploded', hintdb='stgen')
    m.hints = []; m.fninfo = {}
    m.initial_values('new')
    for name in sorted(STATE_SPEC):
        m.translate_exploded_fn(name, STATE_SPEC[name])
    write_file(outdir, 'StateGen.v', sf.label, m.out + [hint_block('stgen', m.hints)])
    return m.report

def gen_forward(repo, outdir):
    sf = SourceFile(os.path.join(repo, 'src/cc.rs'), 'src/cc.rs')
    t = ForwardTranslator(sf)
    t.run()
    chunks = ['(* Forwarding trait impls of Cc<T>.  [deref] is <Cc<T> as Deref>::deref, the T_* variables are\n'
              '   T\'s own trait methods; each cc_* below is the body of the corresponding impl method. *)\n'
              'Section Forward.\n' + FWD_HEADER_VARS] + t.out + ['End Forward.\n', hint_block('fwdgen', t.hints)]
    write_file(outdir, 'ForwardGen.v', sf.label, chunks)
    return t.report

def main(argv=None):
    ap = argparse.ArgumentParser(description=__doc__.split('\n')[0])
    ap.add_argument('--repo', required=True)
    ap.add_argument('--out', required=True)
    ap.add_argument('--quiet', action='store_true')
    a = ap.parse_args(argv)
    os.makedirs(a.out, exist_ok=True)
    try:
        report = []
        for g in (gen_counter_marker, gen_weak, gen_config, gen_state, gen_forward):
            report += g(a.repo, a.out)
    except TranslateError as e:
        sys.stderr.write('rs2v: FAIL-CLOSED: %s\n' % e)
        return 2
    except OSError as e:
        sys.stderr.write('rs2v: cannot read source: %s\n' % e)
        return 2
    if not a.quiet:
        for r in report: print(r)
    return 0

if __name__ == '__main__':
    sys.exit(main())
