#!/usr/bin/env python3
"""coverage.py [--n N]: measures which source lines of /repo/src the correspondence programs of the
checks execute (generator-quality measurement, not a check; it decides nothing).

Builds the harness with `-C instrument-coverage` (nightly toolchain: the only one that ships
llvm-profdata/llvm-cov here) for every feature set, runs the corpus + N generated programs of
every generator profile (the same generator and seeds scheme as ./check) + the bounded-exhaustive
family, merges the profiles and prints, per source file, the executable lines never reached.
Result: build/coverage.json and build/coverage.txt (summarised in DESIGN.md section 12)."""
import argparse, glob, hashlib, json, os, re, shutil, subprocess, sys

sys.path.insert(0, os.path.dirname(os.path.abspath(__file__)))
import rcc, gen

TC = os.path.expanduser('~/.rustup/toolchains/nightly-x86_64-unknown-linux-gnu')
BIN = os.path.join(TC, 'lib/rustlib/x86_64-unknown-linux-gnu/bin')
COV = os.path.join(rcc.BUILD, 'cov')


def sh(cmd, **kw):
    p = subprocess.run(cmd, stdout=subprocess.PIPE, stderr=subprocess.STDOUT, text=True, **kw)
    return p.returncode, p.stdout


def build(featset, release):
    feats = rcc.FEATSETS[featset]
    fl = ','.join(k for k, v in feats.items() if v)
    hd = os.path.join(rcc.VERIF, 'harness')
    td = os.path.join(COV, 'target')
    cmd = ['cargo', '+nightly', 'build', '--offline', '--no-default-features', '--target-dir', td]
    if fl:
        cmd += ['--features', fl]
    if release:
        cmd += ['--release']
    env = dict(rcc.ENV, RUSTFLAGS='--cfg rust_cc_verif -C instrument-coverage', LLVM_PROFILE_FILE=os.path.join(COV, 'buildscripts-%p.profraw'))
    rc, out = sh(cmd, cwd=hd, env=env)
    if rc != 0:
        print(out[-2000:])
        sys.exit(2)
    exe = os.path.join(td, 'release' if release else 'debug', 'harness')
    dst = os.path.join(COV, f"harness-{featset}-{int(release)}")
    shutil.copy(exe, dst)
    return dst


def corpus():
    out = []
    for f in sorted(glob.glob(os.path.join(rcc.VERIF, 'corpus', '*.prog'))):
        cur = []
        for l in open(f):
            l = l.rstrip('\n')
            if l.strip() == 'end':
                out.append((os.path.basename(f), cur))
                cur = []
            elif l.strip() and not l.startswith('#') and not l.startswith('conf '):
                cur.append(l)
    return out


def main():
    ap = argparse.ArgumentParser()
    ap.add_argument('--n', type=int, default=150)
    a = ap.parse_args()
    shutil.rmtree(os.path.join(COV, 'raw'), ignore_errors=True)
    os.makedirs(os.path.join(COV, 'raw'), exist_ok=True)
    exes = []
    nprog = 0
    for featset, release in [('full', False), ('full', True), ('nofin', False), ('noweak', False), ('noauto', False), ('bare', False)]:
        exe = build(featset, release)
        exes.append(exe)
        feats = rcc.FEATSETS[featset]
        conf = rcc.harness_layout(exe)
        programs = list(corpus()) if featset == 'full' else []
        n = a.n if featset == 'full' else max(10, a.n // 5)
        for profile in gen.PROFILES:
            for auto in (False, True):
                for i in range(n if not auto else n // 4):
                    s = int(hashlib.sha256(f'cov/{featset}/{profile}/{auto}/{i}'.encode()).hexdigest()[:8], 16)
                    programs.append((f'gen {profile}', gen.gen_program(s, profile, feats, auto)))
        if featset == 'full' and not release:
            for lines in gen.exhaustive_programs(3):
                programs.append(('exh', lines))
        for b0 in range(0, len(programs), 250):
            pf = os.path.join(COV, 'prog.txt')
            rcc.write_progfile(pf, programs[b0:b0 + 250], conf)
            env = dict(os.environ, LLVM_PROFILE_FILE=os.path.join(COV, 'raw', f'{featset}-{int(release)}-{b0}-%p.profraw'))
            rc, out = sh([exe, '--no-snap', pf], env=env, timeout=900)
            if rc != 0:
                # a crash loses the profile of that batch: re-run one by one
                for k in range(len(programs[b0:b0 + 250])):
                    sh([exe, '--no-snap', '--stream', '--only', str(k), pf], env=env, timeout=120)
        nprog += len(programs)
        print(featset, release, len(programs), 'programs', flush=True)
    raws = glob.glob(os.path.join(COV, 'raw', '*.profraw'))
    prof = os.path.join(COV, 'merged.profdata')
    rc, out = sh([os.path.join(BIN, 'llvm-profdata'), 'merge', '-sparse', '-o', prof] + raws)
    if rc != 0:
        print(out); sys.exit(2)
    objs = []
    for e in exes:
        objs += ['-object', e]
    srcs = sorted(glob.glob('/repo/src/**/*.rs', recursive=True))
    srcs = [s for s in srcs if '/tests/' not in s and not s.endswith('verif.rs')]
    rc, out = sh([os.path.join(BIN, 'llvm-cov'), 'show', '--instr-profile', prof] + objs[1:] + srcs +
                 ['--show-line-counts', '--show-instantiations=false', '--show-expansions=false'])
    rc2, rep = sh([os.path.join(BIN, 'llvm-cov'), 'report', '--instr-profile', prof] + objs[1:] + srcs)
    res, cur = {}, None
    for l in out.splitlines():
        m = re.match(r'^(/repo/src/\S+):$', l)
        if m:
            cur = m.group(1)
            res[cur] = dict(uncovered=[], covered=0)
            continue
        m = re.match(r'^\s*(\d+)\|\s*([\d\.kMGE]+)?\|(.*)$', l)
        if m and cur:
            ln, cnt, text = int(m.group(1)), m.group(2), m.group(3)
            if cnt is None:
                continue
            if cnt == '0':
                res[cur]['uncovered'].append((ln, text.strip()[:140]))
            else:
                res[cur]['covered'] += 1
    json.dump(dict(programs=nprog, files=res), open(os.path.join(rcc.BUILD, 'coverage.json'), 'w'), indent=1)
    with open(os.path.join(rcc.BUILD, 'coverage.txt'), 'w') as f:
        f.write(rep + '\n')
        for k, v in res.items():
            f.write(f"\n== {k}: {v['covered']} lines reached, {len(v['uncovered'])} never reached\n")
            for ln, t in v['uncovered']:
                f.write(f'  {ln}: {t}\n')
    print(rep[-3000:])
    shutil.rmtree(os.path.join(COV, 'raw'), ignore_errors=True)


if __name__ == '__main__':
    main()
