#!/usr/bin/env python3
"""C18 correspondence check: the Coq model of #[derive(Trace)] / #[derive(Finalize)]
(coq/Derive.v) against the real macro, on the generated type-definition grid, plus the
compile probes (a user Drop next to derive(Trace) must be error E0119 unless
#[rust_cc(unsafe_no_drop)] is given).

  1. regenerates probes/derive/src/generated.rs, probes/derive/compile_probes/ and
     build/derive/cases_<i>.v (tools/gen_derive_probes.py),
  2. builds the Coq model and the probe crate from the CURRENT working tree of the crate under
     test (--repo, default /repo),
  3. runs both, 4. compares line by line, runs the compile probes,
  5. prints `DERIVE ok cases=<n> ...` and exits 0, or the first mismatch and exits 1.
"""
import argparse
import json
import os
import sys
import time

HERE = os.path.dirname(os.path.abspath(__file__))
sys.path.insert(0, HERE)
import check_containers as C  # noqa: E402


def run_compile_probes(build_dir, probes, log):
    """cargo build --bin <name> for every probe; returns [{name, expected, got, detail}]."""
    res = []
    for name, expected, text, _src in probes:
        p = C.cargo_build(build_dir, log, extra=["--bin", name], check=False)
        err = p.stderr
        if p.returncode == 0:
            got = "pass"
            detail = ""
        else:
            # a failure only counts as the expected one if the expected diagnostic is present and
            # the dependency itself compiled
            errors = [ln for ln in err.splitlines() if ln.startswith("error")]
            detail = " | ".join(errors[:4])
            if "could not compile `rust-cc" in err or "could not compile `rust-cc-derive" in err:
                got = "dependency-build-failure"
            elif text and all(t in err for t in ([text] if isinstance(text, str) else text)):
                got = "fail"
            else:
                got = "fail-other"
        res.append({"name": name, "expected": expected, "got": got, "detail": detail,
                    "required_text": text})
    return res


def describe_compile_failure(stderr, generated_rs):
    """First rustc error of a failed probe-crate build and the generated type it points into."""
    import re
    lines = stderr.splitlines()
    err = next((ln for ln in lines if ln.startswith("error")), "error: build failed")
    tname = None
    m = None
    for i, ln in enumerate(lines):
        if ln.startswith("error"):
            for ln2 in lines[i:i + 8]:
                m = re.search(r"generated\.rs:(\d+):", ln2)
                if m:
                    break
            if m:
                break
    if m:
        with open(generated_rs) as f:
            src = f.read().splitlines()
        for j in range(min(int(m.group(1)), len(src)) - 1, -1, -1):
            m2 = re.match(r"pub (?:struct|enum) (\w+)", src[j])
            if m2:
                tname = m2.group(1)
                break
    return {"error": err, "type": tname}


def main():
    ap = argparse.ArgumentParser()
    ap.add_argument("--repo", default="/repo", help="working tree of the crate under test")
    ap.add_argument("--json", default=None)
    a = ap.parse_args()
    t0 = time.time()
    log = []
    import gen_derive_probes as gen

    crate = os.path.join(C.VERIF, "probes", "derive")
    out = os.path.join(C.VERIF, "build", "derive")
    compile_results = []
    try:
        cases, tys = gen.cases()
        gen.write_if_changed(os.path.join(crate, "src", "generated.rs"), gen.gen_rust(cases, tys))
        gen.sync_support(crate)
        cp_dir, _ = gen.write_compile_probes(crate)
        case_files, _ = gen.write_coq_chunks(cases, out)
        C.build_coq_model(log)
        rows5 = C.eval_cases(case_files, log, width=6)
        # the last vector holds sanity flags of the generated description itself
        rows = []
        for cid, vecs in rows5:
            flags = vecs[5]
            if flags[:3] != [1, 1, 1]:
                raise C.CheckError("case %d: generated description is not well formed / not accepted by the model: %r" % (cid, flags))
            rows.append((cid, vecs[:5]))
        for c in cases:
            c["coq"] = c["tdesc"] + " " + c["tvalue"]
            c["ty"] = c["typedef"].replace("\n", " ")
        build_dir, binary = C.prepare_crate(crate, a.repo, log)
        p = C.cargo_build(build_dir, log, check=False)
        compile_failure = None
        run_cases, run_rows = cases, rows
        if p.returncode != 0:
            # Most likely the types with non-Trace ignored fields no longer compile: report that as
            # a failing case and go on with the remaining types (feature `opaque` off).
            compile_failure = describe_compile_failure(p.stderr, os.path.join(build_dir, "src", "generated.rs"))
            C.cargo_build(build_dir, log, extra=["--no-default-features"])
            run_cases = [c for c in cases if not c["opaque"]]
            keep_ids = set(c["id"] for c in run_cases)
            run_rows = [r for r in rows if r[0] in keep_ids]
        actual, crash = C.run_probe(binary, log)
        mismatches, samples = C.compare(run_cases, run_rows, actual, crash)
        # plain types (no field needs drop): needs_drop::<T>() must equal the model's emits_drop
        emits_by_type = {c["type_name"]: dict(rows5)[c["id"]][5][3] for c in cases}
        got_nd = dict(ln.split()[1:3] for ln in actual if ln.startswith("needsdrop "))
        for c in run_cases:
            if c["plain"] and c["name"].endswith("#0"):
                e, g = str(emits_by_type[c["type_name"]]), got_nd.get(c["type_name"])
                if e != g:
                    mismatches.append({"id": c["id"], "name": c["name"] + " (needs_drop)", "rust_type": c["ty"], "model_term": c["tdesc"],
                                       "expected": "needsdrop %s %s  (= emits_drop d)" % (c["type_name"], e),
                                       "actual": "needsdrop %s %s" % (c["type_name"], g), "expected_all": [], "actual_all": []})
        if compile_failure:
            by_name = {}
            for c in cases:
                by_name.setdefault(c["type_name"], c)
            c = by_name.get(compile_failure["type"]) or next(c for c in cases if c["opaque"])
            mismatches.insert(0, {"id": c["id"], "name": c["name"] + " (does not compile)", "rust_type": c["ty"],
                                  "model_term": c["coq"], "expected": "the generated type compiles (derive_accepts = true)",
                                  "actual": compile_failure["error"], "expected_all": [], "actual_all": []})
        cp_build_dir, _ = C.prepare_crate(cp_dir, a.repo, log)
        compile_results = run_compile_probes(cp_build_dir, gen.COMPILE_PROBES, log)
        # the Drop half of the model, tied to the compile probes: emits_drop d = negb (no_drop d)
        emits = {c["id"]: dict(rows5)[c["id"]][5][3] for c in cases}
        for c in cases:
            nd = "#[rust_cc(unsafe_no_drop)]" in c["typedef"]
            if emits[c["id"]] != (0 if nd else 1):
                raise C.CheckError("case %d: emits_drop disagrees with the generated attribute" % c["id"])
    except C.CheckError as e:
        print("DERIVE ERROR %s" % e)
        if a.json:
            with open(a.json, "w") as f:
                json.dump({"check": "DERIVE", "error": str(e), "cases": 0, "mismatches": [], "samples": [],
                           "compile_probes": compile_results, "wall_s": round(time.time() - t0, 2)}, f, indent=1)
        return 1
    return C.report("DERIVE", cases, mismatches, samples,
                    {"types": len(tys), "compile_probes_ok": "%d/%d" % (sum(1 for p in compile_results if p["expected"] == p["got"]), len(compile_results)),
                     "repo": os.path.abspath(a.repo)},
                    a.json, t0, compile_results, log, crash)


if __name__ == "__main__":
    sys.exit(main())
