#!/usr/bin/env python3
"""Generates the C18 derive probe grid, identically on both sides:

  * <probe-crate>/src/generated.rs           - type definitions using the REAL
      #[derive(Trace, Finalize)] and one `run_case(id, k, keep, |l| <value>)` per value
  * <coq-out>/cases_<i>.v                     - the same types as `tdesc` terms, the same
      values as `tvalue` terms, and the vm_compute row of the model (coq/Derive.v)
  * <probe-crate>/compile_probes/             - a tiny crate with one binary per compile probe

Grid (deterministic, seeded + exhaustive small cases):
  - tuple structs with 0..8 fields, EVERY ignore mask (511 types), unit struct
  - named structs with 0..8 fields, a systematic subset of masks, mixed container field types
  - enums: 1 and 2 variants exhaustively over (kind x variant-ignored), 3 and 4 variants seeded;
    mixed unit/tuple/named kinds, ignored variants, ignored fields; one value per variant
  - generic types `<A: Trace + 'static, ..>` instantiated with several argument types
  - `#[rust_cc(unsafe_no_drop)]` types (with a hand-written Drop)
  - ignored fields / ignored variants whose field type does not implement Trace at all
  - MULTIPLE ATTRIBUTES on one field / variant: `#[rust_cc(ignore)]` before, between and after
    doc comments, `#[allow(..)]`, `#[cfg_attr(all(), ..)]`, a second `#[rust_cc(ignore)]`, in all
    orders, on named/tuple struct fields, enum variants and enum-variant fields; and fields that
    only carry unrelated attributes
  - "plain" types whose fields need no drop, for which `needs_drop::<T>()` reveals whether the
    macro emitted a Drop impl (also when nothing at all is traced)
"""
import argparse
import os
import random
import sys

HERE = os.path.dirname(os.path.abspath(__file__))
sys.path.insert(0, HERE)
import gen_container_probes as G  # noqa: E402
from gen_container_probes import (cslot, uslot, some, none, vec, tuple_, refcell, box, array, ok, err, scalar,  # noqa: E402
                                  weak, phantom, md, aus, bslice, raw, write_if_changed)

SEED = 20260923
CHUNKS = 8
FILL = "cc"  # every slot of this generator has a forced kind; the filling is irrelevant


def opaque():
    return raw("Opaque", "Opaque(0)", "VScalar")


# (declared Rust type, value factory).  Several factories share a declared type (variants).
PALETTE = [
    ("Cc<Leaf>", cslot),
    ("User", uslot),
    ("Option<Cc<Leaf>>", lambda: some(cslot())),
    ("Option<Cc<Leaf>>", lambda: none(cslot())),
    ("Vec<Cc<Leaf>>", lambda: vec([cslot(), cslot()])),
    ("Vec<Cc<Leaf>>", lambda: vec([], cslot())),
    ("(Cc<Leaf>,User,)", lambda: tuple_(cslot(), uslot())),
    ("RefCell<Cc<Leaf>>", lambda: refcell("free", cslot())),
    ("RefCell<Cc<Leaf>>", lambda: refcell("mut", cslot())),
    ("RefCell<Option<Cc<Leaf>>>", lambda: refcell("shared", some(cslot()))),
    ("Box<Cc<Leaf>>", lambda: box(cslot())),
    ("[Cc<Leaf>; 3]", lambda: array([cslot(), cslot(), cslot()])),
    ("Result<Cc<Leaf>, User>", lambda: ok(cslot(), uslot())),
    ("Result<Cc<Leaf>, User>", lambda: err(uslot(), cslot())),
    ("u32", lambda: scalar(0)),
    ("String", lambda: scalar(2)),
    ("Weak<Leaf>", weak),
    ("PhantomData<Cc<Leaf>>", phantom),
    ("Vec<Option<Box<Cc<Leaf>>>>", lambda: vec([some(box(cslot())), none(box(cslot()))])),
    ("Box<[User]>", lambda: bslice([uslot(), uslot()])),
]
OPAQUE = ("Opaque", opaque)


# Attribute words.  I*: expands to #[rust_cc(ignore)] (model: WIgnore); O*: unrelated (WOther).
ATTR_SRC = {
    "I": "#[rust_cc(ignore)]",
    "Ic": "#[cfg_attr(all(), rust_cc(ignore))]",
    "Od": "/// a doc comment",
    "Oa": "#[allow(dead_code)]",
    "Oc": "#[cfg_attr(all(), allow(unused))]",
    "Om": "#[doc = \"another doc\"]",
}


def words_ignore(ws):
    return any(w.startswith("I") for w in ws)


def attr_words(x):
    """The attribute words of a field / variant description."""
    if x.get("attrs") is not None:
        return x["attrs"]
    return ["I"] if x["ignore"] else []


def const_field(decl, factory, ignore, attrs=None):
    if attrs is not None:
        ignore = words_ignore(attrs)
    return {"decl": decl, "build": (lambda P, f=factory: f()), "ignore": ignore, "attrs": attrs}


def attr_patterns():
    import itertools
    pats = []
    for p in itertools.permutations(["Od", "Oa", "Oc", "I"]):
        pats.append(list(p))
    for p in sorted(set(itertools.permutations(["Od", "Oa", "I", "I"]))):
        pats.append(list(p))
    pats += [["I", "I"], ["Ic"], ["Od", "Ic", "Oa"], ["Ic", "I"], ["Om", "I"], ["I", "Om"]]
    for p in itertools.permutations(["Od", "Oa", "Oc"]):
        pats.append(list(p))
    pats += [["Od"], ["Oa"], ["Oc"], ["Om", "Od"]]
    return pats


def cc_field(ignore):
    return const_field("Cc<Leaf>", cslot, ignore)


def rand_field(rnd, ignore, allow_opaque):
    if allow_opaque and rnd.random() < 0.15:
        return const_field(OPAQUE[0], OPAQUE[1], ignore)
    decl, f = rnd.choice(PALETTE)
    return const_field(decl, f, ignore)


def struct(name, kind, fields, no_drop=False, generics=(), args=(), manual_drop=None, plain=False):
    return {"name": name, "enum": False, "no_drop": no_drop, "generics": list(generics),
            "variants": [{"name": None, "kind": kind, "ignore": False, "fields": fields}], "args": list(args),
            "manual_drop": no_drop if manual_drop is None else manual_drop, "plain": plain}


def enum(name, variants, no_drop=False, generics=(), args=(), manual_drop=None, plain=False):
    return {"name": name, "enum": True, "no_drop": no_drop, "generics": list(generics),
            "variants": variants, "args": list(args),
            "manual_drop": no_drop if manual_drop is None else manual_drop, "plain": plain}


def types():
    rnd = random.Random(SEED)
    ts = []

    # unit struct, and the three spellings of "no fields"
    ts.append(struct("Unit0", "unit", []))

    # tuple structs: every mask for 0..8 fields
    for n in range(0, 9):
        for mask in range(1 << n):
            ts.append(struct("T%d_%d" % (n, mask), "tuple", [cc_field(bool(mask >> i & 1)) for i in range(n)]))

    # named structs: systematic subset of masks, random container field types
    for n in range(0, 9):
        masks = {0, (1 << n) - 1}
        for i in range(n):
            masks.add(1 << i)
            masks.add(((1 << n) - 1) & ~(1 << i))
        masks.add(int("01" * 4, 2) & ((1 << n) - 1))
        masks.add(int("10" * 4, 2) & ((1 << n) - 1))
        for _ in range(3):
            masks.add(rnd.randrange(1 << n))
        for mask in sorted(masks):
            fields = []
            for i in range(n):
                ig = bool(mask >> i & 1)
                fields.append(rand_field(rnd, ig, allow_opaque=ig))
            ts.append(struct("N%d_%d" % (n, mask), "named", fields))

    # enums
    KINDS = ["unit", "tuple", "named"]

    def rand_variant(name, kind, vig):
        nf = 0 if kind == "unit" else rnd.randrange(0, 4)
        fields = []
        for _ in range(nf):
            ig = rnd.random() < 0.35
            fields.append(rand_field(rnd, ig, allow_opaque=(ig or vig)))
        return {"name": name, "kind": kind, "ignore": vig, "fields": fields}

    eid = 0
    import itertools
    for nv in (1, 2):
        for combo in itertools.product(itertools.product(KINDS, (False, True)), repeat=nv):
            for rep in range(2):
                vs = [rand_variant("V%d" % i, kind, vig) for i, (kind, vig) in enumerate(combo)]
                ts.append(enum("E%d" % eid, vs))
                eid += 1
    for nv in (3, 4):
        for _ in range(45):
            vs = [rand_variant("V%d" % i, rnd.choice(KINDS), rnd.random() < 0.35) for i in range(nv)]
            ts.append(enum("E%d" % eid, vs))
            eid += 1
    # enums whose variants are all ignored / all of one kind with 8 fields
    ts.append(enum("EAllIgnored", [rand_variant("V0", "tuple", True), rand_variant("V1", "named", True), rand_variant("V2", "unit", True)]))
    ts.append(enum("EWide", [
        {"name": "V0", "kind": "tuple", "ignore": False, "fields": [cc_field(i % 3 == 1) for i in range(8)]},
        {"name": "V1", "kind": "named", "ignore": False, "fields": [cc_field(i % 2 == 0) for i in range(8)]},
        {"name": "V2", "kind": "tuple", "ignore": True, "fields": [cc_field(False) for i in range(8)]},
    ]))

    # generic types
    ARGS = [
        [("Cc<Leaf>", cslot), ("User", uslot)],
        [("Option<Cc<Leaf>>", lambda: some(cslot())), ("Vec<Cc<Leaf>>", lambda: vec([cslot(), cslot(), cslot()]))],
        [("(Cc<Leaf>,User,)", lambda: tuple_(cslot(), uslot())), ("RefCell<Cc<Leaf>>", lambda: refcell("shared", cslot()))],
    ]

    def gf(decl, build, ignore=False):
        return {"decl": decl, "build": build, "ignore": ignore}

    for ai, args in enumerate(ARGS):
        ts.append(struct("G1_%d" % ai, "tuple", [
            gf("A", lambda P: P[0]()), gf("B", lambda P: P[1](), True), gf("Vec<A>", lambda P: vec([P[0](), P[0]()])),
            cc_field(False), gf("Option<B>", lambda P: some(P[1]()))], generics=["A", "B"], args=args))
        ts.append(struct("G2_%d" % ai, "named", [
            gf("(A, B)", lambda P: tuple_(P[0](), P[1]())), gf("RefCell<A>", lambda P: refcell("free", P[0]()), True),
            gf("Box<B>", lambda P: box(P[1]())), gf("[A; 2]", lambda P: array([P[0](), P[0]()]))], generics=["A", "B"], args=args))
        ts.append(enum("G3_%d" % ai, [
            {"name": "V0", "kind": "tuple", "ignore": False, "fields": [gf("A", lambda P: P[0]()), gf("B", lambda P: P[1](), True)]},
            {"name": "V1", "kind": "named", "ignore": True, "fields": [gf("Vec<B>", lambda P: vec([P[1]()]))]},
            {"name": "V2", "kind": "unit", "ignore": False, "fields": []},
            {"name": "V3", "kind": "named", "ignore": False, "fields": [gf("Option<A>", lambda P: some(P[0]())), gf("Result<A, B>", lambda P: err(P[1](), P[0]()))]},
        ], generics=["A", "B"], args=args))
        ts.append(struct("G4_%d" % ai, "tuple", [gf("A", lambda P: P[0]())], generics=["A"], args=args[:1], no_drop=True))

    # unsafe_no_drop types (with a hand-written Drop impl)
    for i in range(4):
        ts.append(struct("ND%d" % i, "tuple" if i % 2 else "named", [rand_field(rnd, rnd.random() < 0.4, False) for _ in range(i + 1)], no_drop=True))
    ts.append(enum("NDE", [rand_variant("V0", "tuple", False), rand_variant("V1", "named", True), rand_variant("V2", "unit", False)], no_drop=True))

    # several attributes on one field / variant, in all orders
    def variant(name, kind, fields, attrs=None):
        return {"name": name, "kind": kind, "ignore": words_ignore(attrs or []), "attrs": attrs, "fields": fields}

    for pi, pat in enumerate(attr_patterns()):
        rev = list(reversed(pat))
        ts.append(struct("AN%d" % pi, "named", [cc_field(False), const_field("Cc<Leaf>", cslot, None, pat),
                                                 const_field("Cc<Leaf>", cslot, None, rev)]))
        ts.append(struct("AT%d" % pi, "tuple", [const_field("Cc<Leaf>", cslot, None, pat), cc_field(False),
                                                 const_field("(Cc<Leaf>,User,)", lambda: tuple_(cslot(), uslot()), None, rev)]))
        ts.append(enum("AV%d" % pi, [
            variant("V0", "tuple" if pi % 2 else "named", [cc_field(False), cc_field(False)], pat),
            variant("V1", "named" if pi % 2 else "tuple", [cc_field(False)], None),
            variant("V2", "unit", [], rev)]))
        ts.append(enum("AF%d" % pi, [
            variant("V0", "named", [const_field("Cc<Leaf>", cslot, None, pat), cc_field(False)], None),
            variant("V1", "tuple", [cc_field(False), const_field("Cc<Leaf>", cslot, None, rev)], ["Od", "Oa"]),
            variant("V2", "unit", [], None)]))

    # plain types: no field needs drop, so needs_drop::<T>() == "the macro emitted a Drop impl"
    def u32f(ig):
        return const_field("u32", lambda: scalar(0), ig)

    def plain_set(suffix, nd):
        kw = dict(no_drop=nd, manual_drop=False, plain=True)
        return [
            struct("PUnit" + suffix, "unit", [], **kw),
            struct("PEmptyT" + suffix, "tuple", [], **kw),
            struct("PEmptyN" + suffix, "named", [], **kw),
            struct("PScalars" + suffix, "tuple", [u32f(False), u32f(True)], **kw),
            struct("PAllIgnored" + suffix, "named", [u32f(True), const_field("User", uslot, True), const_field("Opaque", opaque, True)], **kw),
            struct("PPhantom" + suffix, "named", [const_field("PhantomData<Cc<Leaf>>", phantom, False)], **kw),
            enum("PUnitEnum" + suffix, [variant("V0", "unit", []), variant("V1", "unit", []), variant("V2", "unit", [])], **kw),
            enum("PAllVarIgnored" + suffix, [variant("V0", "tuple", [u32f(False)], ["I"]), variant("V1", "unit", [], ["I"]),
                                             variant("V2", "named", [u32f(False)], ["Od", "I"])], **kw),
        ]

    ts += plain_set("", False)
    ts += plain_set("ND", True)
    return ts


# --------------------------------------------------------------------------------------------
def type_args(t):
    return "<" + ", ".join(a[0] for a in t["args"]) + ">" if t["generics"] else ""


def rust_typedef(t):
    out = ["#[derive(Trace, Finalize)]\n"]
    if t["no_drop"]:
        out.append("#[rust_cc(unsafe_no_drop)]\n")
    gen = "<" + ", ".join("%s: Trace + 'static" % g for g in t["generics"]) + ">" if t["generics"] else ""

    def attrs_src(x, sep):
        return "".join(ATTR_SRC[w] + sep for w in attr_words(x))

    def fields_src(v, named_prefix="f"):
        multi = any(f.get("attrs") for f in v["fields"])
        items = []
        for i, f in enumerate(v["fields"]):
            attr = attrs_src(f, "\n        " if multi else " ")
            if v["kind"] == "named":
                items.append("%s%s%d: %s" % (attr, named_prefix, i, f["decl"]))
            else:
                items.append("%s%s" % (attr, f["decl"]))
        if multi:
            return "\n        " + ",\n        ".join(items) + ",\n    "
        return ", ".join(items)

    if not t["enum"]:
        v = t["variants"][0]
        if v["kind"] == "unit":
            out.append("pub struct %s%s;\n" % (t["name"], gen))
        elif v["kind"] == "tuple":
            out.append("pub struct %s%s(%s);\n" % (t["name"], gen, fields_src(v)))
        else:
            out.append("pub struct %s%s { %s }\n" % (t["name"], gen, fields_src(v)))
    else:
        out.append("pub enum %s%s {\n" % (t["name"], gen))
        for v in t["variants"]:
            attr = "".join("    " + ATTR_SRC[w] + "\n" for w in attr_words(v))
            if v["kind"] == "unit":
                out.append("%s    %s,\n" % (attr, v["name"]))
            elif v["kind"] == "tuple":
                out.append("%s    %s(%s),\n" % (attr, v["name"], fields_src(v)))
            else:
                out.append("%s    %s { %s },\n" % (attr, v["name"], fields_src(v)))
        out.append("}\n")
    if t["manual_drop"]:
        out.append("impl%s Drop for %s%s { fn drop(&mut self) { note_user_drop(); } }\n" % (
            gen, t["name"], "<" + ", ".join(t["generics"]) + ">" if t["generics"] else ""))
    return "".join(out)


def coq_words(ws):
    return "[" + "; ".join({"I": "WIgnore", "N": "WNoDrop", "O": "WOther"}[w[0]] for w in ws) + "]"


def coq_vdesc_fields(v):
    return "[" + "; ".join("FDesc %s" % coq_words(attr_words(f)) for f in v["fields"]) + "]"


def coq_kind(k):
    return {"unit": "KUnit", "tuple": "KTuple", "named": "KNamed"}[k]


def coq_tdesc(t):
    if not t["enum"]:
        v = t["variants"][0]
        return "(TStruct %s %s %s)" % (coq_words(["N"] if t["no_drop"] else []), coq_kind(v["kind"]), coq_vdesc_fields(v))
    vs = "; ".join("VDesc %s %s %s" % (coq_words(attr_words(v)), coq_kind(v["kind"]), coq_vdesc_fields(v)) for v in t["variants"])
    return "(TEnum %s [%s])" % (coq_words(["N"] if t["no_drop"] else []), vs)


def cases():
    out = []
    tys = types()
    cid = 0
    for t in tys:
        t["opaque"] = any(f["decl"] == OPAQUE[0] for v in t["variants"] for f in v["fields"])
        P = [a[1] for a in t["args"]]
        for vi, v in enumerate(t["variants"]):
            shapes = [f["build"](P) for f in v["fields"]]
            cnt = [0]
            for s in shapes:
                G.number(s, cnt)
            k = cnt[0]
            keep = None
            for s in shapes:
                keep = G.first_owned(s, FILL)
                if keep is not None:
                    break
            exprs = [G.rs(s, FILL) for s in shapes]
            path = t["name"] + ("::<%s>" % ", ".join(a[0] for a in t["args"]) if t["generics"] else "")
            if t["enum"]:
                path += "::" + v["name"]
            if v["kind"] == "unit":
                val = path
            elif v["kind"] == "tuple":
                val = "%s(%s)" % (path, ", ".join(exprs))
            else:
                val = "%s { %s }" % (path, ", ".join("f%d: %s" % (i, e) for i, e in enumerate(exprs)))
            full_ty = t["name"] + type_args(t)
            coqv = "(TV %d [%s])" % (vi, "; ".join(G.coq(s, FILL) for s in shapes))
            out.append({
                "id": cid, "name": "%s#%d" % (t["name"], vi), "k": k, "keep": -1 if keep is None else keep,
                "rs": val, "ty": full_ty, "coq": "%s %s" % (coq_tdesc(t), coqv), "tdesc": coq_tdesc(t), "tvalue": coqv,
                "typedef": rust_typedef(t).strip(), "opaque": t["opaque"], "type_name": t["name"], "plain": t["plain"],
            })
            cid += 1
    return out, tys


RS_HEADER = """// @generated by tools/gen_derive_probes.py - do not edit
#![allow(unused_imports, unused_parens, dead_code, non_camel_case_types, clippy::all)]
use crate::support::*;
use rust_cc::weak::Weak;
use rust_cc::*;
use std::cell::RefCell;
use std::marker::PhantomData;

/// A type that does NOT implement Trace: usable only in ignored fields / ignored variants.
pub struct Opaque(pub u8);

fn note_user_drop() {}

"""


def gen_rust(cs, tys):
    parts = [RS_HEADER]
    # Types with a field that does not implement Trace (legal only because the field or its
    # variant is ignored) sit behind the default feature `opaque`: if the macro under test stops
    # honouring `ignore` they no longer compile, and the checker can still build and run the rest.
    gate = '#[cfg(feature = "opaque")]\n'
    for t in tys:
        src = rust_typedef(t)
        if t["opaque"]:
            src = gate + src.replace("\nimpl", "\n" + gate + "impl")
        parts.append(src)
        parts.append("\n")
    for c in cs:
        parts.append("// %s\n%sfn c%d() {\n    run_case(%d, %d, %d, |l: &[Cc<Leaf>]| -> %s { let _ = l; %s });\n}\n" % (
            c["name"], gate if c["opaque"] else "", c["id"], c["id"], c["k"], c["keep"], c["ty"], c["rs"]))
    parts.append("\npub fn run_all() {\n")
    for c in cs:
        if c["opaque"]:
            parts.append('    #[cfg(feature = "opaque")]\n')
        parts.append("    c%d();\n" % c["id"])
    parts.append("}\n")
    parts.append("\n/// `needsdrop <type> <0|1>` for the plain types (no field needs drop).\npub fn needs_drop_report() {\n")
    for t in tys:
        if t["plain"]:
            if t["opaque"]:
                parts.append('    #[cfg(feature = "opaque")]\n')
            parts.append('    println!("needsdrop %s {}", std::mem::needs_drop::<%s>() as u8);\n' % (t["name"], t["name"]))
    parts.append("}\n")
    return "".join(parts)


COQ_ROW = """
Definition row (c : nat * (nat * (tdesc * tvalue))) : nat * list (list nat) :=
  let '(id, (k, (d, tv))) := c in
  (id, [counts k (derived_visit d tv); derived_e2e_expect k d tv; derived_keep_expect k tv;
        derived_finalize d tv; derived_utrace d tv;
        [if wf_tvalueb d tv then 1 else 0; if derive_accepts d then 1 else 0; if wf_tdesc d then 1 else 0;
         if emits_drop d then 1 else 0]]).

Eval vm_compute in (map row cases).
"""


def gen_coq(cs):
    parts = ["(* @generated by tools/gen_derive_probes.py - do not edit *)\n",
             "From Coq Require Import List Arith.\nImport ListNotations.\nFrom RC Require Import Containers Derive.\n\n",
             "Definition cases : list (nat * (nat * (tdesc * tvalue))) := [\n"]
    parts.append(";\n".join("  (%d, (%d, (%s, %s)))" % (c["id"], c["k"], c["tdesc"], c["tvalue"]) for c in cs))
    parts.append("\n].\n")
    parts.append(COQ_ROW)
    return "".join(parts)


def write_coq_chunks(cs, outdir, chunks=CHUNKS):
    paths = []
    changed = False
    for i in range(chunks):
        part = cs[i::chunks]
        if not part:
            continue
        p = os.path.join(outdir, "cases_%d.v" % i)
        changed |= write_if_changed(p, gen_coq(part))
        paths.append(p)
    return paths, changed


# --------------------------------------------------------------------------------------------
# Compile probes: name -> (expected outcome, required text in stderr when failing, source)
# --------------------------------------------------------------------------------------------
CP_PRELUDE = "#![allow(dead_code)]\nuse rust_cc::*;\n\n"
COMPILE_PROBES = [
    ("drop_conflict_struct", "fail", "E0119", CP_PRELUDE + """#[derive(Trace, Finalize)]
struct S { a: Cc<u32>, b: u8 }
impl Drop for S { fn drop(&mut self) {} }
fn main() { let _ = Cc::new(S { a: Cc::new(1), b: 2 }); }
"""),
    ("drop_conflict_enum", "fail", "E0119", CP_PRELUDE + """#[derive(Trace, Finalize)]
enum E { A(Cc<u32>), #[rust_cc(ignore)] B { x: u8 }, C }
impl Drop for E { fn drop(&mut self) {} }
fn main() { let _ = Cc::new(E::C); }
"""),
    ("drop_conflict_generic", "fail", "E0119", CP_PRELUDE + """#[derive(Trace, Finalize)]
struct G<A: Trace + 'static> { a: A, #[rust_cc(ignore)] n: u8 }
impl<A: Trace + 'static> Drop for G<A> { fn drop(&mut self) {} }
fn main() { let _ = Cc::new(G { a: Cc::new(1u32), n: 0 }); }
"""),
    ("no_drop_struct", "pass", None, CP_PRELUDE + """#[derive(Trace, Finalize)]
#[rust_cc(unsafe_no_drop)]
struct S { a: Cc<u32>, b: u8 }
impl Drop for S { fn drop(&mut self) {} }
const _: () = assert!(std::mem::needs_drop::<S>());
fn main() { let _ = Cc::new(S { a: Cc::new(1), b: 2 }); }
"""),
    ("no_drop_enum_generic", "pass", None, CP_PRELUDE + """#[derive(Trace, Finalize)]
#[rust_cc(unsafe_no_drop)]
enum E<A: Trace + 'static> { A(A), #[rust_cc(ignore)] B { x: u8 }, C }
impl<A: Trace + 'static> Drop for E<A> { fn drop(&mut self) {} }
fn main() { let _ = Cc::new(E::A(Cc::new(1u32))); let _ = Cc::new(E::<u8>::C); }
"""),
    # A Drop impl is really emitted (plain-data type needs drop) unless unsafe_no_drop is given.
    ("drop_impl_emitted", "pass", None, CP_PRELUDE + """#[derive(Trace, Finalize)]
struct Plain { a: u32 }
#[derive(Trace, Finalize)]
enum PlainE { A, B(u8) }
#[derive(Trace, Finalize)]
#[rust_cc(unsafe_no_drop)]
struct PlainNoDrop { a: u32 }
struct Control { a: u32 }
const _: () = assert!(std::mem::needs_drop::<Plain>());
const _: () = assert!(std::mem::needs_drop::<PlainE>());
const _: () = assert!(!std::mem::needs_drop::<PlainNoDrop>());
const _: () = assert!(!std::mem::needs_drop::<Control>());
fn main() { let _ = (Plain { a: 1 }, PlainE::A, PlainE::B(1), PlainNoDrop { a: 1 }, Control { a: 1 }); }
"""),
    ("ignore_on_struct", "fail", "Invalid attribute position", CP_PRELUDE + """#[derive(Trace, Finalize)]
#[rust_cc(ignore)]
struct S { a: Cc<u32> }
fn main() {}
"""),
    ("no_drop_on_field_or_variant", "fail", "Invalid attribute position", CP_PRELUDE + """#[derive(Trace, Finalize)]
enum E { #[rust_cc(unsafe_no_drop)] A(Cc<u32>), B { #[rust_cc(unsafe_no_drop)] x: u8 } }
fn main() {}
"""),
]

UNTRACED_TYPES = """#[derive(Trace, Finalize)]
%(nd)spub struct UnitS;
#[derive(Trace, Finalize)]
%(nd)spub struct EmptyN {}
#[derive(Trace, Finalize)]
%(nd)spub struct EmptyT();
#[derive(Trace, Finalize)]
%(nd)spub struct AllIgn { #[rust_cc(ignore)] pub a: %(fty)s, /** doc */ #[allow(dead_code)] #[rust_cc(ignore)] b: u8 }
#[derive(Trace, Finalize)]
%(nd)spub enum AllVarIgn { #[rust_cc(ignore)] A(%(fty)s), #[rust_cc(ignore)] B }
#[derive(Trace, Finalize)]
%(nd)spub enum UnitsOnly { A, B }
"""
UNTRACED_NAMES = ["UnitS", "EmptyN", "EmptyT", "AllIgn", "AllVarIgn", "UnitsOnly"]
UNTRACED_DROPS = "".join("impl Drop for %s { fn drop(&mut self) {} }\n" % n for n in UNTRACED_NAMES)
UNTRACED_MAIN = "fn main() { let _ = (Cc::new(UnitS), Cc::new(EmptyN {}), Cc::new(EmptyT()), Cc::new(AllVarIgn::B), Cc::new(UnitsOnly::A), UnitsOnly::B); }\n"
ND = "#[rust_cc(unsafe_no_drop)]\n"

COMPILE_PROBES += [
    # nothing ends up traced: the Drop impl (hence the conflict) must still be there
    ("drop_conflict_untraced", "fail", ["E0119"] + ["for type `%s`" % n for n in UNTRACED_NAMES],
     CP_PRELUDE + UNTRACED_TYPES % {"nd": "", "fty": "Cc<u32>"} + UNTRACED_DROPS + UNTRACED_MAIN),
    ("no_drop_untraced", "pass", None,
     CP_PRELUDE + UNTRACED_TYPES % {"nd": ND, "fty": "Cc<u32>"} + UNTRACED_DROPS + UNTRACED_MAIN),
    ("drop_impl_emitted_untraced", "pass", None,
     CP_PRELUDE + UNTRACED_TYPES % {"nd": "", "fty": "u32"}
     + "mod nd {\n    use rust_cc::*;\n" + UNTRACED_TYPES % {"nd": ND, "fty": "u32"} + "}\n"
     + "".join("const _: () = assert!(std::mem::needs_drop::<%s>());\nconst _: () = assert!(!std::mem::needs_drop::<nd::%s>());\n" % (n, n)
               for n in UNTRACED_NAMES)
     + "fn main() {}\n"),
]

COMPILE_PROBES += [
    # user items named like the paths the expansion uses (`core`, `rust_cc` is unavoidable) are in scope at the derive
    # site: the Drop guard must still be the real `core::ops::Drop` (the conflict with a user Drop impl must remain)
    ("drop_conflict_core_shadowed", "fail", "E0119", CP_PRELUDE + """mod inner {
    #![allow(dead_code)]
    use rust_cc::*;
    // a user module called `core`, with look-alike items
    pub mod core { pub mod ops { pub trait Drop { fn drop(&mut self); } } }
    #[derive(Trace, Finalize)]
    pub struct S { pub a: Cc<u32>, pub b: u8 }
    impl ::core::ops::Drop for S { fn drop(&mut self) {} }
}
fn main() { let _ = Cc::new(inner::S { a: Cc::new(1), b: 2 }); }
"""),
    ("drop_impl_emitted_core_shadowed", "pass", None, CP_PRELUDE + """mod inner {
    #![allow(dead_code)]
    use rust_cc::*;
    pub mod core { pub mod ops { pub trait Drop { fn drop(&mut self); } } }
    #[derive(Trace, Finalize)]
    pub struct Plain { pub a: u32 }
    #[derive(Trace, Finalize)]
    pub enum PlainE { A, B(u8) }
}
const _: () = assert!(std::mem::needs_drop::<inner::Plain>());
const _: () = assert!(std::mem::needs_drop::<inner::PlainE>());
fn main() {}
"""),
]

CP_CARGO = """[package]
name = "derive-compile-probes"
version = "0.1.0"
edition = "2021"
publish = false

[dependencies]
rust-cc = { path = "/repo", default-features = false, features = ["std","derive","auto-collect","finalization","weak-ptrs","cleaners"] }

[workspace]

[profile.release]
opt-level = 0
debug = false
incremental = false

[profile.release.package.rust-cc]
opt-level = 2
"""


def write_compile_probes(crate_dir):
    d = os.path.join(crate_dir, "compile_probes")
    changed = write_if_changed(os.path.join(d, "Cargo.toml"), CP_CARGO)
    for name, _exp, _txt, src in COMPILE_PROBES:
        changed |= write_if_changed(os.path.join(d, "src", "bin", name + ".rs"), "// @generated by tools/gen_derive_probes.py\n" + src)
    return d, changed


def sync_support(crate_dir):
    """The probe runtime is shared with the containers crate: keep a verbatim copy."""
    src = os.path.join(os.path.dirname(os.path.abspath(crate_dir)), "containers", "src", "support.rs")
    with open(src) as f:
        text = f.read()
    return write_if_changed(os.path.join(crate_dir, "src", "support.rs"),
                            "// @generated: verbatim copy of probes/containers/src/support.rs (tools/gen_derive_probes.py)\n" + text)


def main():
    ap = argparse.ArgumentParser()
    ap.add_argument("--crate", default="/verif/probes/derive")
    ap.add_argument("--coq-out", default="/verif/build/derive")
    ap.add_argument("--list", action="store_true")
    a = ap.parse_args()
    cs, tys = cases()
    if a.list:
        for c in cs:
            print(c["id"], c["name"], c["coq"])
        return
    ch1 = write_if_changed(os.path.join(a.crate, "src", "generated.rs"), gen_rust(cs, tys))
    _, ch2 = write_coq_chunks(cs, a.coq_out)
    _, ch3 = write_compile_probes(a.crate)
    ch1 |= sync_support(a.crate)
    print("types=%d cases=%d rust_changed=%s coq_changed=%s compile_probes_changed=%s" % (len(tys), len(cs), ch1, ch2, ch3))


if __name__ == "__main__":
    main()
