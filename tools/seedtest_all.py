#!/usr/bin/env python3
"""Runs tools/seedtest-style detection for every seeded change under /tmp/seeded-out (target property
+ neighbours), sequentially, restoring /repo after each; results in build/seedtests/<id>.json."""
import json, os, re, subprocess, sys, time
VERIF = os.path.dirname(os.path.dirname(os.path.abspath(__file__)))
SRC = os.path.join(VERIF, 'seeded')
OUT = os.path.join(VERIF, 'build', 'seedtests')
NEIGH = {'C01': ['C05'], 'C02': ['C11'], 'C03': ['C01'], 'C04': ['C05'], 'C05': ['C01'], 'C06': ['C01'], 'C07': ['C01'], 'C08': ['C09'],
         'C09': ['C08'], 'C10': ['C08'], 'C11': ['C02'], 'C12': ['C07'], 'C13': ['C09'], 'C14': ['C09'], 'C15': ['C11'], 'C16': ['C04'],
         'C17': [], 'C18': [], 'C19': [], 'C20': ['C03']}

def sh(cmd, **kw):
    return subprocess.run(cmd, shell=True, stdout=subprocess.PIPE, stderr=subprocess.STDOUT, text=True, **kw)

os.makedirs(OUT, exist_ok=True)
ids = sys.argv[1:] or sorted(os.listdir(SRC))
for i in ids:
    d = os.path.join(SRC, i)
    outp = os.path.join(OUT, i + '.json')
    if os.path.exists(outp) or not os.path.exists(os.path.join(d, 'patch.diff')):
        continue
    try:
        prop = json.load(open(os.path.join(d, 'meta.json')))['property']
    except Exception:
        prop = i[:3]
    props = [prop] + NEIGH.get(prop, [])
    if sh('git -C /repo status --porcelain --untracked-files=no').stdout.strip():
        print('refusing: /repo dirty'); sys.exit(2)
    r = sh(f'git -C /repo apply {d}/patch.diff')
    if r.returncode != 0:
        json.dump(dict(error='patch does not apply: ' + r.stdout[-300:]), open(outp, 'w')); continue
    res = {}
    try:
        for p in props:
            t0 = time.time()
            r = sh(f'./check {p} --tier quick', cwd=VERIF, timeout=3000)
            viol = re.findall(r'^VIOLATION property=(\S+) replay=(\S+)(.*)$', r.stdout, re.M)
            res[p] = dict(rc=r.returncode, wall_s=round(time.time() - t0, 1),
                          violations=[dict(replay=v[1], found_input=('no-failing-input-found' not in v[2])) for v in viol],
                          detail=[l.strip()[:400] for l in r.stdout.splitlines() if l.startswith('  ')][:3])
    finally:
        sh('git -C /repo checkout -- .')
    json.dump(dict(id=i, at=time.strftime('%Y-%m-%d %H:%M'), results=res), open(outp, 'w'), indent=1)
    print(i, {p: (v['rc'], [x['found_input'] for x in v['violations']]) for p, v in res.items()}, flush=True)
print('SEEDTESTS DONE')
