#!/usr/bin/env python3
"""seedverify.py [ids...]: independently confirms each seeded change delivered under
/tmp/seeded-out/<id>/ in a scratch worktree of /repo (outside /repo and /verif):
  - patch.diff applies to HEAD and the crate builds (default features and weak-ptrs,cleaners),
  - the existing test suite still passes with it (all targets except the trybuild target
    macro_tests, which fails on the unchanged tree; both feature sets),
  - the demonstration passes on the clean tree and fails with the change.
Confirmed changes are copied to /verif/seeded/<id>/ with the confirmation recorded in meta.json.
"""
import json, os, re, shutil, subprocess, sys, time

VERIF = os.path.dirname(os.path.dirname(os.path.abspath(__file__)))
SRC = os.environ.get('SEED_SRC', '/tmp/seeded-out')
WT = '/tmp/wt-verify'
ENV = dict(os.environ, CARGO_NET_OFFLINE='true', CARGO_TARGET_DIR=WT + '/target')


def sh(cmd, cwd=None, timeout=3600):
    p = subprocess.run(cmd, shell=True, cwd=cwd, env=ENV, stdout=subprocess.PIPE, stderr=subprocess.STDOUT, text=True, timeout=timeout)
    return p.returncode, p.stdout


def clean():
    sh('git checkout -- . && git clean -fdq -e target', cwd=WT)


def suite(features):
    f = f'--features {features}' if features else ''
    rc1, o1 = sh(f'cargo test --offline {f} --lib --test cc --test auto_collect 2>&1', cwd=WT)
    rc2, o2 = (0, '')
    if features:
        rc2, o2 = sh(f'cargo test --offline {f} --test weak_upgrade_tests 2>&1', cwd=WT)
    ok = rc1 == 0 and rc2 == 0
    summ = ' | '.join(re.findall(r'^test result: .*$', o1 + o2, re.M))
    return ok, summ, (o1 + o2)[-1500:]


def main():
    ids = sys.argv[1:] or sorted(os.listdir(SRC))
    if not os.path.exists(WT):
        rc, o = sh(f'git -C /repo worktree add --detach {WT} HEAD')
        if rc != 0:
            print(o); sys.exit(2)
    out = {}
    for i in ids:
        d = os.path.join(SRC, i)
        mp = os.path.join(d, 'meta.json')
        if not os.path.exists(mp) or not os.path.exists(os.path.join(d, 'patch.diff')):
            print(i, 'SKIP (incomplete)'); continue
        dst = os.path.join(VERIF, 'seeded', i)
        if not os.environ.get('SEED_FORCE') and os.path.exists(os.path.join(dst, 'meta.json')) and 'confirmed' in json.load(open(os.path.join(dst, 'meta.json'))):
            print(i, 'already confirmed'); continue
        meta = json.load(open(mp))
        t0 = time.time()
        clean()
        demo_dest = meta.get('demo_file_dest')
        demo_cmd = meta.get('demo_cmd', '')
        dests = demo_dest if isinstance(demo_dest, list) else [demo_dest]
        demos = [f for f in os.listdir(d) if f.endswith('.rs')]
        conf = dict(at=time.strftime('%Y-%m-%d %H:%M'), head=sh('git rev-parse --short HEAD', cwd=WT)[1].strip())
        try:
            def place():
                for dd in dests:
                    if not dd:
                        continue
                    base = os.path.basename(dd)
                    src = os.path.join(d, base)
                    if not os.path.exists(src) and len(demos) == 1:
                        src = os.path.join(d, demos[0])
                    os.makedirs(os.path.dirname(os.path.join(WT, dd)) or WT, exist_ok=True)
                    shutil.copy(src, os.path.join(WT, dd))
            cmd = demo_cmd.split('(optionally')[0].strip()
            cmd = re.sub(r'\s+', ' ', cmd)
            # clean tree: demo passes
            place()
            rc_clean, o_clean = sh(cmd + ' 2>&1', cwd=WT, timeout=1800)
            conf['demo_clean_rc'] = rc_clean
            # with the change
            clean()
            rc, o = sh(f'git apply {os.path.join(d, "patch.diff")}', cwd=WT)
            conf['applies'] = rc == 0
            if rc != 0:
                conf['error'] = o[-500:]
                raise RuntimeError('patch does not apply')
            ok1, s1, t1 = suite('')
            ok2, s2, t2 = suite('weak-ptrs,cleaners')
            conf['suite_default'] = dict(ok=ok1, summary=s1)
            conf['suite_weak_cleaners'] = dict(ok=ok2, summary=s2)
            if not ok1:
                conf['suite_default']['tail'] = t1
            if not ok2:
                conf['suite_weak_cleaners']['tail'] = t2
            place()
            rc_mut, o_mut = sh(cmd + ' 2>&1', cwd=WT, timeout=1800)
            conf['demo_changed_rc'] = rc_mut
            conf['demo_changed_tail'] = o_mut.strip().splitlines()[-6:]
            conf['ok'] = bool(rc_clean == 0 and rc_mut != 0 and ok1 and ok2)
        except Exception as e:
            conf['ok'] = False
            conf['exception'] = str(e)
        conf['wall_s'] = round(time.time() - t0, 1)
        print(i, 'CONFIRMED' if conf['ok'] else 'NOT CONFIRMED', json.dumps({k: v for k, v in conf.items() if k in ('demo_clean_rc', 'demo_changed_rc', 'applies', 'exception', 'wall_s')}), flush=True)
        if conf['ok']:
            os.makedirs(dst, exist_ok=True)
            for f in os.listdir(d):
                if os.path.isfile(os.path.join(d, f)) and os.path.getsize(os.path.join(d, f)) < 200000:
                    shutil.copy(os.path.join(d, f), dst)
            meta['confirmed'] = conf
            json.dump(meta, open(os.path.join(dst, 'meta.json'), 'w'), indent=1)
        out[i] = conf
        clean()
    json.dump(out, open('/tmp/seedverify-last.json', 'w'), indent=1)


if __name__ == '__main__':
    main()
