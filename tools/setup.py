#!/usr/bin/env python3
"""setup_cmd of MANIFEST.json: builds the framework once from files on disk (offline)."""
import os, sys, time
sys.path.insert(0, os.path.dirname(os.path.abspath(__file__)))
import rcc

t0 = time.time()
ok, msg = rcc.regen_leaf()
print('translator:', 'ok' if ok else 'FAILED', msg[-300:])
ok, log = rcc.build_coq()
print('coq build:', 'ok' if ok else 'FAILED')
if not ok:
    print(log[-3000:])
print('modelrun:', rcc.build_model())
print('harness:', rcc.build_harness('full', False))
for fs, rel in (('nofin', False), ('noweak', False), ('noauto', False), ('full', True)):
    print('harness:', rcc.build_harness(fs, rel))
for script in ('leafcheck.py', 'check_containers.py', 'check_derive.py', 'check_layout.py', 'check_forward.py', 'check_threads.py', 'check_lists.py'):
    p = os.path.join(rcc.VERIF, 'tools', script)
    if os.path.exists(p):
        rc, out = rcc.sh([sys.executable, p, '--json', os.path.join(rcc.BUILD, 'setup-' + script + '.json')], check=False, timeout=3000, cwd=rcc.VERIF)
        print(script, 'rc', rc, out.strip().splitlines()[-1][:200] if out.strip() else '')
print(f'setup done in {time.time() - t0:.0f}s')
