#!/usr/bin/env python3
"""C11 (lists) correspondence check: the pointer-level Coq model of src/lists.rs (coq/Lists.v)
against the real functions, operation by operation.

  check_lists.py [--repo PATH] [--json PATH] [--seed N] [--random N] [--len N] [--depth N]
                 [--profiles debug,release] [--jobs N]

The crate under test must contain the hook module `rust_cc::verif::lists` (build/lists_hooks.patch):
an arena of detached nodes and several LinkedList / PossibleCycles / LinkedQueue values whose
functions are called by list index and node index, and a snapshot of every link, mark, tracing
counter, head and cached size.

  1. generates the cases (same ids on both sides):
       - `--random` seeded random VALID operation sequences of `--len` operations over an arena
         of 12 nodes shared by 2 LinkedLists, 2 PossibleCycles and 2 LinkedQueues (add only
         unlinked nodes, remove only members, swap_list / mark_self_and_append with the right
         sizes); the whole snapshot is compared after every operation;
       - every sequence of up to `--depth` (5) operations over four small alphabets (one per list
         type on 3 nodes, one mixing LinkedList and PossibleCycles with swap_list and
         mark_self_and_append) whose proper prefix is valid: the last operation may be a misuse
         (adding a linked node, removing a non-member, a wrong size); the snapshot after the last
         operation is compared (every proper prefix is a case of its own);
  2. builds coq/Lists.v (make -f Makefile.lists) and the probe crate probes/lists against the
     CURRENT working tree of --repo, in a debug profile (debug assertions and overflow checks on)
     and a release profile (off);
  3. evaluates the cases on the model (build/lists/cases_<i>.v, `Eval vm_compute`, in parallel)
     and on the real code;
  4. compares: equal rows; in the debug profile the real operation panics exactly when the
     model says an assertion fires (the case ends there), in the release profile the real code
     continues exactly like the model; for valid sequences additionally the abstract list
     semantics used by Machine.v (cons / remove_id / pop / snoc / L ++ pc, size = length) is
     compared with what the real iterators yield;
  5. prints `LISTS ok sequences=<n> ops=<n>` and exits 0, or prints the first mismatch and exits 1.
     `--json PATH` writes a summary (cases, mismatches, samples, wall_s).
"""
import argparse
import fcntl
import hashlib
import itertools
import json
import os
import random
import subprocess
import sys
import time
from concurrent.futures import ThreadPoolExecutor

HERE = os.path.dirname(os.path.abspath(__file__))
VERIF = os.path.dirname(HERE)
BUILD = os.path.join(VERIF, "build")
WORK = os.path.join(BUILD, "lists")
COQ = os.path.join(VERIF, "coq")
PROBE_DIR = os.path.join(VERIF, "probes", "lists")

MARKS = ["NM", "PC", "IL", "IQ"]
REAL_TIMEOUT = 60           # seconds for one run of the probe binary (normally < 1 s)


class CheckFailure(Exception):
    pass


# --------------------------------------------------------------------------------------------
# Operations: tuples (name, args...) with the textual names of the probe
# --------------------------------------------------------------------------------------------
def op_text(op):
    return " ".join(str(x) for x in op)


def op_coq(op):
    n = op[0]
    a = op[1:]
    if n == "la":
        return "OLlAdd %d %d" % a
    if n == "lr":
        return "OLlRemove %d %d" % a
    if n == "lf":
        return "OLlRemoveFirst %d" % a
    if n == "ld":
        return "OLlDrop %d" % a
    if n == "pa":
        return "OPcAdd %d %d" % a
    if n == "pr":
        return "OPcRemove %d %d" % a
    if n == "pf":
        return "OPcRemoveFirst %d" % a
    if n == "pd":
        return "OPcDrop %d" % a
    if n == "ps":
        return "OPcSwap %d %d %d%%N" % a
    if n == "pm":
        return "OPcMsa %d %d %s %d%%N" % (a[0], a[1], MARKS[a[2]], a[3])
    if n == "qa":
        return "OQAdd %d %d" % a
    if n == "qp":
        return "OQPoll %d" % a
    if n == "qd":
        return "OQDrop %d" % a
    if n == "sm":
        return "OSetMark %d %s" % (a[0], MARKS[a[1]])
    if n == "st":
        return "OSetTc %d %d%%N" % a
    raise ValueError(op)


class Abstract:
    """The abstract semantics (what Machine.v uses): Python lists, front first."""

    def __init__(self, nn, nll, npc, nq):
        self.nn = nn
        self.ll = [[] for _ in range(nll)]
        self.pc = [[] for _ in range(npc)]
        self.size = [0] * npc
        self.q = [[] for _ in range(nq)]
        self.where = [None] * nn          # None | ("ll"|"pc"|"q", j)
        self.mark = [0] * nn
        self.tc = [1] * nn
        self.ok = True                    # False once a misuse happened: no prediction any more

    def valid(self, op):
        n, a = op[0], op[1:]
        if n in ("la", "pa", "qa"):
            return self.where[a[1]] is None
        if n == "lr":
            return self.where[a[1]] == ("ll", a[0])
        if n == "pr":
            return self.where[a[1]] == ("pc", a[0])
        if n == "ps":
            return a[2] == len(self.ll[a[1]])
        if n == "pm":
            return a[3] == len(self.ll[a[1]])
        return True

    def apply(self, op):
        """Applies a VALID operation; returns the encoded return value."""
        n, a = op[0], op[1:]
        if n == "la":
            self.ll[a[0]].insert(0, a[1])                      # x :: l
            self.where[a[1]] = ("ll", a[0])
        elif n == "pa":
            self.pc[a[0]].insert(0, a[1])
            self.size[a[0]] += 1
            self.where[a[1]] = ("pc", a[0])
        elif n == "qa":
            self.q[a[0]].append(a[1])                          # q ++ [c]
            self.where[a[1]] = ("q", a[0])
        elif n == "lr":
            self.ll[a[0]] = [y for y in self.ll[a[0]] if y != a[1]]   # remove_id
            self.where[a[1]] = None
        elif n == "pr":
            self.pc[a[0]] = [y for y in self.pc[a[0]] if y != a[1]]
            self.size[a[0]] -= 1
            self.where[a[1]] = None
        elif n in ("lf", "pf", "qp"):
            l = {"lf": self.ll, "pf": self.pc, "qp": self.q}[n][a[0]]
            if not l:
                return 0
            x = l.pop(0)
            if n == "pf":
                self.size[a[0]] -= 1
            self.where[x] = None
            self.mark[x] = 0
            return x + 1
        elif n in ("ld", "pd", "qd"):
            ls = {"ld": self.ll, "pd": self.pc, "qd": self.q}[n]
            for x in ls[a[0]]:
                self.where[x] = None
                self.mark[x] = 0
            ls[a[0]] = []
            if n == "pd":
                self.size[a[0]] = 0
        elif n == "ps":
            jp, jl, k = a
            self.pc[jp], self.ll[jl] = self.ll[jl], self.pc[jp]
            self.size[jp] = k
            for x in self.pc[jp]:
                self.where[x] = ("pc", jp)
            for x in self.ll[jl]:
                self.where[x] = ("ll", jl)
        elif n == "pm":
            jp, jl, m, k = a
            for x in self.pc[jp]:
                self.mark[x] = m
                self.tc[x] = 0
            for x in self.ll[jl]:
                self.where[x] = ("pc", jp)
            self.pc[jp] = self.pc[jp] + self.ll[jl]            # self ++ to_append
            self.ll[jl] = []
            self.size[jp] += k
        elif n == "sm":
            self.mark[a[0]] = a[1]
        elif n == "st":
            self.tc[a[0]] = a[1]
        return 0

    def expected_row_parts(self):
        """(lists as iter() should yield them, sizes, marks, tcs)"""
        return ([list(l) for l in self.ll], [list(l) for l in self.pc], list(self.size),
                [list(l) for l in self.q], list(self.mark), list(self.tc))


def decode_row(row, nn, nll, npc, nq):
    """Splits a row into its parts (see RC.Lists.row)."""
    pos = 2
    out = {"ret": row[0], "fired": row[1], "ll": [], "pc": [], "size": [], "q": [], "heads": []}
    for _ in range(nll):
        first, empty, n = row[pos], row[pos + 1], row[pos + 2]
        out["ll"].append([x - 1 for x in row[pos + 3:pos + 3 + n]])
        out["heads"].append((first, empty))
        pos += 3 + n
    for _ in range(npc):
        first, size, empty, n = row[pos], row[pos + 1], row[pos + 2], row[pos + 3]
        out["pc"].append([x - 1 for x in row[pos + 4:pos + 4 + n]])
        out["size"].append(size)
        out["heads"].append((first, empty))
        pos += 4 + n
    for _ in range(nq):
        first, last, empty, n = row[pos], row[pos + 1], row[pos + 2], row[pos + 3]
        out["q"].append([x - 1 for x in row[pos + 4:pos + 4 + n]])
        out["heads"].append((first, empty, last))
        pos += 4 + n
    nodes = row[pos:]
    if len(nodes) != 4 * nn:
        raise CheckFailure("malformed row (length %d): %r" % (len(row), row))
    out["mark"] = nodes[2::4]
    out["tc"] = nodes[3::4]
    out["next"] = nodes[0::4]
    out["prev"] = nodes[1::4]
    return out


# --------------------------------------------------------------------------------------------
# Case generation
# --------------------------------------------------------------------------------------------
def gen_random_case(rng, cid, length):
    nn, nll, npc, nq = 12, 2, 2, 2
    ab = Abstract(nn, nll, npc, nq)
    ops = []
    while len(ops) < length:
        free = [i for i in range(nn) if ab.where[i] is None]
        kind = rng.random()
        op = None
        if kind < 0.42 and free:
            i = rng.choice(free)
            t = rng.choice(["la", "la", "pa", "pa", "qa"])
            j = rng.randrange({"la": nll, "pa": npc, "qa": nq}[t])
            op = (t, j, i)
        elif kind < 0.62:
            t = rng.choice(["lr", "pr"])
            ls = ab.ll if t == "lr" else ab.pc
            cands = [(j, x) for j, l in enumerate(ls) for x in l]
            if cands:
                j, x = rng.choice(cands)
                op = (t, j, x)
        elif kind < 0.78:
            t = rng.choice(["lf", "pf", "qp", "qp"])
            j = rng.randrange({"lf": nll, "pf": npc, "qp": nq}[t])
            op = (t, j)
        elif kind < 0.82:
            t = rng.choice(["ld", "pd", "qd"])
            j = rng.randrange({"ld": nll, "pd": npc, "qd": nq}[t])
            op = (t, j)
        elif kind < 0.88:
            jp, jl = rng.randrange(npc), rng.randrange(nll)
            op = ("ps", jp, jl, len(ab.ll[jl]))
        elif kind < 0.94:
            jp, jl = rng.randrange(npc), rng.randrange(nll)
            op = ("pm", jp, jl, rng.randrange(4), len(ab.ll[jl]))
        elif kind < 0.97:
            op = ("sm", rng.randrange(nn), rng.randrange(4))
        else:
            op = ("st", rng.randrange(nn), rng.randrange(40))
        if op is None:
            continue
        assert ab.valid(op)
        ab.apply(op)
        ops.append(op)
    return {"id": cid, "mode": "all", "shape": (nn, nll, npc, nq), "ops": ops, "valid": True,
            "family": "random"}


def alphabets():
    """(name, shape, symbols); a symbol is a function Abstract -> op (sizes are resolved against
    the current abstract state: '=' the right size, '+' a wrong one)."""
    def const(op):
        return lambda ab: op

    ll = [const(("la", 0, i)) for i in range(3)] + [const(("lr", 0, i)) for i in range(3)] + \
         [const(("lf", 0)), const(("ld", 0))]
    pc = [const(("pa", 0, i)) for i in range(3)] + [const(("pr", 0, i)) for i in range(3)] + \
         [const(("pf", 0)), const(("pd", 0))]
    q = [const(("qa", 0, i)) for i in range(3)] + [const(("qp", 0)), const(("qd", 0))]
    mix = [const(("la", 0, 0)), const(("la", 0, 1)), const(("pa", 0, 2)), const(("pa", 0, 1)),
           lambda ab: ("ps", 0, 0, len(ab.ll[0])),
           lambda ab: ("pm", 0, 0, 1, len(ab.ll[0])),
           lambda ab: ("pm", 0, 0, 2, len(ab.ll[0]) + 1),
           const(("pf", 0)), const(("lr", 0, 1)), const(("pr", 0, 1))]
    two = [const(("la", 0, 0)), const(("la", 1, 0)), const(("la", 0, 1)), const(("la", 1, 1)),
           const(("lr", 0, 0)), const(("lr", 1, 0)), const(("lr", 0, 1)), const(("lf", 1)),
           const(("qa", 0, 0)), const(("qa", 0, 1)), const(("qp", 0))]
    return [("ll", (3, 1, 0, 0), ll), ("pc", (3, 0, 1, 0), pc), ("q", (3, 0, 0, 1), q),
            ("mix", (3, 1, 1, 0), mix), ("two", (2, 2, 0, 1), two)]


def gen_exhaustive(depth, next_id):
    """Every sequence of 1..depth symbols whose proper prefix is valid (DFS over the trie)."""
    cases = []
    for name, shape, syms in alphabets():
        def rec(prefix_ops, prefix_syms):
            if len(prefix_ops) >= depth:
                return
            ab = Abstract(*shape)
            for o in prefix_ops:
                ab.apply(o)
            for k, sym in enumerate(syms):
                op = sym(ab)
                ok = ab.valid(op)
                cid = next_id[0]
                next_id[0] += 1
                cases.append({"id": cid, "mode": "last", "shape": shape, "ops": prefix_ops + [op],
                              "valid": ok, "family": "exh-" + name})
                if ok:
                    rec(prefix_ops + [op], prefix_syms + [k])
        rec([], [])
    return cases


# --------------------------------------------------------------------------------------------
# Running things
# --------------------------------------------------------------------------------------------
def run(cmd, cwd=None, env=None, log=None, timeout=3000, check=True):
    t0 = time.time()
    p = subprocess.run(cmd, cwd=cwd, env=env, stdout=subprocess.PIPE, stderr=subprocess.PIPE,
                       text=True, timeout=timeout)
    if log is not None:
        log.append({"cmd": " ".join(cmd), "cwd": cwd, "rc": p.returncode, "s": round(time.time() - t0, 2)})
    if check and p.returncode != 0:
        raise CheckFailure("command failed (%d): %s\n%s\n%s"
                           % (p.returncode, " ".join(cmd), p.stdout[-3000:], p.stderr[-3000:]))
    return p


def write_if_changed(path, text):
    try:
        with open(path) as f:
            if f.read() == text:
                return
    except OSError:
        pass
    with open(path, "w") as f:
        f.write(text)


def repo_tag(repo):
    real = os.path.realpath(repo)
    return "default" if real == "/repo" else hashlib.sha1(real.encode()).hexdigest()[:10]


def prepare_crate(repo):
    real = os.path.realpath(repo)
    if not os.path.isfile(os.path.join(real, "Cargo.toml")):
        raise CheckFailure("no Cargo.toml in --repo %s" % repo)
    with open(os.path.join(real, "src", "verif.rs")) as f:
        if "pub mod lists" not in f.read():
            raise CheckFailure("BUILD FAILED: %s/src/verif.rs has no `pub mod lists`: apply "
                               "/verif/build/lists_hooks.patch first" % real)
    crate = os.path.join(WORK, "crate-" + repo_tag(repo))
    os.makedirs(crate, exist_ok=True)
    with open(os.path.join(PROBE_DIR, "Cargo.toml.in")) as f:
        tmpl = f.read()
    write_if_changed(os.path.join(crate, "Cargo.toml"), tmpl.replace("@REPO@", real))
    src = os.path.join(crate, "src")
    want = os.path.join(PROBE_DIR, "src")
    if os.path.islink(src) and os.readlink(src) != want:
        os.unlink(src)
    if not os.path.lexists(src):
        os.symlink(want, src)
    lock = os.path.join(crate, "Cargo.lock")
    if not os.path.exists(lock) and os.path.exists(os.path.join(real, "Cargo.lock")):
        with open(os.path.join(real, "Cargo.lock")) as f:
            write_if_changed(lock, f.read())
    return crate


def cargo_build(repo, release, log):
    crate = prepare_crate(repo)
    tdir = os.path.join(WORK, "target-" + repo_tag(repo))
    env = dict(os.environ)
    env["CARGO_NET_OFFLINE"] = "true"
    env["RUSTFLAGS"] = "--cfg rust_cc_verif"
    cmd = ["cargo", "build", "--offline", "--target-dir", tdir, "--message-format=json"]
    if release:
        cmd.append("--release")
    p = run(cmd, cwd=crate, env=env, log=log, check=False)
    exe, errors = None, []
    for line in p.stdout.splitlines():
        try:
            m = json.loads(line)
        except ValueError:
            continue
        if m.get("reason") == "compiler-artifact" and m.get("executable") and \
                m.get("target", {}).get("name") == "lists-probe":
            exe = m["executable"]
        elif m.get("reason") == "compiler-message" and m.get("message", {}).get("level") == "error":
            errors.append(m["message"].get("rendered") or m["message"].get("message") or "")
    if p.returncode != 0 or exe is None:
        first = errors[0].strip() if errors else (p.stderr.strip().splitlines() or ["cargo failed"])[-1]
        raise CheckFailure("BUILD FAILED (%s, repo %s): %s" % ("release" if release else "debug", repo, first))
    return exe


def build_coq(log):
    mk = os.path.join(COQ, "Makefile.lists")
    proj = os.path.join(COQ, "_CoqProject.lists")
    if not os.path.exists(mk) or os.path.getmtime(mk) < os.path.getmtime(proj):
        run(["coq_makefile", "-f", "_CoqProject.lists", "-o", "Makefile.lists"], cwd=COQ, log=log)
    run(["make", "-f", "Makefile.lists", "Lists.vo"], cwd=COQ, log=log, timeout=1500)


def case_coq(c):
    nn, nll, npc, nq = c["shape"]
    ops = "; ".join(op_coq(o) for o in c["ops"])
    if c["mode"] == "all":
        return "case_all %d %d %d %d [%s]" % (nn, nll, npc, nq, ops)
    return "[case_last %d %d %d %d [%s]]" % (nn, nll, npc, nq, ops)


def eval_model(cases, jobs, log):
    """{id: [rows]} from `Eval vm_compute` over shards of the cases."""
    # balance the shards by number of operations
    shards = [[] for _ in range(max(1, jobs))]
    load = [0] * len(shards)
    for c in sorted(cases, key=lambda c: -len(c["ops"])):
        k = load.index(min(load))
        shards[k].append(c)
        load[k] += len(c["ops"]) if c["mode"] == "all" else 1 + len(c["ops"]) // 4
    shards = [s for s in shards if s]
    for fn in os.listdir(WORK):
        if fn.startswith("cases") and (fn.endswith(".v") or fn.endswith(".vo") or fn.endswith(".glob")
                                       or fn.endswith(".vok") or fn.endswith(".vos") or fn.endswith(".aux")):
            os.unlink(os.path.join(WORK, fn))
    paths = []
    for k, shard in enumerate(shards):
        body = ";\n  ".join(case_coq(c) for c in shard)
        text = ("(* generated by tools/check_lists.py *)\n"
                "From Coq Require Import NArith List.\n"
                "From RC Require Import Hdr Lists.\n"
                "Import ListNotations.\n"
                "Definition cases : list (list (list N)) := [\n  %s ].\n"
                "Open Scope N_scope.\n"
                "Set Printing Width 1000000.\n"
                "Eval vm_compute in cases.\n" % body)
        path = os.path.join(WORK, "cases_%d.v" % k)
        with open(path, "w") as f:
            f.write(text)
        paths.append(path)

    def one(path):
        p = run(["coqc", "-Q", COQ, "RC", path], cwd=WORK, log=log, timeout=3000)
        out = p.stdout
        i = out.find("=")
        j = out.rfind("\n     :")
        if i < 0 or j < 0:
            raise CheckFailure("cannot find the vm_compute result in coqc's output:\n" + out[:2000])
        body = out[i + 1:j].replace("%N", "").replace(";", ",")
        try:
            return json.loads(body)
        except ValueError as e:
            raise CheckFailure("cannot parse coqc's output (%s): %s" % (e, body[:300]))

    with ThreadPoolExecutor(max_workers=len(paths)) as ex:
        parts = list(ex.map(one, paths))
    res = {}
    for shard, part in zip(shards, parts):
        if len(shard) != len(part):
            raise CheckFailure("coqc returned %d cases for a shard of %d" % (len(part), len(shard)))
        for c, rows in zip(shard, part):
            res[c["id"]] = rows
    return res


def eval_real(exe, cases, tag, log):
    """({id: {k: row | 'P'}}, hang): the short exhaustive cases run first; if the binary does not
    terminate, `hang` = (case that was running, ids that completed)."""
    path = os.path.join(WORK, "cases-%s.txt" % tag)
    order = [c for c in cases if c["mode"] == "last"] + [c for c in cases if c["mode"] != "last"]
    with open(path, "w") as f:
        for c in order:
            nn, nll, npc, nq = c["shape"]
            f.write("%d %s %d %d %d %d : %s\n" % (c["id"], c["mode"], nn, nll, npc, nq,
                                                 " ; ".join(op_text(o) for o in c["ops"])))
    hang = None
    try:
        out = run([exe, path], log=log, timeout=REAL_TIMEOUT).stdout
    except subprocess.TimeoutExpired as e:
        out = e.stdout or ""
        if isinstance(out, bytes):
            out = out.decode("utf-8", "replace")
        out = out[:out.rfind("\n") + 1]
        begun = [int(l.split()[1]) for l in out.splitlines() if l.startswith("B ")]
        if not begun:
            raise CheckFailure("[%s] the real code did not terminate within %d s" % (tag, REAL_TIMEOUT))
        hang = (next(c for c in cases if c["id"] == begun[-1]), set(begun[:-1]))
    res = {}
    for line in out.splitlines():
        t = line.split()
        if not t or t[0] == "B":
            continue
        cid, k = int(t[1]), int(t[2])
        res.setdefault(cid, {})[k] = "P" if t[0] == "P" else [int(x) for x in t[3:]]
    return res, hang


# --------------------------------------------------------------------------------------------
# Comparison
# --------------------------------------------------------------------------------------------
def describe(c, k):
    return "case %d (%s, nodes/ll/pc/q = %s), operation %d `%s` of [%s]" % (
        c["id"], c["family"], "/".join(map(str, c["shape"])), k, op_text(c["ops"][k]),
        " ; ".join(op_text(o) for o in c["ops"]))


STATS = {"panics_matched": 0, "misuse_rows_release": 0}


def compare_case(c, model_rows, real, profile):
    """Returns (ops compared, mismatch text | None)."""
    nops = len(c["ops"])
    ks = list(range(nops)) if c["mode"] == "all" else [nops - 1]
    if len(model_rows) != len(ks):
        return 0, "%s: the model returned %d rows for %d" % (describe(c, 0), len(model_rows), len(ks))
    compared = 0
    for row_m, k in zip(model_rows, ks):
        got = real.get(k)
        fired = row_m[1] == 1
        if profile == "debug" and fired:
            compared += 1
            if got != "P":
                return compared, ("%s [debug]: the model says a debug assertion / overflow check fires, the "
                                  "real operation did not panic\n  real : %r" % (describe(c, k), got))
            STATS["panics_matched"] += 1
            return compared, None           # the real case ends here
        if got is None:
            return compared, "%s [%s]: no output from the real code" % (describe(c, k), profile)
        if got == "P":
            return compared, ("%s [%s]: the real operation panicked, the model fires no assertion\n  model: %r"
                              % (describe(c, k), profile, row_m))
        compared += 1
        if fired:
            STATS["misuse_rows_release"] += 1
        a = list(row_m)
        b = list(got)
        a[1] = b[1] = 0
        if a != b:
            return compared, "%s [%s]: snapshots differ\n  model: %r\n  real : %r\n%s" % (
                describe(c, k), profile, row_m, got, diff_rows(c, a, b))
    return compared, None


def diff_rows(c, a, b):
    try:
        da, db = decode_row(a, *c["shape"]), decode_row(b, *c["shape"])
    except Exception:
        return ""
    out = []
    for key in da:
        if da[key] != db[key]:
            out.append("  %-5s model %r real %r" % (key, da[key], db[key]))
    return "\n".join(out)


def check_abstract(c, real):
    """Valid sequences: the abstract list semantics against what the real code shows."""
    ab = Abstract(*c["shape"])
    nops = len(c["ops"])
    for k, op in enumerate(c["ops"]):
        ret = ab.apply(op)
        if c["mode"] != "all" and k != nops - 1:
            continue
        got = real.get(k)
        if not isinstance(got, list):
            return "%s: no snapshot from the real code for a valid operation" % describe(c, k)
        d = decode_row(got, *c["shape"])
        ll, pc, size, q, mark, tc = ab.expected_row_parts()
        exp = {"ret": ret, "ll": ll, "pc": pc, "size": size, "q": q, "mark": mark, "tc": tc}
        for key, v in exp.items():
            if d[key] != v:
                return "%s: the abstract semantics predicts %s = %r, the real code shows %r" % (
                    describe(c, k), key, v, d[key])
        # every node outside all lists is unlinked
        members = set(x for l in ll + pc + q for x in l)
        for i in range(c["shape"][0]):
            if i not in members and (d["next"][i] != 0 or d["prev"][i] != 0):
                return "%s: node %d is in no list but still linked" % (describe(c, k), i)
    return None


def main():
    ap = argparse.ArgumentParser()
    ap.add_argument("--repo", default="/repo")
    ap.add_argument("--json", default=None)
    ap.add_argument("--seed", type=int, default=20260923)
    ap.add_argument("--random", type=int, default=240, help="number of random valid sequences")
    ap.add_argument("--len", type=int, default=40, help="operations per random sequence")
    ap.add_argument("--depth", type=int, default=5, help="length bound of the exhaustive enumeration")
    ap.add_argument("--profiles", default="debug,release")
    ap.add_argument("--jobs", type=int, default=max(1, min(8, (os.cpu_count() or 2) // 2)))
    args = ap.parse_args()

    t0 = time.time()
    os.makedirs(WORK, exist_ok=True)
    log = []
    summary = {"check": "lists", "repo": os.path.realpath(args.repo), "seed": args.seed, "ok": False,
               "cases": 0, "ops": 0, "mismatches": [], "samples": [], "families": {}}
    rc = 1
    lockf = open(os.path.join(WORK, ".lock"), "w")
    fcntl.flock(lockf, fcntl.LOCK_EX)
    try:
        rng = random.Random(args.seed)
        cases = [gen_random_case(rng, i, args.len) for i in range(args.random)]
        next_id = [len(cases)]
        cases += gen_exhaustive(args.depth, next_id)
        for c in cases:
            f = summary["families"].setdefault(c["family"], {"cases": 0, "misuse": 0})
            f["cases"] += 1
            f["misuse"] += 0 if c["valid"] else 1
        summary["cases"] = len(cases)
        summary["samples"] = [{"id": c["id"], "family": c["family"],
                               "ops": [op_text(o) for o in c["ops"]]}
                              for c in (cases[:2] + cases[args.random:args.random + 2] + cases[-2:])]

        profiles = [p for p in args.profiles.split(",") if p]
        with ThreadPoolExecutor(max_workers=2) as ex:
            fut_coq = ex.submit(lambda: (build_coq(log), eval_model(cases, args.jobs, log))[1])
            exes = {}
            for p in profiles:
                exes[p] = cargo_build(args.repo, p == "release", log)
            reals, hangs = {}, {}
            for p in profiles:
                reals[p], hangs[p] = eval_real(exes[p], cases, p, log)
            model = fut_coq.result()

        total_ops = 0
        mismatches = []
        for c in sorted(cases, key=lambda c: (len(c["ops"]), c["id"])):   # shortest first
            rows = model.get(c["id"])
            if rows is None:
                raise CheckFailure("no model output for case %d" % c["id"])
            for p in profiles:
                if hangs[p] and c["id"] not in hangs[p][1]:
                    continue                # did not run: the probe hung before
                n, mm = compare_case(c, rows, reals[p].get(c["id"], {}), p)
                total_ops += n
                if mm:
                    mismatches.append(mm)
                if c["valid"]:
                    mm = check_abstract(c, reals[p].get(c["id"], {}))
                    if mm:
                        mismatches.append("[%s] %s" % (p, mm))
        for p in profiles:
            if hangs[p]:
                c = hangs[p][0]
                mismatches.append("[%s] the real code did not terminate within %d s in %s" % (
                    p, REAL_TIMEOUT, describe(c, len(c["ops"]) - 1)))
        summary["ops"] = total_ops
        summary.update(STATS)
        summary["mismatches"] = mismatches[:20]
        summary["mismatch_count"] = len(mismatches)
        if mismatches:
            print("LISTS MISMATCH (%d): %s" % (len(mismatches), mismatches[0]))
        else:
            summary["ok"] = True
            rc = 0
            print("LISTS ok sequences=%d ops=%d" % (len(cases), total_ops))
    except CheckFailure as e:
        summary["error"] = str(e)
        print("LISTS FAILED: %s" % e)
    finally:
        summary["wall_s"] = round(time.time() - t0, 2)
        summary["commands"] = log
        if args.json:
            with open(args.json, "w") as f:
                json.dump(summary, f, indent=1)
        fcntl.flock(lockf, fcntl.LOCK_UN)
    return rc


if __name__ == "__main__":
    sys.exit(main())
