(** Extraction of the executable model to OCaml (ExtrOcamlBasic only: bool, option, unit, list,
    prod, sumbool, comparison map to OCaml's; nat, positive, N stay the extracted datatypes). *)
From RC Require Import Hdr Machine Inv Cover.
Require Extraction.
Require Import ExtrOcamlBasic.
Extraction Language OCaml.
Extraction "../ocaml/model.ml" init exec_top run_main get_fuse cur_flags should_collect inv_b no_bad exact_b no_panic_yet cover_b maps_owned_b wf_prog.
