(** * LifeInv: the lifecycle invariant (definitions, quiet helpers).

    Per object [o] the log and the state agree ([OKo]): [EAlloc o] logged iff the box was
    allocated, [EFree o] iff it is freed, [ECb KDrop o] iff the value's destruction has begun
    (never for a CleanerMap), at most one of each; a freed box never holds a live value;
    layouts of the events are the layout of the object; finalizer events only for initialised
    allocated non-map objects under [k_fin], at most one when the program never re-arms
    ([nfa]).  The log itself is well-formed ([lwf]): an [EFree] is preceded by the [EAlloc]
    with the same layout, no [KFin o] after [KDrop o], ...

    Everything is stated modulo [G m] = "no model-detected misbehaviour logged and the marker
    [mu] is not in the ghost [dead]" (LifeChk/Life: on such runs every activation starts in a
    state satisfying [chk]). *)
From Coq Require Import NArith Bool List Lia.
From stdpp Require Import base list option.
From RecordUpdate Require Import RecordSet.
From RC Require Import Hdr Machine RunInd Flags.
From RC Require Import Inv InvP.
Import ListNotations RecordSetNotations.
Local Open Scope N_scope.

(** ** Events *)
Definition ev_rel (e : event) : bool :=
  match e with EAlloc _ _ _ | EFree _ _ _ | ECb KDrop _ _ | ECb KFin _ _ => true | _ => false end.
Definition isA (o : id) (e : event) : bool := match e with EAlloc o' _ _ => Nat.eqb o' o | _ => false end.
Definition isF (o : id) (e : event) : bool := match e with EFree o' _ _ => Nat.eqb o' o | _ => false end.
Definition isD (o : id) (e : event) : bool := match e with ECb KDrop o' _ => Nat.eqb o' o | _ => false end.
Definition isFi (o : id) (e : event) : bool := match e with ECb KFin o' _ => Nat.eqb o' o | _ => false end.
Definition ev_id (e : event) : option id :=
  match e with EAlloc o _ _ | EFree o _ _ | ECb KDrop o _ | ECb KFin o _ => Some o | _ => None end.

Fixpoint cntE (p : event -> bool) (l : list event) : nat :=
  match l with [] => 0%nat | e :: l => ((if p e then 1 else 0) + cntE p l)%nat end.

Lemma cntE_app p l1 l2 : cntE p (l1 ++ l2) = (cntE p l1 + cntE p l2)%nat.
Proof. induction l1 as [|e l IH]; cbn; [reflexivity|]. rewrite IH. lia. Qed.
Lemma cntE_none p l : Forall (fun e => p e = false) l -> cntE p l = 0%nat.
Proof. induction 1 as [|e l He _ IH]; cbn; [reflexivity|]. rewrite He, IH. reflexivity. Qed.
Lemma cntE_pos p l : (0 < cntE p l)%nat <-> exists e, In e l /\ p e = true.
Proof.
  induction l as [|e l IH]; cbn.
  - split; [lia | intros (e & [] & _)].
  - destruct (p e) eqn:He.
    + split; [intros _; exists e; auto | lia].
    + rewrite Nat.add_0_l, IH. split; intros (e' & Hin & Hp); exists e'.
      * auto.
      * destruct Hin as [<-|Hin]; [congruence | auto].
Qed.

Lemma irr_isA o e : ev_rel e = false -> isA o e = false.
Proof. destruct e; cbn; congruence. Qed.
Lemma irr_isF o e : ev_rel e = false -> isF o e = false.
Proof. destruct e; cbn; congruence. Qed.
Lemma irr_isD o e : ev_rel e = false -> isD o e = false.
Proof. destruct e as [k ? ?| | | | | | | | |]; cbn; try congruence. destruct k; cbn; congruence. Qed.
Lemma irr_isFi o e : ev_rel e = false -> isFi o e = false.
Proof. destruct e as [k ? ?| | | | | | | | |]; cbn; try congruence. destruct k; cbn; congruence. Qed.
Lemma irr_id e : ev_rel e = false -> ev_id e = None.
Proof. destruct e as [k ? ?| | | | | | | | |]; cbn; try congruence. destruct k; cbn; congruence. Qed.

Definition lv (x : obj) : vstate * bstate * bool * bool := (o_vst x, o_box x, o_ismap x, h_fin (o_hdr x)).

Section Inv.
  Context (K : conf) (mu : id) (nfa : bool).

  Definition evwf (e : event) (l : list event) : Prop :=
    match e with
    | EAlloc o _ _ => cntE (isA o) l = 0%nat
    | EFree o s a => In (EAlloc o s a) l /\ cntE (isF o) l = 0%nat
    | ECb KDrop o _ => cntE (isD o) l = 0%nat
    | ECb KFin o _ => cntE (isD o) l = 0%nat /\ (nfa = true -> cntE (isFi o) l = 0%nat) /\ k_fin K = true
    | _ => True
    end.
  Fixpoint lwf (l : list event) : Prop :=
    match l with [] => True | e :: l => evwf e l /\ lwf l end.

  Definition scoped (m : machine) : Prop :=
    forall e o, In e (log m) -> ev_id e = Some o -> (o < length (heap m))%nat.

  Record OKo (m : machine) (o : id) (x : obj) : Prop := {
    ok_nA : cntE (isA o) (log m) = match o_box x with BNotYet => 0 | _ => 1 end%nat;
    ok_nF : cntE (isF o) (log m) = match o_box x with BFreed => 1 | _ => 0 end%nat;
    ok_nD : cntE (isD o) (log m) = (if o_ismap x then 0 else if dying x then 1 else 0)%nat;
    ok_freed : o_box x = BFreed -> o_vst x <> VLive;
    ok_lay : forall s a, In (EAlloc o s a) (log m) \/ In (EFree o s a) (log m) -> (s, a) = box_layout K x;
    ok_fin1 : nfa = true -> (cntE (isFi o) (log m) <= 1)%nat /\
                            (cntE (isFi o) (log m) = 1%nat -> h_fin (o_hdr x) = true);
    ok_fin0 : o_box x = BNotYet \/ o_vst x = VUninit \/ o_ismap x = true \/ k_fin K = false ->
              cntE (isFi o) (log m) = 0%nat;
  }.

  Definition Linv (m : machine) : Prop :=
    lwf (log m) /\ scoped m /\ forall o x, get m o = Some x -> OKo m o x.

  Definition G (m : machine) : Prop := no_badU m = true /\ mem_id mu (dead m) = false.

  Record ObjF (x x' : obj) : Prop := {
    f_map : o_ismap x' = o_ismap x;
    f_notyet : o_box x = BNotYet -> o_box x' = BNotYet;
    f_freed : o_box x = BFreed -> o_box x' = BFreed;
    f_dropped : o_vst x = VDropped -> o_vst x' = VDropped;
    f_uninit : o_vst x = VUninit -> o_vst x' = VUninit /\ o_box x' = o_box x;
    f_dropping : o_vst x = VDropping -> o_vst x' = VDropping;
  }.
  Lemma ObjF_refl x : ObjF x x.
  Proof. split; auto. Qed.
  Lemma ObjF_trans x y z : ObjF x y -> ObjF y z -> ObjF x z.
  Proof.
    intros [A1 A2 A3 A4 A5 A6] [B1 B2 B3 B4 B5 B6]. split; try congruence; auto.
    intros H. destruct (A5 H) as [H1 H2]. destruct (B5 H1) as [H3 H4]. split; congruence.
  Qed.
  Lemma ObjF_lv x x' : lv x' = lv x -> ObjF x x'.
  Proof. unfold lv. intros [= H1 H2 H3 H4]. split; try congruence. intros H. split; congruence. Qed.

  Definition Frame (n0 : nat) (m m' : machine) : Prop :=
    (length (heap m) <= length (heap m'))%nat /\
    forall o x, (o < n0)%nat -> get m o = Some x -> exists x', get m' o = Some x' /\ ObjF x x'.

  Lemma Frame_refl n0 m : Frame n0 m m.
  Proof. split; [lia|]. intros o x _ Hx. exists x. split; [exact Hx | apply ObjF_refl]. Qed.
  Lemma Frame_trans n0 m1 m2 m3 : Frame n0 m1 m2 -> Frame n0 m2 m3 -> Frame n0 m1 m3.
  Proof.
    intros [L1 H1] [L2 H2]. split; [lia|]. intros o x Ho Hx.
    destruct (H1 o x Ho Hx) as (y & Hy & F1). destruct (H2 o y Ho Hy) as (z & Hz & F2).
    exists z. split; [exact Hz | eapply ObjF_trans; eassumption].
  Qed.
  Lemma Frame_weaken n0 n1 m m' : (n0 <= n1)%nat -> Frame n1 m m' -> Frame n0 m m'.
  Proof. intros Hle [L H]. split; [exact L|]. intros o x Ho. apply H. lia. Qed.

  (** the relation between the start state of an activation (with [n0] objects) and a later
      state *)
  Definition Ls (n0 : nat) (m m' : machine) : Prop :=
    (G m' -> G m) /\ (G m' -> Linv m -> Linv m') /\ (G m' -> Frame n0 m m').

  Lemma Ls_refl n0 m : Ls n0 m m.
  Proof. split; [auto|]. split; [auto|]. intros _. apply Frame_refl. Qed.
  Lemma Ls_trans n0 m1 m2 m3 : Ls n0 m1 m2 -> Ls n0 m2 m3 -> Ls n0 m1 m3.
  Proof.
    intros (A1 & A2 & A3) (B1 & B2 & B3). split; [auto|]. split; [auto|].
    intros H. eapply Frame_trans; eauto.
  Qed.
  Lemma Ls_weaken n0 n1 m m' : (n0 <= n1)%nat -> Ls n1 m m' -> Ls n0 m m'.
  Proof. intros Hle (A & B & C). split; [exact A|]. split; [exact B|]. intros H. eapply Frame_weaken; eauto. Qed.

  (** the same with one exempted object (the one whose own drop glue is running): for it only
      the map flag and the stability of never-allocated / freed boxes are claimed *)
  Record ObjW (x x' : obj) : Prop := {
    w_map : o_ismap x' = o_ismap x;
    w_notyet : o_box x = BNotYet -> o_box x' = BNotYet;
    w_freed : o_box x = BFreed -> o_box x' = BFreed;
  }.
  Lemma ObjF_W x x' : ObjF x x' -> ObjW x x'.
  Proof. intros [A1 A2 A3 _ _ _]. split; assumption. Qed.
  Lemma ObjW_trans x y z : ObjW x y -> ObjW y z -> ObjW x z.
  Proof. intros [A1 A2 A3] [B1 B2 B3]. split; try congruence; auto. Qed.
  Definition ObjFx (w : bool) (x x' : obj) : Prop := if w then ObjW x x' else ObjF x x'.
  Lemma ObjFx_trans w x y z : ObjFx w x y -> ObjFx w y z -> ObjFx w x z.
  Proof. destruct w; [apply ObjW_trans | apply ObjF_trans]. Qed.
  Lemma ObjF_Fx w x x' : ObjF x x' -> ObjFx w x x'.
  Proof. destruct w; [apply ObjF_W | auto]. Qed.

  Definition FrameX (ex : option id) (n0 : nat) (m m' : machine) : Prop :=
    (length (heap m) <= length (heap m'))%nat /\
    forall o x, (o < n0)%nat -> get m o = Some x ->
      exists x', get m' o = Some x' /\ ObjFx (bool_decide (ex = Some o)) x x'.
  Lemma Frame_X ex n0 m m' : Frame n0 m m' -> FrameX ex n0 m m'.
  Proof.
    intros [L H]. split; [exact L|]. intros o x Ho Hx. destruct (H o x Ho Hx) as (x' & Hx' & HF).
    exists x'. split; [exact Hx' | apply ObjF_Fx, HF].
  Qed.
  Lemma FrameX_trans ex n0 m1 m2 m3 : FrameX ex n0 m1 m2 -> FrameX ex n0 m2 m3 -> FrameX ex n0 m1 m3.
  Proof.
    intros [L1 H1] [L2 H2]. split; [lia|]. intros o x Ho Hx.
    destruct (H1 o x Ho Hx) as (y & Hy & F1). destruct (H2 o y Ho Hy) as (z & Hz & F2).
    exists z. split; [exact Hz | eapply ObjFx_trans; eassumption].
  Qed.
  Definition LsX (ex : option id) (n0 : nat) (m m' : machine) : Prop :=
    (G m' -> G m) /\ (G m' -> Linv m -> Linv m') /\ (G m' -> FrameX ex n0 m m').
  Lemma Ls_X ex n0 m m' : Ls n0 m m' -> LsX ex n0 m m'.
  Proof. intros (A & B & C). split; [exact A|]. split; [exact B|]. intros H. apply Frame_X, C, H. Qed.
  Lemma LsX_trans ex n0 m1 m2 m3 : LsX ex n0 m1 m2 -> LsX ex n0 m2 m3 -> LsX ex n0 m1 m3.
  Proof.
    intros (A1 & A2 & A3) (B1 & B2 & B3). split; [auto|]. split; [auto|].
    intros H. eapply FrameX_trans; eauto.
  Qed.
  (** closing: the exempted object was neither dropped, nor uninitialised, nor being dropped at
      the start *)
  Lemma LsX_close o n0 m m' :
    LsX (Some o) n0 m m' ->
    (G m' -> forall x, get m o = Some x -> o_vst x <> VDropped /\ o_vst x <> VUninit /\ o_vst x <> VDropping) ->
    Ls n0 m m'.
  Proof.
    intros (A & B & C) Hv. split; [exact A|]. split; [exact B|]. intros HG. destruct (C HG) as [L H].
    split; [exact L|]. intros o' x Ho Hx. destruct (H o' x Ho Hx) as (x' & Hx' & HF). exists x'. split; [exact Hx'|].
    unfold ObjFx in HF. destruct (bool_decide (Some o = Some o')) eqn:Hd; [|exact HF].
    apply bool_decide_eq_true in Hd. injection Hd as <-. destruct HF as [W1 W2 W3].
    destruct (Hv HG x Hx) as (V1 & V2 & V3). split; auto; intros; contradiction.
  Qed.

  (** ** Quiet changes: no object changes its lifecycle view, only irrelevant events are logged,
      the heap keeps its length, [dead] only grows *)
  Definition Quiet (m m' : machine) : Prop :=
    length (heap m') = length (heap m) /\
    (forall o, lv <$> get m' o = lv <$> get m o) /\
    (exists k, log m' = k ++ log m /\ Forall (fun e => ev_rel e = false) k) /\
    (forall o, mem_id o (dead m') = false -> mem_id o (dead m) = false).

  Lemma Quiet_refl m : Quiet m m.
  Proof. split; [reflexivity|]. split; [reflexivity|]. split; [exists []; split; [reflexivity|constructor]|auto]. Qed.
  Lemma Quiet_trans m1 m2 m3 : Quiet m1 m2 -> Quiet m2 m3 -> Quiet m1 m3.
  Proof.
    intros (A1 & A2 & (k1 & E1 & F1) & A4) (B1 & B2 & (k2 & E2 & F2) & B4).
    split; [congruence|]. split; [intros o; rewrite B2; apply A2|]. split; [|auto].
    exists (k2 ++ k1). split; [rewrite E2, E1, app_assoc; reflexivity | apply Forall_app; split; assumption].
  Qed.

  Lemma no_badU_app_r m l k : log m = k ++ l -> no_badU m = true ->
    forallb (fun e => match e with EBad b _ => bad_ok b | _ => true end) l = true.
  Proof. unfold no_badU. intros ->. rewrite forallb_app. intros H. apply andb_true_iff in H. apply H. Qed.

  Lemma Quiet_G m m' : Quiet m m' -> G m' -> G m.
  Proof.
    intros (_ & _ & (k & E & _) & Hd) [H1 H2]. split; [|auto].
    unfold no_badU. eapply no_badU_app_r; eauto.
  Qed.

  Lemma In_irr_app (k l : list event) e : Forall (fun e => ev_rel e = false) k -> ev_rel e = true ->
    In e (k ++ l) <-> In e l.
  Proof.
    intros Hk He. rewrite in_app_iff. split; [|auto]. intros [H|H]; [|exact H].
    rewrite Forall_forall in Hk. specialize (Hk _ H). congruence.
  Qed.

  Lemma lwf_irr_app k l : Forall (fun e => ev_rel e = false) k -> lwf l -> lwf (k ++ l).
  Proof.
    induction 1 as [|e k He _ IH]; intros Hl; cbn; [exact Hl|]. split; [|auto].
    destruct e as [kk ? ?| | | | | | | | |]; try exact I; cbn in He; try discriminate.
    destruct kk; try exact I; discriminate.
  Qed.

  Lemma cnt_irr_app p k l : (forall e, ev_rel e = false -> p e = false) ->
    Forall (fun e => ev_rel e = false) k -> cntE p (k ++ l) = cntE p l.
  Proof.
    intros Hp Hk. rewrite cntE_app, (cntE_none p k); [reflexivity|].
    eapply Forall_impl; [exact Hp | exact Hk].
  Qed.

  Lemma OKo_quiet m m' o x x' k : log m' = k ++ log m -> Forall (fun e => ev_rel e = false) k ->
    lv x' = lv x -> OKo m o x -> OKo m' o x'.
  Proof.
    intros E Hk Hl [H1 H2 H3 H4 H5 H6 H7]. unfold lv in Hl. injection Hl as Hv Hb Hm Hf.
    assert (Hdy : dying x' = dying x) by (unfold dying; rewrite Hv; reflexivity).
    assert (Hlay : box_layout K x' = box_layout K x) by (unfold box_layout; rewrite Hm; reflexivity).
    split; rewrite ?E, ?(cnt_irr_app _ k _ (irr_isA o) Hk), ?(cnt_irr_app _ k _ (irr_isF o) Hk),
             ?(cnt_irr_app _ k _ (irr_isD o) Hk), ?(cnt_irr_app _ k _ (irr_isFi o) Hk), ?Hv, ?Hb, ?Hm, ?Hf, ?Hdy, ?Hlay;
      try assumption.
    intros s a. rewrite !(In_irr_app k) by (exact Hk || reflexivity). apply H5.
  Qed.

  Lemma Quiet_Linv m m' : Quiet m m' -> Linv m -> Linv m'.
  Proof.
    intros (HL & Hlv & (k & E & Hk) & _) (W & S & HO). split; [|split].
    - rewrite E. apply lwf_irr_app; assumption.
    - intros e o Hin Hid. rewrite HL. rewrite E in Hin.
      assert (He : ev_rel e = true) by (destruct e as [kk ? ?| | | | | | | | |]; try discriminate; try reflexivity; destruct kk; try discriminate; reflexivity).
      apply (proj1 (In_irr_app k _ e Hk He)) in Hin. exact (S e o Hin Hid).
    - intros o x' Hx'. specialize (Hlv o). rewrite Hx' in Hlv. destruct (get m o) as [x|] eqn:Hx; [|discriminate].
      cbn in Hlv. assert (Hl : lv x' = lv x) by congruence.
      exact (OKo_quiet m m' o x x' k E Hk Hl (HO o x Hx)).
  Qed.

  Lemma Quiet_Frame n0 m m' : Quiet m m' -> Frame n0 m m'.
  Proof.
    intros (HL & Hlv & _). split; [lia|]. intros o x _ Hx. specialize (Hlv o). rewrite Hx in Hlv.
    destruct (get m' o) as [x'|]; [|discriminate]. cbn in Hlv. assert (Hl : lv x' = lv x) by congruence.
    exists x'. split; [reflexivity | apply ObjF_lv, Hl].
  Qed.

  Lemma Quiet_Ls n0 m m' : Quiet m m' -> Ls n0 m m'.
  Proof.
    intros HQ. split; [apply Quiet_G, HQ|]. split; [intros _; apply Quiet_Linv, HQ|]. intros _. apply Quiet_Frame, HQ.
  Qed.

  (** *** Building quiet changes *)
  Lemma Quiet_same m0 m m' : heap m' = heap m -> log m' = log m -> dead m' = dead m -> Quiet m0 m -> Quiet m0 m'.
  Proof.
    intros Eh El Ed HQ. eapply Quiet_trans; [exact HQ|]. unfold Quiet, get. split; [rewrite Eh; reflexivity|].
    split; [intros o; rewrite Eh; reflexivity|]. split; [exists []; split; [exact El | constructor]|].
    intros o. rewrite Ed. auto.
  Qed.
  Lemma Quiet_emit m0 e m : ev_rel e = false -> Quiet m0 m -> Quiet m0 (emit e m).
  Proof.
    intros He HQ. eapply Quiet_trans; [exact HQ|]. split; [reflexivity|]. split; [reflexivity|].
    split; [exists [e]; split; [reflexivity | repeat constructor; exact He] | auto].
  Qed.
  Lemma Quiet_emit_bad m0 b o m : Quiet m0 m -> Quiet m0 (emit_bad b o m).
  Proof. apply Quiet_emit. reflexivity. Qed.
  Lemma Quiet_upd m0 o f m : (forall x, lv (f x) = lv x) -> Quiet m0 m -> Quiet m0 (upd o f m).
  Proof.
    intros Hf HQ. eapply Quiet_trans; [exact HQ|]. unfold Quiet, get.
    change (heap (upd o f m)) with (alter f o (heap m)).
    change (log (upd o f m)) with (log m). change (dead (upd o f m)) with (dead m).
    split; [apply alter_length|].
    split; [|split; [exists []; split; [reflexivity|constructor] | auto]].
    intros o'. destruct (decide (o = o')) as [->|Hne].
    - rewrite list_lookup_alter. unfold id in *.
      destruct (heap m !! o') as [y|]; [|reflexivity].
      change (Some (lv (f y)) = Some (lv y)). rewrite Hf. reflexivity.
    - rewrite list_lookup_alter_ne by exact Hne. reflexivity.
  Qed.
  Lemma Quiet_upd_at m0 o f m : (forall x, get m o = Some x -> lv (f x) = lv x) -> Quiet m0 m -> Quiet m0 (upd o f m).
  Proof.
    intros Hf HQ. eapply Quiet_trans; [exact HQ|]. unfold Quiet, get in *.
    change (heap (upd o f m)) with (alter f o (heap m)).
    change (log (upd o f m)) with (log m). change (dead (upd o f m)) with (dead m).
    split; [apply alter_length|].
    split; [|split; [exists []; split; [reflexivity|constructor] | auto]].
    intros o'. destruct (decide (o = o')) as [->|Hne].
    - rewrite list_lookup_alter. unfold id in *.
      destruct (heap m !! o') as [y|]; [|reflexivity].
      change (Some (lv (f y)) = Some (lv y)). rewrite Hf; reflexivity.
    - rewrite list_lookup_alter_ne by exact Hne. reflexivity.
  Qed.
  Lemma Quiet_uhdr_const m0 o h m : h_fin h = h_fin (hdr_of m o) -> Quiet m0 m -> Quiet m0 (uhdr o (fun _ => h) m).
  Proof.
    intros Hh. apply Quiet_upd_at. intros x Hx. unfold lv. cbn. rewrite Hh. unfold hdr_of. rewrite Hx. reflexivity.
  Qed.
  Lemma Quiet_uhdr m0 o f m : (forall h, h_fin (f h) = h_fin h) -> Quiet m0 m -> Quiet m0 (uhdr o f m).
  Proof. intros Hf. apply Quiet_upd. intros x. unfold lv. cbn. rewrite Hf. reflexivity. Qed.
  Lemma Quiet_dead m0 L m : Quiet m0 m -> Quiet m0 (m <| dead ::= app L |>).
  Proof.
    intros HQ. eapply Quiet_trans; [exact HQ|]. split; [reflexivity|]. split; [reflexivity|].
    split; [exists []; split; [reflexivity|constructor]|]. intros o. cbn.
    unfold mem_id. rewrite existsb_app. intros H. apply orb_false_iff in H. apply H.
  Qed.
End Inv.

Ltac hfin :=
  intros; unfold inc_tc, inc_rc, dec_rc, reset_tc, set_mark, set_tc, set_dropped, set_side, set_rc; cbn;
  repeat match goal with |- context [if ?c then _ else _] => destruct c end; reflexivity.
Create HintDb lq discriminated.
#[export] Hint Resolve Quiet_refl Quiet_emit_bad Quiet_dead : lq.
#[export] Hint Extern 1 (Quiet _ (set _ _ ?X)) => (apply (Quiet_same _ X _ eq_refl eq_refl eq_refl)) : lq.
#[export] Hint Extern 1 (Quiet _ (emit _ _)) => (apply Quiet_emit; [reflexivity|]) : lq.
#[export] Hint Extern 1 (Quiet _ (upd _ _ _)) => (apply Quiet_upd; [intros; reflexivity|]) : lq.
Lemma inc_rc_fin h0 h : inc_rc h0 = Some h -> h_fin h = h_fin h0.
Proof. unfold inc_rc. destruct (_ =? _); [discriminate|]. intros [= <-]. reflexivity. Qed.
Lemma dec_rc_fin h0 h : dec_rc h0 = Some h -> h_fin h = h_fin h0.
Proof. unfold dec_rc. destruct (_ =? _); [discriminate|]. intros [= <-]. reflexivity. Qed.
Lemma inc_tc_fin h0 : h_fin (default h0 (inc_tc h0)) = h_fin h0.
Proof. unfold inc_tc. destruct (_ =? _); reflexivity. Qed.
Ltac hconst :=
  first
  [ apply inc_rc_fin; assumption
  | apply dec_rc_fin; assumption
  | reflexivity
  | unfold hdr_of;
    match goal with
    | H : get ?m ?c = Some ?x |- h_fin _ = h_fin (match get ?m' ?c with _ => _ end) =>
      change (get m' c) with (get m c); rewrite H
    end; hfin ].
#[export] Hint Extern 1 (Quiet _ (uhdr _ _ _)) =>
  (first [ apply Quiet_uhdr_const; [hconst | ] | apply Quiet_uhdr; [hfin | ] ]) : lq.
Ltac lq := eauto 12 with lq.

Section Helpers.
  Context (K : conf) (P : prog).
  Implicit Types (m : machine).

  Lemma q_dec_size m0 o m : Quiet m0 m -> Quiet m0 (dec_size o m).
  Proof. unfold dec_size. intros; brk; lq. Qed.
  Hint Resolve q_dec_size : lq.
  Lemma q_remove_from_list m0 o m : Quiet m0 m -> Quiet m0 (remove_from_list o m).
  Proof. unfold remove_from_list. intros; brk; lq. Qed.
  Lemma q_add_to_list m0 o m : Quiet m0 m -> Quiet m0 (add_to_list o m).
  Proof. unfold add_to_list. intros; brk; lq. Qed.
  Lemma q_dec_rc_m m0 o m : Quiet m0 m -> Quiet m0 (dec_rc_m o m).
  Proof.
    unfold dec_rc_m, dec_rc. intros H. destruct (h_rc (hdr_of m o) =? 0); [lq|].
    apply Quiet_uhdr_const; [reflexivity | exact H].
  Qed.
  Hint Resolve q_remove_from_list q_add_to_list q_dec_rc_m : lq.
  Lemma q_uside m0 o f m : Quiet m0 m -> Quiet m0 (uside o f m).
  Proof. unfold uside. lq. Qed.
  Lemma q_sfree m0 o m : Quiet m0 m -> Quiet m0 (sfree o m).
  Proof. unfold sfree. intros; brk; lq. Qed.
  Hint Resolve q_uside q_sfree : lq.
  Lemma q_drop_metadata m0 o m : Quiet m0 m -> Quiet m0 (drop_metadata K o m).
  Proof. unfold drop_metadata. intros; brk; lq. Qed.
  Lemma q_init_side m0 o m : Quiet m0 m -> Quiet m0 (init_side o m).
  Proof. unfold init_side. intros; brk; lq. Qed.
  Hint Resolve q_drop_metadata q_init_side : lq.
  Lemma q_weak_strong_count m0 w m : Quiet m0 m -> Quiet m0 (weak_strong_count w m).1.
  Proof. unfold weak_strong_count. intros; brk; cbn [fst]; lq. Qed.
  Lemma q_weak_weak_count m0 w m : Quiet m0 m -> Quiet m0 (weak_weak_count w m).1.
  Proof. unfold weak_weak_count. intros; brk; cbn [fst]; lq. Qed.
  Lemma q_weak_clone m0 w m m' : Quiet m0 m -> weak_clone w m = Some m' -> Quiet m0 m'.
  Proof. unfold weak_clone. intros H E; revert E; brk; intros [= <-]; lq. Qed.
  Lemma q_weak_drop m0 w m : Quiet m0 m -> Quiet m0 (weak_drop w m).
  Proof. unfold weak_drop. intros; brk; lq. Qed.
  Hint Resolve q_weak_strong_count q_weak_weak_count q_weak_drop : lq.
  Lemma q_weak_drop_opt m0 w m : Quiet m0 m -> Quiet m0 (weak_drop_opt w m).
  Proof. unfold weak_drop_opt. intros; brk; lq. Qed.
  Hint Resolve q_weak_drop_opt : lq.
  Lemma q_node_via_slot m0 i m : Quiet m0 m -> Quiet m0 (node_via_slot i m).1.
  Proof. unfold node_via_slot. intros; brk; cbn [fst]; lq. Qed.
  Hint Resolve q_node_via_slot : lq.
  Lemma q_resolve m0 self l m : Quiet m0 m -> Quiet m0 (resolve self l m).1.
  Proof.
    unfold resolve. intros H. destruct l as [i|j|i j]; cbn [fst]; auto.
    - brk; cbn [fst]; auto.
    - pose proof (q_node_via_slot m0 i m H) as H'.
      destruct (node_via_slot i m) as [m1 n]. cbn [fst] in H'. brk; cbn [fst]; auto.
  Qed.
  Lemma q_wresolve m0 self l m : Quiet m0 m -> Quiet m0 (wresolve self l m).1.
  Proof.
    unfold wresolve. intros H. destruct l as [i|j|i j|]; cbn [fst]; auto.
    - brk; cbn [fst]; auto.
    - pose proof (q_node_via_slot m0 i m H) as H'.
      destruct (node_via_slot i m) as [m1 n]. cbn [fst] in H'. brk; cbn [fst]; auto.
  Qed.
  Lemma q_nresolve m0 self n m : Quiet m0 m -> Quiet m0 (nresolve self n m).1.
  Proof. unfold nresolve. intros; brk; cbn [fst]; lq. Qed.
  Lemma q_write_loc m0 r v m : Quiet m0 m -> Quiet m0 (write_loc r v m).
  Proof. unfold write_loc. intros; brk; lq. Qed.
  Lemma q_write_wloc m0 r v m : Quiet m0 m -> Quiet m0 (write_wloc r v m).
  Proof. unfold write_wloc. intros; brk; lq. Qed.
  Hint Resolve q_resolve q_wresolve q_nresolve q_write_loc q_write_wloc : lq.
  Lemma q_set_fuse m0 k n m : Quiet m0 m -> Quiet m0 (set_fuse k n m).
  Proof. unfold set_fuse. intros; brk; lq. Qed.
  Hint Resolve q_set_fuse : lq.
  Lemma q_tick m0 k m : Quiet m0 m -> Quiet m0 (tick k m).1.
  Proof. unfold tick. intros; brk; cbn [fst]; lq. Qed.
  Lemma q_adjust m0 m : Quiet m0 m -> Quiet m0 (adjust K m).
  Proof. unfold adjust. intros; brk; lq. Qed.
  Hint Resolve q_tick q_adjust : lq.
  Lemma q_adjust_trigger_point m0 m : Quiet m0 m -> Quiet m0 (adjust_trigger_point K m).
  Proof. unfold adjust_trigger_point. intros; brk; lq. Qed.
  Lemma q_map_insert m0 mo a s m : Quiet m0 m -> Quiet m0 (map_insert mo a s m).1.
  Proof. unfold map_insert. intros; brk; cbn [fst]; lq. Qed.
  Hint Resolve q_adjust_trigger_point q_map_insert : lq.

  Lemma q_fold {B} (f : machine -> B -> machine) m0 :
    (forall m a, Quiet m0 m -> Quiet m0 (f m a)) ->
    forall l m, Quiet m0 m -> Quiet m0 (fold_left f l m).
  Proof. intros Hf l. induction l as [|a l IH]; cbn; intros m H; auto. Qed.
  Lemma q_unmark_all m0 l m : Quiet m0 m -> Quiet m0 (unmark_all l m).
  Proof. unfold unmark_all. apply q_fold. intros; lq. Qed.
  Lemma q_reset_buffered m0 m : Quiet m0 m -> Quiet m0 (reset_buffered m).
  Proof. unfold reset_buffered. apply q_fold. intros; lq. Qed.
  Hint Resolve q_unmark_all q_reset_buffered : lq.

  (** tracing *)
  Lemma q_traced_children m0 m o : Quiet m0 m -> Quiet m0 (traced_children P m o).1.
  Proof. unfold traced_children. intros; brk; cbn [fst]; lq. Qed.
  Hint Resolve q_traced_children : lq.
  Lemma q_trace_event m0 o m : Quiet m0 m -> Quiet m0 (trace_event K o m).1.
  Proof.
    unfold trace_event. intros H. destruct (is_map m o); cbn [fst]; auto.
    apply q_tick. lq.
  Qed.
  Lemma q_visit_counting m0 s c : Quiet m0 (t_m s) -> Quiet m0 (t_m (visit_counting s c)).
  Proof.
    unfold visit_counting. intros H. brk; cbn [t_m]; lq.
  Qed.
  Lemma q_visit_root m0 s c : Quiet m0 (t_m s) -> Quiet m0 (t_m (visit_root s c)).
  Proof. unfold visit_root. intros; brk; cbn [t_m]; lq. Qed.
  Lemma q_fold_visit_counting m0 l s : Quiet m0 (t_m s) -> Quiet m0 (t_m (fold_left visit_counting l s)).
  Proof. revert s. induction l as [|a l IH]; cbn; intros s H; auto using q_visit_counting. Qed.
  Lemma q_fold_visit_root m0 l s : Quiet m0 (t_m s) -> Quiet m0 (t_m (fold_left visit_root l s)).
  Proof. revert s. induction l as [|a l IH]; cbn; intros s H; auto using q_visit_root. Qed.

  Lemma q_process_counting m0 s o : Quiet m0 (t_m s) -> Quiet m0 (t_m (process_counting K P s o).1).
  Proof.
    intros H. unfold process_counting.
    assert (H0 : Quiet m0 (uhdr o (set_mark IQ) (t_m s))) by lq.
    pose proof (q_trace_event m0 o _ H0) as H1.
    destruct (trace_event K o (uhdr o (set_mark IQ) (t_m s))) as [m1 boom]. cbn [fst] in H1.
    destruct boom; cbn [fst t_m].
    - lq.
    - pose proof (q_traced_children m0 m1 o H1) as H2.
      destruct (traced_children P m1 o) as [m2 kids]. cbn [fst] in H2.
      match goal with |- context [fold_left visit_counting kids ?s0] =>
        pose proof (q_fold_visit_counting m0 kids s0 H2) as H3;
        destruct (fold_left visit_counting kids s0) as [m3 r3 n3 q3] end.
      cbn [t_m] in *. brk; cbn [fst t_m]; lq.
  Qed.
  Lemma q_process_root m0 s o : Quiet m0 (t_m s) -> Quiet m0 (t_m (process_root K P s o).1).
  Proof.
    intros H. unfold process_root.
    pose proof (q_trace_event m0 o _ H) as H1.
    destruct (trace_event K o (t_m s)) as [m1 boom]. cbn [fst] in H1.
    destruct boom; cbn [fst t_m].
    - lq.
    - pose proof (q_traced_children m0 m1 o H1) as H2.
      destruct (traced_children P m1 o) as [m2 kids]. cbn [fst] in H2.
      apply q_fold_visit_root. exact H2.
  Qed.

  Lemma q_counting m0 n : forall s r, Quiet m0 (t_m s) -> counting K P n s = Some r -> Quiet m0 (t_m r.1).
  Proof.
    induction n as [|n IH]; intros s r H E; cbn in E; [discriminate|].
    destruct (pc (t_m s)) as [|o rest] eqn:Epc.
    - destruct (t_q s) as [|o q'] eqn:Eq.
      + injection E as <-. exact H.
      + match type of E with context [process_counting K P ?s0 o] =>
          assert (H1 : Quiet m0 (t_m s0)) by (cbn [t_m]; lq);
          pose proof (q_process_counting m0 s0 o H1) as H2;
          destruct (process_counting K P s0 o) as [s' boom] end.
        cbn [fst] in H2. destruct boom; [injection E as <-; exact H2 | eauto].
    - match type of E with context [process_counting K P ?s0 o] =>
        assert (H1 : Quiet m0 (t_m s0)) by (cbn [t_m]; lq);
        pose proof (q_process_counting m0 s0 o H1) as H2;
        destruct (process_counting K P s0 o) as [s' boom] end.
      cbn [fst] in H2. destruct boom; [injection E as <-; exact H2 | eauto].
  Qed.
  Lemma q_roots m0 n : forall s r, Quiet m0 (t_m s) -> roots K P n s = Some r -> Quiet m0 (t_m r.1).
  Proof.
    induction n as [|n IH]; intros s r H E; cbn in E; [discriminate|].
    destruct (t_root s) as [|o rest] eqn:Er.
    - destruct (t_q s) as [|o q'] eqn:Eq.
      + injection E as <-. exact H.
      + match type of E with context [process_root K P ?s0 o] =>
          assert (H1 : Quiet m0 (t_m s0)) by (cbn [t_m]; lq);
          pose proof (q_process_root m0 s0 o H1) as H2;
          destruct (process_root K P s0 o) as [s' boom] end.
        cbn [fst] in H2. destruct boom; [injection E as <-; exact H2 | eauto].
    - match type of E with context [process_root K P ?s0 o] =>
        assert (H1 : Quiet m0 (t_m s0)) by (cbn [t_m]; lq);
        pose proof (q_process_root m0 s0 o H1) as H2;
        destruct (process_root K P s0 o) as [s' boom] end.
      cbn [fst] in H2. destruct boom; [injection E as <-; exact H2 | eauto].
  Qed.
  Lemma q_trace_pass m0 m : Quiet m0 m -> Quiet m0 (trace_pass K P m).1.
  Proof.
    intros H. unfold trace_pass.
    destruct (counting K P (pass_fuel m) (TState m [] [] [])) as [[s b]|] eqn:E1; [|exact H].
    pose proof (q_counting m0 _ (TState m [] [] []) _ H E1) as H1. cbn [fst] in H1.
    destruct b; [exact H1|].
    destruct (roots K P (pass_fuel m) s) as [[s' b']|] eqn:E2; [|exact H1].
    pose proof (q_roots m0 _ _ _ H1 E2) as H2. cbn [fst] in H2.
    destruct b'; exact H2.
  Qed.
End Helpers.

#[export] Hint Resolve q_dec_size q_remove_from_list q_add_to_list q_dec_rc_m q_uside q_sfree
  q_drop_metadata q_init_side q_weak_strong_count q_weak_weak_count q_weak_drop q_weak_drop_opt
  q_node_via_slot q_resolve q_wresolve q_nresolve q_write_loc q_write_wloc q_set_fuse q_tick
  q_adjust q_adjust_trigger_point q_map_insert q_unmark_all q_reset_buffered q_traced_children
  q_trace_pass : lq.
