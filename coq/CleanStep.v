(** * CleanStep: pre/post-conditions of the cleaning-action discipline and the [step_*] /
    [cmd_*] cases; [run_clean] is the instance of [RunInd.run_ind]. *)
From Coq Require Import NArith Bool List Lia.
From stdpp Require Import base list option.
From RecordUpdate Require Import RecordSet.
From RC Require Import Hdr Machine RunInd Clean CleanFrame.
Import ListNotations RecordSetNotations.

(** ** The transformations, stated on an arbitrary view *)
Lemma Rel_new' v b : CIv v -> Rel v (CV (cv_h v ++ [VObj b [] [] None]) (cv_n v) (cv_x v)).
Proof. destruct v. apply Rel_new. Qed.
Lemma Rel_clear_cl' v o :
  CIv v -> Rel v (CV (alter (set_cl None) o (cv_h v)) (cv_n v) (cv_x v)).
Proof. destruct v. apply Rel_clear_cl. Qed.
Lemma Rel_link' v0 v y mo :
  Rel v0 v -> length (cv_h v0) <= mo ->
  (exists w, cv_h v !! mo = Some w /\ v_ismap w = true) -> unlinked (cv_h v) mo ->
  Rel v0 (CV (alter (set_cl (Some mo)) y (cv_h v)) (cv_n v) (cv_x v)).
Proof. destruct v. apply Rel_link. Qed.
Lemma Rel_exec' v a :
  CIv v -> (forall o k s, slotv (cv_h v) o k <> Some (MAction a s)) -> a ∉ cv_x v -> a < cv_n v ->
  Rel v (CV (cv_h v) (cv_n v) (a :: cv_x v)).
Proof. destruct v. apply Rel_exec. Qed.
Lemma Rel_ins_free' v0 v o i fr s w :
  Rel v0 v -> cv_h v !! o = Some w -> v_ismap w = true -> v_free w = i :: fr ->
  (length (cv_h v0) <= o \/ ~ unlinked (cv_h v) o) ->
  Rel v0 (CV (alter (ins_free i (cv_n v) s fr) o (cv_h v)) (S (cv_n v)) (cv_x v)).
Proof. destruct v. apply Rel_ins_free. Qed.
Lemma Rel_ins_app' v0 v o s w :
  Rel v0 v -> cv_h v !! o = Some w -> v_ismap w = true -> v_free w = [] ->
  (length (cv_h v0) <= o \/ ~ unlinked (cv_h v) o) ->
  Rel v0 (CV (alter (ins_app (cv_n v) s) o (cv_h v)) (S (cv_n v)) (cv_x v)).
Proof. destruct v. apply Rel_ins_app. Qed.

Definition not_stored (a : nat) (v : cview) : Prop :=
  forall o k s, slotv (cv_h v) o k <> Some (MAction a s).

(** vacating slot [k] of [o] (SlotMap::remove, or the SlotMap's drop reaching the slot) *)
Definition vacated (o k : nat) (w : vobj) (v v1 : cview) : Prop :=
  RelW v v1 /\ K1x o k v v1 /\ cv_n v1 = cv_n v /\
  (forall a s, slotv (cv_h v1) o k <> Some (MAction a s)) /\
  (forall a s, v_slots w !! k = Some (MAction a s) ->
               not_stored a v1 /\ a ∉ cv_x v1 /\ a < cv_n v1).

Lemma vacate_all g v o k w :
  CIv v -> cv_h v !! o = Some w ->
  v_ismap (g w) = v_ismap w -> v_slots (g w) = <[k := MVacant]> (v_slots w) ->
  v_cleaner (g w) = v_cleaner w ->
  (v_free (g w) = v_free w \/
   (v_free (g w) = k :: v_free w /\ exists a s, v_slots w !! k = Some (MAction a s))) ->
  vacated o k w v (CV (alter g o (cv_h v)) (cv_n v) (cv_x v)).
Proof.
  unfold vacated. destruct v as [h n x]. cbn [cv_h cv_n cv_x]. intros HI Hw Hi Hsl Hcl Hfr.
  destruct (RelW_vacate_gen g h n x o k w HI Hw Hi Hsl Hcl Hfr) as (HW & HK & Hn).
  split; [exact HW|]. split; [exact HK|]. split; [reflexivity|]. split; [exact Hn|].
  intros a s Ha. assert (Hst : slotv h o k = Some (MAction a s)) by (rewrite (slotv_eq _ _ _ _ Hw); exact Ha).
  split; [|split].
  - intros o' k' s' H'. destruct HW as (_ & _ & HK2). destruct (HK2 o' k' a s' H') as [H0|Hge].
    + cbn [cv_h] in H0. destruct (ci_inj _ HI _ _ _ _ _ _ _ H0 Hst) as [-> ->]. exact (Hn _ _ H').
    + pose proof (ci_lt _ HI _ _ _ _ Hst). cbn [cv_n] in *. lia.
  - exact (ci_nx _ HI _ _ _ _ Hst).
  - exact (ci_lt _ HI _ _ _ _ Hst).
Qed.

(** ** Pre- and post-conditions *)
(** the slots of [o] from index [j] on have been vacated: whatever [o] stores afterwards was
    there before, below [j], or was registered meanwhile *)
Definition DMS (o j : nat) (v v' : cview) : Prop :=
  forall k a s, slotv (cv_h v') o k = Some (MAction a s) ->
                (k < j /\ slotv (cv_h v) o k = Some (MAction a s)) \/ cv_n v <= a.
Definition normalish (r : outcome) : Prop := r = ONormal \/ r = OPanic.

(** the result of an activation started (directly or not) from view [v0]: out of fuel is an
    artefact of the model, a vacated action may then not have been logged yet *)
Definition res (v0 : cview) (x : machine * outcome) : Prop :=
  match x.2 with OFuel => RelW v0 (cv x.1) | _ => Rel v0 (cv x.1) end.

Definition Pre (c : call) (m : machine) : Prop :=
  CIv (cv m) /\
  match c with
  | KCleanRun mo aid s => not_stored aid (cv m) /\ aid ∉ cv_x (cv m) /\ aid < cv_n (cv m)
  | _ => True
  end.

Definition Post (c : call) (m m' : machine) (r : outcome) : Prop :=
  res (cv m) (m', r) /\
  match c with
  | KCleanRun mo aid s => r <> OFuel -> aid ∈ cv_x (cv m')
  | KDropMapSlots o j => normalish r -> DMS o j (cv m) (cv m')
  | KDropValue o =>
    normalish r -> forall x, get m o = Some x -> o_ismap x = true ->
                             (o_vst x = VLive \/ o_vst x = VMoved) -> DMS o 0 (cv m) (cv m')
  | _ => True
  end.

Definition is_gen (c : call) : bool := match c with KCleanRun _ _ _ => false | _ => true end.

Lemma res_intro v0 m r : Rel v0 (cv m) -> res v0 (m, r).
Proof. intros H. unfold res. cbn [fst snd]. destruct r; auto using Rel_RelW. Qed.
Lemma res_fuel v0 m : RelW v0 (cv m) -> res v0 (m, OFuel).
Proof. auto. Qed.
Lemma res_raise v0 m m' : Rel v0 (cv m) -> res v0 (m, raise m').
Proof. intros H. unfold raise. destruct (panicking m'); apply res_intro, H. Qed.
Lemma res_trans v0 m x : Rel v0 (cv m) -> res (cv m) x -> res v0 x.
Proof.
  intros H. unfold res. destruct x.2; intros H2;
    first [eapply Rel_trans; eassumption | eapply RelW_trans; [apply Rel_RelW|]; eassumption].
Qed.
Lemma res_RelW v0 x : res v0 x -> RelW v0 (cv x.1).
Proof. unfold res. destruct x.2; auto using Rel_RelW. Qed.
Lemma res_Rel v0 m r : res v0 (m, r) -> r <> OFuel -> Rel v0 (cv m).
Proof. unfold res. cbn [fst snd]. destruct r; auto; contradiction. Qed.
Lemma res_eta v0 x : res v0 (x.1, x.2) -> res v0 x.
Proof. destruct x; auto. Qed.

Lemma unwinding_not_normal f m : (unwinding f m).2 <> ONormal.
Proof.
  unfold unwinding. destruct (f (m <| panicking := true |>)) as [m' r]. cbn [snd].
  destruct r, (panicking m); discriminate.
Qed.

Lemma res_unwinding v0 (k : machine -> machine * outcome) m :
  (forall m1, Rel v0 (cv m1) -> res v0 (k m1)) -> Rel v0 (cv m) -> res v0 (unwinding k m).
Proof.
  intros Hk H. unfold unwinding.
  assert (H1 : Rel v0 (cv (m <| panicking := true |>))) by (cvs; exact H).
  specialize (Hk _ H1). destruct (k (m <| panicking := true |>)) as [m1 r1].
  unfold res in *. cbn [fst snd] in *. cvs.
  destruct r1, (panicking m); auto using Rel_RelW.
Qed.

(** ** Tactics (same organisation as Flags2) *)
Ltac rel :=
  cvs;
  first [ eassumption
        | (eapply Rel_RelW; eassumption)
        | (eapply Rel_trans; [eassumption | apply Rel_new'; eapply Rel_CIv; eassumption]) ].

Ltac inner_scrut k :=
  match goal with
  | |- context [match ?x with _ => _ end] =>
    lazymatch x with
    | context [match _ with _ => _ end] => fail
    | _ => k x
    end
  end.

Section RecGen.
  Context (rec : call -> machine -> machine * outcome).
  Context (Hrec : rec_ok Pre Post rec).
  Implicit Types (m : machine).

  Lemma rec_post c m : Pre c m -> Post c m (rec c m).1 (rec c m).2.
  Proof. apply Hrec. Qed.

  Lemma rec_gen c v0 m : is_gen c = true -> Rel v0 (cv m) -> res v0 (rec c m).
  Proof.
    intros Hg H. eapply res_trans; [exact H|]. apply res_eta.
    refine (proj1 (rec_post c m _)). split; [eapply Rel_CIv, H|].
    destruct c; try exact I. discriminate.
  Qed.
End RecGen.

(** finish a goal [res v0 E] where [E] has no [match] left *)
Ltac fin :=
  unfold ok;
  lazymatch goal with
  | |- res _ (unwinding _ _) => apply res_unwinding; [intros; fin | rel]
  | |- res _ (_, OFuel) => first [apply res_fuel; rel | apply res_intro; rel]
  | |- res _ (_, raise _) => apply res_raise; rel
  | |- res _ (_, _) => apply res_intro; rel
  | |- res _ (_ _ _) => eapply rec_gen; [eassumption | reflexivity | rel]
  end.

(** an activation result: split on the outcome *)
Ltac res_pair x :=
  let Hr := fresh "Hr" in let m1 := fresh "m" in let r1 := fresh "r" in
  match goal with |- res ?v0 _ => assert (Hr : res v0 x) by fin end;
  destruct x as [m1 r1]; destruct r1; unfold res in Hr; cbn [fst snd] in Hr.

Ltac mach_pair x :=
  let Hr := fresh "Hr" in let m1 := fresh "m" in let y1 := fresh "y" in
  match goal with |- res ?v0 _ => assert (Hr : Rel v0 (cv x.1)) by rel end;
  destruct x as [m1 y1]; cbn [fst snd] in Hr.

(** one step in program order *)
Ltac adv1 :=
  inner_scrut ltac:(fun x =>
    lazymatch type of x with
    | (machine * outcome)%type => res_pair x
    | option machine =>
      lazymatch x with
      | weak_clone ?w ?m0 =>
        let E := fresh "E" in let m' := fresh "m" in
        destruct x as [m'|] eqn:E;
        [ match goal with |- res ?v0 _ =>
            assert (Rel v0 (cv m')) by (rewrite (cv_weak_clone _ _ _ E); rel) end | ]
      end
    | (machine * _)%type => mach_pair x
    | _ => destruct x eqn:?
    end); cbv beta iota zeta; cbn [negb andb orb].

Ltac go := cbv beta iota zeta; cbn [negb andb orb]; repeat adv1; fin.

Definition gen_ok (X : machine -> machine * outcome) : Prop :=
  forall v0 m, Rel v0 (cv m) -> res v0 (X m).

Section Steps.
  Context (K : conf) (P : prog).
  Context (rec : call -> machine -> machine * outcome).
  Context (Hrec : rec_ok Pre Post rec).
  Implicit Types (m : machine).

  Lemma f_step_script self cs : gen_ok (step_script rec self cs).
  Proof. intros v0 m H. unfold step_script. go. Qed.
  Lemma f_step_store r v : gen_ok (step_store rec r v).
  Proof. intros v0 m H. unfold step_store. go. Qed.
  Lemma f_step_drop_cc o : gen_ok (step_drop_cc K P rec o).
  Proof. intros v0 m H. unfold step_drop_cc. destruct (k_fin K) eqn:Ek; go. Qed.
  Lemma f_step_drop_fields o j : gen_ok (step_drop_fields rec o j).
  Proof.
    intros v0 m H. unfold step_drop_fields.
    destruct (get m o) as [x|] eqn:Ex; [|go].
    destruct (decide (j < length (o_fields x))); [go|].
    cbv beta iota zeta.
    destruct (o_cleaner x) as [t|] eqn:Ec; [|go].
    match goal with |- res _ (rec _ ?M) => assert (Rel v0 (cv M)) end; [|fin].
    rewrite (cv_upd_alter _ (set_cl None)) by (intros; reflexivity). cvs.
    eapply Rel_trans; [exact H|]. apply Rel_clear_cl'. eapply Rel_CIv, H.
  Qed.
  Lemma f_step_unbag k : gen_ok (step_unbag rec k).
  Proof. intros v0 m H. unfold step_unbag. go. Qed.
  Lemma f_step_trigger : gen_ok (step_trigger K rec).
  Proof. intros v0 m H. unfold step_trigger. go. Qed.
  Lemma f_step_collect_cycles : gen_ok (step_collect_cycles K rec).
  Proof. intros v0 m H. unfold step_collect_cycles. go. Qed.
  Lemma f_step_collect : gen_ok (step_collect K rec).
  Proof. intros v0 m H. unfold step_collect. go. Qed.
  Lemma f_step_collect_loop k : gen_ok (step_collect_loop rec k).
  Proof. intros v0 m H. unfold step_collect_loop. go. Qed.
  Lemma f_step_collect_once : gen_ok (step_collect_once K P rec).
  Proof. intros v0 m H. unfold step_collect_once. go. Qed.
  Lemma f_step_finalize_list L rest any old_f : gen_ok (step_finalize_list K P rec L rest any old_f).
  Proof. intros v0 m H. unfold step_finalize_list. go. Qed.
  Lemma f_step_drop_list L rest old_d : gen_ok (step_drop_list K rec L rest old_d).
  Proof. intros v0 m H. unfold step_drop_list. go. Qed.

  (** *** commands *)
  Lemma f_cmd_new self dst cls : gen_ok (cmd_new K P rec self dst cls).
  Proof. intros v0 m H. unfold cmd_new. go. Qed.
  Lemma f_cmd_clone self src dst : gen_ok (cmd_clone rec self src dst).
  Proof. intros v0 m H. unfold cmd_clone. go. Qed.
  Lemma f_cmd_drop self l : gen_ok (cmd_drop rec self l).
  Proof. intros v0 m H. unfold cmd_drop. go. Qed.
  Lemma f_cmd_move self src dst : gen_ok (cmd_move rec self src dst).
  Proof. intros v0 m H. unfold cmd_move. go. Qed.
  Lemma f_cmd_mark_alive self l : gen_ok (cmd_mark_alive self l).
  Proof. intros v0 m H. unfold cmd_mark_alive. go. Qed.
  Lemma f_cmd_collect self : gen_ok (cmd_collect rec self).
  Proof. intros v0 m H. unfold cmd_collect. go. Qed.
  Lemma f_cmd_downgrade self l w : gen_ok (cmd_downgrade K self l w).
  Proof. intros v0 m H. unfold cmd_downgrade. go. Qed.
  Lemma f_cmd_upgrade self w dst : gen_ok (cmd_upgrade K rec self w dst).
  Proof. intros v0 m H. unfold cmd_upgrade. go. Qed.
  Lemma f_cmd_w_new self w : gen_ok (cmd_w_new K self w).
  Proof. intros v0 m H. unfold cmd_w_new. go. Qed.
  Lemma f_cmd_w_clone self src dst : gen_ok (cmd_w_clone K self src dst).
  Proof. intros v0 m H. unfold cmd_w_clone. go. Qed.
  Lemma f_cmd_w_drop self w : gen_ok (cmd_w_drop K self w).
  Proof. intros v0 m H. unfold cmd_w_drop. go. Qed.
  Lemma f_cmd_try_unwrap self l v : gen_ok (cmd_try_unwrap K self l v).
  Proof. intros v0 m H. unfold cmd_try_unwrap. go. Qed.
  Lemma f_cmd_drop_value self v : gen_ok (cmd_drop_value rec self v).
  Proof. intros v0 m H. unfold cmd_drop_value. go. Qed.
  Lemma f_cmd_fin_again self l : gen_ok (cmd_fin_again K self l).
  Proof. intros v0 m H. unfold cmd_fin_again. go. Qed.
  Lemma f_cmd_new_cyclic self dst cls script sw :
    gen_ok (cmd_new_cyclic K P rec self dst cls script sw).
  Proof. intros v0 m H. unfold cmd_new_cyclic. go. Qed.
  Lemma f_cmd_c_drop self c : gen_ok (cmd_c_drop K self c).
  Proof. intros v0 m H. unfold cmd_c_drop. go. Qed.
  Lemma f_cmd_unbag self k : gen_ok (cmd_unbag rec self k).
  Proof. intros v0 m H. unfold cmd_unbag. go. Qed.
  Lemma f_cmd_borrow self nd : gen_ok (cmd_borrow self nd).
  Proof. intros v0 m H. unfold cmd_borrow. go. Qed.
  Lemma f_cmd_unborrow self nd : gen_ok (cmd_unborrow self nd).
  Proof. intros v0 m H. unfold cmd_unborrow. go. Qed.
  Lemma f_cmd_cfg_auto self b : gen_ok (cmd_cfg_auto K self b).
  Proof. intros v0 m H. unfold cmd_cfg_auto. go. Qed.
  Lemma f_cmd_cfg_percent self n e : gen_ok (cmd_cfg_percent K self n e).
  Proof. intros v0 m H. unfold cmd_cfg_percent. go. Qed.
  Lemma f_cmd_cfg_buffered self b : gen_ok (cmd_cfg_buffered K self b).
  Proof. intros v0 m H. unfold cmd_cfg_buffered. go. Qed.
  Lemma f_cmd_arm self k v : gen_ok (cmd_arm self k v).
  Proof. intros v0 m H. unfold cmd_arm. go. Qed.
  Lemma f_cmd_panic self : gen_ok (cmd_panic self).
  Proof. intros v0 m H. unfold cmd_panic. go. Qed.
  Lemma f_cmd_obs self l : gen_ok (cmd_obs self l).
  Proof. intros v0 m H. unfold cmd_obs. go. Qed.
  Lemma f_cmd_w_obs self w : gen_ok (cmd_w_obs K self w).
  Proof. intros v0 m H. unfold cmd_w_obs. go. Qed.
  Lemma f_cmd_s_obs self : gen_ok (cmd_s_obs K self).
  Proof. intros v0 m H. unfold cmd_s_obs. go. Qed.
  Lemma f_cmd_bag self l k : gen_ok (cmd_bag self l k).
  Proof.
    intros v0 m H. unfold cmd_bag. cbv beta iota zeta. adv1.
    destruct (y ≫= λ r, read_loc r m0) as [o|]; [|go].
    generalize (N.to_nat k). intros n. revert m0 Hr.
    induction n as [|n IH]; intros m0 Hr; [go|].
    destruct (inc_rc (hdr_of m0 o)) as [h|]; [|go].
    apply IH. rel.
  Qed.
End Steps.
