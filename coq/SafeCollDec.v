(** * SafeCollDec: the buffer invariant of BufBase.v and the activation precondition [PreA] of
    BufStep.v are decidable. *)
From Coq Require Import NArith Bool List Lia.
From stdpp Require Import base list option sets.
From RecordUpdate Require Import RecordSet.
From RC Require Import Hdr Machine RunInd BufBase BufPass BufStep.
Import ListNotations RecordSetNotations.
Local Open Scope N_scope.

Lemma mark_eq_dec : EqDecision mark.
Proof. intros x y. unfold Decision. decide equality. Qed.
#[export] Instance mark_eq_dec_inst : EqDecision mark := mark_eq_dec.

Lemma bstate_eq_dec : EqDecision bstate.
Proof. intros x y. unfold Decision. decide equality. Qed.
#[export] Instance bstate_eq_dec_inst : EqDecision bstate := bstate_eq_dec.

(** a pointwise statement about the entries of a list is decidable *)
Lemma lookup_forall_dec_shift {X} (P : nat -> X -> Prop) :
  (forall o x, Decision (P o x)) ->
  forall (l : list X) (k : nat),
    Decision (forall o x, l !! o = Some x -> P (k + o)%nat x).
Proof.
  intros HP l. induction l as [|a l IH]; intros k.
  - left. intros o x E. rewrite lookup_nil in E. discriminate.
  - destruct (HP (k + 0)%nat a) as [Ha|Ha].
    + destruct (IH (S k)) as [Hl|Hl].
      * left. intros [|o] x E; cbn in E.
        -- injection E as <-. exact Ha.
        -- replace (k + S o)%nat with (S k + o)%nat by lia. apply Hl, E.
      * right. intros H. apply Hl. intros o x E.
        replace (S k + o)%nat with (k + S o)%nat by lia. apply H. exact E.
    + right. intros H. apply Ha, H. reflexivity.
Qed.

Lemma lookup_forall_dec {X} (P : nat -> X -> Prop) :
  (forall o x, Decision (P o x)) ->
  forall (l : list X), Decision (forall o x, l !! o = Some x -> P o x).
Proof.
  intros HP l. destruct (lookup_forall_dec_shift P HP l 0%nat) as [H|H].
  - left. intros o x E. apply (H o x E).
  - right. intros H'. apply H. intros o x E. apply (H' o x E).
Qed.

Lemma get_forall_dec (P : id -> obj -> Prop) (m : machine) :
  (forall o x, Decision (P o x)) ->
  Decision (forall o x, get m o = Some x -> P o x).
Proof. intros HP. unfold get. apply lookup_forall_dec, HP. Qed.

Lemma dec_iff (P Q : Prop) : (P <-> Q) -> Decision P -> Decision Q.
Proof. intros H [p|np]; [left|right]; tauto. Qed.

Section Dec.
  Context (K : conf).

  Lemma dirty_dec (m : machine) : Decision (dirty m).
  Proof. unfold dirty. apply bool_eq_dec. Qed.

  Lemma ik_valid_dec (l : list id) (m : machine) :
    Decision (forall o, o ∈ l -> is_Some (get m o)).
  Proof.
    apply (dec_iff (Forall (fun o => is_Some (get m o)) l)).
    - apply Forall_forall.
    - apply Forall_dec. intros o. apply is_Some_dec.
  Qed.

  Lemma Imk_iff (Ls Qs : list id) (m : machine) :
    Imk K Ls Qs m <->
    (NoDup (pc m) /\
     pc_size m = N.of_nat (length (pc m)) /\
     NoDup (Ls ++ Qs) /\
     (forall o, o ∈ pc m ++ Ls ++ Qs -> is_Some (get m o)) /\
     (forall o x, get m o = Some x -> (h_mark (o_hdr x) = PC <-> o ∈ pc m)) /\
     (forall o x, get m o = Some x ->
        (o ∈ Ls -> h_mark (o_hdr x) = IL) /\
        (h_mark (o_hdr x) = IL -> o ∈ Ls \/ o_box x = BFreed)) /\
     (forall o x, get m o = Some x -> (h_mark (o_hdr x) = IQ <-> o ∈ Qs)) /\
     (forall o x, get m o = Some x -> o_box x = BNotYet -> h_mark (o_hdr x) = NM) /\
     st_alloc m = bytes K m /\
     pc_alive m = true /\
     uflow m = false).
  Proof.
    split.
    - intros []. repeat (split; [assumption|]). assumption.
    - intros (?&?&?&?&?&?&?&?&?&?&?). split; assumption.
  Qed.

  Lemma Imk_dec (Ls Qs : list id) (m : machine) : Decision (Imk K Ls Qs m).
  Proof.
    apply (dec_iff _ _ (symmetry (Imk_iff Ls Qs m))).
    apply and_dec; [apply NoDup_dec|].
    apply and_dec; [apply N.eq_dec|].
    apply and_dec; [apply NoDup_dec|].
    apply and_dec; [apply ik_valid_dec|].
    apply and_dec; [apply get_forall_dec; intros o x; apply _|].
    apply and_dec; [apply get_forall_dec; intros o x; apply _|].
    apply and_dec; [apply get_forall_dec; intros o x; apply _|].
    apply and_dec; [apply get_forall_dec; intros o x; apply _|].
    apply and_dec; [apply N.eq_dec|].
    apply and_dec; apply bool_eq_dec.
  Qed.

  Lemma tcz_dec (m : machine) : Decision (tcz m).
  Proof. unfold tcz. apply get_forall_dec. intros o x. apply _. Qed.

  Lemma Ibuf_dec (A : list id) (m : machine) : Decision (Ibuf K A m).
  Proof.
    unfold Ibuf.
    apply and_dec; [apply Imk_dec|].
    apply and_dec; [|apply tcz_dec].
    apply impl_dec; [apply not_dec, list_eq_dec; apply _|apply bool_eq_dec].
  Qed.

  Lemma G_dec (A : list id) (m : machine) : Decision (G K A m).
  Proof. unfold G. apply or_dec; [apply dirty_dec|apply Ibuf_dec]. Qed.

  Lemma PreA_dec (A : list id) (c : call) (m : machine) : Decision (PreA K A c m).
  Proof.
    destruct c; cbn [PreA];
      first [apply G_dec | apply and_dec; [apply G_dec|apply bool_eq_dec]].
  Qed.
End Dec.

#[export] Instance Imk_dec_inst K Ls Qs m : Decision (Imk K Ls Qs m) := Imk_dec K Ls Qs m.
#[export] Instance tcz_dec_inst m : Decision (tcz m) := tcz_dec m.
#[export] Instance Ibuf_dec_inst K A m : Decision (Ibuf K A m) := Ibuf_dec K A m.
#[export] Instance dirty_dec_inst m : Decision (dirty m) := dirty_dec m.
#[export] Instance G_dec_inst K A m : Decision (G K A m) := G_dec K A m.
#[export] Instance PreA_dec_inst K A c m : Decision (PreA K A c m) := PreA_dec K A c m.

(** the instances are usable in [if decide ... then ... else ...] *)
Example decide_PreA_typechecks (K : conf) (A : list id) (c : call) (m : machine) : bool :=
  if decide (PreA K A c m) then true else false.
Example decide_G_typechecks (K : conf) (A : list id) (m : machine) : bool :=
  if decide (G K A m) then true else false.

Print Assumptions Imk_dec.
Print Assumptions tcz_dec.
Print Assumptions Ibuf_dec.
Print Assumptions dirty_dec.
Print Assumptions G_dec.
Print Assumptions PreA_dec.
