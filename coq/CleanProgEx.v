(** * CleanProgEx: validation of the program-level reading of C10 on concrete programs
    ([vm_compute]): the invariant "a map whose value is destroyed has only vacant slots and is
    named by no Cleaner" ([dead_vacant_b]) after drops with panicking actions (script / fuse),
    what an abort leaves behind, the F5 program, candidate counterexamples for the owner-level
    reading (3) - all refuted -, and an application of [CleanProg.prog_vacant_all_ran]. *)
From Coq Require Import NArith Bool List Lia.
From stdpp Require Import base list option.
From RecordUpdate Require Import RecordSet.
From RC Require Import Hdr Machine RunInd Clean CleanThm CleanLog CleanEx CleanProg.
From RC Require SafeMain.
Import ListNotations RecordSetNotations.

Definition is_vac (s : mslot) : bool := match s with MVacant => true | _ => false end.
Definition vdropped (x : obj) : bool := match o_vst x with VDropped => true | _ => false end.
Definition names (o : nat) (x : obj) : bool :=
  match o_cleaner x with Some t => Nat.eqb t o | None => false end.
(** every map whose value is destroyed has only vacant slots and is named by no Cleaner *)
Definition dead_vacant_b (m : machine) : bool :=
  forallb (fun '(o, x) => negb (o_ismap x && vdropped x) ||
                          (forallb is_vac (o_mslots x) && negb (existsb (names o) (heap m))))
          (imap (fun o x => (o, x)) (heap m)).

Definition summ (m : machine) :=
  (SafeMain.clean m, dead_vacant_b m, executed_aids (log m), next_aid m,
   (fun x => (o_ismap x, o_vst x, o_box x, o_mslots x, o_cleaner x, h_rc (o_hdr x))) <$> heap m, pc m).


Definition objs (m : machine) :=
  (fun x => (o_ismap x, o_vst x, o_box x, o_mslots x, o_cleaner x)) <$> heap m.

(** owner 0, map 1, three actions, the second one panics (script 1 = [CPanic]); the owner is
    dropped at top level: the remaining action still runs while unwinding, every slot is
    vacated, the run is clean (the panic is caught by the top-level command); the boxes are
    leaked (the drop glue panicked), which is why (1) is stated for [VDropped], not [BFreed] *)
Definition p_panic1 : list cmd :=
  [CCfgAuto false; CNew (LS 0) 1; CRegister (NSlot 0) 0 0; CRegister (NSlot 0) 1 1;
   CRegister (NSlot 0) 0 2; CDrop (LS 0)].
Example ex_one_panic :
  let m := ex_run p_panic1 in
  SafeMain.clean m = true /\ dead_vacant_b m = true /\ executed_aids (log m) = [2; 1; 0] /\ objs m = [(false, VDropped, BAlloc, [], None);
            (true, VDropped, BAlloc, [MVacant; MVacant; MVacant], None)].
Proof. vm_compute. auto. Qed.

(** two panicking actions: the second panic aborts ([EBad Abort] is logged, the run is not
    clean); the map value is [VDropped] with action 2 still stored: the hypothesis "no
    [EBad Abort]" of (1) cannot be dropped *)
Example ex_double_panic_aborts :
  let m := ex_run [CCfgAuto false; CNew (LS 0) 1; CRegister (NSlot 0) 1 0; CRegister (NSlot 0) 1 1;
                   CRegister (NSlot 0) 0 2; CDrop (LS 0)] in
  SafeMain.clean m = false /\ dead_vacant_b m = false /\ executed_aids (log m) = [1; 0] /\ In (EBad Abort 0) (log m) /\ objs m = [(false, VDropped, BAlloc, [], None);
            (true, VDropped, BAlloc, [MVacant; MVacant; MAction 2 0], None)].
Proof. vm_compute. auto 10. Qed.

(** the same with a fuse (the second action callback panics at entry) *)
Example ex_fuse :
  let m := ex_run [CCfgAuto false; CNew (LS 0) 1; CRegister (NSlot 0) 0 0; CRegister (NSlot 0) 0 1;
                   CRegister (NSlot 0) 0 2; CArm KAction 2; CDrop (LS 0)] in
  SafeMain.clean m = true /\ dead_vacant_b m = true /\ executed_aids (log m) = [2; 1; 0] /\ objs m = [(false, VDropped, BAlloc, [], None);
            (true, VDropped, BAlloc, [MVacant; MVacant; MVacant], None)].
Proof. vm_compute. auto. Qed.

(** candidate counterexample for (3), refuted: after [clean 0] the map sits in the buffer
    POSSIBLE_CYCLES ([pc = [1]], strong count 1); dropping the owner still drops the map value
    there and then (the buffer mark is not "in list or queue") *)
Example ex_buffered_map_drop :
  let m0 := ex_run [CCfgAuto false; CNew (LS 0) 1; CRegister (NSlot 0) 0 0; CRegister (NSlot 0) 0 1;
                    CClean 0] in
  let m := ex_run [CCfgAuto false; CNew (LS 0) 1; CRegister (NSlot 0) 0 0; CRegister (NSlot 0) 0 1;
                   CClean 0; CDrop (LS 0)] in
  pc m0 = [1] /\ objs m0 = [(false, VLive, BAlloc, [], Some 1);
                            (true, VLive, BAlloc, [MVacant; MAction 1 0], None)] /\ SafeMain.clean m = true /\ dead_vacant_b m = true /\ executed_aids (log m) = [1; 0] /\ objs m = [(false, VDropped, BFreed, [], None); (true, VDropped, BFreed, [MVacant; MVacant], None)].
Proof. vm_compute. auto 10. Qed.

(** the owner (with a Cleaner and a self-cycle) is destroyed by the collector while its map is
    buffered: the remaining action runs inside the collection *)
Definition exP3 : prog := Prog [Cls 1 [true] 0 true None None] [[CSObs]; [CPanic]] [].
Example ex_collected_owner :
  let m := fold_left (fun m c => exec_top exK exP3 60 c m)
             [CCfgAuto false; CNew (LS 0) 0; CRegister (NSlot 0) 0 0; CRegister (NSlot 0) 0 1;
              CClean 0; CClone (LS 0) (LFA 0 0); CDrop (LS 0); CCollect] (init exK) in
  SafeMain.clean m = true /\ dead_vacant_b m = true /\ executed_aids (log m) = [1; 0] /\ objs m = [(false, VDropped, BFreed, [], None); (true, VDropped, BFreed, [MVacant; MVacant], None)].
Proof. vm_compute. auto. Qed.

(** F5 (a [clean()] in progress holds a second handle): at the top-level state after the
    command the map is dead and vacant all the same *)
Example ex_f5_top :
  let m := run_main f5_conf f5_prog 40 (init f5_conf) in
  SafeMain.clean m = true /\ dead_vacant_b m = true /\ executed_aids (log m) = [1; 0].
Proof. vm_compute. auto. Qed.

(** [CleanProg.prog_vacant_all_ran] applied: the three actions stored in map 1 before the drop
    of the owner (prefix of 5 commands) have each run exactly once in the end *)
Definition p_pre : list cmd :=
  [CCfgAuto false; CNew (LS 0) 1; CRegister (NSlot 0) 0 0; CRegister (NSlot 0) 1 1;
   CRegister (NSlot 0) 0 2].
Definition p_post : list cmd := [CDrop (LS 0)].
Notation m_pre := (fold_left (fun m c => exec_top exK exP 40 c m) p_pre (init exK)).
Notation m_end := (fold_left (fun m c => exec_top exK exP 40 c m) (p_pre ++ p_post) (init exK)).

Lemma m_end_vacant : all_vacant m_end 1.
Proof.
  intros k sl H.
  assert (E : (o_mslots <$> heap m_end !! 1) = Some [MVacant; MVacant; MVacant]) by (vm_compute; reflexivity).
  unfold slot_at in H. destruct (heap m_end !! 1) as [x|]; [|discriminate].
  cbn in E. injection E as E. rewrite E in H.
  destruct k as [|[|[|k]]]; cbn in H; first [discriminate | injection H as <-; reflexivity].
Qed.
Lemma m_end_ff : fuel_free m_end.
Proof. apply clean_fuel_free. vm_compute. reflexivity. Qed.
Lemma m_pre_stored a : a < 3 -> exists k s, slot_at m_pre 1 k = Some (MAction a s).
Proof.
  intros Ha. destruct a as [|[|[|a]]]; [exists 0, 0|exists 1, 1|exists 2, 0|lia]; vm_compute; reflexivity.
Qed.

Example ex_all_ran_applied :
  forall a, a < 3 -> count_occ Nat.eq_dec (executed_aids (log m_end)) a = 1.
Proof.
  intros a Ha. destruct (m_pre_stored a Ha) as (k & s & Hs).
  pose proof (prog_vacant_all_ran exK exP 40 p_pre p_post 1) as T. cbv zeta in T.
  exact (T m_end_ff m_end_vacant k a s Hs).
Qed.
Print Assumptions ex_all_ran_applied.
