(** * SafeMain: [step_ok_noncollector] (every non-collector activation satisfies its post-condition), the link to the tested checkers [inv_b]/[exact_b], and the theorem for every program, relative to part B (the collector activations). *)
From Coq Require Import NArith Bool List Lia.
From stdpp Require Import base list option.
From RecordUpdate Require Import RecordSet.
From RC Require Import Hdr Machine RunInd Inv InvP SafeHelpers SafePrims SafeCalls SafeGlue SafeDrop SafeCmd SafeCyclic.
Import ListNotations RecordSetNotations.
Local Open Scope N_scope.

(** ** All commands, all non-collector activations *)
Section Main.
  Context (K : conf) (P : prog).
  Context (PreC : bool -> list id -> call -> machine -> Prop)
          (PostC : bool -> list id -> call -> machine -> machine -> outcome -> Prop).
  Hypothesis Hconf : k_clean K = true -> k_weak K = true.
  Hypothesis Hwf : wf_prog P = true.

  Notation PostOf b E c m res := (Post K PostC b E c m (fst res) (snd res)).

  Section Rec.
    Context (rec : call -> machine -> machine * outcome).
    Hypothesis Hrec : forall b E, rec_ok (Pre K PreC b E) (Post K PostC b E) rec.

    Lemma step_cmd_ok b E self c m :
      Pre K PreC b E (KCmd self c) m -> PostOf b E (KCmd self c) m (step_cmd K P rec self c m).
    Proof.
      rewrite Pre_nc by reflexivity. cbn [own_of app]. intros (Hnb & HI & Hs).
      destruct c; cbn [step_cmd].
      - eapply cmd_new_ok; eauto.
      - eapply cmd_clone_ok; eauto.
      - eapply cmd_drop_ok; eauto.
      - eapply cmd_move_ok; eauto.
      - eapply cmd_mark_alive_ok; eauto.
      - eapply cmd_collect_ok; eauto.
      - eapply cmd_downgrade_ok; eauto.
      - eapply cmd_upgrade_ok; eauto.
      - eapply cmd_w_new_ok; eauto.
      - eapply cmd_w_clone_ok; eauto.
      - eapply cmd_w_drop_ok; eauto.
      - eapply cmd_try_unwrap_ok; eauto.
      - eapply cmd_drop_value_ok; eauto.
      - eapply cmd_fin_again_ok; eauto.
      - eapply cmd_new_cyclic_ok; eauto.
      - eapply cmd_register_ok; eauto.
      - eapply cmd_clean_ok; eauto.
      - eapply cmd_c_drop_ok; eauto.
      - eapply cmd_bag_ok; eauto.
      - eapply cmd_unbag_ok; eauto.
      - eapply cmd_borrow_ok; eauto.
      - eapply cmd_unborrow_ok; eauto.
      - eapply cmd_cfg_auto_ok; eauto.
      - eapply cmd_cfg_percent_ok; eauto.
      - eapply cmd_cfg_buffered_ok; eauto.
      - eapply cmd_arm_ok; eauto.
      - eapply cmd_panic_ok; eauto.
      - eapply cmd_obs_ok; eauto.
      - eapply cmd_w_obs_ok; eauto.
      - eapply cmd_s_obs_ok; eauto.
    Qed.

    Definition noncollector (c : call) : bool :=
      match c with
      | KCmd _ _ | KScript _ _ | KStore _ _ | KDropCc _ | KDropValue _ | KDropFields _ _
      | KDropMapSlots _ _ | KCleanRun _ _ _ | KUnbag _ => true
      | _ => false
      end.

    (** THE deliverable of part A *)
    Theorem step_ok_noncollector b E c m :
      noncollector c = true -> Pre K PreC b E c m -> PostOf b E c m (step K P rec c m).
    Proof.
      destruct c; cbn [noncollector step]; try discriminate; intros _ Hpre.
      - apply step_cmd_ok, Hpre.
      - eapply step_script_ok; eauto.
      - eapply step_store_ok; eauto.
      - eapply step_drop_cc_ok; eauto.
      - eapply step_drop_value_ok; eauto.
      - eapply step_drop_fields_ok; eauto.
      - eapply step_drop_map_slots_ok; eauto.
      - eapply step_unbag_ok; eauto.
      - eapply step_clean_run_ok; eauto.
    Qed.
  End Rec.

  (** running out of fuel: nothing is claimed *)
  Lemma fuel_ok_nc b E c m : noncollector c = true -> Pre K PreC b E c m -> Post K PostC b E c m m OFuel.
  Proof. intros Hc _. destruct c; try discriminate; exact I. Qed.
End Main.

(** ** From the strengthened invariant to the tested checkers [inv_b] / [exact_b] *)
Lemma handle_locs_hloc m h t : (h, t) ∈ handle_locs m -> exists c, hloc m h c t.
Proof.
  unfold handle_locs. rewrite !elem_of_app. intros [H|[H|H]].
  - apply elem_of_list_omap in H as ([t'|] & Hin & Heq); [|discriminate]. injection Heq as <- <-.
    apply elem_of_list_lookup in Hin as [i Hi]. exists false. econstructor 1; eauto.
  - apply elem_of_list_fmap in H as (t' & Heq & Hin). injection Heq as -> ->. exists false. constructor 2. exact Hin.
  - apply elem_of_list_In, in_concat in H as (l & Hl & Hin).
    apply elem_of_list_In, elem_of_lookup_imap in Hl as (p & xp & -> & Hp).
    apply elem_of_list_In, elem_of_app in Hin as [Hin|Hin].
    + apply elem_of_list_omap in Hin as ([t'|] & Hin & Heq); [|discriminate]. injection Heq as <- <-.
      apply elem_of_list_lookup in Hin as [j Hj]. exists false. econstructor 3; eauto.
    + destruct (o_cleaner xp) as [t'|] eqn:Hc; [|inversion Hin].
      apply elem_of_list_singleton in Hin. injection Hin as -> ->. exists true. econstructor 4; eauto.
Qed.

Section ToInv.
  Context (K : conf).

  Lemma SInv_Inv b E m : SInv K b E [] m -> Inv K E m.
  Proof.
    intros HI. split.
    - intros o x Hx. pose proof (sv_obj _ _ _ _ _ HI o x Hx) as H. unfold cnt_wr in H. cbn in H.
      change (cnt_w o []) with 0%nat in H. rewrite Nat.add_0_r in H. eapply obj_okN_weaken. exact H.
    - intros [h t] Hin. destruct (handle_locs_hloc _ _ _ Hin) as [c Hl].
      destruct (sv_loc _ _ _ _ _ HI _ _ _ Hl) as (xt & Hxt & Hb & _ & Hm). unfold loc_ok, get in *. rewrite Hxt.
      unfold is_alloc. rewrite Hb. cbn [andb].
      destruct h as [p|].
      + destruct (heap m !! p) as [xp|] eqn:Hp; [|reflexivity]. destruct (Hm xp eq_refl) as [M1 _].
        destruct (is_live xp && negb (mem_id p (dead m))) eqn:Hout; [|reflexivity].
        apply andb_true_iff in Hout as [Hl1 Hl2]. apply negb_true_iff in Hl2.
        destruct M1 as [Mv Mi]; [unfold is_live in Hl1; destruct (o_vst xp); congruence | exact Hl2|].
        unfold is_live. rewrite Mv. unfold inD in Mi. rewrite Mi. reflexivity.
      + destruct Hm as [Mv Mi]. unfold is_live. rewrite Mv. unfold inD in Mi. rewrite Mi. reflexivity.
    - intros t Ht. destruct (sv_E _ _ _ _ _ HI t Ht) as (xt & Hxt & Hb). exists xt. split; [exact Hxt|]. unfold is_alloc. rewrite Hb. reflexivity.
    - intros t Ht. destruct (sv_pc _ _ _ _ _ HI t Ht) as (xt & Hxt & Hb & Hv & Hi & _). exists xt. split; [exact Hxt|].
      unfold is_alloc, is_live. rewrite Hb, Hv. auto.
  Qed.

  Lemma SInv_exact E m : SInv K true E [] m -> exact_b E m = true.
  Proof.
    intros HI. unfold exact_b. apply forallb_forall. intros [o x] Hin.
    apply elem_of_list_In, elem_of_lookup_imap in Hin as (i & y & [= -> ->] & Hl).
    unfold is_alloc. destruct (o_box y) eqn:Hb; try reflexivity.
    destruct (okN_alloc K _ _ _ _ _ (sv_obj _ _ _ _ _ HI i y Hl) Hb) as (_ & O2 & _). apply N.eqb_eq, O2. reflexivity.
  Qed.

  Lemma SInv_init : SInv K true [] [] (init K).
  Proof.
    assert (Hrep : forall A (a : A) i y, replicate nslots (@None A) !! i = Some y -> y = None)
      by (intros A a i y H; apply lookup_replicate in H; apply H).
    split.
    - intros o x Hx. destruct o; discriminate.
    - intros o x Hx. destruct o; discriminate.
    - intros h c t Hl. inversion Hl as [i t' H | t' H | p xp j t' Hp Hj | p xp t' Hp Hc]; subst.
      + apply (Hrep _ 0%nat) in H. discriminate.
      + inversion H.
      + destruct p; discriminate.
      + destruct p; discriminate.
    - intros t Ht. inversion Ht.
    - intros t Ht. inversion Ht.
    - reflexivity.
    - intros o Ho. discriminate.
    - intros v o Hv. apply (Hrep _ 0%nat) in Hv. discriminate.
    - repeat split; apply replicate_length.
    - intros i w Hi. apply (Hrep _ WNull) in Hi. subst w. intros o Ho. discriminate.
    - intros w Hw. inversion Hw.
    - intros p xp j w Hp. destruct p; discriminate.
    - intros o Ho. exfalso. rewrite wrefs_unfold in Ho.
      change (wslots (init K)) with (replicate nslots (@None wref)) in Ho.
      change (wparam (init K)) with (@nil wref) in Ho.
      change (cslots (init K)) with (replicate nslots (@None cref)) in Ho.
      change (heap (init K)) with (@nil obj) in Ho.
      rewrite cnt_w_replicate in Ho.
      assert (Hc : cnt_c o (replicate nslots None) = 0%nat) by reflexivity. rewrite Hc in Ho.
      assert (Hn : cnt_w o (map Some []) = 0%nat) by reflexivity. rewrite Hn in Ho.
      assert (Hh : hsum (fun x => cnt_w o (o_wfields x)) [] = 0%nat) by reflexivity. rewrite Hh in Ho.
      unfold cnt_wr in Ho. rewrite Hn in Ho. lia.
  Qed.
End ToInv.

(** ** Every run, every program (relative to part B: the collector activations) *)
Definition clean (m : machine) : bool :=
  forallb (fun e => match e with EBad Fuel _ | EBad Abort _ => false | _ => true end) (log m).

Lemma forallb_suffix {A} (f : A -> bool) (l1 l2 : list A) : suffix l1 l2 -> forallb f l2 = true -> forallb f l1 = true.
Proof. intros [k ->]. rewrite forallb_app. intros H. apply andb_true_iff in H. apply H. Qed.

Section Top.
  Context (K : conf) (P : prog).
  Context (PreC : bool -> list id -> call -> machine -> Prop)
          (PostC : bool -> list id -> call -> machine -> machine -> outcome -> Prop).
  Hypothesis Hconf : k_clean K = true -> k_weak K = true.
  Hypothesis Hwf : wf_prog P = true.
  (** part B *)
  Hypothesis Hcoll : forall rec, (forall b E, rec_ok (Pre K PreC b E) (Post K PostC b E) rec) ->
    forall b E c m, noncollector c = false -> Pre K PreC b E c m ->
      Post K PostC b E c m (step K P rec c m).1 (step K P rec c m).2.
  Hypothesis Hfuel_coll : forall b E c m, noncollector c = false -> Pre K PreC b E c m -> Post K PostC b E c m m OFuel.
  (** the log only grows: Flags3.run_log_mono *)
  Hypothesis Hlog : forall n c m, suffix (log m) (log (run K P n c m).1).

  Theorem run_ok n : forall b E, rec_ok (Pre K PreC b E) (Post K PostC b E) (run K P n).
  Proof.
    induction n as [|n IH]; intros b E c m Hpre; cbn [run fst snd].
    - destruct (noncollector c) eqn:Hc; [eapply fuel_ok_nc; eassumption | apply Hfuel_coll; assumption].
    - destruct (noncollector c) eqn:Hc.
      + eapply step_ok_noncollector; eauto.
      + apply Hcoll; auto.
  Qed.

  Definition TopInv (m : machine) : Prop :=
    clean m = true ->
    exists b, NoBad m /\ SInv K b [] [] m /\ (no_panic_yet m = true -> b = true).

  Lemma exec_top_ok fuel c m : TopInv m -> TopInv (exec_top K P fuel c m).
  Proof.
    intros HT Hcl. unfold exec_top in *.
    pose proof (Hlog fuel (KCmd None c) m) as Hsuf.
    destruct (run K P fuel (KCmd None c) m) as [m1 r] eqn:Hrun. cbn [fst] in Hsuf.
    assert (Hclm : clean m = true).
    { unfold clean in *. destruct r; [eapply forallb_suffix; eauto | | |];
        (cbn in Hcl; try (apply andb_true_iff in Hcl as [_ Hcl]); try discriminate; eapply forallb_suffix; eauto). }
    destruct (HT Hclm) as (b & Hnb & HI & Hex).
    pose proof (run_ok fuel b [] (KCmd None c) m) as HP.
    rewrite Pre_nc in HP by reflexivity. specialize (HP (conj Hnb (conj HI I))). rewrite Hrun in HP. cbn [fst snd] in HP.
    rewrite Post_nc in HP by reflexivity.
    destruct r.
    - destruct HP as (Hnb1 & HI1 & _). exists b. split; [exact Hnb1|]. split; [exact HI1|].
      intros Hnp. apply Hex. unfold no_panic_yet in *. eapply forallb_suffix; eauto.
    - destruct HP as (Hnb1 & HI1 & _). exists false. split; [apply NoBad_emit; split; [reflexivity | exact Hnb1]|].
      split; [eapply SInv_ieq; [apply ieq_emit | exact HI1]|]. intros Hnp. cbn in Hnp. discriminate.
    - cbn in Hcl. discriminate.
    - cbn in Hcl. discriminate.
  Qed.

  Lemma TopInv_init : TopInv (init K).
  Proof. intros _. exists true. split; [reflexivity|]. split; [apply SInv_init | auto]. Qed.

  (** THE GOAL of the layer (modulo part B and counter underflow, which is the business of
      the buffer invariant: see [no_bad_split]) *)
  Theorem safe_programs fuel cmds :
    let m := fold_left (fun m c => exec_top K P fuel c m) cmds (init K) in
    clean m = true ->
    inv_b K [] m = true /\ no_badU m = true /\ (no_panic_yet m = true -> exact_b [] m = true).
  Proof.
    cbv zeta. assert (HT : TopInv (fold_left (fun m c => exec_top K P fuel c m) cmds (init K))).
    { generalize (init K) TopInv_init. induction cmds as [|c cs IH]; intros m Hm; [exact Hm|].
      cbn [fold_left]. apply IH. apply exec_top_ok, Hm. }
    intros Hcl. destruct (HT Hcl) as (b & Hnb & HI & Hex).
    split; [apply Inv_iff; eapply SInv_Inv; exact HI|]. split; [exact Hnb|].
    intros Hnp. rewrite (Hex Hnp) in HI. apply (SInv_exact K), HI.
  Qed.
End Top.

Print Assumptions step_ok_noncollector.
Print Assumptions safe_programs.
Print Assumptions Inv_iff.

