(** * LifeDa4: promptness, [try_unwrap], dropping a moved-out value, the drop pass, [new_cyclic],
    [Cleaner::register], the dispatch. *)
From Coq Require Import NArith Bool List Lia.
From stdpp Require Import base list option.
From RecordUpdate Require Import RecordSet.
From RC Require Import Hdr Machine RunInd Flags Flags2 Flags4.
From RC Require Import Inv InvP LifeInv LifeInv2 LifeChk LifeStep LifeStep2 LifeStep3 LifeStep4 LifeDa LifeDa2 LifeDa3.
From RC Require Import LifeGhost2.
Import ListNotations RecordSetNotations.
Local Open Scope N_scope.

Section Special.
  Context (K : conf) (P : prog) (mu : id) (nfa : bool).
  Hypothesis Hprog : nfa = true -> prog_nfa P = true.
  Notation G := (G mu).
  Notation NdX := (NdX mu).
  Notation Nd := (NdX None).
  Notation Pre2 := (Pre2 K nfa).
  Notation Post2 := (Post2 K mu nfa).
  Context (rec : call -> machine -> machine * outcome).
  Hypothesis HR : RecD K mu nfa rec.
  Hypothesis Hrec2 : rec_ok Pre2 Post2 rec.
  (** a sub-activation that does not return normally does nothing *)
  Hypothesis HN : forall c m, (rec c m).2 = ONormal \/ (rec c m).1 = m.
  (** the drop pass frees its members *)
  Hypothesis HRL : forall L rest d m, (rec (KDropList L rest d) m).2 = ONormal -> G (rec (KDropList L rest d) m).1 ->
    forall g x', g ∈ L -> get (rec (KDropList L rest d) m).1 g = Some x' -> ~ isDA x'.


  (** ** [try_unwrap] *)
  Lemma d_cmd_try_unwrap self l v m :
    chk (KCmd self (CTryUnwrap l v)) m = true -> Nd (length (heap m)) m (cmd_try_unwrap K self l v m).1.
  Proof.
    intros Hc. cbn [chk] in Hc. unfold cmd_try_unwrap. pose proof (NdX_refl mu None (length (heap m)) m) as HD0.
    assert (HQ1 : Quiet m (resolve self l m).1) by lq.
    pose proof (Nd_q mu None _ m m _ HD0 (Quiet_QuietD mu _ _ HQ1)) as HD1.
    destruct (resolve self l m) as [m1 r]. cbn [fst snd] in *. destruct r as [r|]; [|fin3].
    destruct (values m1 !! v) as [[?|]|]; try fin3.
    destruct (read_loc r m1) as [o|] eqn:Hrd; [|fin3].
    destruct (negb (h_rc (hdr_of m1 o) =? 1)); [fin3|].
    destruct (st_collecting m1 || st_dropping m1 || k_fin K && st_finalizing m1); [fin3|].
    destruct (live_alloc_spec m o Hc) as (x & Hx & Hv & Hb).
    cbv zeta. cbn [fst].
    apply (Nd_q mu None _ m (dealloc K o (drop_metadata K o
             (upd o (fun x0 => x0 <| o_vst := VMoved |>) (remove_from_list o (write_loc r None m1)) <| values ::= <[v:=Some o]> |>))));
      [|unfold ok; lqd].
    apply (NdX_close mu o).
    - apply Nd_dealloc_ex.
      eapply (Nd_q mu (Some o) _ m (upd o (fun x0 => x0 <| o_vst := VMoved |>) (remove_from_list o (write_loc r None m1)))); [|lqd].
      eapply NdX_trans; [|apply (NdX_upd_ex mu o)]. apply NdX_weaken. posq3.
    - intros _ x' Hx'. exact (dealloc_not_DA K o _ x' Hx').
    - intros _. right. intros y Hy. assert (y = x) by congruence. subst y. unfold isFresh. rewrite Hv, Hb.
      intros [[_ H]|H]; discriminate.
  Qed.

  (** ** dropping a moved-out value *)
  Lemma d_cmd_drop_value self v m :
    chk (KCmd self (CDropValue v)) m = true -> (cmd_drop_value rec self v m).2 = ONormal ->
    Nd (length (heap m)) m (cmd_drop_value rec self v m).1.
  Proof.
    intros Hc. cbn [chk] in Hc. unfold cmd_drop_value. pose proof (NdX_refl mu None (length (heap m)) m) as HD0.
    destruct (mjoin (values m !! v)) as [o|]; [|intros _; fin3].
    destruct (get m o) as [x|] eqn:Hx; [|discriminate]. apply andb_true_iff in Hc as [Hb Hv].
    unfold is_freed in Hb. unfold is_moved in Hv.
    set (X := m <| values ::= <[v:=None]> |>).
    assert (HDX : Nd (length (heap m)) m X) by (unfold X; posq3).
    pose proof (HR (KDropValue o) X I) as HDv. cbn [exo] in HDv.
    pose proof (Hrec2 (KDropValue o) X I) as [HLs _].
    destruct (rec (KDropValue o) X) as [m5 r5]. cbn [fst snd] in *.
    destruct r5; try discriminate. intros _.
    assert (HD5 : NdX (Some o) (length (heap m)) m m5) by (eapply NdX_step; eassumption).
    assert (HD5' : Nd (length (heap m)) m m5).
    { apply (NdX_close mu o); [exact HD5 | |].
      - intros HG x' Hx' [_ Hba]. destruct HLs as (_ & _ & C). destruct (C HG) as [_ F].
        destruct (F o x (lookup_lt_Some _ _ _ Hx) Hx) as (y & Hy & HF). assert (y = x') by congruence. subst y.
        rewrite (f_freed _ _ HF) in Hba; [discriminate|]. destruct (o_box x); congruence.
      - intros _. right. intros y Hy. assert (y = x) by congruence. subst y. unfold isFresh.
        intros [[Hl _]|Hu]; destruct (o_vst x); discriminate. }
    fin3.
  Qed.

  (** ** the drop pass *)
  Definition Fz (m : machine) (g : id) : Prop := forall x', get m g = Some x' -> o_box x' = BFreed.

  Lemma Fz_step g' m g : (g = g' \/ Fz m g) -> Fz (dealloc K g' (drop_metadata K g' m)) g.
  Proof.
    intros Hg x' Hx'. set (m6 := drop_metadata K g' m) in *.
    assert (HQ : Quiet m m6) by (unfold m6; lq).
    unfold dealloc in Hx'. destruct (get m6 g') as [y|] eqn:Hy.
    - destruct (box_layout K y) as [sz al]. cbv zeta in Hx'.
      match type of Hx' with get (emit ?e (upd g' ?f ?mm)) g = _ =>
        change (get (emit e (upd g' f mm)) g) with (get (upd g' f mm) g) in Hx'; set (M := mm) in * end.
      assert (HM : forall o, get M o = get m6 o) by (intros o; unfold M; destruct (o_box y), (_ <? _); reflexivity).
      destruct (decide (g = g')) as [->|Hne].
      + rewrite (get_upd_eq g' _ M y) in Hx' by (rewrite HM; exact Hy). injection Hx' as <-. reflexivity.
      + rewrite get_upd_ne in Hx' by exact Hne. rewrite HM in Hx'.
        destruct Hg as [Hg|Hg]; [contradiction|]. destruct (Quiet_get_inv m m6 g x' HQ Hx') as (x & Hx & Hl).
        rewrite (lv_box _ _ Hl). apply Hg, Hx.
    - change (get (emit_bad BadState g' m6) g) with (get m6 g) in Hx'.
      destruct Hg as [->|Hg]; [congruence|]. destruct (Quiet_get_inv m m6 g x' HQ Hx') as (x & Hx & Hl).
      rewrite (lv_box _ _ Hl). apply Hg, Hx.
  Qed.

  Lemma fold_free_da n0 m0 : forall L' mi, Nd n0 m0 mi -> (forall g x, g ∈ L' -> get m0 g = Some x -> ~ isFresh x) ->
    Nd n0 m0 (fold_left (fun m g => dealloc K g (drop_metadata K g m)) L' mi).
  Proof.
    induction L' as [|g L' IH]; intros mi HD Hnf; cbn [fold_left]; [exact HD|].
    apply IH; [|intros g' x Hg'; apply Hnf; right; exact Hg'].
    apply (NdX_close mu g).
    - apply Nd_dealloc_ex. apply NdX_weaken. posq3.
    - intros _ x' Hx'. exact (dealloc_not_DA K g _ x' Hx').
    - intros _. right. intros x Hx. apply (Hnf g x); [left | exact Hx].
  Qed.
  Lemma fold_free_fz : forall L' mi g, (g ∈ L' \/ Fz mi g) ->
    Fz (fold_left (fun m g => dealloc K g (drop_metadata K g m)) L' mi) g.
  Proof.
    induction L' as [|g' L' IH]; intros mi g Hg; cbn [fold_left].
    - destruct Hg as [Hg|Hg]; [inversion Hg | exact Hg].
    - apply IH. destruct (decide (g = g')) as [->|Hne].
      + right. apply Fz_step. left. reflexivity.
      + destruct Hg as [Hg|Hg].
        * left. apply elem_of_cons in Hg as [Hg|Hg]; [contradiction | exact Hg].
        * right. apply Fz_step. right. exact Hg.
  Qed.

  Lemma d_step_drop_list L rest old_d m :
    chk (KDropList L rest old_d) m = true -> (step_drop_list K rec L rest old_d m).2 = ONormal ->
    Nd (length (heap m)) m (step_drop_list K rec L rest old_d m).1 /\
    (G (step_drop_list K rec L rest old_d m).1 ->
     forall g x', g ∈ L -> get (step_drop_list K rec L rest old_d m).1 g = Some x' -> ~ isDA x').
  Proof.
    intros Hc. cbn [chk] in Hc. apply andb_true_iff in Hc as [Hsub Hc].
    assert (Hnf : forall g x, g ∈ L -> get m g = Some x -> ~ isFresh x).
    { intros g x Hg Hx. rewrite forallb_forall in Hc. apply elem_of_list_In in Hg. specialize (Hc g Hg). rewrite Hx in Hc.
      apply andb_true_iff in Hc as [Ha Hv]. unfold is_alloc in Ha. unfold isFresh.
      destruct (o_box x) eqn:Hb; try discriminate. intros [[_ H]|H]; [discriminate|].
      unfold is_live, is_dropped_v in Hv. rewrite H in Hv. destruct (mem_id g rest); discriminate. }
    unfold step_drop_list. pose proof (NdX_refl mu None (length (heap m)) m) as HD0.
    destruct rest as [|g rest'].
    - intros _. cbv zeta. cbn [fst snd]. split.
      + eapply Nd_q; [apply (fold_free_da _ m L m HD0 Hnf) | lqd].
      + intros _ g x' Hg Hx' [_ Hb].
        rewrite (fold_free_fz L m g (or_introl Hg) x' Hx') in Hb. discriminate.
    - cbv zeta.
      set (X := if k_weak K then uhdr g set_dropped (if is_in_list (hdr_of m g) then m else emit_bad AssertFail g m)
                else if is_in_list (hdr_of m g) then m else emit_bad AssertFail g m).
      assert (HDX : Nd (length (heap m)) m X) by (unfold X; destruct (k_weak K), (is_in_list (hdr_of m g)); posq3).
      pose proof (HR (KDropValue g) X I) as HDv. cbn [exo] in HDv.
      destruct (rec (KDropValue g) X) as [m1 r1]. cbn [fst snd] in *.
      destruct r1; try discriminate.
      assert (HD1 : NdX (Some g) (length (heap m)) m m1) by (eapply NdX_step; eassumption).
      pose proof (HR (KDropList L rest' old_d) m1 I) as HD2. cbn [exo] in HD2.
      pose proof (HRL L rest' old_d m1) as Hfree.
      destruct (rec (KDropList L rest' old_d) m1) as [m2 r2]. cbn [fst snd] in *. intros ->.
      split; [|intros HG; apply (Hfree eq_refl HG)].
      apply (NdX_close mu g).
      + eapply NdX_step'; eassumption.
      + intros HG x' Hx'. apply (Hfree eq_refl HG g x'); [|exact Hx'].
        cbn [forallb] in Hsub. apply andb_true_iff in Hsub as [Hg _]. apply mem_id_elem, Hg.
      + intros _. right. intros x Hx. apply (Hnf g x); [|exact Hx].
        cbn [forallb] in Hsub. apply andb_true_iff in Hsub as [Hg _]. apply mem_id_elem, Hg.
  Qed.
End Special.
