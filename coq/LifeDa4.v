(** * LifeDa4: promptness, [try_unwrap], dropping a moved-out value, the drop pass, [new_cyclic],
    [Cleaner::register], the dispatch. *)
From Coq Require Import NArith Bool List Lia.
From stdpp Require Import base list option.
From RecordUpdate Require Import RecordSet.
From RC Require Import Hdr Machine RunInd Flags Flags2 Flags4.
From RC Require Import Inv InvP LifeInv LifeInv2 LifeChk LifeStep LifeStep2 LifeStep3 LifeStep4 LifeDa LifeDa2 LifeDa3.
From RC Require Import LifeGhost2.
Import ListNotations RecordSetNotations.
Local Open Scope N_scope.

Section Special.
  Context (K : conf) (P : prog) (mu : id) (nfa : bool).
  Hypothesis Hprog : nfa = true -> prog_nfa P = true.
  Notation G := (G mu).
  Notation NdX := (NdX mu).
  Notation Nd := (NdX None).
  Notation Pre2 := (Pre2 K nfa).
  Notation Post2 := (Post2 K mu nfa).
  Context (rec : call -> machine -> machine * outcome).
  Hypothesis HR : RecD K mu nfa rec.
  Hypothesis Hrec2 : rec_ok Pre2 Post2 rec.
  (** a sub-activation that does not return normally does nothing *)
  Hypothesis HN : forall c m, (rec c m).2 = ONormal \/ (rec c m).1 = m.
  (** the drop pass frees its members *)
  Hypothesis HRL : forall L rest d m, (rec (KDropList L rest d) m).2 = ONormal -> G (rec (KDropList L rest d) m).1 ->
    forall g x', g ∈ L -> get (rec (KDropList L rest d) m).1 g = Some x' -> ~ isDA x'.


  (** ** [try_unwrap] *)
  Lemma d_cmd_try_unwrap self l v m :
    chk (KCmd self (CTryUnwrap l v)) m = true -> Nd (length (heap m)) m (cmd_try_unwrap K self l v m).1.
  Proof.
    intros Hc. cbn [chk] in Hc. unfold cmd_try_unwrap. pose proof (NdX_refl mu None (length (heap m)) m) as HD0.
    assert (HQ1 : Quiet m (resolve self l m).1) by lq.
    pose proof (Nd_q mu None _ m m _ HD0 (Quiet_QuietD mu _ _ HQ1)) as HD1.
    destruct (resolve self l m) as [m1 r]. cbn [fst snd] in *. destruct r as [r|]; [|fin3].
    destruct (values m1 !! v) as [[?|]|]; try fin3.
    destruct (read_loc r m1) as [o|] eqn:Hrd; [|fin3].
    destruct (negb (h_rc (hdr_of m1 o) =? 1)); [fin3|].
    destruct (st_collecting m1 || st_dropping m1 || k_fin K && st_finalizing m1); [fin3|].
    destruct (live_alloc_spec m o Hc) as (x & Hx & Hv & Hb).
    cbv zeta. cbn [fst].
    apply (Nd_q mu None _ m (dealloc K o (drop_metadata K o
             (upd o (fun x0 => x0 <| o_vst := VMoved |>) (remove_from_list o (write_loc r None m1)) <| values ::= <[v:=Some o]> |>))));
      [|unfold ok; lqd].
    apply (NdX_close mu o).
    - apply Nd_dealloc_ex.
      eapply (Nd_q mu (Some o) _ m (upd o (fun x0 => x0 <| o_vst := VMoved |>) (remove_from_list o (write_loc r None m1)))); [|lqd].
      eapply NdX_trans; [|apply (NdX_upd_ex mu o)]. apply NdX_weaken. posq3.
    - intros _ x' Hx'. exact (dealloc_not_DA K o _ x' Hx').
    - intros _. right. intros y Hy. assert (y = x) by congruence. subst y. unfold isFresh. rewrite Hv, Hb.
      intros [[_ H]|H]; discriminate.
  Qed.

  (** ** dropping a moved-out value *)
  Lemma d_cmd_drop_value self v m :
    chk (KCmd self (CDropValue v)) m = true -> (cmd_drop_value rec self v m).2 = ONormal ->
    Nd (length (heap m)) m (cmd_drop_value rec self v m).1.
  Proof.
    intros Hc. cbn [chk] in Hc. unfold cmd_drop_value. pose proof (NdX_refl mu None (length (heap m)) m) as HD0.
    destruct (mjoin (values m !! v)) as [o|]; [|intros _; fin3].
    destruct (get m o) as [x|] eqn:Hx; [|discriminate]. apply andb_true_iff in Hc as [Hb Hv].
    unfold is_freed in Hb. unfold is_moved in Hv.
    set (X := m <| values ::= <[v:=None]> |>).
    assert (HDX : Nd (length (heap m)) m X) by (unfold X; posq3).
    pose proof (HR (KDropValue o) X I) as HDv. cbn [exo] in HDv.
    pose proof (Hrec2 (KDropValue o) X I) as [HLs _].
    destruct (rec (KDropValue o) X) as [m5 r5]. cbn [fst snd] in *.
    destruct r5; try discriminate. intros _.
    assert (HD5 : NdX (Some o) (length (heap m)) m m5) by (eapply NdX_step; eassumption).
    assert (HD5' : Nd (length (heap m)) m m5).
    { apply (NdX_close mu o); [exact HD5 | |].
      - intros HG x' Hx' [_ Hba]. destruct HLs as (_ & _ & C). destruct (C HG) as [_ F].
        destruct (F o x (lookup_lt_Some _ _ _ Hx) Hx) as (y & Hy & HF). assert (y = x') by congruence. subst y.
        rewrite (f_freed _ _ HF) in Hba; [discriminate|]. destruct (o_box x); congruence.
      - intros _. right. intros y Hy. assert (y = x) by congruence. subst y. unfold isFresh.
        intros [[Hl _]|Hu]; destruct (o_vst x); discriminate. }
    fin3.
  Qed.

  (** ** the drop pass *)
  Definition Fz (m : machine) (g : id) : Prop := forall x', get m g = Some x' -> o_box x' = BFreed.

  Lemma Fz_step g' m g : (g = g' \/ Fz m g) -> Fz (dealloc K g' (drop_metadata K g' m)) g.
  Proof.
    intros Hg x' Hx'. set (m6 := drop_metadata K g' m) in *.
    assert (HQ : Quiet m m6) by (unfold m6; lq).
    unfold dealloc in Hx'. destruct (get m6 g') as [y|] eqn:Hy.
    - destruct (box_layout K y) as [sz al]. cbv zeta in Hx'.
      match type of Hx' with get (emit ?e (upd g' ?f ?mm)) g = _ =>
        change (get (emit e (upd g' f mm)) g) with (get (upd g' f mm) g) in Hx'; set (M := mm) in * end.
      assert (HM : forall o, get M o = get m6 o) by (intros o; unfold M; destruct (o_box y), (_ <? _); reflexivity).
      destruct (decide (g = g')) as [->|Hne].
      + rewrite (get_upd_eq g' _ M y) in Hx' by (rewrite HM; exact Hy). injection Hx' as <-. reflexivity.
      + rewrite get_upd_ne in Hx' by exact Hne. rewrite HM in Hx'.
        destruct Hg as [Hg|Hg]; [contradiction|]. destruct (Quiet_get_inv m m6 g x' HQ Hx') as (x & Hx & Hl).
        rewrite (lv_box _ _ Hl). apply Hg, Hx.
    - change (get (emit_bad BadState g' m6) g) with (get m6 g) in Hx'.
      destruct Hg as [->|Hg]; [congruence|]. destruct (Quiet_get_inv m m6 g x' HQ Hx') as (x & Hx & Hl).
      rewrite (lv_box _ _ Hl). apply Hg, Hx.
  Qed.

  Lemma fold_free_da n0 m0 : forall L' mi, Nd n0 m0 mi -> (forall g x, g ∈ L' -> get m0 g = Some x -> ~ isFresh x) ->
    Nd n0 m0 (fold_left (fun m g => dealloc K g (drop_metadata K g m)) L' mi).
  Proof.
    induction L' as [|g L' IH]; intros mi HD Hnf; cbn [fold_left]; [exact HD|].
    apply IH; [|intros g' x Hg'; apply Hnf; right; exact Hg'].
    apply (NdX_close mu g).
    - apply Nd_dealloc_ex. apply NdX_weaken. posq3.
    - intros _ x' Hx'. exact (dealloc_not_DA K g _ x' Hx').
    - intros _. right. intros x Hx. apply (Hnf g x); [left | exact Hx].
  Qed.
  Lemma fold_free_fz : forall L' mi g, (g ∈ L' \/ Fz mi g) ->
    Fz (fold_left (fun m g => dealloc K g (drop_metadata K g m)) L' mi) g.
  Proof.
    induction L' as [|g' L' IH]; intros mi g Hg; cbn [fold_left].
    - destruct Hg as [Hg|Hg]; [inversion Hg | exact Hg].
    - apply IH. destruct (decide (g = g')) as [->|Hne].
      + right. apply Fz_step. left. reflexivity.
      + destruct Hg as [Hg|Hg].
        * left. apply elem_of_cons in Hg as [Hg|Hg]; [contradiction | exact Hg].
        * right. apply Fz_step. right. exact Hg.
  Qed.

  Lemma d_step_drop_list L rest old_d m :
    chk (KDropList L rest old_d) m = true -> (step_drop_list K rec L rest old_d m).2 = ONormal ->
    Nd (length (heap m)) m (step_drop_list K rec L rest old_d m).1 /\
    (G (step_drop_list K rec L rest old_d m).1 ->
     forall g x', g ∈ L -> get (step_drop_list K rec L rest old_d m).1 g = Some x' -> ~ isDA x').
  Proof.
    intros Hc. cbn [chk] in Hc. apply andb_true_iff in Hc as [Hsub Hc].
    assert (Hnf : forall g x, g ∈ L -> get m g = Some x -> ~ isFresh x).
    { intros g x Hg Hx. rewrite forallb_forall in Hc. apply elem_of_list_In in Hg. specialize (Hc g Hg). rewrite Hx in Hc.
      apply andb_true_iff in Hc as [Ha Hv]. unfold is_alloc in Ha. unfold isFresh.
      destruct (o_box x) eqn:Hb; try discriminate. intros [[_ H]|H]; [discriminate|].
      unfold is_live, is_dropped_v in Hv. rewrite H in Hv. destruct (mem_id g rest); discriminate. }
    unfold step_drop_list. pose proof (NdX_refl mu None (length (heap m)) m) as HD0.
    destruct rest as [|g rest'].
    - intros _. cbv zeta. cbn [fst snd]. split.
      + eapply Nd_q; [apply (fold_free_da _ m L m HD0 Hnf) | lqd].
      + intros _ g x' Hg Hx' [_ Hb].
        rewrite (fold_free_fz L m g (or_introl Hg) x' Hx') in Hb. discriminate.
    - cbv zeta.
      set (X := if k_weak K then uhdr g set_dropped (if is_in_list (hdr_of m g) then m else emit_bad AssertFail g m)
                else if is_in_list (hdr_of m g) then m else emit_bad AssertFail g m).
      assert (HDX : Nd (length (heap m)) m X) by (unfold X; destruct (k_weak K), (is_in_list (hdr_of m g)); posq3).
      pose proof (HR (KDropValue g) X I) as HDv. cbn [exo] in HDv.
      destruct (rec (KDropValue g) X) as [m1 r1]. cbn [fst snd] in *.
      destruct r1; try discriminate.
      assert (HD1 : NdX (Some g) (length (heap m)) m m1) by (eapply NdX_step; eassumption).
      pose proof (HR (KDropList L rest' old_d) m1 I) as HD2. cbn [exo] in HD2.
      pose proof (HRL L rest' old_d m1) as Hfree.
      destruct (rec (KDropList L rest' old_d) m1) as [m2 r2]. cbn [fst snd] in *. intros ->.
      split; [|intros HG; apply (Hfree eq_refl HG)].
      apply (NdX_close mu g).
      + eapply NdX_step'; eassumption.
      + intros HG x' Hx'. apply (Hfree eq_refl HG g x'); [|exact Hx'].
        cbn [forallb] in Hsub. apply andb_true_iff in Hsub as [Hg _]. apply mem_id_elem, Hg.
      + intros _. right. intros x Hx. apply (Hnf g x); [|exact Hx].
        cbn [forallb] in Hsub. apply andb_true_iff in Hsub as [Hg _]. apply mem_id_elem, Hg.
  Qed.

  (** ** [new_cyclic] (only the path that returns normally matters) *)
  Lemma SatF_quiet m m' o : QuietD mu m m' -> SatF mu m o -> SatF mu m' o.
  Proof.
    intros (A1 & A2 & A3) HS HG. destruct (HS (A3 HG)) as (x & Hx & Hf). specialize (A2 o). rewrite Hx in A2.
    destruct (get m' o) as [x'|]; [|discriminate]. cbn in A2. exists x'. split; [reflexivity|].
    apply (isFresh_vb x x'); [congruence | exact Hf].
  Qed.

  Lemma d_cmd_new_cyclic self dst cls script sw m :
    (cmd_new_cyclic K P rec self dst cls script sw m).2 = ONormal ->
    Nd (length (heap m)) m (cmd_new_cyclic K P rec self dst cls script sw m).1.
  Proof.
    unfold cmd_new_cyclic. pose proof (NdX_refl mu None (length (heap m)) m) as HD0.
    destruct (negb (k_weak K)); [intros _; fin3|].
    assert (HQ1 : Quiet m (resolve self dst m).1) by lq.
    pose proof (Nd_q mu None _ m m _ HD0 (Quiet_QuietD mu _ _ HQ1)) as HD1. pose proof (Quiet_len _ _ HQ1) as HL1.
    destruct (resolve self dst m) as [m1 r]. cbn [fst snd] in *. destruct r as [r|]; [|intros _; fin3].
    unfold new_node. cbv zeta.
    set (x0 := Obj (hdr_new false) VLive BNotYet None cls false (replicate (c_nf (class_of P cls)) None)
                   (replicate (c_nw (class_of P cls)) None) None false [] [] false).
    set (o := length (heap m1)). set (n0 := length (heap m)) in *.
    assert (Hno : (n0 <= o)%nat) by (unfold o; lia).
    set (m2 := m1 <| heap ::= fun h => h ++ [x0] |>).
    pose proof (NdX_trans mu None _ m m1 _ HD1 (Nd_new mu n0 m1 x0 eq_refl)) as HD2. fold m2 in HD2.
    assert (Hx2 : get m2 o = Some x0) by apply get_new.
    assert (HD3 : Nd n0 m (upd o (fun x => x <| o_vst := VUninit |>) m2)).
    { eapply NdX_trans; [exact HD2|]. apply Nd_upd_own; [exact Hno|]. intros _ y _ [Hd _]. discriminate. }
    assert (HS3 : SatF mu (upd o (fun x => x <| o_vst := VUninit |>) m2) o).
    { intros _. eexists. split; [apply (get_upd_eq o _ m2 x0 Hx2) | right; reflexivity]. }
    destruct (d_trigger K mu nfa rec HR n0 m _ o HD3 HS3) as (m4 & t & -> & HD4 & HS4).
    destruct t; try discriminate.
    assert (HD5 : Nd n0 m (box_alloc K o m4)).
    { eapply NdX_trans; [exact HD4|]. apply Nd_alloc; [exact Hno|].
      intros HG y Hy. destruct (HS4 HG) as (y' & Hy' & Hf). assert (y' = y) by congruence. subst y'. apply fresh_not_dropped, Hf. }
    set (m5 := box_alloc K o m4) in *. clearbody m5. clear HD0 HD1 HD2 HD3 HD4 HS3 HS4.
    set (m10 := emit _ _).
    assert (HQ11 : QuietD mu m5 (tick KClosure m10).1) by (unfold m10; lqd).
    pose proof (Nd_q mu None _ m m5 _ HD5 HQ11) as HD11.
    destruct (tick KClosure m10) as [m11 boom]. cbn [fst snd] in *. clear HQ11. clearbody m10.
    assert (H12 : exists m12 r', (if boom then (m11, raise m11) else rec (KScript None (script_of P script)) m11) = (m12, r')
                     /\ Nd n0 m m12).
    { destruct boom.
      - exists m11, (raise m11). auto.
      - assert (Hp : Pre2 (KScript None (script_of P script)) m11) by (cbn; intros Hn; apply script_nfa, Hprog, Hn).
        pose proof (Nd_rec K mu nfa rec None n0 m m11 (KScript None (script_of P script)) HR eq_refl HD11 Hp) as HD12.
        destruct (rec (KScript None (script_of P script)) m11) as [m12 r']. exists m12, r'. auto. }
    destruct H12 as (m12 & r' & -> & HD12).
    destruct r'; try discriminate.
    assert (H13 : exists m13 r'', (if sw && bool_decide (0 < c_nw (class_of P cls))%nat
                                   then match weak_clone (WTo o) m12 with
                                        | Some m => (upd o (fun x => x <| o_wfields ::= <[0%nat := Some (WTo o)]> |>) m, ONormal)
                                        | None => (m12, raise m12)
                                        end
                                   else (m12, ONormal)) = (m13, r'')
                     /\ Nd n0 m m13).
    { destruct (sw && bool_decide (0 < c_nw (class_of P cls))%nat); [|exists m12, ONormal; auto].
      destruct (weak_clone (WTo o) m12) as [mc|] eqn:Ewc; [|exists m12, (raise m12); auto].
      eexists _, ONormal. split; [reflexivity|].
      eapply Nd_q; [exact HD12|]. apply QuietD_upd; [intros; reflexivity|].
      eapply qd_weak_clone; [apply QuietD_refl | exact Ewc]. }
    destruct H13 as (m13 & r'' & -> & HD13).
    destruct r''; try discriminate. intros Hn.
    assert (HD14 : Nd n0 m (upd o (fun x => x <| o_vst := VLive |>) m13)).
    { eapply NdX_trans; [exact HD13|]. apply Nd_upd_own; [exact Hno|]. intros _ y _ [Hd _]. discriminate. }
    set (m14 := upd o (fun x => x <| o_vst := VLive |>) m13) in *. clearbody m14. clear HD5 HD11 HD12 HD13.
    clear Hn. repeat adv3; fin3.
  Qed.

  (** ** [Cleaner::register] *)
  Lemma d_cmd_register self nd script c m :
    (cmd_register K P rec self nd script c m).2 = ONormal ->
    Nd (length (heap m)) m (cmd_register K P rec self nd script c m).1.
  Proof.
    unfold cmd_register. pose proof (NdX_refl mu None (length (heap m)) m) as HD0.
    destruct (negb (k_clean K)); [intros _; fin3|].
    assert (HQ1 : Quiet m (nresolve self nd m).1) by lq.
    pose proof (Nd_q mu None _ m m _ HD0 (Quiet_QuietD mu _ _ HQ1)) as HD1. pose proof (Quiet_len _ _ HQ1) as HL1.
    destruct (nresolve self nd m) as [m1 no]. cbn [fst snd] in *. destruct no as [o|]; [|intros _; fin3].
    destruct (cslots m1 !! c); [|intros _; fin3]. destruct (get m1 o) as [x|] eqn:Hx; [|intros _; fin3].
    destruct (negb (c_cleaner (class_of P (o_cls x))) || o_ismap x); [intros _; fin3|].
    set (n0 := length (heap m)) in *.
    match goal with |- (match ?E with pair _ _ => _ end).2 = _ -> _ => set (MID := E) end.
    assert (Hmid : MID.2 = ONormal -> Nd n0 m MID.1.1).
    { unfold MID. destruct (o_cleaner x) as [mo|]; [intros _; exact HD1|].
      unfold new_map. cbv zeta.
      set (x0 := Obj (hdr_new false) VLive BNotYet None 0 true [] [] None false [] [] false).
      set (mo := length (heap m1)).
      assert (Hno : (n0 <= mo)%nat) by (unfold mo; lia).
      pose proof (NdX_trans mu None _ m m1 _ HD1 (Nd_new mu n0 m1 x0 eq_refl)) as HD2.
      assert (HS2 : SatF mu (m1 <| heap ::= fun h => h ++ [x0] |>) mo).
      { intros _. exists x0. split; [apply get_new | left; split; reflexivity]. }
      destruct (d_trigger K mu nfa rec HR n0 m _ mo HD2 HS2) as (m3 & t & Et & HD3 & HS3).
      fold x0 in Et |- *. fold mo in Et |- *. rewrite Et. clear Et.
      destruct t.
      - cbv zeta. assert (HD4 : Nd n0 m (box_alloc K mo m3)).
        { eapply NdX_trans; [exact HD3|]. apply Nd_alloc; [exact Hno|].
          intros HG y Hy. destruct (HS3 HG) as (y' & Hy' & Hf). assert (y' = y) by congruence. subst y'. apply fresh_not_dropped, Hf. }
        destruct (get (box_alloc K mo m3) o ≫= o_cleaner) as [existing|].
        + pose proof (Nd_rec K mu nfa rec None n0 m _ (KDropCc mo) HR eq_refl HD4 I) as HD5.
          destruct (rec (KDropCc mo) (box_alloc K mo m3)) as [m4 r]. intros _. exact HD5.
        + intros _. cbn [fst]. eapply Nd_q; [exact HD4 | lqd].
      - destruct (unwinding (rec (KDropValue mo)) m3) as [m4 r] eqn:Eu. cbn [fst snd]. intros ->.
        exfalso. apply (unwinding_not_normal (rec (KDropValue mo)) m3). rewrite Eu. reflexivity.
      - discriminate.
      - discriminate. }
    destruct MID as [[m2 mo] r]. cbn [fst snd] in Hmid. destruct r; try discriminate.
    specialize (Hmid eq_refl). intros _. clear HD0 HD1.
    repeat adv3; fin3.
  Qed.
End Special.
