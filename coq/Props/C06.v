(** C06 - "finalizers that keep releasing or creating objects cannot make a collection run
    forever": the termination half.  Statements only; every proof is [exact <lemma of Term.v>].

    In the fuelled model [run K P n c m] returns [OFuel] when the fuel [n] runs out, so "the
    activation [c] started in [m] returns" is [exists n, (run K P n c m).2 <> OFuel] (by
    [C06_run_fuel_mono] the result is then the same for every larger [n]).  The collector's own
    control flow is bounded: [KCollect] = at most 10 (1 without finalization) iterations of
    [KCollectOnce]; [KCollectOnce] = the closed function [trace_pass] (own fuel, proved
    sufficient: PassMain.pass_fuel_ok) followed by one callback per member of the FIXED list
    computed by the pass.  A user finalizer / destructor that itself diverges is the program's
    non-termination, not the collector's: this is the premise [callbacks_terminate]. *)
From Coq Require Import NArith Bool List Lia.
From stdpp Require Import base list option.
From RecordUpdate Require Import RecordSet.
From RC Require Import Hdr Machine RunInd Pass PassMain Term.
From RC Require PassEx.
Import ListNotations RecordSetNotations.

(** ** 1. [OFuel] is never swallowed; fuel monotonicity *)
Theorem C06_nofuel_propagates : forall K P rec rec' k m,
  (forall k' m', (rec k' m').2 <> OFuel -> rec' k' m' = rec k' m') ->
  (step K P rec k m).2 <> OFuel -> step K P rec' k m = step K P rec k m.
Proof. exact step_nofuel_ext. Qed.
Print Assumptions C06_nofuel_propagates.

Theorem C06_run_fuel_mono : forall K P n n' c m,
  (run K P n c m).2 <> OFuel -> (n <= n')%nat -> run K P n' c m = run K P n c m.
Proof. exact run_fuel_mono. Qed.
Print Assumptions C06_run_fuel_mono.

(** ** 2. The premise *)
Check callback_call : call -> Prop.
Check callbacks_terminate : conf -> prog -> Prop.
Goal forall c, callback_call c =
               match c with KScript _ _ | KDropValue _ => True | _ => False end.
Proof. reflexivity. Qed.
Goal forall K P, callbacks_terminate K P =
                 forall c m, callback_call c -> exists n, (run K P n c m).2 <> OFuel.
Proof. reflexivity. Qed.
(** the sharper premise that the proofs use: only finalizer scripts of [P]'s classes run on an
    object, and value destructions *)
Goal forall P c, collector_callback P c =
                 match c with
                 | KScript (Some _) cs => exists cl, cs = oscript P (c_fin (class_of P cl))
                 | KDropValue _ => True
                 | _ => False
                 end.
Proof. reflexivity. Qed.
Goal forall K P, collector_callbacks_terminate K P =
                 forall c m, collector_callback P c -> exists n, (run K P n c m).2 <> OFuel.
Proof. reflexivity. Qed.
Theorem C06_premise_weaker : forall K P,
  callbacks_terminate K P -> collector_callbacks_terminate K P.
Proof. exact callbacks_terminate_collector. Qed.
Print Assumptions C06_premise_weaker.

(** ** 3. Termination of the collector's activations *)
Theorem C06_drop_list_terminates : forall K P,
  collector_callbacks_terminate K P ->
  forall L rest old_d m, exists n, (run K P n (KDropList L rest old_d) m).2 <> OFuel.
Proof. exact drop_list_terminates. Qed.
Print Assumptions C06_drop_list_terminates.

Theorem C06_finalize_list_terminates : forall K P,
  collector_callbacks_terminate K P ->
  forall L rest any old_f m, exists n, (run K P n (KFinalizeList L rest any old_f) m).2 <> OFuel.
Proof. exact finalize_list_terminates. Qed.
Print Assumptions C06_finalize_list_terminates.

Theorem C06_collect_once_terminates : forall K P,
  collector_callbacks_terminate K P -> (forall m', (trace_pass K P m').2 <> PFuel) ->
  forall m, exists n, (run K P n KCollectOnce m).2 <> OFuel.
Proof. exact collect_once_terminates. Qed.
Print Assumptions C06_collect_once_terminates.

(** from a state satisfying the pass precondition no premise on [trace_pass] is needed *)
Theorem C06_collect_once_terminates_pre : forall K P m ext,
  collector_callbacks_terminate K P -> PassPre P m ext ->
  exists n, (run K P n KCollectOnce m).2 <> OFuel.
Proof. exact collect_once_terminates_pre. Qed.
Print Assumptions C06_collect_once_terminates_pre.

Theorem C06_collect_loop_terminates : forall K P,
  (forall m, exists n, (run K P n KCollectOnce m).2 <> OFuel) ->
  forall k m, exists n, (run K P n (KCollectLoop k) m).2 <> OFuel.
Proof. exact collect_loop_terminates. Qed.
Print Assumptions C06_collect_loop_terminates.

Theorem C06_collect_terminates_inner : forall K P,
  (forall m, exists n, (run K P n KCollectOnce m).2 <> OFuel) ->
  forall m, exists n, (run K P n KCollect m).2 <> OFuel.
Proof. exact collect_terminates. Qed.
Print Assumptions C06_collect_terminates_inner.

Theorem C06_collect_terminates : forall K P,
  callbacks_terminate K P -> (forall m', (trace_pass K P m').2 <> PFuel) ->
  forall m, exists n,
    (run K P n KCollectCycles m).2 <> OFuel /\ (run K P n KTrigger m).2 <> OFuel.
Proof. exact Term.C06_collect_terminates. Qed.
Print Assumptions C06_collect_terminates.

Theorem C06_collect_terminates_sharp : forall K P,
  collector_callbacks_terminate K P -> (forall m', (trace_pass K P m').2 <> PFuel) ->
  forall m, exists n,
    (run K P n KCollectCycles m).2 <> OFuel /\ (run K P n KTrigger m).2 <> OFuel.
Proof. exact collect_cycles_terminates. Qed.
Print Assumptions C06_collect_terminates_sharp.

(** ** 4. Bounded passes *)
Theorem C06_collect_makes_at_most_10_passes : forall K P n m,
  run K P (S n) KCollect m =
  (let '(m1, r) := run K P n (KCollectLoop (if k_fin K then 10 else 1)%nat)
                       (m <| st_collecting := true |> <| st_exec ::= N.succ |>) in
   (m1 <| st_collecting := false |>, r)).
Proof. exact collect_makes_at_most_10_passes. Qed.
Print Assumptions C06_collect_makes_at_most_10_passes.

Theorem C06_collect_loop_zero : forall K P n m,
  run K P (S n) (KCollectLoop 0) m = (m, ONormal).
Proof. exact collect_loop_zero. Qed.
Print Assumptions C06_collect_loop_zero.

Theorem C06_collect_loop_step : forall K P n k m,
  run K P (S n) (KCollectLoop (S k)) m =
  match pc m with
  | [] => (m, ONormal)
  | _ => let '(m1, r) := run K P n KCollectOnce m in
         match r with ONormal => run K P n (KCollectLoop k) m1 | _ => (m1, r) end
  end.
Proof. exact collect_loop_step. Qed.
Print Assumptions C06_collect_loop_step.

Theorem C06_drop_list_fuel : forall K P n,
  (forall g m', (run K P n (KDropValue g) m').2 <> OFuel) ->
  forall L rest old_d m,
    (run K P (n + length rest + 1) (KDropList L rest old_d) m).2 <> OFuel.
Proof. exact drop_list_fuel. Qed.
Print Assumptions C06_drop_list_fuel.

Theorem C06_finalize_list_fuel : forall K P n,
  (forall c m', collector_callback P c -> (run K P n c m').2 <> OFuel) ->
  forall L rest any old_f m,
    (run K P (n + length rest + length L + 2) (KFinalizeList L rest any old_f) m).2 <> OFuel.
Proof. exact finalize_list_fuel. Qed.
Print Assumptions C06_finalize_list_fuel.

(** [pass_len K P m] = the number of objects the tracing pass started from [m] finds unreachable *)
Goal forall K P m, pass_len K P m =
  match (trace_pass K P (m <| st_finalizing := false |> <| st_dropping := false |>)).2 with
  | PDone L => length L
  | _ => 0%nat
  end.
Proof. reflexivity. Qed.

Theorem C06_collect_once_fuel : forall K P n,
  (forall c m', collector_callback P c -> (run K P n c m').2 <> OFuel) ->
  forall m,
    (trace_pass K P (m <| st_finalizing := false |> <| st_dropping := false |>)).2 <> PFuel ->
    (run K P (n + 2 * pass_len K P m + 3) KCollectOnce m).2 <> OFuel.
Proof. exact collect_once_fuel. Qed.
Print Assumptions C06_collect_once_fuel.

Theorem C06_collect_once_fuel_pre : forall K P n m ext,
  (forall c m', collector_callback P c -> (run K P n c m').2 <> OFuel) -> PassPre P m ext ->
  (run K P (n + 2 * pass_len K P m + 3) KCollectOnce m).2 <> OFuel.
Proof. exact collect_once_fuel_pre. Qed.
Print Assumptions C06_collect_once_fuel_pre.

Theorem C06_collect_loop_fuel : forall K P k n m,
  (forall m', (run K P n KCollectOnce m').2 <> OFuel) ->
  (run K P (n + k + 1) (KCollectLoop k) m).2 <> OFuel.
Proof. exact collect_loop_fuel. Qed.
Print Assumptions C06_collect_loop_fuel.

Theorem C06_collect_fuel : forall K P n m,
  (forall m', (run K P n KCollectOnce m').2 <> OFuel) ->
  (run K P (n + 12) KCollect m).2 <> OFuel /\
  (run K P (n + 13) KCollectCycles m).2 <> OFuel /\ (run K P (n + 13) KTrigger m).2 <> OFuel.
Proof. exact collect_fuel. Qed.
Print Assumptions C06_collect_fuel.

(** ** 5. The callbacks as an oracle: no premise on the program.

    [crun K P cb n c m] is [run] with every callback activation ([KScript], [KDropValue]) replaced
    by the arbitrary total state transformer [cb]; only the collector's own activations consume
    fuel. *)
Goal forall K P cb n c m,
  crun K P cb (S n) c m =
  step K P (fun c' m' => match c' with
                         | KScript _ _ | KDropValue _ => cb c' m'
                         | _ => crun K P cb n c' m'
                         end) c m.
Proof.
  intros. cbn [crun]. f_equal.
Qed.

Theorem C06_oracle_drop_list_fuel : forall K P cb,
  (forall c m, (cb c m).2 <> OFuel) ->
  forall L rest old_d m,
    (crun K P cb (length rest + 1) (KDropList L rest old_d) m).2 <> OFuel.
Proof. exact odrop_list_fuel. Qed.
Print Assumptions C06_oracle_drop_list_fuel.

Theorem C06_oracle_finalize_list_fuel : forall K P cb,
  (forall c m, (cb c m).2 <> OFuel) ->
  forall L rest any old_f m,
    (crun K P cb (length rest + length L + 2) (KFinalizeList L rest any old_f) m).2 <> OFuel.
Proof. exact ofinalize_list_fuel. Qed.
Print Assumptions C06_oracle_finalize_list_fuel.

Theorem C06_oracle_collect_once_fuel : forall K P cb,
  (forall c m, (cb c m).2 <> OFuel) ->
  forall m,
    (trace_pass K P (m <| st_finalizing := false |> <| st_dropping := false |>)).2 <> PFuel ->
    (crun K P cb (2 * pass_len K P m + 3) KCollectOnce m).2 <> OFuel.
Proof. exact ocollect_once_fuel. Qed.
Print Assumptions C06_oracle_collect_once_fuel.

Theorem C06_oracle_collect_once_fuel_pre : forall K P cb m ext,
  (forall c m', (cb c m').2 <> OFuel) -> PassPre P m ext ->
  (crun K P cb (2 * pass_len K P m + 3) KCollectOnce m).2 <> OFuel.
Proof. exact ocollect_once_fuel_pre. Qed.
Print Assumptions C06_oracle_collect_once_fuel_pre.

Theorem C06_oracle_collect_terminates : forall K P cb,
  (forall c m, (cb c m).2 <> OFuel) ->
  (forall m', (trace_pass K P m').2 <> PFuel) ->
  forall m, exists n,
    (crun K P cb n KCollect m).2 <> OFuel /\
    (crun K P cb (S n) KCollectCycles m).2 <> OFuel /\ (crun K P cb (S n) KTrigger m).2 <> OFuel.
Proof. exact ocollect_terminates. Qed.
Print Assumptions C06_oracle_collect_terminates.

Theorem C06_oracle_fuel_mono : forall K P cb n n' c m,
  (crun K P cb n c m).2 <> OFuel -> (n <= n')%nat -> crun K P cb n' c m = crun K P cb n c m.
Proof. exact crun_mono. Qed.
Print Assumptions C06_oracle_fuel_mono.

Check C06_nofuel_propagates : forall K P rec rec' k m,
  (forall k' m', (rec k' m').2 <> OFuel -> rec' k' m' = rec k' m') ->
  (step K P rec k m).2 <> OFuel -> step K P rec' k m = step K P rec k m.
Check C06_run_fuel_mono : forall K P n n' c m,
  (run K P n c m).2 <> OFuel -> (n <= n')%nat -> run K P n' c m = run K P n c m.
Check C06_drop_list_terminates : forall K P,
  collector_callbacks_terminate K P ->
  forall L rest old_d m, exists n, (run K P n (KDropList L rest old_d) m).2 <> OFuel.
Check C06_finalize_list_terminates : forall K P,
  collector_callbacks_terminate K P ->
  forall L rest any old_f m, exists n, (run K P n (KFinalizeList L rest any old_f) m).2 <> OFuel.
Check C06_collect_once_terminates : forall K P,
  collector_callbacks_terminate K P -> (forall m', (trace_pass K P m').2 <> PFuel) ->
  forall m, exists n, (run K P n KCollectOnce m).2 <> OFuel.
Check C06_collect_once_terminates_pre : forall K P m ext,
  collector_callbacks_terminate K P -> PassPre P m ext ->
  exists n, (run K P n KCollectOnce m).2 <> OFuel.
Check C06_collect_terminates : forall K P,
  callbacks_terminate K P -> (forall m', (trace_pass K P m').2 <> PFuel) ->
  forall m, exists n,
    (run K P n KCollectCycles m).2 <> OFuel /\ (run K P n KTrigger m).2 <> OFuel.
Check C06_collect_loop_fuel : forall K P k n m,
  (forall m', (run K P n KCollectOnce m').2 <> OFuel) ->
  (run K P (n + k + 1) (KCollectLoop k) m).2 <> OFuel.
Check C06_drop_list_fuel : forall K P n,
  (forall g m', (run K P n (KDropValue g) m').2 <> OFuel) ->
  forall L rest old_d m,
    (run K P (n + length rest + 1) (KDropList L rest old_d) m).2 <> OFuel.
Check C06_finalize_list_fuel : forall K P n,
  (forall c m', collector_callback P c -> (run K P n c m').2 <> OFuel) ->
  forall L rest any old_f m,
    (run K P (n + length rest + length L + 2) (KFinalizeList L rest any old_f) m).2 <> OFuel.

(** ** Non-vacuity: finalizers that keep releasing objects, one per pass.

    Class 0 has two [Cc] fields: field 0 is NOT reported by [Trace::trace] (the link to the next
    object of the chain), field 1 is the one traced field (a self-loop, which makes the object a
    garbage cycle of its own as soon as nothing else refers to it).  Its finalizer drops field 0.
    Twelve objects 11 -> 10 -> ... -> 0 linked through field 0; the only handle (to object 11) is
    dropped, which buffers 11.  As long as [i+1] holds its untraced link, [i] looks externally
    referenced: every pass finds exactly one new unreachable object, whose finalizer then
    releases the next one. *)
Definition c6K : conf := Conf true true true false false 64 8 64 8 1000.
Definition c6P : prog :=
  Prog [Cls 2 [false; true] 0 false (Some 0%nat) None] [[CDrop (LFS 0)]] [].
Definition ex_tail : list cmd := [CNew (LS 0) 0; CClone (LS 0) (LFA 0 1)].
Definition ex_link : list cmd :=
  [CNew (LS 1) 0; CClone (LS 1) (LFA 1 1); CMove (LS 0) (LFA 1 0); CMove (LS 1) (LS 0)].
Definition ex_build : list cmd :=
  ex_tail ++ concat (replicate 11 ex_link) ++ [CDrop (LS 0)].
Definition ex_run (fuel : nat) (cmds : list cmd) (m : machine) : machine :=
  fold_left (fun m c => exec_top c6K c6P fuel c m) cmds m.
Definition ex_m0 : machine := ex_run 100 ex_build (init c6K).
Definition ex_m1 : machine := ex_run 100 [CCollect] ex_m0.
Definition ex_m2 : machine := ex_run 100 [CCollect] ex_m1.

Definition ex_is_cb (k : cbkind) (o : nat) (e : event) : bool :=
  match e with
  | ECb k' o' _ =>
    match k, k' with
    | KTrace, KTrace | KFin, KFin | KDrop, KDrop => Nat.eqb o o'
    | _, _ => false
    end
  | _ => false
  end.
Definition ex_count (k : cbkind) (o : nat) (m : machine) : nat :=
  length (filter (fun e => ex_is_cb k o e) (log m)).
Definition ex_is_bad (e : event) : bool := match e with EBad _ _ => true | _ => false end.
Definition ex_freed (m : machine) : list bool :=
  map (fun x => match o_box x with BFreed => true | _ => false end) (heap m).

(** before the first collection: 12 allocated objects, only the head (object 11) is buffered *)
Example ex_before :
  length (heap ex_m0) = 12%nat /\ pc ex_m0 = [11%nat] /\ ex_freed ex_m0 = replicate 12 false /\
  map (fun x => o_fields x) (heap ex_m0) =
    [None; Some 0%nat] :: map (fun i => [Some i; Some (S i)]) (seq 0 11).
Proof. vm_compute. repeat split. Qed.

(** the first [collect] returns (no [EBad], in particular no [EBad Fuel]; it logs [ERes ROk]) after
    exactly 10 passes: the head was traced 10 times (once per pass: it is never a root), the
    finalizers of objects 11 .. 2 ran once each (one new object per pass), nothing has been
    freed, and the buffer is NOT empty: it holds the 10 finalized objects and object 1, released
    by the 10th finalizer *)
Example ex_first_collect :
  (run c6K c6P 100 (KCmd None CCollect) ex_m0).2 = ONormal /\
  head (log ex_m1) = Some (ERes ROk) /\
  existsb ex_is_bad (log ex_m1) = false /\
  st_exec ex_m1 = 1%N /\
  ex_count KTrace 11 ex_m1 = 10%nat /\
  map (fun o => ex_count KFin o ex_m1) (seq 0 12) = [0; 0; 1; 1; 1; 1; 1; 1; 1; 1; 1; 1]%nat /\
  ex_freed ex_m1 = replicate 12 false /\
  pc ex_m1 = [2; 4; 6; 8; 10; 11; 9; 7; 5; 3; 1]%nat /\ pc_size ex_m1 = 11%N /\
  st_collecting ex_m1 = false /\ st_finalizing ex_m1 = false /\ st_dropping ex_m1 = false.
Proof. vm_compute. repeat split. Qed.

(** the 10 passes, one by one: the loop of the first collection is 10 times [KCollectOnce], the
    buffer being non-empty before each of them and after the last one (so only the cap of 10
    stopped the loop) *)
Definition ex_once (m : machine) : machine := (run c6K c6P 100 KCollectOnce m).1.
Definition ex_m0c : machine := ex_m0 <| st_collecting := true |> <| st_exec ::= N.succ |>.
Example ex_ten_passes :
  run c6K c6P 100 (KCollectLoop 10) ex_m0c = (Nat.iter 10 ex_once ex_m0c, ONormal) /\
  map (fun i => length (pc (Nat.iter i ex_once ex_m0c))) (seq 0 11)
    = [1; 2; 3; 4; 5; 6; 7; 8; 9; 10; 11]%nat /\
  map (fun i => pass_len c6K c6P (Nat.iter i ex_once ex_m0c)) (seq 0 11)
    = [1; 2; 3; 4; 5; 6; 7; 8; 9; 10; 11]%nat.
Proof. vm_compute. repeat split. Qed.

(** without the cap the same collection would have gone on: 13 passes reclaim everything *)
Example ex_uncapped :
  pc (run c6K c6P 100 (KCollectLoop 13) ex_m0c).1 = [] /\
  ex_freed (run c6K c6P 100 (KCollectLoop 13) ex_m0c).1 = replicate 12 true /\
  ex_count KTrace 11 (run c6K c6P 100 (KCollectLoop 12) ex_m0c).1 = 12%nat /\
  pc (run c6K c6P 100 (KCollectLoop 12) ex_m0c).1 <> [].
Proof. vm_compute. repeat split. discriminate. Qed.

(** the second [collect] finishes the rest in 3 more passes: the two remaining finalizers
    (objects 1 and 0), then, nothing being left to finalize, the drop pass: every object is
    destroyed once and freed, the buffer is empty *)
Example ex_second_collect :
  (run c6K c6P 100 (KCmd None CCollect) ex_m1).2 = ONormal /\
  head (log ex_m2) = Some (ERes ROk) /\
  existsb ex_is_bad (log ex_m2) = false /\
  st_exec ex_m2 = 2%N /\
  ex_count KTrace 11 ex_m2 = 13%nat /\
  map (fun o => ex_count KFin o ex_m2) (seq 0 12) = replicate 12 1%nat /\
  map (fun o => ex_count KDrop o ex_m2) (seq 0 12) = replicate 12 1%nat /\
  ex_freed ex_m2 = replicate 12 true /\
  pc ex_m2 = [] /\ pc_size ex_m2 = 0%N /\ st_alloc ex_m2 = 0%N.
Proof. vm_compute. repeat split. Qed.

(** [C06_run_fuel_mono] is not vacuous: fuel 30 is enough for the first collection, fuel 20 is
    not, and every larger fuel gives the same final state *)
Example ex_fuel_mono :
  (run c6K c6P 20 KCollectCycles ex_m0).2 = OFuel /\
  (run c6K c6P 30 KCollectCycles ex_m0).2 = ONormal /\
  run c6K c6P 100 KCollectCycles ex_m0 = run c6K c6P 30 KCollectCycles ex_m0.
Proof.
  split; [vm_compute; reflexivity|]. split; [vm_compute; reflexivity|].
  apply C06_run_fuel_mono; [vm_compute; discriminate | lia].
Qed.

(** the fuel bounds on this run: every callback started by the two collections needs at most
    fuel 8 (a finalizer script that drops a field; a destruction that drops two fields), and the
    bound [n + 2 * |L| + 3] of [C06_collect_once_fuel] / [n + k + 1] of [C06_collect_loop_fuel] is
    respected: 8 + 2 * 12 + 3 = 35 suffices for each pass and 35 + 10 + 1 for the loop *)
Example ex_fuel_bounds :
  forallb (fun i => match (run c6K c6P 35 KCollectOnce (Nat.iter i ex_once ex_m0c)).2 with
                    | OFuel => false | _ => true end) (seq 0 13) = true /\
  (run c6K c6P (35 + 10 + 1) (KCollectLoop 10) ex_m0c).2 = ONormal.
Proof. vm_compute. repeat split. Qed.

(** ** Non-vacuity of the oracle statements *)
(** the premises of [C06_oracle_collect_once_fuel_pre] hold of the do-nothing oracle and of
    PassEx.exA (a garbage 2-cycle plus a rescued object; [PassPre] proved there): the pass finds
    2 objects and [KCollectOnce] returns within 2 * 2 + 3 *)
Definition cb_skip (_ : call) (m : machine) : machine * outcome := (m, ONormal).
Example ex_oracle_pre :
  pass_len PassEx.exK PassEx.exP PassEx.exA = 2%nat /\
  (crun PassEx.exK PassEx.exP cb_skip 7 KCollectOnce PassEx.exA).2 <> OFuel.
Proof.
  split; [vm_compute; reflexivity|].
  replace 7%nat with (2 * pass_len PassEx.exK PassEx.exP PassEx.exA + 3)%nat
    by (vm_compute; reflexivity).
  apply (C06_oracle_collect_once_fuel_pre PassEx.exK PassEx.exP cb_skip PassEx.exA PassEx.extA).
  - intros c m. discriminate.
  - exact PassEx.exA_pre.
Qed.

(** a hostile oracle on the chain of [ex_m0]: every "finalizer" clears the finalized flag of
    every object, so each pass finds the head unreachable AND in need of finalization again.
    The collection still returns: after exactly 10 passes (10 finalizer activations on object
    11), with the head back in the buffer. *)
Definition cb_evil (_ : call) (m : machine) : machine * outcome :=
  (m <| heap ::= map (fun x => x <| o_hdr ::= set_fin false |>) |>, ONormal).
Example ex_oracle_evil :
  let X := crun c6K c6P cb_evil 20 KCollectCycles ex_m0 in
  X.2 = ONormal /\ ex_count KFin 11 X.1 = 10%nat /\ ex_count KTrace 11 X.1 = 10%nat /\
  pc X.1 = [11%nat] /\ existsb ex_is_bad (log X.1) = false /\
  (crun c6K c6P cb_evil 10 KCollectCycles ex_m0).2 = OFuel.
Proof. vm_compute. repeat split. Qed.
