(** C03 - "each value is dropped at most once; each allocation is freed exactly once, with the
    layout it was allocated with, and only after its value was dropped, moved out or never
    initialised; in panic-free executions the allocation of a dropped value is released before the
    top-level operation returns".
    Statements only; every proof is [exact <lemma>] (LifeCyc.v, LifeFin.v, LifeDa5.v).

    Scope: every configuration [K] (with [cleaners] only together with [weak-ptrs]), every
    program [P] respecting the documented Drop contract ([wf_prog]), every fuel, every list of
    top-level commands; runs that logged [EBad Fuel] / [EBad Abort] (fuel exhausted / process
    aborted by a double panic) are excluded.  [m] is the final state; since every prefix of a
    command list is a command list, the statements hold of every intermediate top-level state.

    How it is proved (Life*.v): the lifecycle invariant [LifeInv.Linv] (log/state consistency
    per object + well-formedness of the log) is proved for the marking interpreter [Life.mrun]
    by [Life.mrun_ind] (an instance of the [RunInd.run_ind] scheme) assuming at the entry of every
    activation the decidable facts [LifeChk.chk] that follow from part A/B's pre-conditions
    (e.g. the target of a successful [try_unwrap] is live); [Life.mfold_eq] shows that on clean
    runs of well-formed programs the marking interpreter IS the real one.

The weak side records have the same event-level lifecycle ([C03_side_events], LifeSd*.v). *)
From Coq Require Import NArith Bool List Lia.
From stdpp Require Import base list option.
From RecordUpdate Require Import RecordSet.
From RC Require Import Hdr Machine RunInd Inv InvP SafeMain LifeInv LifeCyc LifeFin LifeDa LifeDa5 LifeSd LifeSd5.
Import ListNotations RecordSetNotations.
Local Open Scope N_scope.

(** ** 1. the model never detects a double drop / double free / drop of an uninitialised value /
    use after free / use after drop *)
Theorem C03_no_double :
  forall (K : conf) (P : prog) (fuel : nat) (cmds : list cmd),
  (k_clean K = true -> k_weak K = true) -> wf_prog P = true ->
  let m := fold_left (fun m c => exec_top K P fuel c m) cmds (init K) in
  forallb (fun e => match e with EBad Fuel _ | EBad Abort _ => false | _ => true end) (log m) = true ->
  forall o : nat, ~ In (EBad DoubleDrop o) (log m) /\ ~ In (EBad DoubleFree o) (log m) /\
                  ~ In (EBad UninitDrop o) (log m) /\ ~ In (EBad UseAfterFree o) (log m) /\
                  ~ In (EBad UseAfterDrop o) (log m).
Proof. exact LifeCyc.no_double. Qed.
Print Assumptions C03_no_double.

(** ** 2. the event-level lifecycle.  [cntE p l] counts the events of [l] satisfying [p];
    [isA o] / [isF o] / [isD o] / [isFi o] recognise [EAlloc o _ _] / [EFree o _ _] /
    [ECb KDrop o _] (entry of the value's destructor) / [ECb KFin o _]; the log is newest first,
    so in [log m = l1 ++ e :: l2] the events of [l2] precede [e]. *)
Print cntE.
Print isA. Print isF. Print isD. Print isFi. Print ev_id.
(** [EvLife K m]: at most one destructor entry per object, none for a CleanerMap; at most one
    [EAlloc] and one [EFree] per object; every [EFree o s a] is preceded by [EAlloc o s a] (same
    size and alignment, equal to the layout of the heap entry) and by no other [EFree o]; [EAlloc
    o] logged iff the box is not [BNotYet], [EFree o] iff it is [BFreed], destructor entered iff
    the value state is [VDropping]/[VDropped]; a freed box never holds a live value (it was freed
    after the value was dropped - [VDropping] on a freed box only while the destructor of a
    moved-out value runs -, moved out or never initialised), and a destructor that is entered on
    a freed box is the destructor of a moved-out value; every event names an existing object;
    no finalizer entry after a destructor entry of the same object; finalizer entries only under
    [k_fin], never for unallocated / uninitialised / CleanerMap objects. *)
Print EvLife.
Theorem C03_EvLife :
  forall (K : conf) (P : prog) (fuel : nat) (cmds : list cmd),
  (k_clean K = true -> k_weak K = true) -> wf_prog P = true ->
  forallb (fun e => match e with EBad Fuel _ | EBad Abort _ => false | _ => true end)
          (log (fold_left (fun m c => exec_top K P fuel c m) cmds (init K))) = true ->
  EvLife K (fold_left (fun m c => exec_top K P fuel c m) cmds (init K)).
Proof. exact LifeFin.prog_evlife. Qed.
Print Assumptions C03_EvLife.

(** the most important fields, spelled out *)
Theorem C03_drop_at_most_once :
  forall (K : conf) (P : prog) (fuel : nat) (cmds : list cmd),
  (k_clean K = true -> k_weak K = true) -> wf_prog P = true ->
  let m := fold_left (fun m c => exec_top K P fuel c m) cmds (init K) in
  forallb (fun e => match e with EBad Fuel _ | EBad Abort _ => false | _ => true end) (log m) = true ->
  forall o : id, (cntE (isD o) (log m) <= 1)%nat.
Proof. exact LifeFin.prog_drop_once. Qed.
Print Assumptions C03_drop_at_most_once.

Theorem C03_free_once_after_alloc_same_layout :
  forall (K : conf) (P : prog) (fuel : nat) (cmds : list cmd),
  (k_clean K = true -> k_weak K = true) -> wf_prog P = true ->
  let m := fold_left (fun m c => exec_top K P fuel c m) cmds (init K) in
  forallb (fun e => match e with EBad Fuel _ | EBad Abort _ => false | _ => true end) (log m) = true ->
  (forall o : id, (cntE (isF o) (log m) <= 1)%nat) /\
  (forall (l1 : list event) (o : id) (s a : N) (l2 : list event), log m = l1 ++ EFree o s a :: l2 ->
     In (EAlloc o s a) l2 /\ cntE (isF o) l2 = 0%nat /\ exists x : obj, get m o = Some x /\ (s, a) = box_layout K x) /\
  (forall (o : id) (x : obj), get m o = Some x -> ((0 < cntE (isF o) (log m))%nat <-> o_box x = BFreed)) /\
  (forall (o : id) (x : obj), get m o = Some x -> o_box x = BFreed -> o_vst x <> VLive).
Proof. exact LifeFin.prog_free_facts. Qed.
Print Assumptions C03_free_once_after_alloc_same_layout.

(** the weak side record: at most one [ESAlloc o] and one [ESFree o] per object; every [ESFree o]
    is preceded by the [ESAlloc o] and by no other [ESFree o]; [ESAlloc o] logged iff the object
    has a side record (iff the header bit is set), [ESFree o] iff the record is marked freed *)
Print isSA. Print isSF. Print evs_id.
Theorem C03_side_events :
  forall (K : conf) (P : prog),
  (k_clean K = true -> k_weak K = true) -> wf_prog P = true ->
  forall (fuel : nat) (cmds : list cmd),
  let m := fold_left (fun m c => exec_top K P fuel c m) cmds (init K) in
  forallb (fun e => match e with EBad Fuel _ | EBad Abort _ => false | _ => true end) (log m) = true ->
  (forall o : id, (cntE (isSA o) (log m) <= 1)%nat /\ (cntE (isSF o) (log m) <= 1)%nat) /\
  (forall (l1 : list event) (o : id) (l2 : list event), log m = l1 ++ ESFree o :: l2 -> In (ESAlloc o) l2 /\ cntE (isSF o) l2 = 0%nat) /\
  (forall (l1 : list event) (o : id) (l2 : list event), log m = l1 ++ ESAlloc o :: l2 -> cntE (isSA o) l2 = 0%nat) /\
  (forall (o : id) (x : obj), get m o = Some x ->
     ((0 < cntE (isSA o) (log m))%nat <-> o_side x <> None) /\
     ((0 < cntE (isSF o) (log m))%nat <-> exists s : side, o_side x = Some s /\ sd_freed s = true) /\
     (h_side (o_hdr x) = true <-> o_side x <> None)) /\
  (forall (e : event) (o : id), In e (log m) -> evs_id e = Some o -> is_Some (get m o)).
Proof. exact LifeSd5.prog_side_events. Qed.
Print Assumptions C03_side_events.

(** between two top-level states nothing goes backwards: a dropped value stays dropped, a freed box
    stays freed, a never-allocated box stays so, ... *)
Print ObjF.
Theorem C03_frame :
  forall (K : conf) (P : prog) (fuel : nat),
  (k_clean K = true -> k_weak K = true) -> wf_prog P = true ->
  forall cmds1 cmds2 : list cmd,
  let m1 := fold_left (fun m c => exec_top K P fuel c m) cmds1 (init K) in
  let m2 := fold_left (fun m c => exec_top K P fuel c m) (cmds1 ++ cmds2) (init K) in
  forallb (fun e => match e with EBad Fuel _ | EBad Abort _ => false | _ => true end) (log m2) = true ->
  forall (o : id) (x : obj), get m1 o = Some x -> exists x' : obj, get m2 o = Some x' /\ ObjF x x'.
Proof. exact LifeFin.prog_frame. Qed.
Print Assumptions C03_frame.

(** ** 3. promptness: without panic, no dropped value keeps its allocation past the top-level
    command *)
Theorem C03_prompt :
  forall (K : conf) (P : prog),
  (k_clean K = true -> k_weak K = true) -> wf_prog P = true ->
  forall (fuel : nat) (cmds : list cmd),
  let m := fold_left (fun m c => exec_top K P fuel c m) cmds (init K) in
  forallb (fun e => match e with EBad Fuel _ | EBad Abort _ => false | _ => true end) (log m) = true ->
  no_panic_yet m = true ->
  forall (o : id) (x : obj), get m o = Some x -> o_vst x = VDropped -> o_box x <> BAlloc.
Proof. exact LifeDa5.prog_prompt. Qed.
Print Assumptions C03_prompt.

(** ** Pins *)
Check C03_no_double :
  forall (K : conf) (P : prog) (fuel : nat) (cmds : list cmd),
  (k_clean K = true -> k_weak K = true) -> wf_prog P = true ->
  let m := fold_left (fun m c => exec_top K P fuel c m) cmds (init K) in
  forallb (fun e => match e with EBad Fuel _ | EBad Abort _ => false | _ => true end) (log m) = true ->
  forall o : nat, ~ In (EBad DoubleDrop o) (log m) /\ ~ In (EBad DoubleFree o) (log m) /\
                  ~ In (EBad UninitDrop o) (log m) /\ ~ In (EBad UseAfterFree o) (log m) /\
                  ~ In (EBad UseAfterDrop o) (log m).
Check C03_EvLife :
  forall (K : conf) (P : prog) (fuel : nat) (cmds : list cmd),
  (k_clean K = true -> k_weak K = true) -> wf_prog P = true ->
  forallb (fun e => match e with EBad Fuel _ | EBad Abort _ => false | _ => true end)
          (log (fold_left (fun m c => exec_top K P fuel c m) cmds (init K))) = true ->
  EvLife K (fold_left (fun m c => exec_top K P fuel c m) cmds (init K)).
Check C03_prompt :
  forall (K : conf) (P : prog),
  (k_clean K = true -> k_weak K = true) -> wf_prog P = true ->
  forall (fuel : nat) (cmds : list cmd),
  let m := fold_left (fun m c => exec_top K P fuel c m) cmds (init K) in
  forallb (fun e => match e with EBad Fuel _ | EBad Abort _ => false | _ => true end) (log m) = true ->
  no_panic_yet m = true ->
  forall (o : id) (x : obj), get m o = Some x -> o_vst x = VDropped -> o_box x <> BAlloc.

(** ** Non-vacuity.  The corpus program F4 (a garbage cycle with finalizers and a Drop impl,
    collected): the hypotheses hold, three objects were allocated, finalized, dropped and freed,
    and no panic occurred. *)
Definition exF4 : machine :=
  fold_left (fun m c => exec_top SafeFinalPropsA.exK SafeFinalPropsA.f4_prog 60 c m)
            (p_main SafeFinalPropsA.f4_prog) (init SafeFinalPropsA.exK).
Example C03_nonvacuous :
  (k_clean SafeFinalPropsA.exK = true -> k_weak SafeFinalPropsA.exK = true) /\
  wf_prog SafeFinalPropsA.f4_prog = true /\
  forallb (fun e => match e with EBad Fuel _ | EBad Abort _ => false | _ => true end) (log exF4) = true /\
  no_panic_yet exF4 = true /\
  map (fun x => (o_vst x, o_box x)) (heap exF4) = [(VDropped, BFreed); (VDropped, BFreed); (VDropped, BFreed)] /\
  filter ev_rel (log exF4) =
    [EFree 0%nat 48 8; EFree 1%nat 48 8; ECb KDrop 0%nat (Flags true false true false); ECb KDrop 1%nat (Flags true false true false);
     ECb KFin 1%nat (Flags true true false false); EFree 2%nat 48 8; ECb KDrop 2%nat (Flags true true true false);
     ECb KFin 2%nat (Flags true true false false); ECb KFin 0%nat (Flags true true false false);
     EAlloc 2%nat 48 8; EAlloc 1%nat 48 8; EAlloc 0%nat 48 8].
Proof. split; [reflexivity|]. repeat split; vm_compute; reflexivity. Qed.

(** a moved-out value: its destructor runs AFTER the box was freed ([try_unwrap] frees it), as
    [el_drop_on_freed_is_moved] allows *)
Definition exMoved : machine :=
  fold_left (fun m c => exec_top SafeFinalPropsA.exK (Prog [Cls 0 [] 0 false None None] [] []) 60 c m)
            [CNew (LS 0) 0%nat; CTryUnwrap (LS 0) 0%nat; CDropValue 0%nat] (init SafeFinalPropsA.exK).
Example C03_moved_value :
  forallb (fun e => match e with EBad Fuel _ | EBad Abort _ => false | _ => true end) (log exMoved) = true /\
  map (fun x => (o_vst x, o_box x)) (heap exMoved) = [(VDropped, BFreed)] /\
  filter ev_rel (log exMoved) = [ECb KDrop 0%nat (Flags false false false false); EFree 0%nat 48 8; EAlloc 0%nat 48 8].
Proof. repeat split; vm_compute; reflexivity. Qed.
