(** C04 - "the strong count is exact: [Cc::strong_count] equals the number of existing owners (it
    can only be too high after a panic leaked a handle, never too low); when the last owner is
    dropped the value is destroyed and the allocation is freed".
    Statements only; every proof is [exact <lemma>] (SafeProps.v, SafeFinalPropsA.v,
    SafeFinalProps.v).  State-level, for every configuration [K]: [SInv K b E W m] is part A's
    invariant (InvP.v); [b = true] means no handle was leaked by a panic so far; [E] are the
    handles held by the active frames ([E = []] at top level).  [refs m o] (Inv.v) is the number
    of strong handles to [o] stored in slots, the bag, strong fields and cleaner fields.
    NOT derived (see SafeFinalPropsA.v, section LastOwner): "everything the last owner solely
    owned is destroyed too, recursively": part A's post-condition of the value destructor
    ([InvP.post_own]) says that [o]'s value becomes [VDropped] and its fields are emptied, not
    what the recursive [Cc::drop] calls did to their targets. *)
From Coq Require Import NArith Bool List Lia.
From stdpp Require Import base list option.
From RecordUpdate Require Import RecordSet.
From RC Require Import Hdr Machine RunInd Inv InvP SafeMain SafeProps Pass PassMain SafeFinalPropsA SafeFinalProps SafeColl SafeFinal SafeFinalProg SafeFinalOwn SafeFinalOwn2.
Import ListNotations RecordSetNotations.
Local Open Scope N_scope.

(** while no panic leaked a handle, the reported strong count is the number of existing strong
    handles (and the weak count the number of existing Weak handles) *)
Theorem C04_strong_count_exact :
  forall (K : conf) (E : list id) (self : option id) (l : loc) (m : machine) (r : rloc) (o : id),
  SInv K true E [] m -> resolve self l m = (m, Some r) -> read_loc r m = Some o ->
  (exists x : obj, get m o = Some x /\ o_box x = BAlloc /\ o_vst x = VLive /\ mem_id o (dead m) = false /\ o_ismap x = false) ->
  exists x : obj, get m o = Some x /\
    cmd_obs self l m =
    ok (emit (EObs o (N.of_nat (refs m o + cnt_id o E)) (N.of_nat (wrefs m o)) (h_fin (o_hdr x)) true) m) ROk.
Proof. exact SafeProps.obs_reports_exact_count. Qed.
Print Assumptions C04_strong_count_exact.

(** in every state (also after caught panics) the reported strong count is at least the number
    of existing strong handles, at most [max_rc], exact when [b = true]; the weak count is always
    exact *)
Theorem C04_never_too_low :
  forall (K : conf) (b : bool) (E : list id) (self : option id) (l : loc) (m : machine) (r : rloc) (o : id),
  SInv K b E [] m -> resolve self l m = (m, Some r) -> read_loc r m = Some o ->
  (exists x : obj, get m o = Some x /\ o_box x = BAlloc /\ o_vst x = VLive /\ mem_id o (dead m) = false /\ o_ismap x = false) ->
  exists (x : obj) (rc : N), get m o = Some x /\ rc = h_rc (o_hdr x) /\
    N.of_nat (refs m o + cnt_id o E) <= rc /\ rc <= max_rc /\
    (b = true -> rc = N.of_nat (refs m o + cnt_id o E)) /\
    cmd_obs self l m = ok (emit (EObs o rc (N.of_nat (wrefs m o)) (h_fin (o_hdr x)) true) m) ROk.
Proof. exact SafeFinalProps.obs_never_too_low. Qed.
Print Assumptions C04_never_too_low.

(** ** The last owner: [Cc::drop] on a handle whose target has strong count 1, is not linked in a
    collector list and has no finalizer to run *)

(** the definition of [Cc::drop] in that case ([rec] arbitrary, no invariant): decrement, unlink
    from the buffer, set [dropping] (and the dropped marker with weak-ptrs), run the value's
    destructor; on normal return release the side record, free the box, restore [dropping] *)
Theorem C04_last_owner_shape :
  forall (K : conf) (P : prog) (rec : call -> machine -> machine * outcome) (o : id) (m : machine) (x : obj),
  get m o = Some x -> o_box x = BAlloc -> is_in_list_or_queue (o_hdr x) = false -> h_rc (o_hdr x) = 1 ->
  k_fin K && needs_fin (o_hdr x) = false ->
  step_drop_cc K P rec o m =
    let '(m2, r) := rec (KDropValue o)
           (let m1 := remove_from_list o (dec_rc_m o m) in
            let m1 := m1 <| st_dropping := true |> in
            if k_weak K then uhdr o set_dropped m1 else m1) in
    match r with
    | ONormal => (dealloc K o (drop_metadata K o m2) <| st_dropping := st_dropping m |>, ONormal)
    | _ => (m2 <| st_dropping := st_dropping m |>, r)
    end.
Proof. exact SafeFinalPropsA.step_drop_cc_last_owner. Qed.
Print Assumptions C04_last_owner_shape.

(** if the destructor returns normally, so does [Cc::drop]; the box of [o] is freed, with the
    layout of its value, and the [EFree] event is logged ([rec] arbitrary, no invariant) *)
Theorem C04_last_owner_freed :
  forall (K : conf) (P : prog) (rec : call -> machine -> machine * outcome) (o : id) (m : machine) (x : obj)
         (m2 : machine) (y : obj),
  get m o = Some x -> o_box x = BAlloc -> is_in_list_or_queue (o_hdr x) = false -> h_rc (o_hdr x) = 1 ->
  k_fin K && needs_fin (o_hdr x) = false ->
  rec (KDropValue o)
           (let m1 := remove_from_list o (dec_rc_m o m) in
            let m1 := m1 <| st_dropping := true |> in
            if k_weak K then uhdr o set_dropped m1 else m1) = (m2, ONormal) ->
  get m2 o = Some y ->
  exists (mf : machine) (yf : obj), step_drop_cc K P rec o m = (mf, ONormal) /\
    mf = dealloc K o (drop_metadata K o m2) <| st_dropping := st_dropping m |> /\
    get mf o = Some yf /\ o_box yf = BFreed /\ o_vst yf = o_vst y /\
    In (EFree o (box_layout K y).1 (box_layout K y).2) (log mf).
Proof. exact SafeFinalPropsA.last_owner_freed. Qed.
Print Assumptions C04_last_owner_freed.

(** with part A's specification of the callees (satisfied by every [run K P n]) and its pre-
    condition for the [Cc::drop] call: the value is destroyed ([VDropped]) and the box freed *)
Theorem C04_last_owner :
  forall (K : conf) (P : prog)
         (PreC : bool -> list id -> call -> machine -> Prop)
         (PostC : bool -> list id -> call -> machine -> machine -> outcome -> Prop)
         (rec : call -> machine -> machine * outcome),
  (forall (b : bool) (E : list id), rec_ok (Pre K PreC b E) (Post K PostC b E) rec) ->
  forall (b : bool) (E : list id) (o : id) (m : machine) (x : obj) (m2 : machine),
  Pre K PreC b E (KDropCc o) m ->
  get m o = Some x -> is_in_list_or_queue (o_hdr x) = false -> h_rc (o_hdr x) = 1 ->
  k_fin K && needs_fin (o_hdr x) = false ->
  rec (KDropValue o)
           (let m1 := remove_from_list o (dec_rc_m o m) in
            let m1 := m1 <| st_dropping := true |> in
            if k_weak K then uhdr o set_dropped m1 else m1) = (m2, ONormal) ->
  exists (mf : machine) (yf : obj), step_drop_cc K P rec o m = (mf, ONormal) /\
    get mf o = Some yf /\ o_box yf = BFreed /\ o_vst yf = VDropped /\
    In (EFree o (box_layout K x).1 (box_layout K x).2) (log mf).
Proof. exact SafeFinalProps.last_owner. Qed.
Print Assumptions C04_last_owner.

(** ** Program level: what a top-level [strong_count]/[weak_count] through a slot reports in
    every state reached by every well-formed program (unless cut by fuel / aborted): never
    less than the number of existing strong handles, exactly that number while no panic was
    caught; the weak count is exact. *)
Theorem C04_program_count :
  forall (K : conf) (P : prog) (fuel : nat) (cmds : list cmd),
  (k_clean K = true -> k_weak K = true) -> wf_prog P = true ->
  forallb (fun e => match e with EBad Fuel _ | EBad Abort _ => false | _ => true end)
          (log (fold_left (fun m c => exec_top K P fuel c m) cmds (init K))) = true ->
  forall (i : nat) (o : id), (i < nslots)%nat ->
  slots (fold_left (fun m c => exec_top K P fuel c m) cmds (init K)) !! i = Some (Some o) ->
  exists (x : obj) (rc : N),
    get (fold_left (fun m c => exec_top K P fuel c m) cmds (init K)) o = Some x /\
    cmd_obs None (LS i) (fold_left (fun m c => exec_top K P fuel c m) cmds (init K)) =
      ok (emit (EObs o rc (N.of_nat (wrefs (fold_left (fun m c => exec_top K P fuel c m) cmds (init K)) o))
                     (h_fin (o_hdr x)) true)
               (fold_left (fun m c => exec_top K P fuel c m) cmds (init K))) ROk /\
    N.of_nat (refs (fold_left (fun m c => exec_top K P fuel c m) cmds (init K)) o) <= rc <= max_rc /\
    (no_panic_yet (fold_left (fun m c => exec_top K P fuel c m) cmds (init K)) = true ->
     rc = N.of_nat (refs (fold_left (fun m c => exec_top K P fuel c m) cmds (init K)) o)).
Proof. exact SafeFinalProg.prog_obs_count. Qed.
Print Assumptions C04_program_count.

(** ** What the last owner solely owned goes with it - one level (PARTIAL, see below).
    INTENDED (C04_last_owner_recursive): for [Cc::drop] of [o] with [h_rc = 1], not IL/IQ, outcome
    ONormal, every object solely owned by [o] (inductively: a field / cleaner target with
    [h_rc = 1], not IL/IQ, of [o] or of a solely owned object) is VDropped and BFreed in the
    result.  PROVED: the step of the drop glue of a value under destruction that drops field
    [j] ([run .. (KDropFields o j)], any depth of the run): if the target [t] of that field has
    strong count 1, is not linked in a collector list and has no finalizer pending in the state
    where the step starts, and the step returns normally, then [t] is freed and its value
    destroyed in the result (whatever the later steps of the glue do).  MISSING for the later
    fields / the view from the entry of [Cc::drop] / the recursion: a frame fact of part A saying
    that the header of a solely owned object is not changed by the activations in between
    (SafeFinalOwn.v, final comment: conjunct [of_sole]); [Pre]/[Q] are the hypotheses under which
    every activation of every program runs ([SafeFinal.run_okQ]). *)
Theorem C04_last_owner_recursive_partial :
  forall (K : conf) (P : prog),
  (k_clean K = true -> k_weak K = true) -> wf_prog P = true ->
  forall (n : nat) (b : bool) (E A : list id) (o : id) (j : nat) (m : machine) (x : obj) (t : id) (xt : obj) (m' : machine),
  Pre K (PreC K) b E (KDropFields o j) m -> Q K A (KDropFields o j) m ->
  get m o = Some x -> o_fields x !! j = Some (Some t) -> t <> o ->
  get m t = Some xt -> h_rc (o_hdr xt) = 1 -> is_in_list_or_queue (o_hdr xt) = false ->
  k_fin K && needs_fin (o_hdr xt) = false ->
  run K P (S (S n)) (KDropFields o j) m = (m', ONormal) ->
  exists y : obj, get m' t = Some y /\ o_box y = BFreed /\ o_vst y = VDropped.
Proof. exact SafeFinalOwn.owned_field_freed. Qed.
Print Assumptions C04_last_owner_recursive_partial.

(** ** ... recursively, relative to ONE explicit frame hypothesis (SafeFinalOwn2.v).
    SUPERSEDED by Props/C04sole.v: [C04sole.C04_last_owner_recursive] is the theorem below with the
    hypothesis [SoleFrame K P] REMOVED (proved in Sole*.v).  [SoleFrame] exactly as stated here
    turned out to be false for one activation kind (a pending [KStore] into a field of an object
    that became solely owned while the store's value was being allocated; executed counterexample
    in SoleCex.v); the frame is proved in the form [C04sole.C04_sole_frame], with a side condition
    on the call's arguments that holds wherever the recursion needs it.  The two theorems below
    are kept as pinned intermediate results.
    [SolelyOwned K m o t] (inductive): [t] is reached from [o] through strong fields and every
    object on the way, [t] included, satisfies [sole_at]: allocated, alive, strong count 1, not
    linked in a collector list (IL/IQ), no finalizer to run ([k_fin K && needs_fin = false]), and
    NO Weak handle points to it ([wrefs m t = 0]).
    [SoleFrame K P] (HYPOTHESIS, not proved): for every activation [c] of [run K P n] started under
    [Pre]/[Q] and returning ONormal/OPanic, for every value [p] whose destruction is running at the
    entry ([VDropping], [ex_of c <> Some p]) the [sole_at] facts of the objects solely owned by [p]
    are the same at the exit.  It is validated by the executable checker (SafeRig.v codes 243/245)
    on the corpus and 3600 random programs; without the side condition [wrefs = 0] it is false (a
    Drop impl may upgrade a Weak to a solely owned child: legal resurrection; executed
    counterexample in SafeFinalOwn2.v), so the conjunct [of_sole] proposed in SafeFinalOwn.v is
    false as stated.  Proving [SoleFrame] needs a second induction over all activations
    (including the tracing pass of the collector); it cannot be added to part A's [ObjFr] without
    re-proving part B.
    THEOREM: [Cc::drop] of the last owner of [o] (count 1, not linked, no finalizer to run),
    outcome ONormal: [o] and everything it solely owned are freed, their values destroyed. *)
Theorem C04_last_owner_recursive_frame_partial :
  forall (K : conf) (P : prog),
  (k_clean K = true -> k_weak K = true) -> wf_prog P = true ->
  SoleFrame K P ->
  forall (n : nat) (b : bool) (E A : list id) (o : id) (m m' : machine),
  Pre K (PreC K) b E (KDropCc o) m -> Q K A (KDropCc o) m ->
  (exists xo : obj, get m o = Some xo /\ h_rc (o_hdr xo) = 1 /\ is_in_list_or_queue (o_hdr xo) = false /\
                    k_fin K && needs_fin (o_hdr xo) = false) ->
  run K P n (KDropCc o) m = (m', ONormal) ->
  (exists y : obj, get m' o = Some y /\ o_box y = BFreed /\ o_vst y = VDropped) /\
  forall t : id, SolelyOwned K m o t -> exists y : obj, get m' t = Some y /\ o_box y = BFreed /\ o_vst y = VDropped.
Proof.
  intros K P Hconf Hwf HSF n b E A o m m' Hpre HQ Hlo Hrun.
  exact (SafeFinalOwn2.last_owner_recursive K P Hconf Hwf HSF n b E A o m m' Hpre HQ Hlo Hrun).
Qed.
Print Assumptions C04_last_owner_recursive_frame_partial.

(** ** Pins *)
Check C04_last_owner_recursive_frame_partial :
  forall (K : conf) (P : prog),
  (k_clean K = true -> k_weak K = true) -> wf_prog P = true ->
  SoleFrame K P ->
  forall (n : nat) (b : bool) (E A : list id) (o : id) (m m' : machine),
  Pre K (PreC K) b E (KDropCc o) m -> Q K A (KDropCc o) m ->
  (exists xo : obj, get m o = Some xo /\ h_rc (o_hdr xo) = 1 /\ is_in_list_or_queue (o_hdr xo) = false /\
                    k_fin K && needs_fin (o_hdr xo) = false) ->
  run K P n (KDropCc o) m = (m', ONormal) ->
  (exists y : obj, get m' o = Some y /\ o_box y = BFreed /\ o_vst y = VDropped) /\
  forall t : id, SolelyOwned K m o t -> exists y : obj, get m' t = Some y /\ o_box y = BFreed /\ o_vst y = VDropped.
Check C04_last_owner_recursive_partial :
  forall (K : conf) (P : prog),
  (k_clean K = true -> k_weak K = true) -> wf_prog P = true ->
  forall (n : nat) (b : bool) (E A : list id) (o : id) (j : nat) (m : machine) (x : obj) (t : id) (xt : obj) (m' : machine),
  Pre K (PreC K) b E (KDropFields o j) m -> Q K A (KDropFields o j) m ->
  get m o = Some x -> o_fields x !! j = Some (Some t) -> t <> o ->
  get m t = Some xt -> h_rc (o_hdr xt) = 1 -> is_in_list_or_queue (o_hdr xt) = false ->
  k_fin K && needs_fin (o_hdr xt) = false ->
  run K P (S (S n)) (KDropFields o j) m = (m', ONormal) ->
  exists y : obj, get m' t = Some y /\ o_box y = BFreed /\ o_vst y = VDropped.
Check C04_strong_count_exact :
  forall (K : conf) (E : list id) (self : option id) (l : loc) (m : machine) (r : rloc) (o : id),
  SInv K true E [] m -> resolve self l m = (m, Some r) -> read_loc r m = Some o ->
  (exists x : obj, get m o = Some x /\ o_box x = BAlloc /\ o_vst x = VLive /\ mem_id o (dead m) = false /\ o_ismap x = false) ->
  exists x : obj, get m o = Some x /\
    cmd_obs self l m =
    ok (emit (EObs o (N.of_nat (refs m o + cnt_id o E)) (N.of_nat (wrefs m o)) (h_fin (o_hdr x)) true) m) ROk.
Check C04_never_too_low :
  forall (K : conf) (b : bool) (E : list id) (self : option id) (l : loc) (m : machine) (r : rloc) (o : id),
  SInv K b E [] m -> resolve self l m = (m, Some r) -> read_loc r m = Some o ->
  (exists x : obj, get m o = Some x /\ o_box x = BAlloc /\ o_vst x = VLive /\ mem_id o (dead m) = false /\ o_ismap x = false) ->
  exists (x : obj) (rc : N), get m o = Some x /\ rc = h_rc (o_hdr x) /\
    N.of_nat (refs m o + cnt_id o E) <= rc /\ rc <= max_rc /\
    (b = true -> rc = N.of_nat (refs m o + cnt_id o E)) /\
    cmd_obs self l m = ok (emit (EObs o rc (N.of_nat (wrefs m o)) (h_fin (o_hdr x)) true) m) ROk.
Check C04_last_owner_shape :
  forall (K : conf) (P : prog) (rec : call -> machine -> machine * outcome) (o : id) (m : machine) (x : obj),
  get m o = Some x -> o_box x = BAlloc -> is_in_list_or_queue (o_hdr x) = false -> h_rc (o_hdr x) = 1 ->
  k_fin K && needs_fin (o_hdr x) = false ->
  step_drop_cc K P rec o m =
    let '(m2, r) := rec (KDropValue o)
           (let m1 := remove_from_list o (dec_rc_m o m) in
            let m1 := m1 <| st_dropping := true |> in
            if k_weak K then uhdr o set_dropped m1 else m1) in
    match r with
    | ONormal => (dealloc K o (drop_metadata K o m2) <| st_dropping := st_dropping m |>, ONormal)
    | _ => (m2 <| st_dropping := st_dropping m |>, r)
    end.
Check C04_last_owner_freed :
  forall (K : conf) (P : prog) (rec : call -> machine -> machine * outcome) (o : id) (m : machine) (x : obj)
         (m2 : machine) (y : obj),
  get m o = Some x -> o_box x = BAlloc -> is_in_list_or_queue (o_hdr x) = false -> h_rc (o_hdr x) = 1 ->
  k_fin K && needs_fin (o_hdr x) = false ->
  rec (KDropValue o)
           (let m1 := remove_from_list o (dec_rc_m o m) in
            let m1 := m1 <| st_dropping := true |> in
            if k_weak K then uhdr o set_dropped m1 else m1) = (m2, ONormal) ->
  get m2 o = Some y ->
  exists (mf : machine) (yf : obj), step_drop_cc K P rec o m = (mf, ONormal) /\
    mf = dealloc K o (drop_metadata K o m2) <| st_dropping := st_dropping m |> /\
    get mf o = Some yf /\ o_box yf = BFreed /\ o_vst yf = o_vst y /\
    In (EFree o (box_layout K y).1 (box_layout K y).2) (log mf).
Check C04_last_owner :
  forall (K : conf) (P : prog)
         (PreC : bool -> list id -> call -> machine -> Prop)
         (PostC : bool -> list id -> call -> machine -> machine -> outcome -> Prop)
         (rec : call -> machine -> machine * outcome),
  (forall (b : bool) (E : list id), rec_ok (Pre K PreC b E) (Post K PostC b E) rec) ->
  forall (b : bool) (E : list id) (o : id) (m : machine) (x : obj) (m2 : machine),
  Pre K PreC b E (KDropCc o) m ->
  get m o = Some x -> is_in_list_or_queue (o_hdr x) = false -> h_rc (o_hdr x) = 1 ->
  k_fin K && needs_fin (o_hdr x) = false ->
  rec (KDropValue o)
           (let m1 := remove_from_list o (dec_rc_m o m) in
            let m1 := m1 <| st_dropping := true |> in
            if k_weak K then uhdr o set_dropped m1 else m1) = (m2, ONormal) ->
  exists (mf : machine) (yf : obj), step_drop_cc K P rec o m = (mf, ONormal) /\
    get mf o = Some yf /\ o_box yf = BFreed /\ o_vst yf = VDropped /\
    In (EFree o (box_layout K x).1 (box_layout K x).2) (log mf).
