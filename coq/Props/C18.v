(** C18 - "derive(Trace) traces every non-ignored field once and forbids custom Drop".
    Statements only; every proof is [exact <lemma of Derive.v>]. *)
From Coq Require Import List Arith Bool PeanoNat.
Import ListNotations.
From RC Require Import Containers Derive.

(** The derived [trace] reports exactly what the non-ignored fields of the active variant
    report, each once, in declaration order; nothing if the active variant is ignored. *)
Theorem C18_visit : forall (d : tdesc) (tv : tvalue), wf_tvalue d tv ->
  derived_visit d tv = concat (map visit (traced_fields d tv)).
Proof. exact Derive.C18_visit. Qed.
Print Assumptions C18_visit.

(** The [trace] calls made by the generated code: no field twice ... *)
Theorem C18_calls_NoDup : forall (d : tdesc) (i : nat), NoDup (derived_calls d i).
Proof. exact Derive.C18_calls_NoDup. Qed.
Print Assumptions C18_calls_NoDup.

(** ... and field [j] of the active variant [i] is traced iff neither it nor (for an enum)
    its variant carries [#[rust_cc(ignore)]]. *)
Theorem C18_calls_iff : forall (d : tdesc) (i j : nat),
  In j (derived_calls d i) <->
  exists vd f, nth_error (variants d) i = Some vd /\ variant_ignored d vd = false /\
               nth_error (v_fields vd) j = Some f /\ f_ignore f = false.
Proof. exact Derive.C18_calls_iff. Qed.
Print Assumptions C18_calls_iff.

Theorem C18_field_count : forall (d : tdesc) (i j : nat),
  count_occ Nat.eq_dec (derived_calls d i) j =
  match nth_error (variants d) i with
  | Some vd => match nth_error (v_fields vd) j with
               | Some f => if variant_ignored d vd || f_ignore f then 0 else 1
               | None => 0
               end
  | None => 0
  end.
Proof. exact Derive.C18_field_count. Qed.
Print Assumptions C18_field_count.

Theorem C18_ignored_variant : forall (d : tdesc) (tv : tvalue) (vd : vdesc),
  nth_error (variants d) (tv_variant tv) = Some vd -> variant_ignored d vd = true ->
  derived_visit d tv = [].
Proof. exact Derive.C18_ignored_variant. Qed.
Print Assumptions C18_ignored_variant.

(** The generated [match] is exhaustive: if no arm matches the active variant then a variant
    was dropped and the catch-all arm exists (so the "no arm => nothing traced" branch of the
    model is the [_ => {}] arm of the code). *)
Theorem C18_match_exhaustive : forall (d : tdesc) (i : nat) (vd : vdesc),
  nth_error (variants d) i = Some vd ->
  find (fun arm => fst arm =? i) (arms d) = None ->
  omitted_variants d = true.
Proof. exact Derive.catch_all_arm_present. Qed.
Print Assumptions C18_match_exhaustive.

Theorem C18_type_level_ignore_rejected : forall d : tdesc,
  a_ignore (type_attrs d) = true -> no_drop d = false -> derive_accepts d = false.
Proof. exact Derive.C18_type_level_ignore_rejected. Qed.
Print Assumptions C18_type_level_ignore_rejected.

(** "Ignored" depends only on the presence of [#[rust_cc(ignore)]] among the attributes of the
    field / variant, not on its position, its repetition or the unrelated attributes. *)
Theorem C18_ignore_position_irrelevant : forall pre post : attrs,
  a_ignore (pre ++ WIgnore :: post) = true.
Proof. exact Derive.C18_ignore_position_irrelevant. Qed.
Print Assumptions C18_ignore_position_irrelevant.

Theorem C18_other_attrs_irrelevant : forall a : attrs,
  a_ignore a = a_ignore (filter (fun w => negb match w with WOther => true | _ => false end) a).
Proof. exact Derive.C18_other_attrs_irrelevant. Qed.
Print Assumptions C18_other_attrs_irrelevant.

(** Same as [C18_visit] for the user [trace] calls (field types that cannot hold a [Cc]). *)
Theorem C18_utrace : forall (d : tdesc) (tv : tvalue), wf_tvalue d tv ->
  derived_utrace d tv = concat (map utrace (traced_fields d tv)).
Proof. exact Derive.C18_utrace. Qed.
Print Assumptions C18_utrace.

(** The Drop impl is emitted also when nothing at all ends up traced. *)
Theorem C18_drop_untraced : forall d : tdesc,
  (forall i, derived_calls d i = []) -> no_drop d = false ->
  emits_drop d = true /\ coherent d true = false.
Proof. exact Derive.C18_drop_untraced. Qed.
Print Assumptions C18_drop_untraced.

(** A [Drop] impl is emitted unless [unsafe_no_drop] is given, so that a user-written [Drop]
    is a coherence error (E0119) exactly when the attribute is absent. *)
Theorem C18_drop : forall d : tdesc,
  emits_drop d = negb (no_drop d) /\ coherent d true = no_drop d /\ coherent d false = true.
Proof. exact Derive.C18_drop. Qed.
Print Assumptions C18_drop.

(** derive(Finalize) yields an empty finalizer. *)
Theorem C18_finalize_empty : forall (d : tdesc) (tv : tvalue), derived_finalize d tv = [].
Proof. exact Derive.C18_finalize_empty. Qed.
Print Assumptions C18_finalize_empty.

(** Pins. *)
Check derived_visit : tdesc -> tvalue -> list nat.
Check derived_calls : tdesc -> nat -> list nat.
Check traced_fields : tdesc -> tvalue -> list value.
Check emits_drop : tdesc -> bool.
Check C18_visit : forall (d : tdesc) (tv : tvalue), wf_tvalue d tv ->
  derived_visit d tv = concat (map visit (traced_fields d tv)).
Check C18_calls_NoDup : forall (d : tdesc) (i : nat), NoDup (derived_calls d i).
Check C18_drop : forall d : tdesc,
  emits_drop d = negb (no_drop d) /\ coherent d true = no_drop d /\ coherent d false = true.
Check C18_finalize_empty : forall (d : tdesc) (tv : tvalue), derived_finalize d tv = [].
