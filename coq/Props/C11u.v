(** C11, unconditional form: for well-formed programs (every configuration with [cleaners] only
    together with [weak-ptrs], every fuel, every command list) the buffer-and-marks invariant
    [Ibuf K [] m] holds in every reached state unless the run was cut by fuel exhaustion or
    aborted - the [dirty] disjunct of [C11_prog_G] / the hypothesis of [C11_prog_buf] are
    discharged by the safety theorem ([SafeFinal.safe_programs_no_bad]).  Statements only. *)
From Coq Require Import NArith Bool List Lia.
From stdpp Require Import base list option.
From RecordUpdate Require Import RecordSet.
From RC Require Import Hdr Machine RunInd Inv BufBase Buf LifeCyc.
Import ListNotations RecordSetNotations.
Local Open Scope N_scope.

Theorem C11_prog_buf_unconditional :
  forall (K : conf) (P : prog) (fuel : nat) (cmds : list cmd),
  (k_clean K = true -> k_weak K = true) -> wf_prog P = true ->
  forallb (fun e => match e with EBad Fuel _ | EBad Abort _ => false | _ => true end)
          (log (fold_left (fun m c => exec_top K P fuel c m) cmds (init K))) = true ->
  Ibuf K [] (fold_left (fun m c => exec_top K P fuel c m) cmds (init K)).
Proof. exact LifeCyc.prog_buf_unconditional. Qed.
Print Assumptions C11_prog_buf_unconditional.

(** [allocated_bytes()] / [buffered_objects_count()] / [executions_count()] observed at top level:
    exact, without the hypothesis "nothing bad was logged" *)
Theorem C11_bytes_top_unconditional :
  forall (K : conf) (P : prog) (fuel : nat) (cmds : list cmd),
  (k_clean K = true -> k_weak K = true) -> wf_prog P = true ->
  forallb (fun e => match e with EBad Fuel _ | EBad Abort _ => false | _ => true end)
          (log (fold_left (fun m c => exec_top K P fuel c m) cmds (init K))) = true ->
  forall n : nat,
  log (exec_top K P (S n) CSObs (fold_left (fun m c => exec_top K P fuel c m) cmds (init K))) =
  ERes ROk :: ESObs (bytes K (fold_left (fun m c => exec_top K P fuel c m) cmds (init K)))
                    (Some (N.of_nat (length (pc (fold_left (fun m c => exec_top K P fuel c m) cmds (init K))))))
                    (st_exec (fold_left (fun m c => exec_top K P fuel c m) cmds (init K)))
                    (fl_t (cur_flags K (fold_left (fun m c => exec_top K P fuel c m) cmds (init K))))
           :: log (fold_left (fun m c => exec_top K P fuel c m) cmds (init K)).
Proof. exact LifeCyc.bytes_top_unconditional. Qed.
Print Assumptions C11_bytes_top_unconditional.

(** the invariant spelled out: [C11.C11_Ibuf_spec] *)

(** ** Pins *)
Check C11_prog_buf_unconditional :
  forall (K : conf) (P : prog) (fuel : nat) (cmds : list cmd),
  (k_clean K = true -> k_weak K = true) -> wf_prog P = true ->
  forallb (fun e => match e with EBad Fuel _ | EBad Abort _ => false | _ => true end)
          (log (fold_left (fun m c => exec_top K P fuel c m) cmds (init K))) = true ->
  Ibuf K [] (fold_left (fun m c => exec_top K P fuel c m) cmds (init K)).

(** ** Non-vacuity: a program with a collected garbage cycle satisfies the hypotheses *)
Example C11u_nonvacuous :
  let K := SafeFinalPropsA.exK in let P := SafeFinalPropsA.f4_prog in
  (k_clean K = true -> k_weak K = true) /\ wf_prog P = true /\
  forallb (fun e => match e with EBad Fuel _ | EBad Abort _ => false | _ => true end)
          (log (fold_left (fun m c => exec_top K P 60 c m) (p_main P) (init K))) = true /\
  (0 < st_exec (fold_left (fun m c => exec_top K P 60 c m) (p_main P) (init K))).
Proof. cbv zeta. split; [reflexivity|]. split; [vm_compute; reflexivity|]. split; vm_compute; reflexivity. Qed.
