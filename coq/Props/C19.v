(** C19 - "each thread has its own collector: operations and collections on one thread never
    observe or affect objects, counters or configuration of another, under any interleaving.  When
    a thread exits while thread-locals still hold Ccs or while objects are still buffered, the
    thread-local destructors may run in any order without crashing, double-dropping or touching
    freed memory".
    Statements only; every proof is [exact <lemma of Threads.v>] (one is the pairing of two).
    Part 1 is generic in the per-thread machine [M], its operations [Op] and its sequential
    semantics [step : M -> Op -> M]; a schedule [list (tid * Op)] IS an interleaving, [proj t sched]
    is thread [t]'s own program.  Part 2 is over the teardown model [tls].
    NOT exhibited by the model (tied by tools/check_threads.py: 2..16 OS threads, both destruction
    orders forced, four compile-fail probes): that the crate's statics really are thread-local,
    that [Cc]/[Weak] are [!Send + !Sync], the OS order of thread-local destructors. *)
From Coq Require Import List Arith PeanoNat.
From RC Require Import Threads.
Import ListNotations.

(** ** Part 1: independence under every interleaving *)

(** Per thread, every interleaving yields exactly the sequential run of that thread's program. *)
Theorem C19_independent :
  forall (M Op : Type) (step : M -> Op -> M) (sched : list (tid * Op)) (s : sys M) (t : tid),
  run_sched M Op step s sched t = fold_left step (proj Op t sched) (s t).
Proof. exact Threads.C19_independent. Qed.
Print Assumptions C19_independent.

(** ... whatever the states of the other threads. *)
Theorem C19_independent_of_others :
  forall (M Op : Type) (step : M -> Op -> M) (sched : list (tid * Op)) (s s' : tid -> M) (t : tid),
  s t = s' t -> run_sched M Op step s sched t = run_sched M Op step s' sched t.
Proof. exact Threads.C19_independent_of_others. Qed.
Print Assumptions C19_independent_of_others.

(** Two interleavings of the same per-thread programs end in the same system. *)
Theorem C19_sched_equiv :
  forall (M Op : Type) (step : M -> Op -> M) (sched1 sched2 : list (tid * Op)) (s : sys M),
  (forall t : tid, proj Op t sched1 = proj Op t sched2) ->
  forall t : tid, run_sched M Op step s sched1 t = run_sched M Op step s sched2 t.
Proof. exact Threads.C19_sched_equiv. Qed.
Print Assumptions C19_sched_equiv.

(** Every step-invariant of the sequential machine holds for every thread at every point of every
    interleaving (so all single-thread theorems transfer). *)
Theorem C19_invariant_always :
  forall (M Op : Type) (step : M -> Op -> M) (P : M -> Prop),
  (forall (m : M) (o : Op), P m -> P (step m o)) ->
  forall (pre post : list (tid * Op)) (s : tid -> M),
  (forall t : tid, P (s t)) ->
  forall t : tid, P (run_sched M Op step s pre t) /\ P (run_sched M Op step s (pre ++ post) t).
Proof. exact Threads.C19_invariant_always. Qed.
Print Assumptions C19_invariant_always.

(** What a thread observes after each of its own operations while interleaved with the others is
    what it observes running alone (the statement the threads probe checks on the crate). *)
Theorem C19_trace :
  forall (M Op : Type) (step : M -> Op -> M) (Obs : Type) (observe : M -> Obs)
         (sched : list (tid * Op)) (s : sys M) (t : tid),
  sched_trace M Op step Obs observe t s sched = seq_trace M Op step Obs observe (s t) (proj Op t sched).
Proof. exact Threads.C19_trace. Qed.
Print Assumptions C19_trace.

(** ** Part 2: thread teardown, both destruction orders.
    [run_drops s os = Some _] means: no bad event (no drop of a freed / count-0 object, no box freed
    while still linked in the buffer).  The premise on [count_occ] is ownership: the user
    thread-local cannot drop more handles to an object than exist. *)

(** Order (i): user thread-local first, then POSSIBLE_CYCLES. *)
Theorem C19_teardown_user_then_pc : forall (s : tls) (os : list obj_id),
  wf s -> (forall o : obj_id, count_occ Nat.eq_dec os o <= rc s o) ->
  exists s1 : tls, run_drops s os = Some s1 /\ wf s1 /\
    let s2 := teardown_pc s1 in
    dead s2 /\ buffer s2 = [] /\ (forall o : obj_id, marks s2 o = false).
Proof. exact Threads.C19_teardown_user_then_pc. Qed.
Print Assumptions C19_teardown_user_then_pc.

(** Order (ii): POSSIBLE_CYCLES first, then the user thread-local. *)
Theorem C19_teardown_pc_then_user : forall (s : tls) (os : list obj_id),
  wf s -> (forall o : obj_id, count_occ Nat.eq_dec os o <= rc s o) ->
  let s1 := teardown_pc s in
  exists s2 : tls, run_drops s1 os = Some s2 /\ dead s2 /\ buffer s2 = [] /\
    (forall o : obj_id, marks s2 o = false) /\ buffered_objects_count s2 = None.
Proof. exact Threads.C19_teardown_pc_then_user. Qed.
Print Assumptions C19_teardown_pc_then_user.

(** Both orders in one statement. *)
Theorem C19_teardown : forall (s : tls) (os : list obj_id),
  wf s -> (forall o : obj_id, count_occ Nat.eq_dec os o <= rc s o) ->
  (exists s1 : tls, run_drops s os = Some s1 /\ wf s1 /\
     dead (teardown_pc s1) /\ buffer (teardown_pc s1) = [] /\
     (forall o : obj_id, marks (teardown_pc s1) o = false))
  /\
  (exists s2 : tls, run_drops (teardown_pc s) os = Some s2 /\ dead s2 /\ buffer s2 = [] /\
     (forall o : obj_id, marks s2 o = false) /\ buffered_objects_count s2 = None).
Proof. exact Threads.C19_teardown. Qed.
Print Assumptions C19_teardown.

(** The buffer's destructor itself: nothing stays marked or buffered, nothing is dropped or freed. *)
Theorem C19_teardown_pc_clears : forall s : tls,
  wf s ->
  let s' := teardown_pc s in
  dead s' /\ buffer s' = [] /\ (forall o : obj_id, marks s' o = false) /\
  buffered_objects_count s' = None /\ rc s' = rc s /\ freed s' = freed s.
Proof. exact Threads.teardown_pc_clears. Qed.
Print Assumptions C19_teardown_pc_clears.

(** Once POSSIBLE_CYCLES is gone, [add_to_list] and [remove_from_list] do nothing at all: a later
    [Cc::drop] leaves its object NonMarked, unlinked and un-buffered. *)
Theorem C19_after_teardown_noop : forall (s : tls) (o : obj_id),
  pc_alive s = false -> add_to_list s o = s /\ remove_from_list s o = s.
Proof.
  exact (fun s o H => conj (add_to_list_dead_noop s o H) (remove_from_list_dead_noop s o H)).
Qed.
Print Assumptions C19_after_teardown_noop.

(** ** Pins *)
Check C19_independent :
  forall (M Op : Type) (step : M -> Op -> M) (sched : list (tid * Op)) (s : sys M) (t : tid),
  run_sched M Op step s sched t = fold_left step (proj Op t sched) (s t).
Check C19_independent_of_others :
  forall (M Op : Type) (step : M -> Op -> M) (sched : list (tid * Op)) (s s' : tid -> M) (t : tid),
  s t = s' t -> run_sched M Op step s sched t = run_sched M Op step s' sched t.
Check C19_sched_equiv :
  forall (M Op : Type) (step : M -> Op -> M) (sched1 sched2 : list (tid * Op)) (s : sys M),
  (forall t : tid, proj Op t sched1 = proj Op t sched2) ->
  forall t : tid, run_sched M Op step s sched1 t = run_sched M Op step s sched2 t.
Check C19_invariant_always :
  forall (M Op : Type) (step : M -> Op -> M) (P : M -> Prop),
  (forall (m : M) (o : Op), P m -> P (step m o)) ->
  forall (pre post : list (tid * Op)) (s : tid -> M),
  (forall t : tid, P (s t)) ->
  forall t : tid, P (run_sched M Op step s pre t) /\ P (run_sched M Op step s (pre ++ post) t).
Check C19_trace :
  forall (M Op : Type) (step : M -> Op -> M) (Obs : Type) (observe : M -> Obs)
         (sched : list (tid * Op)) (s : sys M) (t : tid),
  sched_trace M Op step Obs observe t s sched = seq_trace M Op step Obs observe (s t) (proj Op t sched).
Check C19_teardown_user_then_pc : forall (s : tls) (os : list obj_id),
  wf s -> (forall o : obj_id, count_occ Nat.eq_dec os o <= rc s o) ->
  exists s1 : tls, run_drops s os = Some s1 /\ wf s1 /\
    let s2 := teardown_pc s1 in
    dead s2 /\ buffer s2 = [] /\ (forall o : obj_id, marks s2 o = false).
Check C19_teardown_pc_then_user : forall (s : tls) (os : list obj_id),
  wf s -> (forall o : obj_id, count_occ Nat.eq_dec os o <= rc s o) ->
  let s1 := teardown_pc s in
  exists s2 : tls, run_drops s1 os = Some s2 /\ dead s2 /\ buffer s2 = [] /\
    (forall o : obj_id, marks s2 o = false) /\ buffered_objects_count s2 = None.
Check C19_teardown : forall (s : tls) (os : list obj_id),
  wf s -> (forall o : obj_id, count_occ Nat.eq_dec os o <= rc s o) ->
  (exists s1 : tls, run_drops s os = Some s1 /\ wf s1 /\
     dead (teardown_pc s1) /\ buffer (teardown_pc s1) = [] /\
     (forall o : obj_id, marks (teardown_pc s1) o = false))
  /\
  (exists s2 : tls, run_drops (teardown_pc s) os = Some s2 /\ dead s2 /\ buffer s2 = [] /\
     (forall o : obj_id, marks s2 o = false) /\ buffered_objects_count s2 = None).
Check C19_teardown_pc_clears : forall s : tls,
  wf s ->
  let s' := teardown_pc s in
  dead s' /\ buffer s' = [] /\ (forall o : obj_id, marks s' o = false) /\
  buffered_objects_count s' = None /\ rc s' = rc s /\ freed s' = freed s.
Check C19_after_teardown_noop : forall (s : tls) (o : obj_id),
  pc_alive s = false -> add_to_list s o = s /\ remove_from_list s o = s.
