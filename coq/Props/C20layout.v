(** C20 (address half) - "Deref, AsRef and Borrow on a Cc and on its clones return the same address
    for the object's whole life, correctly aligned for T whatever its size or alignment (including
    zero-sized and over-aligned types), and ptr_eq is true exactly for pointers to the same
    allocation".
    Statements only; every proof is [exact <lemma of Layout.v>].  The address handed out by
    [Deref]/[AsRef]/[Borrow] is [base + elem_off hdr t] ([CcBox::get_elem]), [base] being the
    address of the box; [Cc::ptr_eq] compares the box addresses ([Layout.ptr_eq]).  The allocator
    contract ([GlobalAlloc]: live blocks aligned as requested and pairwise disjoint) appears as
    explicit premises over the list [live] of live blocks.  The trait-forwarding half of C20 is in
    Props/C20.v. *)
From Coq Require Import NArith List.
From RC Require Import Layout.
Import ListNotations.
Local Open Scope N_scope.

(** The elem address is aligned for [T] whenever the block is aligned for the box. *)
Theorem C20_elem_aligned : forall hdr t : layout,
  pow2 (l_align hdr) -> wf_layout t ->
  forall base : N,
  base mod box_align hdr t = 0 -> (base + elem_off hdr t) mod l_align t = 0.
Proof. exact elem_addr_aligned. Qed.
Print Assumptions C20_elem_aligned.

(** The same for every live box of an allocator that honours the requested alignment. *)
Theorem C20_live_elem_aligned : forall live : list (N * layout),
  (forall (i : nat) (b : N * layout), nth_error live i = Some b -> blk_base b mod blk_align b = 0) ->
  forall hdr t : layout,
  pow2 (l_align hdr) -> wf_layout t ->
  forall (i : nat) (b : N),
  nth_error live i = Some (b, fst (ccbox hdr t)) -> (b + elem_off hdr t) mod l_align t = 0.
Proof. exact live_box_elem_aligned. Qed.
Print Assumptions C20_live_elem_aligned.

(** The bytes of the value lie inside the block. *)
Theorem C20_elem_in_block : forall hdr t : layout,
  pow2 (l_align hdr) -> wf_layout t ->
  forall base : N,
  base <= base + elem_off hdr t /\ base + elem_off hdr t + l_size t <= base + box_size hdr t.
Proof. exact elem_range_in_block. Qed.
Print Assumptions C20_elem_in_block.

(** [ptr_eq] is true exactly for handles to the same allocation. *)
Theorem C20_ptr_eq_iff_same_allocation : forall live : list (N * layout),
  (forall (i j : nat) (b1 b2 : N * layout),
     i <> j -> nth_error live i = Some b1 -> nth_error live j = Some b2 -> blk_disjoint b1 b2) ->
  forall hdr t : layout,
  pow2 (l_align hdr) -> 0 < l_size hdr -> wf_layout t ->
  forall (i j : nat) (b1 b2 : N),
  nth_error live i = Some (b1, fst (ccbox hdr t)) ->
  nth_error live j = Some (b2, fst (ccbox hdr t)) ->
  (ptr_eq b1 b2 = true <-> i = j).
Proof. exact ptr_eq_same_allocation. Qed.
Print Assumptions C20_ptr_eq_iff_same_allocation.

(** Distinct live allocations hand out distinct addresses - also for zero-sized [T], whose address
    may be one-past-the-end of its block. *)
Theorem C20_distinct_allocations_distinct_elems : forall live : list (N * layout),
  (forall (i j : nat) (b1 b2 : N * layout),
     i <> j -> nth_error live i = Some b1 -> nth_error live j = Some b2 -> blk_disjoint b1 b2) ->
  forall hdr t : layout,
  pow2 (l_align hdr) -> 0 < l_size hdr -> wf_layout t ->
  forall (i j : nat) (b1 b2 : N),
  i <> j ->
  nth_error live i = Some (b1, fst (ccbox hdr t)) ->
  nth_error live j = Some (b2, fst (ccbox hdr t)) ->
  b1 + elem_off hdr t <> b2 + elem_off hdr t.
Proof. exact live_boxes_distinct_elem. Qed.
Print Assumptions C20_distinct_allocations_distinct_elems.

(** ... and their values do not overlap. *)
Theorem C20_distinct_allocations_disjoint_values : forall live : list (N * layout),
  (forall (i j : nat) (b1 b2 : N * layout),
     i <> j -> nth_error live i = Some b1 -> nth_error live j = Some b2 -> blk_disjoint b1 b2) ->
  forall hdr t : layout,
  pow2 (l_align hdr) -> 0 < l_size hdr -> wf_layout t ->
  forall (i j : nat) (b1 b2 : N),
  i <> j ->
  nth_error live i = Some (b1, fst (ccbox hdr t)) ->
  nth_error live j = Some (b2, fst (ccbox hdr t)) ->
  b1 + elem_off hdr t + l_size t <= b2 + elem_off hdr t \/
  b2 + elem_off hdr t + l_size t <= b1 + elem_off hdr t.
Proof. exact live_boxes_elem_disjoint. Qed.
Print Assumptions C20_distinct_allocations_disjoint_values.

(** Stability: the address is [base + elem_off hdr t], where [elem_off] is a constant of the type
    (it mentions neither counters, marks, links nor the side record) and [base] never changes (the
    machine never moves a box): two handles return the same address iff they point to the same box,
    at every moment of the object's life. *)
Theorem C20_address_stable : forall (hdr t : layout) (base1 base2 : N),
  base1 + elem_off hdr t = base2 + elem_off hdr t <-> base1 = base2.
Proof. exact elem_addr_eq_iff. Qed.
Print Assumptions C20_address_stable.

(** The offset does not even depend on the payload's size, only on its alignment. *)
Theorem C20_offset_independent_of_size : forall (hdr : layout) (a s1 s2 : N),
  elem_off hdr {| l_size := s1; l_align := a |} = elem_off hdr {| l_size := s2; l_align := a |}.
Proof. exact ccbox_off_indep_size. Qed.
Print Assumptions C20_offset_independent_of_size.

(** ** Pins *)
Check C20_elem_aligned : forall hdr t : layout,
  pow2 (l_align hdr) -> wf_layout t ->
  forall base : N, base mod box_align hdr t = 0 -> (base + elem_off hdr t) mod l_align t = 0.
Check C20_live_elem_aligned : forall live : list (N * layout),
  (forall (i : nat) (b : N * layout), nth_error live i = Some b -> blk_base b mod blk_align b = 0) ->
  forall hdr t : layout, pow2 (l_align hdr) -> wf_layout t ->
  forall (i : nat) (b : N),
  nth_error live i = Some (b, fst (ccbox hdr t)) -> (b + elem_off hdr t) mod l_align t = 0.
Check C20_elem_in_block : forall hdr t : layout,
  pow2 (l_align hdr) -> wf_layout t ->
  forall base : N,
  base <= base + elem_off hdr t /\ base + elem_off hdr t + l_size t <= base + box_size hdr t.
Check C20_ptr_eq_iff_same_allocation : forall live : list (N * layout),
  (forall (i j : nat) (b1 b2 : N * layout),
     i <> j -> nth_error live i = Some b1 -> nth_error live j = Some b2 -> blk_disjoint b1 b2) ->
  forall hdr t : layout, pow2 (l_align hdr) -> 0 < l_size hdr -> wf_layout t ->
  forall (i j : nat) (b1 b2 : N),
  nth_error live i = Some (b1, fst (ccbox hdr t)) -> nth_error live j = Some (b2, fst (ccbox hdr t)) ->
  (ptr_eq b1 b2 = true <-> i = j).
Check C20_distinct_allocations_distinct_elems : forall live : list (N * layout),
  (forall (i j : nat) (b1 b2 : N * layout),
     i <> j -> nth_error live i = Some b1 -> nth_error live j = Some b2 -> blk_disjoint b1 b2) ->
  forall hdr t : layout, pow2 (l_align hdr) -> 0 < l_size hdr -> wf_layout t ->
  forall (i j : nat) (b1 b2 : N), i <> j ->
  nth_error live i = Some (b1, fst (ccbox hdr t)) -> nth_error live j = Some (b2, fst (ccbox hdr t)) ->
  b1 + elem_off hdr t <> b2 + elem_off hdr t.
Check C20_distinct_allocations_disjoint_values : forall live : list (N * layout),
  (forall (i j : nat) (b1 b2 : N * layout),
     i <> j -> nth_error live i = Some b1 -> nth_error live j = Some b2 -> blk_disjoint b1 b2) ->
  forall hdr t : layout, pow2 (l_align hdr) -> 0 < l_size hdr -> wf_layout t ->
  forall (i j : nat) (b1 b2 : N), i <> j ->
  nth_error live i = Some (b1, fst (ccbox hdr t)) -> nth_error live j = Some (b2, fst (ccbox hdr t)) ->
  b1 + elem_off hdr t + l_size t <= b2 + elem_off hdr t \/
  b2 + elem_off hdr t + l_size t <= b1 + elem_off hdr t.
Check C20_address_stable : forall (hdr t : layout) (base1 base2 : N),
  base1 + elem_off hdr t = base2 + elem_off hdr t <-> base1 = base2.
Check C20_offset_independent_of_size : forall (hdr : layout) (a s1 s2 : N),
  elem_off hdr {| l_size := s1; l_align := a |} = elem_off hdr {| l_size := s2; l_align := a |}.
