(** C12 - "collector phases observable, collections never nest".
    Statements only; every proof is [exact <lemma of Flags*.v>].  See the remark on [OFuel] /
    [fuel_out] at the top of Props/C07.v. *)
From Coq Require Import NArith Bool List.
From stdpp Require Import base list option.
From RecordUpdate Require Import RecordSet.
From RC Require Import Hdr Machine RunInd Flags Flags2 Flags3 Flags4 Flags5 Flags6.
Import ListNotations RecordSetNotations.

(** What [log_ok K] says about each logged event ([ev_ok K e], unfolded here as a pin). *)
Theorem C12_ev_ok_spec : forall K e,
  ev_ok K e <->
  match e with
  | ECb k _ f =>
    fl_t f = is_tracing_spec (k_fin K) (fl_c f) (fl_f f) (fl_d f) /\
    match k with
    | KTrace => fl_c f = true /\ fl_t f = true /\ fl_f f = false /\ fl_d f = false
    | KFin => fl_t f = false /\ fl_f f = true
    | KDrop => fl_t f = false
    | KAction => fl_t f = false
    | KClosure => fl_t f = false
    end
  | ESObs _ _ _ t => t = false
  | _ => True
  end.
Proof. intros K e. reflexivity. Qed.
Print Assumptions C12_ev_ok_spec.

(** Theorem 4. [is_tracing()] is true during every [Trace::trace] call made by the collector
    (with collecting set, finalizing and dropping clear), and false inside finalizers (which
    run with finalizing set), destructors, cleaning actions, [new_cyclic] closures and at every
    [sobs]; the sampled value always equals the [is_tracing] formula of the sampled flags. *)
Theorem C12_log : forall K P fuel cmds,
  let m := fold_left (fun m c => exec_top K P fuel c m) cmds (init K) in
  ~ fuel_out m -> log_ok K (log m).
Proof. exact Flags4.C12_log. Qed.
Print Assumptions C12_log.

(** the same for every activation (Theorem 1 of Props/C07.v gives both at once) *)
Theorem C12_run_log : forall K P n c m,
  Pre K c m -> log_ok K (log (run K P n c m).1).
Proof. intros K P n c m H. exact (proj1 (run_flags_restored K P n c m H)). Qed.
Print Assumptions C12_run_log.

(** The log only grows, and nothing below [exec_top] logs [ERes RPanicked]. *)
Theorem C12_run_log_ext : forall K P n c m,
  exists k, log (run K P n c m).1 = k ++ log m /\ Forall (fun e => e <> ERes RPanicked) k.
Proof. exact run_log_ext. Qed.
Print Assumptions C12_run_log_ext.

(** Theorem 5. Collections never nest: both entry points are no-ops while a collection is in
    progress, for every continuation [rec] ... *)
Theorem C12_no_nesting : forall K rec m,
  st_collecting m = true ->
  step_collect_cycles K rec m = (m, ONormal) /\ step_trigger K rec m = (m, ONormal).
Proof. exact Flags4.C12_no_nesting. Qed.
Print Assumptions C12_no_nesting.

(** ... hence [executions] is unchanged by anything that runs under a collection (finalizers,
    destructors and whatever they call, at any depth, whatever the outcome) ... *)
Theorem C12_exec_frozen : forall K P n c m,
  Pre K c m -> st_collecting m = true -> st_exec (run K P n c m).1 = st_exec m.
Proof. exact run_exec_frozen. Qed.
Print Assumptions C12_exec_frozen.

(** ... and [executions] only advances in [collect]: any other activation changes it only
    through its sub-activations, [collect] adds exactly one. *)
Theorem C12_exec_only_in_collect : forall K P rec k m,
  (forall k' m', st_exec (rec k' m').1 = st_exec m') ->
  k <> KCollect -> st_exec (step K P rec k m).1 = st_exec m.
Proof. exact exec_only_in_collect. Qed.
Print Assumptions C12_exec_only_in_collect.

Theorem C12_exec_in_collect : forall K rec m,
  (forall k' m', st_exec (rec k' m').1 = st_exec m') ->
  st_exec (step_collect K rec m).1 = N.succ (st_exec m).
Proof. exact exec_in_collect. Qed.
Print Assumptions C12_exec_in_collect.

(** Theorem 6. While any collector phase is active (in particular inside every finalizer -
    [fl_f] - and inside every destructor run by [Cc::drop] or by the collector - dropping set,
    see [C12_drop_paths] below) [try_unwrap] returns [Err] (or the command is skipped because
    its operands do not resolve) and changes nothing but the log ... *)
Theorem C12_try_unwrap_err : forall K self l v m,
  st_collecting m || st_dropping m || (k_fin K && st_finalizing m) = true ->
  exists x evs, (x = RUnwrapErr \/ x = RSkip) /\ Forall is_ebad evs /\
    cmd_try_unwrap K self l v m = (m <| log := ERes x :: evs ++ log m |>, ONormal).
Proof. exact Flags4.C12_try_unwrap_err. Qed.
Print Assumptions C12_try_unwrap_err.

(** ... and [finalize_again] panics (or is skipped), leaving everything but the log unchanged. *)
Theorem C12_finalize_again_panics : forall K self l m,
  k_fin K = true -> st_collecting m || st_finalizing m || st_dropping m = true ->
  exists evs, Forall is_ebad evs /\
    (cmd_fin_again K self l m = (m <| log := ERes RSkip :: evs ++ log m |>, ONormal) \/
     cmd_fin_again K self l m = (m <| log := evs ++ log m |>, raise m)).
Proof. exact Flags4.C12_finalize_again_panics. Qed.
Print Assumptions C12_finalize_again_panics.

(** [Cc::drop] and the collector's drop pass enter destructors ([KDropValue]) only with
    [dropping] set: they do not depend on what [rec] does on [KDropValue] calls made with
    [dropping] clear. *)
Theorem C12_drop_paths : forall K P rec rec',
  (forall k m, dv_ok k m -> rec' k m = rec k m) ->
  (forall o m, step_drop_cc K P rec' o m = step_drop_cc K P rec o m) /\
  (forall L rest old_d m, st_dropping m = true ->
     step_drop_list K rec' L rest old_d m = step_drop_list K rec L rest old_d m).
Proof.
  intros K P rec rec' H. split.
  - exact (drop_cc_drops_dropping K P rec rec' H).
  - exact (drop_list_drops_dropping K rec rec' H).
Qed.
Print Assumptions C12_drop_paths.

Check C12_log : forall K P fuel cmds,
  let m := fold_left (fun m c => exec_top K P fuel c m) cmds (init K) in
  ~ fuel_out m -> log_ok K (log m).
Check C12_no_nesting : forall K rec m,
  st_collecting m = true ->
  step_collect_cycles K rec m = (m, ONormal) /\ step_trigger K rec m = (m, ONormal).
Check C12_exec_frozen : forall K P n c m,
  Pre K c m -> st_collecting m = true -> st_exec (run K P n c m).1 = st_exec m.
Check C12_try_unwrap_err : forall K self l v m,
  st_collecting m || st_dropping m || (k_fin K && st_finalizing m) = true ->
  exists x evs, (x = RUnwrapErr \/ x = RSkip) /\ Forall is_ebad evs /\
    cmd_try_unwrap K self l v m = (m <| log := ERes x :: evs ++ log m |>, ONormal).
Check C12_finalize_again_panics : forall K self l m,
  k_fin K = true -> st_collecting m || st_finalizing m || st_dropping m = true ->
  exists evs, Forall is_ebad evs /\
    (cmd_fin_again K self l m = (m <| log := ERes RSkip :: evs ++ log m |>, ONormal) \/
     cmd_fin_again K self l m = (m <| log := evs ++ log m |>, raise m)).

(** ** Non-vacuity on the concrete program of Flags4.v *)
Example ex_not_fuel_out : ~ fuel_out ex_m.
Proof. rewrite fuel_out_existsb. vm_compute. discriminate. Qed.

Example ex_log_ok : log_ok exK (log ex_m).
Proof. exact (C12_log exK exP 100 ex_cmds ex_not_fuel_out). Qed.

(** the log contains [trace] calls with [is_tracing() = true] ... *)
Example ex_has_trace :
  has_cb KTrace (fun f => fl_c f && fl_t f && negb (fl_f f) && negb (fl_d f)) (log ex_m) = true.
Proof. vm_compute. reflexivity. Qed.
(** ... finalizer entries (finalizing set, not tracing) ... *)
Example ex_has_fin : has_cb KFin (fun f => fl_f f && negb (fl_t f)) (log ex_m) = true.
Proof. vm_compute. reflexivity. Qed.
(** ... destructor entries run by the collector (dropping set, not tracing) ... *)
Example ex_has_drop : has_cb KDrop (fun f => fl_d f && negb (fl_t f)) (log ex_m) = true.
Proof. vm_compute. reflexivity. Qed.
(** ... [try_unwrap] returning [Err] inside them, a reported panic ([finalize_again] inside a
    finalizer) and [sobs] samples *)
Example ex_has_unwrap_err :
  has_res (fun r => match r with RUnwrapErr => true | _ => false end) (log ex_m) = true.
Proof. vm_compute. reflexivity. Qed.
Example ex_has_panicked :
  has_res (fun r => match r with RPanicked => true | _ => false end) (log ex_m) = true.
Proof. vm_compute. reflexivity. Qed.
Example ex_has_sobs :
  existsb (fun e => match e with ESObs _ _ _ t => negb t | _ => false end) (log ex_m) = true.
Proof. vm_compute. reflexivity. Qed.

(** [fl_d f = true] does NOT hold for every [ECb KDrop]: the destructor of a value moved out by
    [try_unwrap] and dropped by the program runs with all flags clear *)
Definition ex_cmds2 : list cmd := [CNew (LS 0) 0%nat; CTryUnwrap (LS 0) 0%nat; CDropValue 0%nat].
Example ex_kdrop_not_dropping :
  let m := run_prog exK exP 100 ex_cmds2 (init exK) in
  ~ fuel_out m /\
  has_cb KDrop (fun f => negb (fl_d f) && negb (fl_c f) && negb (fl_f f)) (log m) = true.
Proof. split; [rewrite fuel_out_existsb; vm_compute; discriminate | vm_compute; reflexivity]. Qed.

(** [C12_try_unwrap_err]: same object, same command; [Err] with dropping set, [Ok] without *)
Definition ex_m1 : machine := run_prog exK exP 100 [CNew (LS 0) 0%nat] (init exK).
Example ex_try_unwrap_err :
  (cmd_try_unwrap exK None (LS 0) 0 (ex_m1 <| st_dropping := true |>)).2 = ONormal /\
  head (log (cmd_try_unwrap exK None (LS 0) 0 (ex_m1 <| st_dropping := true |>)).1)
    = Some (ERes RUnwrapErr) /\
  head (log (cmd_try_unwrap exK None (LS 0) 0 ex_m1).1) = Some (ERes RUnwrapOk).
Proof. vm_compute. repeat split. Qed.

Example ex_fin_again_panics :
  (cmd_fin_again exK None (LS 0) (ex_m1 <| st_finalizing := true |>)).2 = OPanic /\
  (cmd_fin_again exK None (LS 0) ex_m1).2 = ONormal.
Proof. vm_compute. split; reflexivity. Qed.

(** [C12_exec_frozen]: a nested [collect] under a collection (here: from a destructor run by
    the collector) does not count *)
Example ex_nested_collect :
  let m := ex_m <| st_collecting := true |> <| st_dropping := true |> in
  Pre exK (KCmd None CCollect) m /\
  st_exec (run exK exP 50 (KCmd None CCollect) m).1 = st_exec ex_m.
Proof.
  assert (E : forall x b b', log (x <| st_collecting := b |> <| st_dropping := b' |>) = log x)
    by reflexivity.
  cbv zeta. split.
  - split; [rewrite E; exact ex_log_ok | vm_compute; reflexivity].
  - vm_compute. reflexivity.
Qed.
