(** C20 (trait-forwarding half) - Eq/Ord/PartialOrd/Hash/Debug/Display/Default/AsRef/Borrow on
    [Cc<T>] forward to [T]'s own implementation on the dereferenced operands, in the same order.
    Statements only; every proof is [exact <lemma of ForwardSpec.v>].  [ForwardGen] is regenerated
    from src/cc.rs on every run.  [ops] is an arbitrary bundle of [T]'s trait methods (record
    [T_ops]), [deref] is <Cc<T> as Deref>::deref, [cc_new] is Cc::new. *)
From RC Require Import ForwardSpec.
From RC.gen Require ForwardGen.
Module Fw := ForwardGen.

Theorem C20_eq : forall (T Cc H Fm R : Type) (deref : Cc -> T) (ops : Fw.T_ops T H Fm R) (a b : Cc),
  Fw.cc_eq T Cc H Fm R deref ops a b = Fw.T_eq T H Fm R ops (deref a) (deref b).
Proof. exact cc_eq_spec. Qed.
Print Assumptions C20_eq.

Theorem C20_cmp : forall (T Cc H Fm R : Type) (deref : Cc -> T) (ops : Fw.T_ops T H Fm R) (a b : Cc),
  Fw.cc_cmp T Cc H Fm R deref ops a b = Fw.T_cmp T H Fm R ops (deref a) (deref b).
Proof. exact cc_cmp_spec. Qed.
Print Assumptions C20_cmp.

Theorem C20_partial_cmp : forall (T Cc H Fm R : Type) (deref : Cc -> T) (ops : Fw.T_ops T H Fm R) (a b : Cc),
  Fw.cc_partial_cmp T Cc H Fm R deref ops a b = Fw.T_partial_cmp T H Fm R ops (deref a) (deref b).
Proof. exact cc_partial_cmp_spec. Qed.
Print Assumptions C20_partial_cmp.

Theorem C20_lt : forall (T Cc H Fm R : Type) (deref : Cc -> T) (ops : Fw.T_ops T H Fm R) (a b : Cc),
  Fw.cc_lt T Cc H Fm R deref ops a b = Fw.T_lt T H Fm R ops (deref a) (deref b).
Proof. exact cc_lt_spec. Qed.
Print Assumptions C20_lt.

Theorem C20_le : forall (T Cc H Fm R : Type) (deref : Cc -> T) (ops : Fw.T_ops T H Fm R) (a b : Cc),
  Fw.cc_le T Cc H Fm R deref ops a b = Fw.T_le T H Fm R ops (deref a) (deref b).
Proof. exact cc_le_spec. Qed.
Print Assumptions C20_le.

Theorem C20_gt : forall (T Cc H Fm R : Type) (deref : Cc -> T) (ops : Fw.T_ops T H Fm R) (a b : Cc),
  Fw.cc_gt T Cc H Fm R deref ops a b = Fw.T_gt T H Fm R ops (deref a) (deref b).
Proof. exact cc_gt_spec. Qed.
Print Assumptions C20_gt.

Theorem C20_ge : forall (T Cc H Fm R : Type) (deref : Cc -> T) (ops : Fw.T_ops T H Fm R) (a b : Cc),
  Fw.cc_ge T Cc H Fm R deref ops a b = Fw.T_ge T H Fm R ops (deref a) (deref b).
Proof. exact cc_ge_spec. Qed.
Print Assumptions C20_ge.

Theorem C20_hash : forall (T Cc H Fm R : Type) (deref : Cc -> T) (ops : Fw.T_ops T H Fm R) (a : Cc) (st : H),
  Fw.cc_hash T Cc H Fm R deref ops a st = Fw.T_hash T H Fm R ops (deref a) st.
Proof. exact cc_hash_spec. Qed.
Print Assumptions C20_hash.

Theorem C20_debug : forall (T Cc H Fm R : Type) (deref : Cc -> T) (ops : Fw.T_ops T H Fm R) (a : Cc) (f : Fm),
  Fw.cc_debug_fmt T Cc H Fm R deref ops a f = Fw.T_debug_fmt T H Fm R ops (deref a) f.
Proof. exact cc_debug_fmt_spec. Qed.
Print Assumptions C20_debug.

Theorem C20_display : forall (T Cc H Fm R : Type) (deref : Cc -> T) (ops : Fw.T_ops T H Fm R) (a : Cc) (f : Fm),
  Fw.cc_display_fmt T Cc H Fm R deref ops a f = Fw.T_display_fmt T H Fm R ops (deref a) f.
Proof. exact cc_display_fmt_spec. Qed.
Print Assumptions C20_display.

Theorem C20_as_ref : forall (T Cc : Type) (deref : Cc -> T) (a : Cc), Fw.cc_as_ref T Cc deref a = deref a.
Proof. exact cc_as_ref_spec. Qed.
Print Assumptions C20_as_ref.

Theorem C20_borrow : forall (T Cc : Type) (deref : Cc -> T) (a : Cc), Fw.cc_borrow T Cc deref a = deref a.
Proof. exact cc_borrow_spec. Qed.
Print Assumptions C20_borrow.

Theorem C20_borrow_coherent : forall (T Cc H Fm R : Type) (deref : Cc -> T) (ops : Fw.T_ops T H Fm R) (a b : Cc) (st : H),
  Fw.cc_eq T Cc H Fm R deref ops a b =
    Fw.T_eq T H Fm R ops (Fw.cc_borrow T Cc deref a) (Fw.cc_borrow T Cc deref b) /\
  Fw.cc_cmp T Cc H Fm R deref ops a b =
    Fw.T_cmp T H Fm R ops (Fw.cc_borrow T Cc deref a) (Fw.cc_borrow T Cc deref b) /\
  Fw.cc_hash T Cc H Fm R deref ops a st = Fw.T_hash T H Fm R ops (Fw.cc_borrow T Cc deref a) st.
Proof. exact cc_borrow_coherent. Qed.
Print Assumptions C20_borrow_coherent.

Theorem C20_default : forall (T Cc H Fm R : Type) (cc_new : T -> Cc) (ops : Fw.T_ops T H Fm R),
  Fw.cc_default T Cc H Fm R cc_new ops = cc_new (Fw.T_default T H Fm R ops).
Proof. exact cc_default_spec. Qed.
Print Assumptions C20_default.

Theorem C20_default_deref : forall (T Cc H Fm R : Type) (deref : Cc -> T) (cc_new : T -> Cc) (ops : Fw.T_ops T H Fm R),
  (forall t : T, deref (cc_new t) = t) ->
  deref (Fw.cc_default T Cc H Fm R cc_new ops) = Fw.T_default T H Fm R ops.
Proof. exact cc_default_deref. Qed.
Print Assumptions C20_default_deref.

Check C20_eq : forall (T Cc H Fm R : Type) (deref : Cc -> T) (ops : Fw.T_ops T H Fm R) (a b : Cc),
  Fw.cc_eq T Cc H Fm R deref ops a b = Fw.T_eq T H Fm R ops (deref a) (deref b).
Check C20_cmp : forall (T Cc H Fm R : Type) (deref : Cc -> T) (ops : Fw.T_ops T H Fm R) (a b : Cc),
  Fw.cc_cmp T Cc H Fm R deref ops a b = Fw.T_cmp T H Fm R ops (deref a) (deref b).
Check C20_partial_cmp : forall (T Cc H Fm R : Type) (deref : Cc -> T) (ops : Fw.T_ops T H Fm R) (a b : Cc),
  Fw.cc_partial_cmp T Cc H Fm R deref ops a b = Fw.T_partial_cmp T H Fm R ops (deref a) (deref b).
Check C20_lt : forall (T Cc H Fm R : Type) (deref : Cc -> T) (ops : Fw.T_ops T H Fm R) (a b : Cc),
  Fw.cc_lt T Cc H Fm R deref ops a b = Fw.T_lt T H Fm R ops (deref a) (deref b).
Check C20_le : forall (T Cc H Fm R : Type) (deref : Cc -> T) (ops : Fw.T_ops T H Fm R) (a b : Cc),
  Fw.cc_le T Cc H Fm R deref ops a b = Fw.T_le T H Fm R ops (deref a) (deref b).
Check C20_gt : forall (T Cc H Fm R : Type) (deref : Cc -> T) (ops : Fw.T_ops T H Fm R) (a b : Cc),
  Fw.cc_gt T Cc H Fm R deref ops a b = Fw.T_gt T H Fm R ops (deref a) (deref b).
Check C20_ge : forall (T Cc H Fm R : Type) (deref : Cc -> T) (ops : Fw.T_ops T H Fm R) (a b : Cc),
  Fw.cc_ge T Cc H Fm R deref ops a b = Fw.T_ge T H Fm R ops (deref a) (deref b).
Check C20_hash : forall (T Cc H Fm R : Type) (deref : Cc -> T) (ops : Fw.T_ops T H Fm R) (a : Cc) (st : H),
  Fw.cc_hash T Cc H Fm R deref ops a st = Fw.T_hash T H Fm R ops (deref a) st.
Check C20_debug : forall (T Cc H Fm R : Type) (deref : Cc -> T) (ops : Fw.T_ops T H Fm R) (a : Cc) (f : Fm),
  Fw.cc_debug_fmt T Cc H Fm R deref ops a f = Fw.T_debug_fmt T H Fm R ops (deref a) f.
Check C20_display : forall (T Cc H Fm R : Type) (deref : Cc -> T) (ops : Fw.T_ops T H Fm R) (a : Cc) (f : Fm),
  Fw.cc_display_fmt T Cc H Fm R deref ops a f = Fw.T_display_fmt T H Fm R ops (deref a) f.
Check C20_as_ref : forall (T Cc : Type) (deref : Cc -> T) (a : Cc), Fw.cc_as_ref T Cc deref a = deref a.
Check C20_borrow : forall (T Cc : Type) (deref : Cc -> T) (a : Cc), Fw.cc_borrow T Cc deref a = deref a.
Check C20_borrow_coherent : forall (T Cc H Fm R : Type) (deref : Cc -> T) (ops : Fw.T_ops T H Fm R) (a b : Cc) (st : H),
  Fw.cc_eq T Cc H Fm R deref ops a b =
    Fw.T_eq T H Fm R ops (Fw.cc_borrow T Cc deref a) (Fw.cc_borrow T Cc deref b) /\
  Fw.cc_cmp T Cc H Fm R deref ops a b =
    Fw.T_cmp T H Fm R ops (Fw.cc_borrow T Cc deref a) (Fw.cc_borrow T Cc deref b) /\
  Fw.cc_hash T Cc H Fm R deref ops a st = Fw.T_hash T H Fm R ops (Fw.cc_borrow T Cc deref a) st.
Check C20_default : forall (T Cc H Fm R : Type) (cc_new : T -> Cc) (ops : Fw.T_ops T H Fm R),
  Fw.cc_default T Cc H Fm R cc_new ops = cc_new (Fw.T_default T H Fm R ops).
Check C20_default_deref : forall (T Cc H Fm R : Type) (deref : Cc -> T) (cc_new : T -> Cc) (ops : Fw.T_ops T H Fm R),
  (forall t : T, deref (cc_new t) = t) ->
  deref (Fw.cc_default T Cc H Fm R cc_new ops) = Fw.T_default T H Fm R ops.
