(** C17 - "Built-in Trace/Finalize impls visit each owned Cc exactly once".
    Statements only; every proof is [exact <lemma of Containers.v>]. *)
From Coq Require Import List Arith Bool PeanoNat.
Import ListNotations.
From RC Require Import Containers.

(** One [trace] call on a container value reports exactly the [Cc]s it owns outside borrowed
    [RefCell]s: every such position once, in field order, and nothing else. *)
Theorem C17_visit_owned : forall v : value, visit v = owned_unborrowed v.
Proof. exact visit_owned. Qed.
Print Assumptions C17_visit_owned.

(** With no borrowed [RefCell] inside: every owned [Cc], each exactly once. *)
Theorem C17_visit_all_owned : forall v : value, unborrowed v = true -> visit v = owned v.
Proof. exact visit_all_owned. Qed.
Print Assumptions C17_visit_all_owned.

(** Never anything that is not owned, never more often than owned (no early reclamation),
    whatever the borrow states. *)
Theorem C17_visit_sub_owned : forall v : value, sub (visit v) (owned v).
Proof. exact visit_sub_owned. Qed.
Print Assumptions C17_visit_sub_owned.

Theorem C17_visit_only_owned : forall (v : value) (c : nat), In c (visit v) -> In c (owned v).
Proof. exact visit_only_owned. Qed.
Print Assumptions C17_visit_only_owned.

(** Exactly once, for pairwise distinct identities. *)
Theorem C17_visit_exactly_once : forall (v : value) (c : nat),
  NoDup (owned v) ->
  count_occ Nat.eq_dec (visit v) c = if in_dec Nat.eq_dec c (owned_unborrowed v) then 1 else 0.
Proof. exact visit_exactly_once. Qed.
Print Assumptions C17_visit_exactly_once.

Theorem C17_visit_exactly_once_unborrowed : forall (v : value) (c : nat),
  unborrowed v = true -> NoDup (owned v) ->
  count_occ Nat.eq_dec (visit v) c = if in_dec Nat.eq_dec c (owned v) then 1 else 0.
Proof. exact visit_exactly_once_unborrowed. Qed.
Print Assumptions C17_visit_exactly_once_unborrowed.

(** Position-based reading: reported iff it sits at a position not below a borrowed cell. *)
Theorem C17_visit_iff_position : forall (v : value) (c : nat),
  In c (visit v) <-> exists p, cc_at v p c.
Proof. exact visit_iff_cc_at. Qed.
Print Assumptions C17_visit_iff_position.

(** A borrowed [RefCell] (shared or mutable) reports nothing. *)
Theorem C17_refcell_borrowed : forall (b : bstate) (v : value), b <> BFree -> visit (VRefCell b v) = [].
Proof. exact visit_refcell_borrowed. Qed.
Print Assumptions C17_refcell_borrowed.

(** [Weak], [Cleaner], [Cleanable], [PhantomData] and scalars report nothing. *)
Theorem C17_weak : forall c, visit (VWeak c) = [].       Proof. exact visit_weak. Qed.
Theorem C17_cleaner : visit VCleaner = [].               Proof. exact visit_cleaner. Qed.
Theorem C17_cleanable : visit VCleanable = [].           Proof. exact visit_cleanable. Qed.
Theorem C17_phantom : visit VPhantom = [].               Proof. exact visit_phantom. Qed.
Theorem C17_scalar : visit VScalar = [].                 Proof. exact visit_scalar. Qed.
Print Assumptions C17_weak.
Print Assumptions C17_cleaner.
Print Assumptions C17_cleanable.
Print Assumptions C17_phantom.
Print Assumptions C17_scalar.

(** The matching [Finalize] impls forward to each contained user value exactly once, in
    order - except below a *mutably* borrowed [RefCell]; [Finalize for Cc] is empty. *)
Theorem C17_fin_visit_users : forall v : value, fin_visit v = users_unlocked v.
Proof. exact fin_visit_users. Qed.
Print Assumptions C17_fin_visit_users.

Theorem C17_fin_visit_all_users : forall v : value, unlocked v = true -> fin_visit v = users v.
Proof. exact fin_visit_all_users. Qed.
Print Assumptions C17_fin_visit_all_users.

Theorem C17_fin_visit_exactly_once : forall (v : value) (c : nat),
  NoDup (users v) ->
  count_occ Nat.eq_dec (fin_visit v) c = if in_dec Nat.eq_dec c (users_unlocked v) then 1 else 0.
Proof. exact fin_visit_exactly_once. Qed.
Print Assumptions C17_fin_visit_exactly_once.

Theorem C17_fin_refcell : forall (b : bstate) (v : value),
  fin_visit (VRefCell b v) = match b with BMut => [] | _ => fin_visit v end.
Proof. exact fin_visit_refcell. Qed.
Print Assumptions C17_fin_refcell.

Theorem C17_fin_cc_empty : forall c, fin_visit (VLeaf c) = [].
Proof. exact fin_visit_cc_empty. Qed.
Print Assumptions C17_fin_cc_empty.

(** User-leaf reading of the trace half: the user [trace] calls made by one [trace] call are
    exactly the user values outside borrowed cells, in order; in particular a sequence of [n]
    ZERO-SIZED elements is traced and finalized [n] times in every sequence container. *)
Theorem C17_utrace_users : forall v : value, utrace v = users_unborrowed v.
Proof. exact utrace_users. Qed.
Print Assumptions C17_utrace_users.

Theorem C17_zst_sequences : forall n : nat,
  let l := repeat VZst n in
  utrace (VVec l) = repeat zst_tag n /\ utrace (VArray l) = repeat zst_tag n /\
  utrace (VBox (VSlice l)) = repeat zst_tag n /\
  fin_visit (VVec l) = repeat zst_tag n /\ fin_visit (VArray l) = repeat zst_tag n /\
  fin_visit (VBox (VSlice l)) = repeat zst_tag n.
Proof. exact zst_sequences. Qed.
Print Assumptions C17_zst_sequences.

(** Pins: the statements above are about the definitions of Containers.v, at these types. *)
Check visit : value -> list nat.
Check fin_visit : value -> list nat.
Check owned : value -> list nat.
Check owned_unborrowed : value -> list nat.
Check users_unlocked : value -> list nat.
Check C17_visit_owned : forall v : value, visit v = owned_unborrowed v.
Check C17_visit_all_owned : forall v : value, unborrowed v = true -> visit v = owned v.
Check C17_visit_sub_owned : forall v : value, sub (visit v) (owned v).
Check C17_visit_exactly_once : forall (v : value) (c : nat),
  NoDup (owned v) ->
  count_occ Nat.eq_dec (visit v) c = if in_dec Nat.eq_dec c (owned_unborrowed v) then 1 else 0.
Check C17_visit_iff_position : forall (v : value) (c : nat), In c (visit v) <-> exists p, cc_at v p c.
Check C17_refcell_borrowed : forall (b : bstate) (v : value), b <> BFree -> visit (VRefCell b v) = [].
Check utrace : value -> list nat.
Check C17_utrace_users : forall v : value, utrace v = users_unborrowed v.
Check C17_fin_visit_users : forall v : value, fin_visit v = users_unlocked v.
Check C17_fin_visit_exactly_once : forall (v : value) (c : nat),
  NoDup (users v) ->
  count_occ Nat.eq_dec (fin_visit v) c = if in_dec Nat.eq_dec c (users_unlocked v) then 1 else 0.
