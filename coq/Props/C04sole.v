(** C04 (closed) - "when the last owner is dropped, everything it solely owned is destroyed and
    freed too, recursively", WITHOUT the frame hypothesis [SafeFinalOwn2.SoleFrame] of
    [C04.C04_last_owner_recursive_frame_partial].
    Statements only; every proof is [exact <lemma>] (SoleOwn.v, SoleTop.v, SoleMain.v).

    - [C04_last_owner_recursive]: the statement of [C04_last_owner_recursive_frame_partial]
      with the hypothesis [SoleFrame K P] removed.
    - [C04_sole_frame]: the frame itself, in the form in which it is true: [SoleFrame] with the
      side condition [Args] on the arguments of the call.  [SoleFrame] as stated in
      SafeFinalOwn2.v is FALSE for the call [KStore (RField q j) v] when [q] is itself a solely
      owned object of the entry state (the pre-condition [loc_valid] of part A does not exclude
      it, and such a state is reached by [new s0.0] run from a Drop impl when the collection
      triggered by the allocation drops the handle in [s0]); [Args] excludes exactly that, and
      it holds for the two calls for which [last_owner_recursive] needs the frame.
    - [C04_sole_keep]: the general frame theorem behind it, for arbitrary sets [U] / [R]. *)
From Coq Require Import NArith Bool List Lia.
From stdpp Require Import base list option.
From RecordUpdate Require Import RecordSet.
From RC Require Import Hdr Machine RunInd Inv InvP SafeMain SafeColl SafeFinal SafeFinalOwn2.
From RC Require Import SoleInv SoleStep SoleMain SoleTop SoleOwn.
Import ListNotations RecordSetNotations.
Local Open Scope N_scope.

Theorem C04_last_owner_recursive :
  forall (K : conf) (P : prog),
  (k_clean K = true -> k_weak K = true) -> wf_prog P = true ->
  forall (n : nat) (b : bool) (E A : list id) (o : id) (m m' : machine),
  Pre K (PreC K) b E (KDropCc o) m -> Q K A (KDropCc o) m ->
  (exists xo : obj, get m o = Some xo /\ h_rc (o_hdr xo) = 1 /\ is_in_list_or_queue (o_hdr xo) = false /\
                    k_fin K && needs_fin (o_hdr xo) = false) ->
  run K P n (KDropCc o) m = (m', ONormal) ->
  (exists y : obj, get m' o = Some y /\ o_box y = BFreed /\ o_vst y = VDropped) /\
  forall t : id, SolelyOwned K m o t -> exists y : obj, get m' t = Some y /\ o_box y = BFreed /\ o_vst y = VDropped.
Proof.
  intros K P Hconf Hwf n b E A o m m' Hpre HQ Hlo Hrun.
  exact (SoleOwn.last_owner_recursive_closed K P Hconf Hwf n b E A o m m' Hpre HQ Hlo Hrun).
Qed.
Print Assumptions C04_last_owner_recursive.

Theorem C04_sole_frame :
  forall (K : conf) (P : prog),
  (k_clean K = true -> k_weak K = true) -> wf_prog P = true ->
  forall (n : nat) (b : bool) (E A : list id) (c : call) (m m' : machine) (r : outcome),
  Pre K (PreC K) b E c m -> Q K A c m -> run K P n c m = (m', r) -> r = ONormal \/ r = OPanic ->
  Args (HidX K (ex_of c) m) (RootX (ex_of c) m) c ->
  sole_persist K (ex_of c) m m'.
Proof. exact SoleTop.sole_frame'. Qed.
Print Assumptions C04_sole_frame.

Theorem C04_sole_keep :
  forall (K : conf) (P : prog),
  (k_clean K = true -> k_weak K = true) -> wf_prog P = true ->
  forall (U R : id -> Prop) (n : nat) (b : bool) (E A : list id) (c : call) (m m' : machine) (r : outcome),
  Pre K (PreC K) b E c m -> Q K A c m -> run K P n c m = (m', r) -> r = ONormal \/ r = OPanic ->
  SI K U R m -> Args U R c -> Keep U R m m'.
Proof. exact SoleMain.sole_keep. Qed.
Print Assumptions C04_sole_keep.

(** ** Pins *)
Check C04_last_owner_recursive :
  forall (K : conf) (P : prog),
  (k_clean K = true -> k_weak K = true) -> wf_prog P = true ->
  forall (n : nat) (b : bool) (E A : list id) (o : id) (m m' : machine),
  Pre K (PreC K) b E (KDropCc o) m -> Q K A (KDropCc o) m ->
  (exists xo : obj, get m o = Some xo /\ h_rc (o_hdr xo) = 1 /\ is_in_list_or_queue (o_hdr xo) = false /\
                    k_fin K && needs_fin (o_hdr xo) = false) ->
  run K P n (KDropCc o) m = (m', ONormal) ->
  (exists y : obj, get m' o = Some y /\ o_box y = BFreed /\ o_vst y = VDropped) /\
  forall t : id, SolelyOwned K m o t -> exists y : obj, get m' t = Some y /\ o_box y = BFreed /\ o_vst y = VDropped.
Check C04_sole_frame :
  forall (K : conf) (P : prog),
  (k_clean K = true -> k_weak K = true) -> wf_prog P = true ->
  forall (n : nat) (b : bool) (E A : list id) (c : call) (m m' : machine) (r : outcome),
  Pre K (PreC K) b E c m -> Q K A c m -> run K P n c m = (m', r) -> r = ONormal \/ r = OPanic ->
  Args (HidX K (ex_of c) m) (RootX (ex_of c) m) c ->
  sole_persist K (ex_of c) m m'.
Check C04_sole_keep :
  forall (K : conf) (P : prog),
  (k_clean K = true -> k_weak K = true) -> wf_prog P = true ->
  forall (U R : id -> Prop) (n : nat) (b : bool) (E A : list id) (c : call) (m m' : machine) (r : outcome),
  Pre K (PreC K) b E c m -> Q K A c m -> run K P n c m = (m', r) -> r = ONormal \/ r = OPanic ->
  SI K U R m -> Args U R c -> Keep U R m m'.
