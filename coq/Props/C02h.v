(** C02, the history half - "unreachable cycles are completely reclaimed by collect_cycles()".

    Props/C02.v proves the completeness of a quiet [collect_cycles()] relative to two history
    hypotheses on the state where the collection starts: the coverage invariant [Cover P m]
    (I-cover: every allocated live object outside the dying set is reachable from program-held
    handles, or reachable through reported edges from a buffered object, or pinned) and
    [MapsOwned m].  Until now these were only TESTED ([Cover.cover_b] / [maps_owned_b] evaluated
    by the executable checker after every top-level command).  Here they are THEOREMS of every
    panic-free history of every program expressible in safe Rust:

    - [C02h_cover_programs]: [Cover P m /\ MapsOwned m] at every top-level state [m] of a run
      that logged no panic ([no_panic_yet m]) and was not discarded ([clean m]: no
      [EBad Fuel/Abort]), for well-formed programs ([wf_prog]: Drop impls do not touch the Cc
      fields of the value being dropped) that satisfy [rust_ok].
    - [rust_ok P cmds]: no [CMove (LS i) (LFA i j)] in the scripts of [P] and in [cmds] (moving
      the handle in slot [i] into a field of the object it designates would move the [Cc] while
      it is borrowed; the self-loop such a move creates is never buffered:
      [C02h_rust_ok_needed] is the two-command counterexample).
    - [C02h_run_cover]: the inner form, for every activation of every run: [CvPre] at the call
      (with the handles in flight [E] as extra roots and the active collector list [A] as extra
      buffer roots) implies [CvPost] at a normal return.
    - [C02h_quiet_prog] / [C02h_quiet_cover_prog]: [C02_quiet_prog_partial] without the two history
      hypotheses.

    Statements only; every proof is [exact <lemma>] (CoverMain.v, Quiet.v). *)
From Coq Require Import NArith Bool List Lia.
From stdpp Require Import base list option.
From RecordUpdate Require Import RecordSet.
From RC Require BufBase Buf.
From RC Require Import Hdr Machine RunInd Inv InvP SafeHelpers SafeMain SafeColl Cover SafeFinal Quiet QuietCover.
From RC Require Import CoverStep CoverCmd CoverColl CoverMain.
From RC.Props Require C02.
Import ListNotations RecordSetNotations.
Local Open Scope N_scope.

(** ** Vocabulary *)
Print rust_cmd.
Print rust_script.
Print rust_ok.
Print Quiet.Cover.
Print MapsOwned.
Print MO.
Print Cv.
Print roots_of.
Print actA.
Print postA.
Print CvPre.
Print CvPost.
Print store_ok.

(** ** The coverage invariant holds at every top-level state of a panic-free history *)
Theorem C02h_cover_programs :
  forall (K : conf) (P : prog) (fuel : nat) (cmds : list cmd),
  (k_clean K = true -> k_weak K = true) -> wf_prog P = true -> rust_ok P cmds = true ->
  let m := fold_left (fun m c => exec_top K P fuel c m) cmds (init K) in
  SafeMain.clean m = true -> no_panic_yet m = true -> Quiet.Cover P m /\ MapsOwned m.
Proof. exact CoverMain.cover_programs. Qed.
Print Assumptions C02h_cover_programs.

(** the inner form: every activation of every run (the layer-1 precondition [Pre] with exact
    counts, the buffer precondition [Q]) *)
Theorem C02h_run_cover :
  forall (K : conf) (P : prog),
  (k_clean K = true -> k_weak K = true) -> wf_prog P = true ->
  forallb rust_script (p_scripts P) = true ->
  forall (n : nat) (E A : list id) (c : call) (m : machine),
  Pre K (PreC K) true E c m -> Q K A c m -> CvPre P E A c m ->
  (run K P n c m).2 = ONormal -> CvPost P E A c (run K P n c m).1.
Proof. exact CoverMain.run_cover. Qed.
Print Assumptions C02h_run_cover.

(** [CoverE] with no in-flight handle and no active list is the top-level invariant *)
Theorem C02h_cv_nil :
  forall (P : prog) (m : machine), Cv P [] [] [] m -> Quiet.Cover P m /\ MapsOwned m.
Proof. exact CoverStep.Cv_nil. Qed.
Print Assumptions C02h_cv_nil.

(** the tracing pass, started while handles are in flight *)
Theorem C02h_quiet_pass_posE :
  forall (K : conf) (P : prog) (E : list id) (m m0 m' : machine) (L : list id),
  SInv K true E [] m -> BufBase.Ibuf K [] m -> CoverE P E [] [] m ->
  heap m0 = heap m -> pc m0 = pc m -> pc_size m0 = pc_size m ->
  trace_pass K P m0 = (m', PDone L) ->
  forall v x, get m v = Some x -> o_box x = BAlloc -> o_vst x = VLive ->
    v ∈ dead m \/ ProgReachE E m v \/ Pinned P m v \/ v ∈ L.
Proof. exact CoverColl.quiet_pass_posE. Qed.
Print Assumptions C02h_quiet_pass_posE.

(** ** C02 for the states of a panic-free program run, without history hypotheses *)
Theorem C02h_quiet_prog :
  forall (K : conf) (P : prog) (fuel : nat) (cmds : list cmd) (n : nat) (m1 : machine),
  (k_clean K = true -> k_weak K = true) -> wf_prog P = true -> rust_ok P cmds = true ->
  let m := fold_left (fun m c => exec_top K P fuel c m) cmds (init K) in
  SafeMain.clean m = true -> no_panic_yet m = true ->
  run K P n KCollectCycles m = (m1, ONormal) -> quiet m m1 ->
  (forall o x, get m1 o = Some x -> o_box x = BAlloc -> o_vst x = VLive ->
     o ∈ dead m1 \/ ProgReach m1 o \/ Pinned P m1 o) /\
  gsim m m1 /\ pc m1 = [] /\ st_alloc m1 = BufBase.bytes K m1.
Proof.
  intros K P fuel cmds n m1 Hconf Hwf Hr m Hcl Hnp Hrun Hq.
  destruct (CoverMain.cover_programs K P fuel cmds Hconf Hwf Hr Hcl Hnp) as [HC HM].
  exact (Quiet.C02_quiet_prog K P fuel cmds n m1 Hconf Hwf Hcl Hnp HC HM Hrun Hq).
Qed.
Print Assumptions C02h_quiet_prog.

(** the same in the negative form of the property: after a quiet [collect_cycles()] no allocated
    live object outside the dying set is both unreachable from the program and unpinned *)
Theorem C02h_quiet_prog_neg :
  forall (K : conf) (P : prog) (fuel : nat) (cmds : list cmd) (n : nat) (m1 : machine),
  (k_clean K = true -> k_weak K = true) -> wf_prog P = true -> rust_ok P cmds = true ->
  let m := fold_left (fun m c => exec_top K P fuel c m) cmds (init K) in
  SafeMain.clean m = true -> no_panic_yet m = true ->
  run K P n KCollectCycles m = (m1, ONormal) -> quiet m m1 ->
  forall o x, get m1 o = Some x -> o_box x = BAlloc -> o_vst x = VLive -> o ∉ dead m1 ->
    ~ ProgReach m1 o -> ~ Pinned P m1 o -> False.
Proof.
  intros K P fuel cmds n m1 Hconf Hwf Hr m Hcl Hnp Hrun Hq o x Hx Hb Hv Hd Hnr Hnp'.
  destruct (C02h_quiet_prog K P fuel cmds n m1 Hconf Hwf Hr Hcl Hnp Hrun Hq) as (H & _).
  destruct (H o x Hx Hb Hv) as [?|[?|?]]; contradiction.
Qed.
Print Assumptions C02h_quiet_prog_neg.

(** the coverage invariant holds again after the quiet collection *)
Theorem C02h_quiet_cover_prog :
  forall (K : conf) (P : prog) (fuel : nat) (cmds : list cmd) (n : nat) (m1 : machine),
  (k_clean K = true -> k_weak K = true) -> wf_prog P = true -> rust_ok P cmds = true ->
  let m := fold_left (fun m c => exec_top K P fuel c m) cmds (init K) in
  SafeMain.clean m = true -> no_panic_yet m = true ->
  run K P n KCollectCycles m = (m1, ONormal) -> quiet m m1 -> Quiet.Cover P m1.
Proof.
  intros K P fuel cmds n m1 Hconf Hwf Hr m Hcl Hnp Hrun Hq o x Hx Hb Hv.
  destruct (C02h_quiet_prog K P fuel cmds n m1 Hconf Hwf Hr Hcl Hnp Hrun Hq) as (H & _).
  destruct (H o x Hx Hb Hv) as [?|[?|?]]; auto.
Qed.
Print Assumptions C02h_quiet_cover_prog.

(** the [CCollect] command itself: if the top-level [collect_cycles()] of a panic-free history
    returns and logged no finalizer / destructor / cleaning action / deallocation, every allocated
    live object of the resulting state is program-reachable, pinned or in the dying set *)
Theorem C02h_collect_cmd :
  forall (K : conf) (P : prog) (n : nat) (cmds : list cmd),
  (k_clean K = true -> k_weak K = true) -> wf_prog P = true -> rust_ok P cmds = true ->
  let m := fold_left (fun m c => exec_top K P (S n) c m) cmds (init K) in
  let m' := exec_top K P (S n) CCollect m in
  SafeMain.clean m' = true -> no_panic_yet m' = true -> quiet m m' ->
  (forall o x, get m' o = Some x -> o_box x = BAlloc -> o_vst x = VLive ->
     o ∈ dead m' \/ ProgReach m' o \/ Pinned P m' o) /\
  pc m' = [] /\ st_alloc m' = BufBase.bytes K m'.
Proof. exact CoverMain.collect_cmd_complete. Qed.
Print Assumptions C02h_collect_cmd.

(** the hypotheses of [C02h_run_cover] hold of every top-level command at every state of a
    panic-free history *)
Theorem C02h_top_pre :
  forall (K : conf) (P : prog) (fuel : nat) (cmds : list cmd) (c : cmd),
  (k_clean K = true -> k_weak K = true) -> wf_prog P = true -> rust_ok P cmds = true -> rust_cmd c = true ->
  let m := fold_left (fun m c => exec_top K P fuel c m) cmds (init K) in
  SafeMain.clean m = true -> no_panic_yet m = true ->
  Pre K (PreC K) true [] (KCmd None c) m /\ Q K [] (KCmd None c) m /\ CvPre P [] [] (KCmd None c) m.
Proof. exact CoverMain.top_pre. Qed.
Print Assumptions C02h_top_pre.

(** ** Pins *)
Check C02h_cover_programs.
Check C02h_run_cover.
Check C02h_quiet_prog.
Check rust_ok : prog -> list cmd -> bool.
Check rust_cmd : cmd -> bool.

(** ** Non-vacuity and the necessity of [rust_ok] *)
Module Ex.
  Import C02.Ex.

  (** [C02h_cover_programs] / [C02h_quiet_prog] for the programs of the example of Props/C02.v
      (stated for an arbitrary command list so that no state is evaluated by unification) *)
  Lemma cover_st cmds :
    rust_ok exP cmds = true -> SafeMain.clean (st cmds) = true -> no_panic_yet (st cmds) = true ->
    Quiet.Cover exP (st cmds) /\ MapsOwned (st cmds).
  Proof.
    intros H1 H2 H3. exact (C02h_cover_programs exK exP 100 cmds (fun _ => eq_refl) eq_refl H1 H2 H3).
  Qed.
  Lemma quiet_st_h cmds n m' :
    rust_ok exP cmds = true -> SafeMain.clean (st cmds) = true -> no_panic_yet (st cmds) = true ->
    run exK exP n KCollectCycles (st cmds) = (m', ONormal) -> quiet (st cmds) m' ->
    (forall o x, get m' o = Some x -> o_box x = BAlloc -> o_vst x = VLive ->
       o ∈ dead m' \/ ProgReach m' o \/ Pinned exP m' o) /\
    gsim (st cmds) m' /\ pc m' = [] /\ st_alloc m' = BufBase.bytes exK m'.
  Proof.
    intros H1 H2 H3 H4 H5.
    exact (C02h_quiet_prog exK exP 100 cmds n m' (fun _ => eq_refl) eq_refl H1 H2 H3 H4 H5).
  Qed.

  (** the programs of the example are expressible in safe Rust *)
  Example pre_rust : rust_ok exP (pre ++ [CCollect]) = true.
  Proof. vm_compute. reflexivity. Qed.

  (** so the hypotheses [Cover] / [MapsOwned] of [C02_quiet_prog_partial] are theorems at [m1]
      (no evaluation of the checker [cover_b]) ... *)
  Example cover_m1 : Quiet.Cover exP m1 /\ MapsOwned m1.
  Proof.
    destruct hyps as (H3 & H4 & _).
    exact (cover_st (pre ++ [CCollect]) pre_rust H3 H4).
  Qed.

  (** ... and the conclusion of C02 holds of the second, quiet collect_cycles() *)
  Example second_collection_quiet :
    (forall o x, get m2 o = Some x -> o_box x = BAlloc -> o_vst x = VLive ->
       o ∈ dead m2 \/ ProgReach m2 o \/ Pinned exP m2 o) /\
    gsim m1 m2 /\ pc m2 = [] /\ st_alloc m2 = BufBase.bytes exK m2.
  Proof.
    destruct hyps as (H3 & H4 & _ & _ & H7 & H8).
    exact (quiet_st_h (pre ++ [CCollect]) 99 m2 pre_rust H3 H4 H7 H8).
  Qed.

  (** the same through the command: a third [CCollect] after the first two is quiet *)
  Lemma collect_st cmds :
    rust_ok exP cmds = true ->
    SafeMain.clean (exec_top exK exP 100 CCollect (st cmds)) = true ->
    no_panic_yet (exec_top exK exP 100 CCollect (st cmds)) = true ->
    quiet (st cmds) (exec_top exK exP 100 CCollect (st cmds)) ->
    (forall o x, get (exec_top exK exP 100 CCollect (st cmds)) o = Some x -> o_box x = BAlloc -> o_vst x = VLive ->
       o ∈ dead (exec_top exK exP 100 CCollect (st cmds)) \/ ProgReach (exec_top exK exP 100 CCollect (st cmds)) o \/
       Pinned exP (exec_top exK exP 100 CCollect (st cmds)) o) /\
    pc (exec_top exK exP 100 CCollect (st cmds)) = [] /\
    st_alloc (exec_top exK exP 100 CCollect (st cmds)) = BufBase.bytes exK (exec_top exK exP 100 CCollect (st cmds)).
  Proof.
    intros H1 H2 H3 H4. exact (C02h_collect_cmd exK exP 99 cmds (fun _ => eq_refl) eq_refl H1 H2 H3 H4).
  Qed.
  Example collect_cmd_quiet :
    SafeMain.clean (exec_top exK exP 100 CCollect m1) = true /\
    no_panic_yet (exec_top exK exP 100 CCollect m1) = true /\
    quiet m1 (exec_top exK exP 100 CCollect m1) /\
    live_ids (exec_top exK exP 100 CCollect m1) = [2; 3; 4]%nat.
  Proof. vm_compute. repeat split. Qed.

  (** the two-command program that [rust_ok] excludes: the handle in slot 0 is moved into the
      (traced) field 0 of the object it designates; the object is then a live, unbuffered,
      unpinned self-loop that no handle of the program reaches: I-cover fails (and the next
      collect_cycles() does not reclaim it) *)
  Definition bad : list cmd := [CNew (LS 0) 0; CMove (LS 0) (LFA 0 0)].
  Example C02h_rust_ok_needed :
    rust_ok exP bad = false /\
    SafeMain.clean (st bad) = true /\ no_panic_yet (st bad) = true /\
    cover_b exP (st bad) = false /\ live_ids (st bad) = [0%nat] /\ pc (st bad) = [] /\
    prog_reach_b (st bad) 0%nat = false /\ pinned_b exP (st bad) 0%nat = false /\
    live_ids (st (bad ++ [CCollect])) = [0%nat].
  Proof. vm_compute. repeat split. Qed.
End Ex.
