(** C05 - "finalizers run only on garbage, at most once (unless re-armed by [finalize_again]),
    before any destructor of the same set; objects created inside a finalizer report
    already-finalized; no finalizer ever runs when finalization is disabled".
    Statements only; every proof is [exact <lemma>] (LifeCyc.v, LifeFin.v).  Program-level
    statements: every configuration [K] (with [cleaners] only together with [weak-ptrs]), every
    well-formed program, fuel, command list; runs that logged [EBad Fuel] / [EBad Abort] excluded.

    Not proved (general re-arming, "C05_once_between"): between two finalizer entries of the same
    object a [finalize_again] on it was executed.  Missing: an event for [CFinAgain] in the log
    (Machine.cmd_fin_again only logs [ERes ROk], which does not name the object), so the statement
    cannot be expressed on the log; on the state it is [LifeInv.ok_fin1] with [nfa = false],
    which is vacuous.  The at-most-once theorem below is for programs that never re-arm. *)
From Coq Require Import NArith Bool List Lia.
From stdpp Require Import base list option.
From RecordUpdate Require Import RecordSet.
From RC Require Import Hdr Machine RunInd Inv InvP SafeMain SafeColl LifeInv LifeStep LifeCyc LifeFin.
Import ListNotations RecordSetNotations.
Local Open Scope N_scope.

(** ** finalization disabled: no finalizer entry is ever logged *)
Theorem C05_disabled :
  forall (K : conf) (P : prog) (fuel : nat) (cmds : list cmd),
  (k_clean K = true -> k_weak K = true) -> wf_prog P = true ->
  forallb (fun e => match e with EBad Fuel _ | EBad Abort _ => false | _ => true end)
          (log (fold_left (fun m c => exec_top K P fuel c m) cmds (init K))) = true ->
  k_fin K = false ->
  forall (o : nat) (f : flags), ~ In (ECb KFin o f) (log (fold_left (fun m c => exec_top K P fuel c m) cmds (init K))).
Proof. exact LifeFin.prog_fin_disabled. Qed.
Print Assumptions C05_disabled.

(** ** at most once.  [prog_nfa P] / [no_fa_cmd]: no script of [P] and no top-level command is
    [CFinAgain]; then every object has at most one finalizer entry in the log, and an object with
    a finalizer entry carries the flag [h_fin] (so [needs_finalization] is false for ever) *)
Print no_fa_cmd. Print prog_nfa.
Theorem C05_once :
  forall (K : conf) (P : prog) (fuel : nat) (cmds : list cmd),
  (k_clean K = true -> k_weak K = true) -> wf_prog P = true ->
  forallb (fun e => match e with EBad Fuel _ | EBad Abort _ => false | _ => true end)
          (log (fold_left (fun m c => exec_top K P fuel c m) cmds (init K))) = true ->
  prog_nfa P = true -> forallb no_fa_cmd cmds = true ->
  forall o : id,
    (cntE (isFi o) (log (fold_left (fun m c => exec_top K P fuel c m) cmds (init K))) <= 1)%nat /\
    (forall x : obj, get (fold_left (fun m c => exec_top K P fuel c m) cmds (init K)) o = Some x ->
       (0 < cntE (isFi o) (log (fold_left (fun m c => exec_top K P fuel c m) cmds (init K))))%nat ->
       h_fin (o_hdr x) = true).
Proof. exact LifeFin.prog_fin_once. Qed.
Print Assumptions C05_once.

(** the flag: an already finalized object is skipped by the finalization pass; otherwise the flag
    is set BEFORE the entry is logged and the script runs (so a finalizer that resurrects and
    re-drops the object does not re-enter itself).  [Cc::drop]: the same, see
    [LifeGhost2.step_drop_cc_eq] / [LifeGhost2.dcc_fin]. *)
Theorem C05_flag_skip :
  forall (K : conf) (P : prog) (rec : call -> machine -> machine * outcome) (L : list id) (g : id)
         (rest : list id) (any old_f : bool) (m : machine),
  needs_fin (hdr_of m g) = false ->
  step_finalize_list K P rec L (g :: rest) any old_f m = rec (KFinalizeList L rest any old_f) m.
Proof. exact LifeCyc.finalize_list_skips_finalized. Qed.
Print Assumptions C05_flag_skip.
Theorem C05_flag_set_first :
  forall (K : conf) (P : prog) (rec : call -> machine -> machine * outcome) (L : list id) (g : id)
         (rest : list id) (any old_f : bool) (m : machine),
  needs_fin (hdr_of m g) = true -> is_map m g = false ->
  exists m1, m1 = uhdr g (set_fin true) m /\
    step_finalize_list K P rec L (g :: rest) any old_f m =
    let '(m2, r) :=
      let m' := emit (ECb KFin g (cur_flags K m1)) m1 in
      let '(m'', boom) := tick KFin m' in
      if boom then (m'', raise m'')
      else match get m'' g with
           | Some x => rec (KScript (Some g) (oscript P (c_fin (class_of P (o_cls x))))) m''
           | None => (m'', ONormal)
           end in
    match r with
    | ONormal => rec (KFinalizeList L rest true old_f) m2
    | _ => (unmark_all L (m2 <| st_finalizing := old_f |>), r)
    end.
Proof. exact LifeCyc.finalize_list_sets_flag_first. Qed.
Print Assumptions C05_flag_set_first.
Check LifeGhost2.step_drop_cc_eq.
Print LifeGhost2.dcc_fin.

(** ** before any drop: no destructor entry of [o] precedes a finalizer entry of [o] (the log is
    newest first: [l2] is what was logged before the finalizer entry) *)
Theorem C05_fin_before_drop :
  forall (K : conf) (P : prog) (fuel : nat) (cmds : list cmd),
  (k_clean K = true -> k_weak K = true) -> wf_prog P = true ->
  forallb (fun e => match e with EBad Fuel _ | EBad Abort _ => false | _ => true end)
          (log (fold_left (fun m c => exec_top K P fuel c m) cmds (init K))) = true ->
  forall (l1 : list event) (o : nat) (f : flags) (l2 : list event),
  log (fold_left (fun m c => exec_top K P fuel c m) cmds (init K)) = l1 ++ ECb KFin o f :: l2 ->
  forall f' : flags, ~ In (ECb KDrop o f') l2.
Proof. exact LifeFin.prog_fin_before_drop. Qed.
Print Assumptions C05_fin_before_drop.

(** ** only on garbage.  Reference-count path ([Cc::drop] with count 1, [E] = handles held by the
    enclosing frames): no slot, bag entry, field or cleaner handle holds [o] and no other handle
    to it is in flight.  Collector path: the finalization pass starts ([rest = L], [any = false])
    from a closed set of live, allocated, linked members; and at every later iteration all
    members are still live and allocated (a finalizer sees the whole set undropped). *)
Theorem C05_garbage_rc :
  forall (K : conf) (b : bool) (E : list id) (o : id) (m : machine) (x : obj),
  Pre K (PreC K) b E (KDropCc o) m -> get m o = Some x -> h_rc (o_hdr x) = 1 ->
  refs m o = 0%nat /\ cnt_id o E = 0%nat /\ o_box x = BAlloc.
Proof. exact LifeCyc.garbage_rc. Qed.
Print Assumptions C05_garbage_rc.
Print Member. Print ClosedL. Print DeadClosed.
Theorem C05_garbage_gc :
  forall (K : conf) (b : bool) (E L : list id) (old_f : bool) (m : machine),
  PreC K b E (KFinalizeList L L false old_f) m ->
  NoDup L /\ (forall g : id, g ∈ L -> Member m g) /\ ClosedL L E m.
Proof. exact LifeCyc.garbage_gc. Qed.
Print Assumptions C05_garbage_gc.
Theorem C05_members_live_during_pass :
  forall (K : conf) (b : bool) (E L rest : list id) (any old_f : bool) (m : machine),
  PreC K b E (KFinalizeList L rest any old_f) m ->
  forall g : id, g ∈ L ->
  exists x : obj, get m g = Some x /\ o_box x = BAlloc /\ o_vst x = VLive /\ inD m g = false /\ h_mark (o_hdr x) = IL.
Proof. exact LifeCyc.members_live_during_pass. Qed.
Print Assumptions C05_members_live_during_pass.
(** that these pre-conditions hold whenever the activations are entered: [SafeFinal.run_okQ] *)

(** ** all finalizers of a pass return before its first destructor: an iteration of the
    finalization pass that still has a member to visit does not depend on what [rec] does on
    [KDropList] calls (it makes none); the drop pass is entered from the empty remainder, and only
    if no finalizer ran *)
Theorem C05_fin_then_drop_order :
  forall (K : conf) (P : prog) (rec rec' : call -> machine -> machine * outcome) (L : list id) (g : id)
         (rest : list id) (any old_f : bool) (m : machine),
  (forall (k : call) (m' : machine), is_drop_list k = false -> rec' k m' = rec k m') ->
  step_finalize_list K P rec' L (g :: rest) any old_f m = step_finalize_list K P rec L (g :: rest) any old_f m.
Proof. exact LifeCyc.fin_then_drop_order. Qed.
Print Assumptions C05_fin_then_drop_order.
Theorem C05_drop_pass_entry :
  forall (K : conf) (P : prog) (rec : call -> machine -> machine * outcome) (L : list id) (any old_f : bool) (m : machine),
  step_finalize_list K P rec L [] any old_f m =
  if negb any
  then rec (KDropList L L (st_dropping m)) (m <| st_finalizing := old_f |> <| st_dropping := true |> <| dead ::= app L |>)
  else ((fold_left (fun m g => uhdr g (fun h => set_mark PC (reset_tc h)) m) L (m <| st_finalizing := old_f |>))
          <| pc ::= fun old => L ++ old |> <| pc_size ::= fun s => N.of_nat (length L) + s |>, ONormal).
Proof. exact LifeCyc.drop_pass_entry. Qed.
Print Assumptions C05_drop_pass_entry.

(** ** created inside a finalizer: [CcBox::new] initialises the finalized flag with
    [k_fin && finalizing]; inside every finalizer [finalizing] is set (Props/C12.v: every
    [ECb KFin] event carries [fl_f = true], Props/C07.v: scripts preserve the flags between their
    commands), so the new object is born finalized, and by [C05_once] never finalized unless
    re-armed *)
Theorem C05_created_in_finalizer :
  forall (K : conf) (o : id) (m : machine) (x : obj),
  get m o = Some x -> k_fin K = true -> st_finalizing m = true ->
  exists x' : obj, get (box_alloc K o m) o = Some x' /\ h_fin (o_hdr x') = true /\ o_box x' = BAlloc.
Proof. exact LifeCyc.box_alloc_in_finalizer. Qed.
Print Assumptions C05_created_in_finalizer.
Theorem C05_alloc_fin_flag :
  forall (K : conf) (o : id) (m : machine) (x : obj),
  get m o = Some x ->
  exists x' : obj, get (box_alloc K o m) o = Some x' /\ h_fin (o_hdr x') = k_fin K && st_finalizing m.
Proof. exact LifeCyc.box_alloc_fin_flag. Qed.
Print Assumptions C05_alloc_fin_flag.

(** ** Pins *)
Check C05_disabled :
  forall (K : conf) (P : prog) (fuel : nat) (cmds : list cmd),
  (k_clean K = true -> k_weak K = true) -> wf_prog P = true ->
  forallb (fun e => match e with EBad Fuel _ | EBad Abort _ => false | _ => true end)
          (log (fold_left (fun m c => exec_top K P fuel c m) cmds (init K))) = true ->
  k_fin K = false ->
  forall (o : nat) (f : flags), ~ In (ECb KFin o f) (log (fold_left (fun m c => exec_top K P fuel c m) cmds (init K))).
Check C05_fin_before_drop :
  forall (K : conf) (P : prog) (fuel : nat) (cmds : list cmd),
  (k_clean K = true -> k_weak K = true) -> wf_prog P = true ->
  forallb (fun e => match e with EBad Fuel _ | EBad Abort _ => false | _ => true end)
          (log (fold_left (fun m c => exec_top K P fuel c m) cmds (init K))) = true ->
  forall (l1 : list event) (o : nat) (f : flags) (l2 : list event),
  log (fold_left (fun m c => exec_top K P fuel c m) cmds (init K)) = l1 ++ ECb KFin o f :: l2 ->
  forall f' : flags, ~ In (ECb KDrop o f') l2.

(** ** Non-vacuity: the corpus program F4 (finalizers enabled, no [CFinAgain]): three finalizer
    entries, one per object, each before the destructor entry of its object; the same program
    with finalization disabled logs none *)
Definition exF4 : machine :=
  fold_left (fun m c => exec_top SafeFinalPropsA.exK SafeFinalPropsA.f4_prog 60 c m)
            (p_main SafeFinalPropsA.f4_prog) (init SafeFinalPropsA.exK).
Example C05_nonvacuous :
  (k_clean SafeFinalPropsA.exK = true -> k_weak SafeFinalPropsA.exK = true) /\
  wf_prog SafeFinalPropsA.f4_prog = true /\
  forallb (fun e => match e with EBad Fuel _ | EBad Abort _ => false | _ => true end) (log exF4) = true /\
  prog_nfa SafeFinalPropsA.f4_prog = true /\ forallb no_fa_cmd (p_main SafeFinalPropsA.f4_prog) = true /\
  map (fun o => cntE (isFi o) (log exF4)) [0; 1; 2]%nat = [1; 1; 1]%nat.
Proof. split; [reflexivity|]. repeat split; vm_compute; reflexivity. Qed.
Example C05_disabled_nonvacuous :
  let K0 := SafeFinalPropsA.exK0 in
  let m := fold_left (fun m c => exec_top K0 SafeFinalPropsA.f4_prog 60 c m) (p_main SafeFinalPropsA.f4_prog) (init K0) in
  k_fin K0 = false /\
  forallb (fun e => match e with EBad Fuel _ | EBad Abort _ => false | _ => true end) (log m) = true /\
  existsb (fun e => match e with ECb KDrop _ _ => true | _ => false end) (log m) = true /\
  existsb (fun e => match e with ECb KFin _ _ => true | _ => false end) (log m) = false.
Proof. cbv zeta. repeat split; vm_compute; reflexivity. Qed.
