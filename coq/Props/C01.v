(** C01 - "memory safety: a program using only the safe API never touches freed or dropped memory:
    whatever a handle (Cc) reachable by the program points to is allocated and its value alive; the
    collector only destroys objects no handle outside the garbage reaches".
    Statements only; every proof is [exact <lemma>] (SafeFinalPropsA.v, SafeFinalProps.v,
    PassMain.v).  State-level: each theorem is about ONE state satisfying the tested invariant
    [inv_b K E m = true] (Inv.v; equivalently [InvP.Inv], [InvP.Inv_iff]) or part A's
    strengthened invariant [SInv K b E W m] (InvP.v), for every configuration [K].  That every
    state reached by every program satisfies them is the program-level theorem below. *)
From Coq Require Import NArith Bool List Lia.
From stdpp Require Import base list option.
From RecordUpdate Require Import RecordSet.
From RC Require Import Hdr Machine RunInd Inv InvP SafeMain SafeProps Pass PassMain SafeFinalPropsA SafeFinalProps SafeFinal SafeFinalProg.
Import ListNotations RecordSetNotations.
Local Open Scope N_scope.

(** ** Reachability.  [sreach m o]: a slot or the bag holds a handle to [o], or a strong field /
    the cleaner field of a reachable LIVE value does.  [sreach_any]: the same without requiring
    the holder to be live. *)
Print sreach.
Print sreach_any.

(** everything the program can reach through strong handles is allocated, its value is live, and
    it is outside the dying set (the objects the collector is destroying or has destroyed) *)
Theorem C01_reach_live :
  forall (K : conf) (E : list id) (m : machine), inv_b K E m = true ->
  forall o : id, sreach m o ->
  exists x : obj, get m o = Some x /\ o_box x = BAlloc /\ o_vst x = VLive /\ mem_id o (dead m) = false.
Proof. exact SafeFinalPropsA.reach_live. Qed.
Print Assumptions C01_reach_live.

(** the same for the larger relation that does not ask the holder to be live (the induction
    shows it is) *)
Theorem C01_reach_any_live :
  forall (K : conf) (E : list id) (m : machine), inv_b K E m = true ->
  forall o : id, sreach_any m o ->
  exists x : obj, get m o = Some x /\ o_box x = BAlloc /\ o_vst x = VLive /\ mem_id o (dead m) = false.
Proof. exact SafeFinalPropsA.reach_any_live. Qed.
Print Assumptions C01_reach_any_live.

(** the first relation is included in the second *)
Theorem C01_sreach_sreach_any :
  forall (m : machine) (o : id), sreach m o -> sreach_any m o.
Proof. exact SafeFinalPropsA.sreach_sreach_any. Qed.
Print Assumptions C01_sreach_sreach_any.

(** ** The collector: the list handed to the finalize / drop phases is closed *)

(** a member of the list [L] computed by the tracing pass has no handle outside the heap, and
    every handle to it stored anywhere in the heap is a traced field of a live, unborrowed, non-map
    member of [L]; no cleaner handle points to it *)
Theorem C01_pass_closed :
  forall (K : conf) (P : prog) (m : machine) (ext : id -> N) (m' : machine) (L : list id),
  PassPre P m ext -> trace_pass K P m = (m', PDone L) ->
  forall o : id, o ∈ L ->
    ext o = 0 /\
    (forall (p : id) (x : obj) (j : nat), get m p = Some x -> o_fields x !! j = Some (Some o) ->
       p ∈ L /\ c_traced (class_of P (o_cls x)) !! j = Some true /\
       o_ismap x = false /\ o_borrowed x = false /\ o_vst x = VLive) /\
    (forall (p : id) (x : obj), get m p = Some x -> o_cleaner x = Some o -> False).
Proof. exact PassMain.pass_closed. Qed.
Print Assumptions C01_pass_closed.

(** contrapositive: whatever a handle the pass does not see points to is not collected: (a) an
    untraced field, a field of a borrowed / non-live / map object or of an object outside [L]; (b) a
    cleaner handle; (c) a handle held outside the heap *)
Theorem C01_untraced_is_external :
  forall (K : conf) (P : prog) (m : machine) (ext : id -> N) (m' : machine) (L : list id),
  PassPre P m ext -> trace_pass K P m = (m', PDone L) ->
  (forall (p : id) (x : obj) (j : nat) (o : id), get m p = Some x -> o_fields x !! j = Some (Some o) ->
     (c_traced (class_of P (o_cls x)) !! j <> Some true \/ o_borrowed x = true \/ o_vst x <> VLive \/
      o_ismap x = true \/ p ∉ L) -> o ∉ L) /\
  (forall (p : id) (x : obj) (o : id), get m p = Some x -> o_cleaner x = Some o -> o ∉ L) /\
  (forall o : id, ext o <> 0 -> o ∉ L).
Proof. exact SafeFinalPropsA.untraced_is_external. Qed.
Print Assumptions C01_untraced_is_external.

(** ** Observation through a handle finds the value alive *)

(** [Cc::strong_count] etc. through a handle that is allocated, live and not dying: the event
    carries [alive = true] and nothing else (no [EBad]) is logged *)
Theorem C01_obs_alive :
  forall (K : conf) (b : bool) (E : list id) (self : option id) (l : loc) (m : machine) (r : rloc) (o : id),
  SInv K b E [] m -> resolve self l m = (m, Some r) -> read_loc r m = Some o ->
  (exists x : obj, get m o = Some x /\ o_box x = BAlloc /\ o_vst x = VLive /\ mem_id o (dead m) = false /\ o_ismap x = false) ->
  exists (rc wc : N) (fin : bool),
    cmd_obs self l m = ok (emit (EObs o rc wc fin true) m) ROk /\
    log (cmd_obs self l m).1 = ERes ROk :: EObs o rc wc fin true :: log m.
Proof. exact SafeFinalProps.obs_alive. Qed.
Print Assumptions C01_obs_alive.

(** for a handle stored in a slot the side condition is automatic *)
Theorem C01_obs_alive_slot :
  forall (K : conf) (b : bool) (E : list id) (self : option id) (i : nat) (m : machine) (o : id),
  SInv K b E [] m -> (i < nslots)%nat -> slots m !! i = Some (Some o) ->
  exists (rc wc : N) (fin : bool), cmd_obs self (LS i) m = ok (emit (EObs o rc wc fin true) m) ROk.
Proof. exact SafeFinalProps.obs_alive_slot. Qed.
Print Assumptions C01_obs_alive_slot.

(** ** Program level *)
(** THE safety theorem.  For every configuration [K] (with [cleaners] only together with
    [weak-ptrs], as in Cargo.toml), every program [P] whose Drop impls respect the documented
    contract ([wf_prog]: a Drop impl does not touch the Cc fields of the value being dropped),
    every fuel and every list of top-level commands (in particular every prefix of a program):
    unless the run was cut by fuel exhaustion or aborted (double panic) - the two events that
    make the model state meaningless -, the tested invariant [inv_b] holds (every strong count
    covers every existing handle, nothing reachable dangles, the lifecycle conjuncts), the
    model never detected a use after free, use after drop, double drop, double free, drop of
    an uninitialised value or failed debug assertion ([no_badU]), and the strong counts are
    exact as long as no panic was caught. *)
Theorem C01_safety :
  forall (K : conf) (P : prog) (fuel : nat) (cmds : list cmd),
  (k_clean K = true -> k_weak K = true) -> wf_prog P = true ->
  let m := fold_left (fun m c => exec_top K P fuel c m) cmds (init K) in
  forallb (fun e => match e with EBad Fuel _ | EBad Abort _ => false | _ => true end) (log m) = true ->
  inv_b K [] m = true /\ no_badU m = true /\ (no_panic_yet m = true -> exact_b [] m = true).
Proof. exact SafeFinal.safe_programs_closed. Qed.
Print Assumptions C01_safety.

(** ... and no counter underflow either (with the buffer invariant): the full [Inv.no_bad] *)
Theorem C01_safety_no_bad :
  forall (K : conf) (P : prog) (fuel : nat) (cmds : list cmd),
  (k_clean K = true -> k_weak K = true) -> wf_prog P = true ->
  let m := fold_left (fun m c => exec_top K P fuel c m) cmds (init K) in
  forallb (fun e => match e with EBad Fuel _ | EBad Abort _ => false | _ => true end) (log m) = true ->
  no_bad m = true.
Proof. exact SafeFinal.safe_programs_no_bad. Qed.
Print Assumptions C01_safety_no_bad.

(** the strengthened invariant and the buffer invariant hold in every reached state *)
Theorem C01_safety_sinv :
  forall (K : conf) (P : prog) (fuel : nat) (cmds : list cmd),
  (k_clean K = true -> k_weak K = true) -> wf_prog P = true ->
  let m := fold_left (fun m c => exec_top K P fuel c m) cmds (init K) in
  forallb (fun e => match e with EBad Fuel _ | EBad Abort _ => false | _ => true end) (log m) = true ->
  exists b : bool, no_badU m = true /\ SInv K b [] [] m /\ (no_panic_yet m = true -> b = true) /\
                   BufBase.Ibuf K [] m.
Proof. exact SafeFinal.safe_programs_sinv. Qed.
Print Assumptions C01_safety_sinv.

(** in every reached state, everything reachable from the program's variables through strong
    handles (traced or not, cleaner handles included) is allocated, alive, not being destroyed *)
Theorem C01_program_reach_live :
  forall (K : conf) (P : prog) (fuel : nat) (cmds : list cmd),
  (k_clean K = true -> k_weak K = true) -> wf_prog P = true ->
  forallb (fun e => match e with EBad Fuel _ | EBad Abort _ => false | _ => true end)
          (log (fold_left (fun m c => exec_top K P fuel c m) cmds (init K))) = true ->
  forall o : id, sreach_any (fold_left (fun m c => exec_top K P fuel c m) cmds (init K)) o ->
  exists x : obj, get (fold_left (fun m c => exec_top K P fuel c m) cmds (init K)) o = Some x /\
    o_box x = BAlloc /\ o_vst x = VLive /\
    mem_id o (dead (fold_left (fun m c => exec_top K P fuel c m) cmds (init K))) = false.
Proof. exact SafeFinalProg.prog_reach_live. Qed.
Print Assumptions C01_program_reach_live.

(** ** Pins *)
Check C01_safety :
  forall (K : conf) (P : prog) (fuel : nat) (cmds : list cmd),
  (k_clean K = true -> k_weak K = true) -> wf_prog P = true ->
  let m := fold_left (fun m c => exec_top K P fuel c m) cmds (init K) in
  forallb (fun e => match e with EBad Fuel _ | EBad Abort _ => false | _ => true end) (log m) = true ->
  inv_b K [] m = true /\ no_badU m = true /\ (no_panic_yet m = true -> exact_b [] m = true).
Check C01_safety_no_bad :
  forall (K : conf) (P : prog) (fuel : nat) (cmds : list cmd),
  (k_clean K = true -> k_weak K = true) -> wf_prog P = true ->
  let m := fold_left (fun m c => exec_top K P fuel c m) cmds (init K) in
  forallb (fun e => match e with EBad Fuel _ | EBad Abort _ => false | _ => true end) (log m) = true ->
  no_bad m = true.
Check C01_reach_live :
  forall (K : conf) (E : list id) (m : machine), inv_b K E m = true ->
  forall o : id, sreach m o ->
  exists x : obj, get m o = Some x /\ o_box x = BAlloc /\ o_vst x = VLive /\ mem_id o (dead m) = false.
Check C01_reach_any_live :
  forall (K : conf) (E : list id) (m : machine), inv_b K E m = true ->
  forall o : id, sreach_any m o ->
  exists x : obj, get m o = Some x /\ o_box x = BAlloc /\ o_vst x = VLive /\ mem_id o (dead m) = false.
Check C01_sreach_sreach_any :
  forall (m : machine) (o : id), sreach m o -> sreach_any m o.
Check C01_pass_closed :
  forall (K : conf) (P : prog) (m : machine) (ext : id -> N) (m' : machine) (L : list id),
  PassPre P m ext -> trace_pass K P m = (m', PDone L) ->
  forall o : id, o ∈ L ->
    ext o = 0 /\
    (forall (p : id) (x : obj) (j : nat), get m p = Some x -> o_fields x !! j = Some (Some o) ->
       p ∈ L /\ c_traced (class_of P (o_cls x)) !! j = Some true /\
       o_ismap x = false /\ o_borrowed x = false /\ o_vst x = VLive) /\
    (forall (p : id) (x : obj), get m p = Some x -> o_cleaner x = Some o -> False).
Check C01_untraced_is_external :
  forall (K : conf) (P : prog) (m : machine) (ext : id -> N) (m' : machine) (L : list id),
  PassPre P m ext -> trace_pass K P m = (m', PDone L) ->
  (forall (p : id) (x : obj) (j : nat) (o : id), get m p = Some x -> o_fields x !! j = Some (Some o) ->
     (c_traced (class_of P (o_cls x)) !! j <> Some true \/ o_borrowed x = true \/ o_vst x <> VLive \/
      o_ismap x = true \/ p ∉ L) -> o ∉ L) /\
  (forall (p : id) (x : obj) (o : id), get m p = Some x -> o_cleaner x = Some o -> o ∉ L) /\
  (forall o : id, ext o <> 0 -> o ∉ L).
Check C01_obs_alive :
  forall (K : conf) (b : bool) (E : list id) (self : option id) (l : loc) (m : machine) (r : rloc) (o : id),
  SInv K b E [] m -> resolve self l m = (m, Some r) -> read_loc r m = Some o ->
  (exists x : obj, get m o = Some x /\ o_box x = BAlloc /\ o_vst x = VLive /\ mem_id o (dead m) = false /\ o_ismap x = false) ->
  exists (rc wc : N) (fin : bool),
    cmd_obs self l m = ok (emit (EObs o rc wc fin true) m) ROk /\
    log (cmd_obs self l m).1 = ERes ROk :: EObs o rc wc fin true :: log m.
Check C01_obs_alive_slot :
  forall (K : conf) (b : bool) (E : list id) (self : option id) (i : nat) (m : machine) (o : id),
  SInv K b E [] m -> (i < nslots)%nat -> slots m !! i = Some (Some o) ->
  exists (rc wc : N) (fin : bool), cmd_obs self (LS i) m = ok (emit (EObs o rc wc fin true) m) ROk.
