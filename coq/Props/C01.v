From RC Require Import SafeFinalProps.
