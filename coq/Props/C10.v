(** C10 - "Cleaning actions run at most once, exactly once by the time the Cleaner is gone".
    Statements only; every proof is [exact <lemma of Clean*.v>].

    Model: a registered action is identified by its [aid] (allocated from [next_aid] by
    [cmd_register]), stored as [MAction aid script] in one slot of one CleanerMap object;
    [slot_at m o k] is the content of slot [k] of heap object [o]; an execution is the event
    [ECb KAction aid _], [executed_aids (log m)] lists the aids executed so far.

    Out of fuel ([OFuel]) is an artefact of the fuelled model: an activation cut short by it may
    have vacated a slot without having logged the execution yet; the invariant [CI] holds even
    then, the "has run" conclusions are for the other outcomes. *)
From Coq Require Import NArith Bool List.
From stdpp Require Import base list option.
From RecordUpdate Require Import RecordSet.
From RC Require Import Hdr Machine RunInd Clean CleanFrame CleanStep CleanStep2 CleanThm CleanLog CleanReg.
Import ListNotations RecordSetNotations.

(** The invariant [CI], spelled out, after every program (all K, P, fuel, command lists; panics,
    aborts and fuel exhaustion included):
    (a) stored aids are [< next_aid]; (b) an aid is stored in at most one slot of at most one
    object (also: [NoDup (all_aids m)]); (c) no stored aid has been executed; (d) every aid has
    been executed at most once; (e) executed aids are [< next_aid]; (f) only maps have slots,
    the free list is duplicate-free and names vacant slots, a Cleaner names a map. *)
Theorem C10_invariant : forall K P fuel cmds,
  let m := fold_left (fun m c => exec_top K P fuel c m) cmds (init K) in
  CI_spelled m /\ NoDup (all_aids m).
Proof. exact prog_CI_spelled. Qed.
Print Assumptions C10_invariant.

(** The pre/post-conditions established by [RunInd.run_ind] for every activation:
    [Pre]: [CI]; for [KCleanRun mo aid s] moreover [aid] is stored nowhere, not executed and
    [< next_aid].  [Post]: [CI] afterwards, [next_aid] and the executed aids only grow, every
    stored action was stored in the same slot before or is new ([K2]) and - unless out of fuel -
    every action stored before is still in its slot or has been executed ([K1]); [KCleanRun]:
    the aid has been executed; [KDropMapSlots o j] / [KDropValue o] (map, live) returning or
    unwinding: the slots of [o] from [j] / all slots have been vacated ([DMS]). *)
Theorem C10_run : forall K P n c m,
  Pre c m -> Post c m (run K P n c m).1 (run K P n c m).2.
Proof. exact run_clean. Qed.
Print Assumptions C10_run.

(** Theorem 1. Each action runs at most once, ever. *)
Theorem C10_once : forall K P fuel cmds,
  let m := fold_left (fun m c => exec_top K P fuel c m) cmds (init K) in
  NoDup (executed_aids (log m)).
Proof. exact CleanThm.C10_once. Qed.
Print Assumptions C10_once.

Theorem C10_stored_not_run : forall K P fuel cmds,
  let m := fold_left (fun m c => exec_top K P fuel c m) cmds (init K) in
  forall o k a s, slot_at m o k = Some (MAction a s) -> a ∉ executed_aids (log m).
Proof. exact CleanThm.C10_stored_not_run. Qed.
Print Assumptions C10_stored_not_run.

(** Theorem 2. Dropping a Cleanable neither runs nor cancels its action. *)
Theorem C10_cdrop_neutral : forall K self c m,
  let m' := (cmd_c_drop K self c m).1 in
  quiet_ext (log m) (log m') /\
  executed_aids (log m') = executed_aids (log m) /\
  (o_mslots <$> heap m') = (o_mslots <$> heap m) /\
  (o_mfree <$> heap m') = (o_mfree <$> heap m) /\
  next_aid m' = next_aid m.
Proof. exact CleanThm.C10_cdrop_neutral. Qed.
Print Assumptions C10_cdrop_neutral.

(** Theorem 3. [clean()] on a Cleanable whose slot no longer holds its action (it has run, or
    the map is gone) is a no-op. *)
Theorem C10_clean_after_noop : forall K P fuel self c m cr,
  mjoin (cslots m !! c) = Some cr ->
  ((weak_strong_count (WTo (cr_map cr)) m).2 = 0%N \/
   (forall mx s, get m (cr_map cr) = Some mx ->
                 o_mslots mx !! cr_slot cr <> Some (MAction (cr_aid cr) s))) ->
  let m' := (run K P fuel (KCmd self (CClean c)) m).1 in
  executed_aids (log m') = executed_aids (log m) /\
  (o_mslots <$> heap m') = (o_mslots <$> heap m) /\
  (o_mfree <$> heap m') = (o_mfree <$> heap m) /\
  next_aid m' = next_aid m.
Proof. exact CleanThm.C10_clean_after_noop. Qed.
Print Assumptions C10_clean_after_noop.

Theorem C10_clean_after_noop_events : forall K P fuel self c m cr,
  mjoin (cslots m !! c) = Some cr ->
  ((weak_strong_count (WTo (cr_map cr)) m).2 = 0%N \/
   (forall mx s, get m (cr_map cr) = Some mx ->
                 o_mslots mx !! cr_slot cr <> Some (MAction (cr_aid cr) s))) ->
  quiet_ext (log m) (log (run K P fuel (KCmd self (CClean c)) m).1).
Proof. exact CleanLog.C10_clean_after_noop_events. Qed.
Print Assumptions C10_clean_after_noop_events.

(** Theorem 4. When the drop of a live map value returns - normally or unwinding from a
    panicking action - every action that was stored in it has run exactly once
    ([count_occ = 1], and not before), and every slot of the map is vacant.
    [drained m m' o] :=
       CI m' /\
       (forall k a s, slot_at m' o k = Some (MAction a s) -> next_aid m <= a) /\
       (forall k a s, slot_at m o k = Some (MAction a s) ->
          a ∉ executed_aids (log m) /\ count_occ Nat.eq_dec (executed_aids (log m')) a = 1).
    [all_vacant m' o] := forall k sl, slot_at m' o k = Some sl -> sl = MVacant.
    [unlinked_m m o] (no Cleaner field names [o]) is the state in which the crate drops a map
    value ([C10_cleaner_drop_unlinked]); without it "every slot is vacant" is false in the model
    ([CleanEx.ex_linked_drop_refills]) and only [C10_drop_runs_all_partial] holds. *)
Theorem C10_drop_runs_all : forall K P rec o m x,
  rec_ok Pre Post rec -> CI m ->
  get m o = Some x -> o_ismap x = true -> o_vst x = VLive -> unlinked_m m o ->
  let m' := (step_drop_value K P rec o m).1 in
  let r := (step_drop_value K P rec o m).2 in
  (r = ONormal \/ r = OPanic) -> drained m m' o /\ all_vacant m' o.
Proof. exact CleanThm.C10_drop_runs_all. Qed.
Print Assumptions C10_drop_runs_all.

Theorem C10_drop_runs_all_partial : forall K P rec o m x,
  rec_ok Pre Post rec -> CI m ->
  get m o = Some x -> o_ismap x = true -> o_vst x = VLive ->
  let m' := (step_drop_value K P rec o m).1 in
  let r := (step_drop_value K P rec o m).2 in
  (r = ONormal \/ r = OPanic) -> drained m m' o.
Proof. exact CleanThm.C10_drop_runs_all_partial. Qed.
Print Assumptions C10_drop_runs_all_partial.

Theorem C10_drained_vacant : forall m m' o,
  drained m m' o -> next_aid m' = next_aid m ->
  forall k sl, slot_at m' o k = Some sl -> sl = MVacant.
Proof. exact drained_vacant. Qed.
Print Assumptions C10_drained_vacant.

(** The Cleaner's drop: its field is cleared, then its handle on the map is released
    ([Cc::drop], [KDropCc t]) in a state where no Cleaner names the map. *)
Theorem C10_cleaner_drop_unlinked : forall rec o j m x t,
  CI m -> get m o = Some x -> ~ (j < length (o_fields x)) -> o_cleaner x = Some t ->
  exists m1, step_drop_fields rec o j m = rec (KDropCc t) m1 /\
             CI m1 /\ unlinked_m m1 t /\
             (forall k, slot_at m1 t k = slot_at m t k) /\
             executed_aids (log m1) = executed_aids (log m) /\ next_aid m1 = next_aid m.
Proof. exact CleanThm.C10_cleaner_drop_unlinked. Qed.
Print Assumptions C10_cleaner_drop_unlinked.

(** Theorem 5 (partial: the last handle).  [Cc::drop] of the last handle on a live map - the
    Cleaner's, unless F5 - returns only after all its actions have run exactly once; all slots
    are then vacant. *)
Theorem C10_exactly_partial : forall K P rec mo m x,
  rec_ok Pre Post rec -> CI m ->
  get m mo = Some x -> o_ismap x = true -> o_vst x = VLive ->
  h_rc (o_hdr x) = 1%N -> is_in_list_or_queue (o_hdr x) = false -> unlinked_m m mo ->
  let m' := (step_drop_cc K P rec mo m).1 in
  (step_drop_cc K P rec mo m).2 = ONormal -> drained m m' mo /\ all_vacant m' mo.
Proof. exact CleanThm.C10_exactly_partial. Qed.
Print Assumptions C10_exactly_partial.

(** [register] never loses a registered action (finding F6, fixed: [Cleaner::register] used to
    overwrite - and thereby drop, running its actions - a map created by a nested [register]
    that the collection started by its own [Cc::new] had run on the same Cleaner).  After a
    successful [register] (outcome [ONormal], result [ROk]) the owner's Cleaner names a map that
    holds the new action, whose aid is the last one allocated and not older than the call; the
    invariant holds; and every action registered anywhere before the call - in particular in
    the map this owner's Cleaner named - is still in its slot or has been executed. *)
Theorem C10_register_reentrant : forall K P n self nd script c m,
  CI m ->
  let X := run K P (S n) (KCmd self (CRegister nd script c)) m in
  X.2 = ONormal -> head (log X.1) = Some (ERes ROk) ->
  (exists o x' mo slot aid,
      (nresolve self nd m).2 = Some o /\
      get X.1 o = Some x' /\ o_cleaner x' = Some mo /\
      slot_at X.1 mo slot = Some (MAction aid script) /\
      next_aid X.1 = S aid /\ next_aid m <= aid) /\
  CI X.1 /\
  (forall o' k a s, slot_at m o' k = Some (MAction a s) ->
                    slot_at X.1 o' k = Some (MAction a s) \/ a ∈ executed_aids (log X.1)).
Proof. exact CleanReg.C10_register_reentrant. Qed.
Print Assumptions C10_register_reentrant.

(** Known finding F5: with a [clean()] of the same map in progress the Cleaner's handle is not
    the last one; the remaining actions run after the owner's drop has returned. *)
Example C10_refuted_F5 :
  f5_trace =
  [ ECb KAction 0 (Flags false false false false);
    ECb KDrop 0 (Flags false false true false);
    EFree 0 200 8;
    ECb KAction 1 (Flags false false true false);
    EFree 1 80 8 ]
  /\ ~ In (EBad Fuel 0) (log (run_main f5_conf f5_prog 40 (init f5_conf))).
Proof. exact CleanThm.C10_refuted_F5. Qed.
Print Assumptions C10_refuted_F5.

Check C10_invariant : forall K P fuel cmds,
  let m := fold_left (fun m c => exec_top K P fuel c m) cmds (init K) in
  CI_spelled m /\ NoDup (all_aids m).
Check C10_run : forall K P n c m, Pre c m -> Post c m (run K P n c m).1 (run K P n c m).2.
Check C10_once : forall K P fuel cmds,
  let m := fold_left (fun m c => exec_top K P fuel c m) cmds (init K) in
  NoDup (executed_aids (log m)).
Check C10_cdrop_neutral : forall K self c m,
  let m' := (cmd_c_drop K self c m).1 in
  quiet_ext (log m) (log m') /\
  executed_aids (log m') = executed_aids (log m) /\
  (o_mslots <$> heap m') = (o_mslots <$> heap m) /\
  (o_mfree <$> heap m') = (o_mfree <$> heap m) /\
  next_aid m' = next_aid m.
Check C10_clean_after_noop : forall K P fuel self c m cr,
  mjoin (cslots m !! c) = Some cr ->
  ((weak_strong_count (WTo (cr_map cr)) m).2 = 0%N \/
   (forall mx s, get m (cr_map cr) = Some mx ->
                 o_mslots mx !! cr_slot cr <> Some (MAction (cr_aid cr) s))) ->
  let m' := (run K P fuel (KCmd self (CClean c)) m).1 in
  executed_aids (log m') = executed_aids (log m) /\
  (o_mslots <$> heap m') = (o_mslots <$> heap m) /\
  (o_mfree <$> heap m') = (o_mfree <$> heap m) /\
  next_aid m' = next_aid m.
Check C10_drop_runs_all : forall K P rec o m x,
  rec_ok Pre Post rec -> CI m ->
  get m o = Some x -> o_ismap x = true -> o_vst x = VLive -> unlinked_m m o ->
  let m' := (step_drop_value K P rec o m).1 in
  let r := (step_drop_value K P rec o m).2 in
  (r = ONormal \/ r = OPanic) -> drained m m' o /\ all_vacant m' o.
Check C10_cleaner_drop_unlinked : forall rec o j m x t,
  CI m -> get m o = Some x -> ~ (j < length (o_fields x)) -> o_cleaner x = Some t ->
  exists m1, step_drop_fields rec o j m = rec (KDropCc t) m1 /\
             CI m1 /\ unlinked_m m1 t /\
             (forall k, slot_at m1 t k = slot_at m t k) /\
             executed_aids (log m1) = executed_aids (log m) /\ next_aid m1 = next_aid m.
Check C10_exactly_partial : forall K P rec mo m x,
  rec_ok Pre Post rec -> CI m ->
  get m mo = Some x -> o_ismap x = true -> o_vst x = VLive ->
  h_rc (o_hdr x) = 1%N -> is_in_list_or_queue (o_hdr x) = false -> unlinked_m m mo ->
  let m' := (step_drop_cc K P rec mo m).1 in
  (step_drop_cc K P rec mo m).2 = ONormal -> drained m m' mo /\ all_vacant m' mo.
Check C10_register_reentrant : forall K P n self nd script c m,
  CI m ->
  let X := run K P (S n) (KCmd self (CRegister nd script c)) m in
  X.2 = ONormal -> head (log X.1) = Some (ERes ROk) ->
  (exists o x' mo slot aid,
      (nresolve self nd m).2 = Some o /\
      get X.1 o = Some x' /\ o_cleaner x' = Some mo /\
      slot_at X.1 mo slot = Some (MAction aid script) /\
      next_aid X.1 = S aid /\ next_aid m <= aid) /\
  CI X.1 /\
  (forall o' k a s, slot_at m o' k = Some (MAction a s) ->
                    slot_at X.1 o' k = Some (MAction a s) \/ a ∈ executed_aids (log X.1)).
