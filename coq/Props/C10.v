(** C10 - "Cleaning actions run at most once, exactly once by the time the Cleaner is gone".
    Statements only; every proof is [exact <lemma of Clean*.v>].

    Model: a registered action is identified by its [aid] (allocated from [next_aid] by
    [cmd_register]), stored as [MAction aid script] in one slot of one CleanerMap object;
    [slot_at m o k] is the content of slot [k] of heap object [o]; an execution is the event
    [ECb KAction aid _], [executed_aids (log m)] lists the aids executed so far.

    Out of fuel ([OFuel]) is an artefact of the fuelled model: an activation cut short by it may
    have vacated a slot without having logged the execution yet; the invariant [CI] holds even
    then, the "has run" conclusions are for the other outcomes. *)
From Coq Require Import NArith Bool List.
From stdpp Require Import base list option.
From RecordUpdate Require Import RecordSet.
From RC Require Import Hdr Machine RunInd Clean CleanFrame CleanStep CleanStep2 CleanThm CleanLog CleanReg.
From RC Require Inv InvP SafeMain SafeColl Life.
From RC Require Import CleanSafe CleanU CleanUStep CleanUStep2 CleanUChk CleanUThm.
Import ListNotations RecordSetNotations.

(** The invariant [CI], spelled out, after every program (all K, P, fuel, command lists; panics,
    aborts and fuel exhaustion included):
    (a) stored aids are [< next_aid]; (b) an aid is stored in at most one slot of at most one
    object (also: [NoDup (all_aids m)]); (c) no stored aid has been executed; (d) every aid has
    been executed at most once; (e) executed aids are [< next_aid]; (f) only maps have slots,
    the free list is duplicate-free and names vacant slots, a Cleaner names a map. *)
Theorem C10_invariant : forall K P fuel cmds,
  let m := fold_left (fun m c => exec_top K P fuel c m) cmds (init K) in
  CI_spelled m /\ NoDup (all_aids m).
Proof. exact prog_CI_spelled. Qed.
Print Assumptions C10_invariant.

(** The pre/post-conditions established by [RunInd.run_ind] for every activation:
    [Pre]: [CI]; for [KCleanRun mo aid s] moreover [aid] is stored nowhere, not executed and
    [< next_aid].  [Post]: [CI] afterwards, [next_aid] and the executed aids only grow, every
    stored action was stored in the same slot before or is new ([K2]) and - unless out of fuel -
    every action stored before is still in its slot or has been executed ([K1]); [KCleanRun]:
    the aid has been executed; [KDropMapSlots o j] / [KDropValue o] (map, live) returning or
    unwinding: the slots of [o] from [j] / all slots have been vacated ([DMS]). *)
Theorem C10_run : forall K P n c m,
  Pre c m -> Post c m (run K P n c m).1 (run K P n c m).2.
Proof. exact run_clean. Qed.
Print Assumptions C10_run.

(** Theorem 1. Each action runs at most once, ever. *)
Theorem C10_once : forall K P fuel cmds,
  let m := fold_left (fun m c => exec_top K P fuel c m) cmds (init K) in
  NoDup (executed_aids (log m)).
Proof. exact CleanThm.C10_once. Qed.
Print Assumptions C10_once.

Theorem C10_stored_not_run : forall K P fuel cmds,
  let m := fold_left (fun m c => exec_top K P fuel c m) cmds (init K) in
  forall o k a s, slot_at m o k = Some (MAction a s) -> a ∉ executed_aids (log m).
Proof. exact CleanThm.C10_stored_not_run. Qed.
Print Assumptions C10_stored_not_run.

(** Theorem 2. Dropping a Cleanable neither runs nor cancels its action. *)
Theorem C10_cdrop_neutral : forall K self c m,
  let m' := (cmd_c_drop K self c m).1 in
  quiet_ext (log m) (log m') /\
  executed_aids (log m') = executed_aids (log m) /\
  (o_mslots <$> heap m') = (o_mslots <$> heap m) /\
  (o_mfree <$> heap m') = (o_mfree <$> heap m) /\
  next_aid m' = next_aid m.
Proof. exact CleanThm.C10_cdrop_neutral. Qed.
Print Assumptions C10_cdrop_neutral.

(** Theorem 3. [clean()] on a Cleanable whose slot no longer holds its action (it has run, or
    the map is gone) is a no-op. *)
Theorem C10_clean_after_noop : forall K P fuel self c m cr,
  mjoin (cslots m !! c) = Some cr ->
  ((weak_strong_count (WTo (cr_map cr)) m).2 = 0%N \/
   (forall mx s, get m (cr_map cr) = Some mx ->
                 o_mslots mx !! cr_slot cr <> Some (MAction (cr_aid cr) s))) ->
  let m' := (run K P fuel (KCmd self (CClean c)) m).1 in
  executed_aids (log m') = executed_aids (log m) /\
  (o_mslots <$> heap m') = (o_mslots <$> heap m) /\
  (o_mfree <$> heap m') = (o_mfree <$> heap m) /\
  next_aid m' = next_aid m.
Proof. exact CleanThm.C10_clean_after_noop. Qed.
Print Assumptions C10_clean_after_noop.

Theorem C10_clean_after_noop_events : forall K P fuel self c m cr,
  mjoin (cslots m !! c) = Some cr ->
  ((weak_strong_count (WTo (cr_map cr)) m).2 = 0%N \/
   (forall mx s, get m (cr_map cr) = Some mx ->
                 o_mslots mx !! cr_slot cr <> Some (MAction (cr_aid cr) s))) ->
  quiet_ext (log m) (log (run K P fuel (KCmd self (CClean c)) m).1).
Proof. exact CleanLog.C10_clean_after_noop_events. Qed.
Print Assumptions C10_clean_after_noop_events.

(** Theorem 4. When the drop of a live map value returns - normally or unwinding from a
    panicking action - every action that was stored in it has run exactly once
    ([count_occ = 1], and not before), and every slot of the map is vacant.
    [drained m m' o] :=
       CI m' /\
       (forall k a s, slot_at m' o k = Some (MAction a s) -> next_aid m <= a) /\
       (forall k a s, slot_at m o k = Some (MAction a s) ->
          a ∉ executed_aids (log m) /\ count_occ Nat.eq_dec (executed_aids (log m')) a = 1).
    [all_vacant m' o] := forall k sl, slot_at m' o k = Some sl -> sl = MVacant.
    [unlinked_m m o] (no Cleaner field names [o]) is the state in which the crate drops a map
    value ([C10_cleaner_drop_unlinked]); without it "every slot is vacant" is false in the model
    ([CleanEx.ex_linked_drop_refills]) and only [C10_drop_runs_all_partial] holds. *)
Theorem C10_drop_runs_all : forall K P rec o m x,
  rec_ok Pre Post rec -> CI m ->
  get m o = Some x -> o_ismap x = true -> o_vst x = VLive -> unlinked_m m o ->
  let m' := (step_drop_value K P rec o m).1 in
  let r := (step_drop_value K P rec o m).2 in
  (r = ONormal \/ r = OPanic) -> drained m m' o /\ all_vacant m' o.
Proof. exact CleanThm.C10_drop_runs_all. Qed.
Print Assumptions C10_drop_runs_all.

Theorem C10_drop_runs_all_partial : forall K P rec o m x,
  rec_ok Pre Post rec -> CI m ->
  get m o = Some x -> o_ismap x = true -> o_vst x = VLive ->
  let m' := (step_drop_value K P rec o m).1 in
  let r := (step_drop_value K P rec o m).2 in
  (r = ONormal \/ r = OPanic) -> drained m m' o.
Proof. exact CleanThm.C10_drop_runs_all_partial. Qed.
Print Assumptions C10_drop_runs_all_partial.

Theorem C10_drained_vacant : forall m m' o,
  drained m m' o -> next_aid m' = next_aid m ->
  forall k sl, slot_at m' o k = Some sl -> sl = MVacant.
Proof. exact drained_vacant. Qed.
Print Assumptions C10_drained_vacant.

(** The Cleaner's drop: its field is cleared, then its handle on the map is released
    ([Cc::drop], [KDropCc t]) in a state where no Cleaner names the map. *)
Theorem C10_cleaner_drop_unlinked : forall rec o j m x t,
  CI m -> get m o = Some x -> ~ (j < length (o_fields x)) -> o_cleaner x = Some t ->
  exists m1, step_drop_fields rec o j m = rec (KDropCc t) m1 /\
             CI m1 /\ unlinked_m m1 t /\
             (forall k, slot_at m1 t k = slot_at m t k) /\
             executed_aids (log m1) = executed_aids (log m) /\ next_aid m1 = next_aid m.
Proof. exact CleanThm.C10_cleaner_drop_unlinked. Qed.
Print Assumptions C10_cleaner_drop_unlinked.

(** Theorem 5 (partial: the last handle).  [Cc::drop] of the last handle on a live map - the
    Cleaner's, unless F5 - returns only after all its actions have run exactly once; all slots
    are then vacant. *)
Theorem C10_exactly_partial : forall K P rec mo m x,
  rec_ok Pre Post rec -> CI m ->
  get m mo = Some x -> o_ismap x = true -> o_vst x = VLive ->
  h_rc (o_hdr x) = 1%N -> is_in_list_or_queue (o_hdr x) = false -> unlinked_m m mo ->
  let m' := (step_drop_cc K P rec mo m).1 in
  (step_drop_cc K P rec mo m).2 = ONormal -> drained m m' mo /\ all_vacant m' mo.
Proof. exact CleanThm.C10_exactly_partial. Qed.
Print Assumptions C10_exactly_partial.

(** [register] never loses a registered action (finding F6, fixed: [Cleaner::register] used to
    overwrite - and thereby drop, running its actions - a map created by a nested [register]
    that the collection started by its own [Cc::new] had run on the same Cleaner).  After a
    successful [register] (outcome [ONormal], result [ROk]) the owner's Cleaner names a map that
    holds the new action, whose aid is the last one allocated and not older than the call; the
    invariant holds; and every action registered anywhere before the call - in particular in
    the map this owner's Cleaner named - is still in its slot or has been executed. *)
Theorem C10_register_reentrant : forall K P n self nd script c m,
  CI m ->
  let X := run K P (S n) (KCmd self (CRegister nd script c)) m in
  X.2 = ONormal -> head (log X.1) = Some (ERes ROk) ->
  (exists o x' mo slot aid,
      (nresolve self nd m).2 = Some o /\
      get X.1 o = Some x' /\ o_cleaner x' = Some mo /\
      slot_at X.1 mo slot = Some (MAction aid script) /\
      next_aid X.1 = S aid /\ next_aid m <= aid) /\
  CI X.1 /\
  (forall o' k a s, slot_at m o' k = Some (MAction a s) ->
                    slot_at X.1 o' k = Some (MAction a s) \/ a ∈ executed_aids (log X.1)).
Proof. exact CleanReg.C10_register_reentrant. Qed.
Print Assumptions C10_register_reentrant.

(** Known finding F5: with a [clean()] of the same map in progress the Cleaner's handle is not
    the last one; the remaining actions run after the owner's drop has returned. *)
Example C10_refuted_F5 :
  f5_trace =
  [ ECb KAction 0 (Flags false false false false);
    ECb KDrop 0 (Flags false false true false);
    EFree 0 200 8;
    ECb KAction 1 (Flags false false true false);
    EFree 1 80 8 ]
  /\ ~ In (EBad Fuel 0) (log (run_main f5_conf f5_prog 40 (init f5_conf))).
Proof. exact CleanThm.C10_refuted_F5. Qed.
Print Assumptions C10_refuted_F5.

(** ** Follow-up: never lost; the count layer at the drop of a map value; F5 in numbers

    Program level (partial answer to "exactly once by the time the map is gone"): in every run
    that did not run out of fuel - panics and aborts included - every aid allocated so far is
    either stored in exactly one slot and has not run, or has run exactly once and is stored
    nowhere.  No action is ever lost or run twice.  What is NOT proved at program level: "a map
    whose box is freed has all slots vacant"; [o_box]/[o_vst] are outside the cleaner view, the
    statement is proved per activation instead ([C10_drop_value_post]: when the drop of a map
    value returns, all slots are vacant, and by [KU] of [C10_run] a map that no Cleaner names
    never receives an action again). *)
Theorem C10_exactly_prog_partial : forall K P fuel cmds,
  let m := fold_left (fun m c => exec_top K P fuel c m) cmds (init K) in
  fuel_free m ->
  forall a, a < next_aid m ->
    (stored m a /\ a ∉ executed_aids (log m)) \/
    (count_occ Nat.eq_dec (executed_aids (log m)) a = 1 /\ ~ stored m a).
Proof. exact C10_never_lost. Qed.
Print Assumptions C10_exactly_prog_partial.

(** (1), local form: the pre-condition that [SafeFinal.run_okQ] establishes at the entry of
    every [KDropValue] activation implies that no Cleaner names the value - unless the value is
    dropped by the collector's drop pass (member of the dying set); that case is covered by
    [C10_nested_inv] ([KDropList]: no Cleaner names a member, from [PassMain.pass_closed]). *)
Theorem C10_drop_value_unlinked_partial : forall K b E o m,
  InvP.Pre K (SafeColl.PreC K) b E (KDropValue o) m -> InvP.inD m o = false -> unlinked_m m o.
Proof. exact CleanSafe.C10_drop_value_unlinked_partial. Qed.
Print Assumptions C10_drop_value_unlinked_partial.

(** (1) at every nested activation of every safe run: the strengthened pre/post-conditions
    ([PreU] / [PostU] modulo the marker [mu], see CleanU.v and CleanUThm.v) hold of
    [Life.mrun], the interpreter that marks activations starting outside the pre-conditions of
    the count layer; no marker is ever set along a clean run of a well-formed program; and the
    same for [run], per activation. *)
Theorem C10_nested_inv : forall K P mu n,
  rec_ok (Pre2 mu) (Post2 mu) (Life.mrun K P (chkU K P) mu n).
Proof. exact CleanUThm.C10_nested_inv. Qed.
Print Assumptions C10_nested_inv.

Theorem C10_marked_never : forall K P,
  (k_clean K = true -> k_weak K = true) -> Inv.wf_prog P = true ->
  forall mu fuel cmds,
  let m := fold_left (fun m c => exec_top K P fuel c m) cmds (init K) in
  SafeMain.clean m = true -> length (heap m) <= mu ->
  fold_left (fun m0 c => Life.mexec_top K P (chkU K P) mu fuel c m0) cmds (init K) = m.
Proof. exact CleanUThm.C10_marked_never. Qed.
Print Assumptions C10_marked_never.

Theorem C10_nested_run : forall K P mu n c m,
  Inv.mem_id mu (dead m) = false -> PreU c m ->
  exists t, Life.MKmu mu t /\
    (Inv.mem_id mu (dead (run K P n c m).1 ++ t) = true \/
     PostU c m (run K P n c m).1 (run K P n c m).2).
Proof. exact CleanUThm.C10_nested_run. Qed.
Print Assumptions C10_nested_run.

(** what [PreU] / [PostU] say when a map value is dropped: no Cleaner names it; afterwards every
    action that was stored in it has run exactly once and every slot is vacant *)
Theorem C10_drop_value_unlinked : forall c m o,
  c = KDropValue o -> PreU c m -> forall x, get m o = Some x -> o_ismap x = true -> unlinked_m m o.
Proof. exact CleanUThm.C10_drop_value_unlinked. Qed.
Print Assumptions C10_drop_value_unlinked.

Theorem C10_drop_value_post : forall m m' r o x,
  PreU (KDropValue o) m -> PostU (KDropValue o) m m' r ->
  get m o = Some x -> o_ismap x = true -> o_vst x = VLive -> (r = ONormal \/ r = OPanic) ->
  drained m m' o /\ all_vacant m' o.
Proof. exact CleanUThm.C10_drop_value_post. Qed.
Print Assumptions C10_drop_value_post.

(** (2), at the Cleaner's drop, F5-aware.  With exact counts (no panic so far) the strong count
    of the map, when the Cleaner's handle is released, is 1 + the number of handles on it held
    by active frames (upgraded handles of [clean()] calls in progress). *)
Theorem C10_cleaner_handle_count : forall K E t m x,
  InvP.Pre K (SafeColl.PreC K) true E (KDropCc t) m -> get m t = Some x -> o_ismap x = true ->
  unlinked_m m t -> h_rc (o_hdr x) = N.of_nat (S (Inv.cnt_id t E)).
Proof. exact CleanSafe.C10_cleaner_handle_count. Qed.
Print Assumptions C10_cleaner_handle_count.

Theorem C10_cleaner_drop_exactly : forall K P n E o j m x t,
  CI m -> get m o = Some x -> ~ (j < length (o_fields x)) -> o_cleaner x = Some t ->
  exists m1,
    run K P (S (S n)) (KDropFields o j) m = step_drop_cc K P (run K P n) t m1 /\
    CI m1 /\ unlinked_m m1 t /\ (forall k, slot_at m1 t k = slot_at m t k) /\
    executed_aids (log m1) = executed_aids (log m) /\ next_aid m1 = next_aid m /\
    forall xt, InvP.Pre K (SafeColl.PreC K) true E (KDropCc t) m1 ->
      get m1 t = Some xt -> o_ismap xt = true ->
      let X := run K P (S (S n)) (KDropFields o j) m in
      (Inv.cnt_id t E = 0%nat -> o_vst xt = VLive -> is_in_list_or_queue (o_hdr xt) = false ->
       X.2 = ONormal -> drained m1 X.1 t /\ all_vacant X.1 t) /\
      ((0 < Inv.cnt_id t E)%nat -> cv X.1 = cv m1).
Proof. exact CleanSafe.C10_cleaner_drop_exactly. Qed.
Print Assumptions C10_cleaner_drop_exactly.

Check C10_invariant : forall K P fuel cmds,
  let m := fold_left (fun m c => exec_top K P fuel c m) cmds (init K) in
  CI_spelled m /\ NoDup (all_aids m).
Check C10_run : forall K P n c m, Pre c m -> Post c m (run K P n c m).1 (run K P n c m).2.
Check C10_once : forall K P fuel cmds,
  let m := fold_left (fun m c => exec_top K P fuel c m) cmds (init K) in
  NoDup (executed_aids (log m)).
Check C10_cdrop_neutral : forall K self c m,
  let m' := (cmd_c_drop K self c m).1 in
  quiet_ext (log m) (log m') /\
  executed_aids (log m') = executed_aids (log m) /\
  (o_mslots <$> heap m') = (o_mslots <$> heap m) /\
  (o_mfree <$> heap m') = (o_mfree <$> heap m) /\
  next_aid m' = next_aid m.
Check C10_clean_after_noop : forall K P fuel self c m cr,
  mjoin (cslots m !! c) = Some cr ->
  ((weak_strong_count (WTo (cr_map cr)) m).2 = 0%N \/
   (forall mx s, get m (cr_map cr) = Some mx ->
                 o_mslots mx !! cr_slot cr <> Some (MAction (cr_aid cr) s))) ->
  let m' := (run K P fuel (KCmd self (CClean c)) m).1 in
  executed_aids (log m') = executed_aids (log m) /\
  (o_mslots <$> heap m') = (o_mslots <$> heap m) /\
  (o_mfree <$> heap m') = (o_mfree <$> heap m) /\
  next_aid m' = next_aid m.
Check C10_drop_runs_all : forall K P rec o m x,
  rec_ok Pre Post rec -> CI m ->
  get m o = Some x -> o_ismap x = true -> o_vst x = VLive -> unlinked_m m o ->
  let m' := (step_drop_value K P rec o m).1 in
  let r := (step_drop_value K P rec o m).2 in
  (r = ONormal \/ r = OPanic) -> drained m m' o /\ all_vacant m' o.
Check C10_cleaner_drop_unlinked : forall rec o j m x t,
  CI m -> get m o = Some x -> ~ (j < length (o_fields x)) -> o_cleaner x = Some t ->
  exists m1, step_drop_fields rec o j m = rec (KDropCc t) m1 /\
             CI m1 /\ unlinked_m m1 t /\
             (forall k, slot_at m1 t k = slot_at m t k) /\
             executed_aids (log m1) = executed_aids (log m) /\ next_aid m1 = next_aid m.
Check C10_exactly_partial : forall K P rec mo m x,
  rec_ok Pre Post rec -> CI m ->
  get m mo = Some x -> o_ismap x = true -> o_vst x = VLive ->
  h_rc (o_hdr x) = 1%N -> is_in_list_or_queue (o_hdr x) = false -> unlinked_m m mo ->
  let m' := (step_drop_cc K P rec mo m).1 in
  (step_drop_cc K P rec mo m).2 = ONormal -> drained m m' mo /\ all_vacant m' mo.
Check C10_register_reentrant : forall K P n self nd script c m,
  CI m ->
  let X := run K P (S n) (KCmd self (CRegister nd script c)) m in
  X.2 = ONormal -> head (log X.1) = Some (ERes ROk) ->
  (exists o x' mo slot aid,
      (nresolve self nd m).2 = Some o /\
      get X.1 o = Some x' /\ o_cleaner x' = Some mo /\
      slot_at X.1 mo slot = Some (MAction aid script) /\
      next_aid X.1 = S aid /\ next_aid m <= aid) /\
  CI X.1 /\
  (forall o' k a s, slot_at m o' k = Some (MAction a s) ->
                    slot_at X.1 o' k = Some (MAction a s) \/ a ∈ executed_aids (log X.1)).
