(** C13 - "[Cc::try_unwrap] returns the value exactly when the caller is the only owner and no
    collector phase is running; then the value is moved out (not dropped), the allocation is freed
    at once and Weak handles see a dead target; otherwise nothing changes".
    Statements only; every proof is [exact <lemma of SafeProps.v>].  State-level ([SInv], [NoBad]
    of InvP.v), for every configuration [K]. *)
From Coq Require Import NArith Bool List Lia.
From stdpp Require Import base list option.
From RecordUpdate Require Import RecordSet.
From RC Require Import Hdr Machine RunInd Inv InvP SafeMain SafeProps Pass PassMain SafeFinalPropsA SafeFinalProps.
Import ListNotations RecordSetNotations.
Local Open Scope N_scope.

(** uniquely owned, no collector phase: Ok; the log only grows by allocator events (no callback
    runs, in particular no Drop), the box is freed with its layout, the value is [VMoved] and
    recorded in the value slot, a surviving side record is no longer accessible, the object left the
    buffer *)
Theorem C13_try_unwrap_ok :
  forall (K : conf) (b : bool) (E : list id) (self : option id) (l : loc) (v : nat) (m : machine) (r : rloc)
         (o : id) (x : obj),
  NoBad m -> SInv K b E [] m -> resolve self l m = (m, Some r) -> values m !! v = Some None ->
  read_loc r m = Some o -> get m o = Some x -> o_box x = BAlloc -> h_rc (o_hdr x) = 1 ->
  st_collecting m || st_dropping m || (k_fin K && st_finalizing m) = false ->
  exists mf : machine, cmd_try_unwrap K self l v m = ok mf RUnwrapOk /\
    (exists l' : list event, log mf = l' ++ log m /\
       forallb (fun e : event => match e with EFree _ _ _ | ESFree _ | EBad _ _ => true | _ => false end) l' = true) /\
    In (EFree o (box_layout K x).1 (box_layout K x).2) (log mf) /\
    (exists y : obj, get mf o = Some y /\ o_vst y = VMoved /\ o_box y = BFreed /\
               (forall s : side, o_side y = Some s -> sd_freed s = false -> w_acc (sd_wk s) = false)) /\
    o ∉ pc mf /\ values mf !! v = Some (Some o).
Proof. exact SafeProps.try_unwrap_ok. Qed.
Print Assumptions C13_try_unwrap_ok.

(** not uniquely owned, or a collector phase is running: Err, the state is unchanged (no
    invariant needed) *)
Theorem C13_try_unwrap_err :
  forall (K : conf) (self : option id) (l : loc) (v : nat) (m : machine) (r : rloc) (o : id),
  resolve self l m = (m, Some r) -> values m !! v = Some None -> read_loc r m = Some o ->
  (h_rc (hdr_of m o) <> 1 \/ st_collecting m || st_dropping m || (k_fin K && st_finalizing m) = true) ->
  cmd_try_unwrap K self l v m = ok m RUnwrapErr.
Proof. exact SafeProps.try_unwrap_err. Qed.
Print Assumptions C13_try_unwrap_err.

(** ** Pins *)
Check C13_try_unwrap_ok :
  forall (K : conf) (b : bool) (E : list id) (self : option id) (l : loc) (v : nat) (m : machine) (r : rloc)
         (o : id) (x : obj),
  NoBad m -> SInv K b E [] m -> resolve self l m = (m, Some r) -> values m !! v = Some None ->
  read_loc r m = Some o -> get m o = Some x -> o_box x = BAlloc -> h_rc (o_hdr x) = 1 ->
  st_collecting m || st_dropping m || (k_fin K && st_finalizing m) = false ->
  exists mf : machine, cmd_try_unwrap K self l v m = ok mf RUnwrapOk /\
    (exists l' : list event, log mf = l' ++ log m /\
       forallb (fun e : event => match e with EFree _ _ _ | ESFree _ | EBad _ _ => true | _ => false end) l' = true) /\
    In (EFree o (box_layout K x).1 (box_layout K x).2) (log mf) /\
    (exists y : obj, get mf o = Some y /\ o_vst y = VMoved /\ o_box y = BFreed /\
               (forall s : side, o_side y = Some s -> sd_freed s = false -> w_acc (sd_wk s) = false)) /\
    o ∉ pc mf /\ values mf !! v = Some (Some o).
Check C13_try_unwrap_err :
  forall (K : conf) (self : option id) (l : loc) (v : nat) (m : machine) (r : rloc) (o : id),
  resolve self l m = (m, Some r) -> values m !! v = Some None -> read_loc r m = Some o ->
  (h_rc (hdr_of m o) <> 1 \/ st_collecting m || st_dropping m || (k_fin K && st_finalizing m) = true) ->
  cmd_try_unwrap K self l v m = ok m RUnwrapErr.
