(** C15 - "collections are triggered by the byte threshold / the buffered-objects threshold, and
    after every automatic collection the threshold is a power-of-two multiple of its initial value,
    not below it, strictly above the allocated bytes, and not needlessly large".
    Statements only; every proof is [exact <lemma>].  [ConfigGen] is regenerated from
    src/config.rs on every run; the float operations are universally quantified. *)
From Coq Require Import NArith Bool.
From RC Require Import Machine ConfigSpec Bridge.
From RC.gen Require ConfigGen.
Local Open Scope N_scope.

(** The trigger test of the generated code. *)
Theorem C15_trigger : forall (auto : bool) (thr : N) (bt : option N) (alloc buf : N),
  ConfigGen.should_collect auto thr bt alloc buf =
  auto && ((thr <? alloc) || match bt with Some b => b <? buf | None => false end).
Proof. exact should_collect_spec. Qed.
Print Assumptions C15_trigger.

Theorem C15_trigger_no_auto : forall (thr : N) (bt : option N) (alloc buf : N),
  ConfigGen.should_collect false thr bt alloc buf = false.
Proof. exact should_collect_no_auto. Qed.
Print Assumptions C15_trigger_no_auto.

(** Config::adjust, for every interpretation of the float operations. *)
Theorem C15_adjust :
  forall (F : Type) (of_usize : N -> F) (fmul : F -> F -> F) (fle : F -> F -> bool)
         (feq0 : F -> bool) (thr alloc : N) (p : F) (k : N),
  thr = ConfigGen.DEFAULT_BYTES_THRESHOLD * 2 ^ k -> alloc < 2 ^ 62 -> thr < 2 ^ 62 ->
  exists thr', ConfigGen.adjust F of_usize fmul fle feq0 200 thr p alloc = Some thr' /\
    (exists k', thr' = ConfigGen.DEFAULT_BYTES_THRESHOLD * 2 ^ k') /\
    ConfigGen.DEFAULT_BYTES_THRESHOLD <= thr' /\ alloc < thr' /\
    (feq0 (fmul (of_usize thr') p) = false ->
     fle (of_usize alloc) (fmul (of_usize thr') p) = false \/ thr' / 2 <= alloc \/
     thr' = ConfigGen.DEFAULT_BYTES_THRESHOLD).
Proof. exact adjust_spec. Qed.
Print Assumptions C15_adjust.

Theorem C15_adjust_strong :
  forall (F : Type) (of_usize : N -> F) (fmul : F -> F -> F) (fle : F -> F -> bool)
         (feq0 : F -> bool) (thr alloc : N) (p : F) (k : N),
  thr = ConfigGen.DEFAULT_BYTES_THRESHOLD * 2 ^ k -> alloc < 2 ^ 62 -> thr < 2 ^ 62 ->
  exists thr', ConfigGen.adjust F of_usize fmul fle feq0 200 thr p alloc = Some thr' /\
    (exists k', thr' = ConfigGen.DEFAULT_BYTES_THRESHOLD * 2 ^ k') /\
    ConfigGen.DEFAULT_BYTES_THRESHOLD <= thr' /\ alloc < thr' /\
    (thr <= alloc \/ feq0 (fmul (of_usize thr) p) = false ->
     settled F of_usize fmul fle p alloc thr') /\
    (alloc < thr -> feq0 (fmul (of_usize thr) p) = true -> thr' = thr) /\
    (thr <= alloc -> thr < thr' /\ thr' / 2 <= alloc).
Proof. exact adjust_spec_strong. Qed.
Print Assumptions C15_adjust_strong.

(** The hand-written machine model runs exactly the generated trigger policy. *)
Theorem C15_machine_trigger : forall m : machine,
  Machine.should_collect m =
  ConfigGen.should_collect (cf_auto m) (cf_thr m)
                           (if cf_buf m =? 0 then None else Some (cf_buf m))
                           (st_alloc m) (pc_size m).
Proof. exact bridge_should_collect. Qed.
Print Assumptions C15_machine_trigger.

Theorem C15_machine_adjust : forall (K : conf) (m : machine) (k : N),
  k_thr0 K = ConfigGen.DEFAULT_BYTES_THRESHOLD ->
  cf_thr m = ConfigGen.DEFAULT_BYTES_THRESHOLD * 2 ^ k -> cf_thr m < 2 ^ 62 -> st_alloc m < 2 ^ 62 ->
  ConfigGen.adjust Fl fl_of_usize fl_mul fl_le fl_eq0 200 (cf_thr m)
                   (fl_percent (cf_pnum m) (cf_pexp m)) (st_alloc m) =
  Some (cf_thr (Machine.adjust K m)).
Proof. exact bridge_adjust. Qed.
Print Assumptions C15_machine_adjust.

Theorem C15_machine_adjust_frame : forall (K : conf) (m : machine),
  Machine.adjust K m =
  Machine (heap m) (pc m) (pc_size m) (pc_alive m) (st_collecting m) (st_finalizing m)
          (st_dropping m) (st_alloc m) (st_exec m)
          (cf_thr (Machine.adjust K m)) (cf_pnum m) (cf_pexp m) (cf_buf m) (cf_auto m)
          (slots m) (wslots m) (cslots m) (values m) (bag m) (wparam m)
          (fuse_trace m) (fuse_fin m) (fuse_drop m) (fuse_action m) (fuse_closure m)
          (panicking m) (next_aid m) (log m) (dead m).
Proof. exact bridge_adjust_frame. Qed.
Print Assumptions C15_machine_adjust_frame.

Theorem C15_machine_fle : forall alloc thr num e : N,
  fl_le (fl_of_usize alloc) (fl_mul (fl_of_usize thr) (fl_percent num e)) =
  Machine.fle_prod alloc thr num e.
Proof. exact fl_le_prod. Qed.
Print Assumptions C15_machine_fle.

Theorem C15_machine_feq0 : forall thr num e : N,
  fl_eq0 (fl_mul (fl_of_usize thr) (fl_percent num e)) = Machine.fprod_is_zero thr num.
Proof. exact fl_eq0_prod. Qed.
Print Assumptions C15_machine_feq0.

Theorem C15_machine_adjust_spec : forall (K : conf) (m : machine) (k : N),
  k_thr0 K = ConfigGen.DEFAULT_BYTES_THRESHOLD ->
  cf_thr m = ConfigGen.DEFAULT_BYTES_THRESHOLD * 2 ^ k -> cf_thr m < 2 ^ 62 -> st_alloc m < 2 ^ 62 ->
  let thr' := cf_thr (Machine.adjust K m) in
  (exists k', thr' = ConfigGen.DEFAULT_BYTES_THRESHOLD * 2 ^ k') /\
  ConfigGen.DEFAULT_BYTES_THRESHOLD <= thr' /\ st_alloc m < thr' /\
  (Machine.fprod_is_zero thr' (cf_pnum m) = false ->
   Machine.fle_prod (st_alloc m) thr' (cf_pnum m) (cf_pexp m) = false \/
   thr' / 2 <= st_alloc m \/ thr' = ConfigGen.DEFAULT_BYTES_THRESHOLD).
Proof. exact machine_adjust_spec. Qed.
Print Assumptions C15_machine_adjust_spec.

(** Config::new: the initial threshold is the default, auto-collect on, no buffered threshold,
    adjustment percent 0.1 (= 1 / 10^1). *)
Theorem C15_config_new :
  ConfigGen.Config_new_bytes_threshold = ConfigGen.DEFAULT_BYTES_THRESHOLD /\
  ConfigGen.Config_new_buffered_threshold = None /\ ConfigGen.Config_new_auto_collect = true /\
  ConfigGen.Config_new_adjustment_percent_dec = (1, 1).
Proof. exact config_new_spec. Qed.
Print Assumptions C15_config_new.

Theorem C15_default_positive : 0 < ConfigGen.DEFAULT_BYTES_THRESHOLD.
Proof. exact T0pos. Qed.
Print Assumptions C15_default_positive.

Check C15_trigger : forall (auto : bool) (thr : N) (bt : option N) (alloc buf : N),
  ConfigGen.should_collect auto thr bt alloc buf =
  auto && ((thr <? alloc) || match bt with Some b => b <? buf | None => false end).
Check C15_trigger_no_auto : forall (thr : N) (bt : option N) (alloc buf : N),
  ConfigGen.should_collect false thr bt alloc buf = false.
Check C15_adjust :
  forall (F : Type) (of_usize : N -> F) (fmul : F -> F -> F) (fle : F -> F -> bool)
         (feq0 : F -> bool) (thr alloc : N) (p : F) (k : N),
  thr = ConfigGen.DEFAULT_BYTES_THRESHOLD * 2 ^ k -> alloc < 2 ^ 62 -> thr < 2 ^ 62 ->
  exists thr', ConfigGen.adjust F of_usize fmul fle feq0 200 thr p alloc = Some thr' /\
    (exists k', thr' = ConfigGen.DEFAULT_BYTES_THRESHOLD * 2 ^ k') /\
    ConfigGen.DEFAULT_BYTES_THRESHOLD <= thr' /\ alloc < thr' /\
    (feq0 (fmul (of_usize thr') p) = false ->
     fle (of_usize alloc) (fmul (of_usize thr') p) = false \/ thr' / 2 <= alloc \/
     thr' = ConfigGen.DEFAULT_BYTES_THRESHOLD).
Check C15_machine_trigger : forall m : machine,
  Machine.should_collect m =
  ConfigGen.should_collect (cf_auto m) (cf_thr m)
                           (if cf_buf m =? 0 then None else Some (cf_buf m))
                           (st_alloc m) (pc_size m).
Check C15_machine_adjust : forall (K : conf) (m : machine) (k : N),
  k_thr0 K = ConfigGen.DEFAULT_BYTES_THRESHOLD ->
  cf_thr m = ConfigGen.DEFAULT_BYTES_THRESHOLD * 2 ^ k -> cf_thr m < 2 ^ 62 -> st_alloc m < 2 ^ 62 ->
  ConfigGen.adjust Fl fl_of_usize fl_mul fl_le fl_eq0 200 (cf_thr m)
                   (fl_percent (cf_pnum m) (cf_pexp m)) (st_alloc m) =
  Some (cf_thr (Machine.adjust K m)).
Check C15_machine_adjust_spec : forall (K : conf) (m : machine) (k : N),
  k_thr0 K = ConfigGen.DEFAULT_BYTES_THRESHOLD ->
  cf_thr m = ConfigGen.DEFAULT_BYTES_THRESHOLD * 2 ^ k -> cf_thr m < 2 ^ 62 -> st_alloc m < 2 ^ 62 ->
  let thr' := cf_thr (Machine.adjust K m) in
  (exists k', thr' = ConfigGen.DEFAULT_BYTES_THRESHOLD * 2 ^ k') /\
  ConfigGen.DEFAULT_BYTES_THRESHOLD <= thr' /\ st_alloc m < thr' /\
  (Machine.fprod_is_zero thr' (cf_pnum m) = false ->
   Machine.fle_prod (st_alloc m) thr' (cf_pnum m) (cf_pexp m) = false \/
   thr' / 2 <= st_alloc m \/ thr' = ConfigGen.DEFAULT_BYTES_THRESHOLD).
Check C15_config_new :
  ConfigGen.Config_new_bytes_threshold = ConfigGen.DEFAULT_BYTES_THRESHOLD /\
  ConfigGen.Config_new_buffered_threshold = None /\ ConfigGen.Config_new_auto_collect = true /\
  ConfigGen.Config_new_adjustment_percent_dec = (1, 1).
