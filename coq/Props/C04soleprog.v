(** C04 (program level) - "when the last owner is dropped, everything it solely owned is
    destroyed and freed too, recursively": in every state [m] reached by a well-formed program
    whose run logged no [EBad Fuel] / [EBad Abort], for a slot [i] holding the only strong handle
    of [o] (stored strong count 1; at top level [o] cannot be linked in a collector list: this is
    derived, [SoleProg.prog_unlinked]) with no finalizer left to run, the top-level command
    [drop s_i], if its run logs no Fuel/Abort either and answers [ERes ROk] (i.e. it did not
    panic), leaves [o] and every object solely owned by [o] ([SafeFinalOwn2.SolelyOwned], in the
    state before the command) freed with their values destroyed.
    Statements only; the proof is [exact <lemma>] (SoleProg.v). *)
From Coq Require Import NArith Bool List Lia.
From stdpp Require Import base list option.
From RecordUpdate Require Import RecordSet.
From RC Require Import Hdr Machine RunInd Inv InvP SafeMain SafeFinalOwn2 SoleProg.
Import ListNotations RecordSetNotations.
Local Open Scope N_scope.

Theorem C04_prog_last_owner_recursive :
  forall (K : conf) (P : prog) (fuel : nat) (cmds : list cmd),
  (k_clean K = true -> k_weak K = true) -> wf_prog P = true ->
  forallb (fun e => match e with EBad Fuel _ | EBad Abort _ => false | _ => true end)
          (log (fold_left (fun m c => exec_top K P fuel c m) cmds (init K))) = true ->
  forall (i : nat) (o : id),
  slots (fold_left (fun m c => exec_top K P fuel c m) cmds (init K)) !! i = Some (Some o) ->
  h_rc (hdr_of (fold_left (fun m c => exec_top K P fuel c m) cmds (init K)) o) = 1 ->
  k_fin K && needs_fin (hdr_of (fold_left (fun m c => exec_top K P fuel c m) cmds (init K)) o) = false ->
  forallb (fun e => match e with EBad Fuel _ | EBad Abort _ => false | _ => true end)
          (log (exec_top K P fuel (CDrop (LS i)) (fold_left (fun m c => exec_top K P fuel c m) cmds (init K)))) = true ->
  head (log (exec_top K P fuel (CDrop (LS i)) (fold_left (fun m c => exec_top K P fuel c m) cmds (init K)))) = Some (ERes ROk) ->
  (exists y : obj, get (exec_top K P fuel (CDrop (LS i)) (fold_left (fun m c => exec_top K P fuel c m) cmds (init K))) o = Some y /\
                   o_box y = BFreed /\ o_vst y = VDropped) /\
  forall t : id, SolelyOwned K (fold_left (fun m c => exec_top K P fuel c m) cmds (init K)) o t ->
    exists y : obj, get (exec_top K P fuel (CDrop (LS i)) (fold_left (fun m c => exec_top K P fuel c m) cmds (init K))) t = Some y /\
                    o_box y = BFreed /\ o_vst y = VDropped.
Proof. exact SoleProg.prog_last_owner_recursive. Qed.
Print Assumptions C04_prog_last_owner_recursive.

(** non-vacuity: parent (2) -> child (0) -> grandchild (1), all freed by one top-level drop *)
Theorem C04_prog_last_owner_example :
  forall t : id, t ∈ [2; 0; 1]%nat ->
  exists y : obj,
    get (exec_top spK spP 20 (CDrop (LS 1)) (fold_left (fun m c => exec_top spK spP 20 c m) sp_cmds (init spK))) t = Some y /\
    o_box y = BFreed /\ o_vst y = VDropped.
Proof. exact SoleProg.sp_all_freed. Qed.
Print Assumptions C04_prog_last_owner_example.

(** ** Pins *)
Check C04_prog_last_owner_recursive :
  forall (K : conf) (P : prog) (fuel : nat) (cmds : list cmd),
  (k_clean K = true -> k_weak K = true) -> wf_prog P = true ->
  forallb (fun e => match e with EBad Fuel _ | EBad Abort _ => false | _ => true end)
          (log (fold_left (fun m c => exec_top K P fuel c m) cmds (init K))) = true ->
  forall (i : nat) (o : id),
  slots (fold_left (fun m c => exec_top K P fuel c m) cmds (init K)) !! i = Some (Some o) ->
  h_rc (hdr_of (fold_left (fun m c => exec_top K P fuel c m) cmds (init K)) o) = 1 ->
  k_fin K && needs_fin (hdr_of (fold_left (fun m c => exec_top K P fuel c m) cmds (init K)) o) = false ->
  forallb (fun e => match e with EBad Fuel _ | EBad Abort _ => false | _ => true end)
          (log (exec_top K P fuel (CDrop (LS i)) (fold_left (fun m c => exec_top K P fuel c m) cmds (init K)))) = true ->
  head (log (exec_top K P fuel (CDrop (LS i)) (fold_left (fun m c => exec_top K P fuel c m) cmds (init K)))) = Some (ERes ROk) ->
  (exists y : obj, get (exec_top K P fuel (CDrop (LS i)) (fold_left (fun m c => exec_top K P fuel c m) cmds (init K))) o = Some y /\
                   o_box y = BFreed /\ o_vst y = VDropped) /\
  forall t : id, SolelyOwned K (fold_left (fun m c => exec_top K P fuel c m) cmds (init K)) o t ->
    exists y : obj, get (exec_top K P fuel (CDrop (LS i)) (fold_left (fun m c => exec_top K P fuel c m) cmds (init K))) t = Some y /\
                    o_box y = BFreed /\ o_vst y = VDropped.
Check C04_prog_last_owner_example :
  forall t : id, t ∈ [2; 0; 1]%nat ->
  exists y : obj,
    get (exec_top spK spP 20 (CDrop (LS 1)) (fold_left (fun m c => exec_top spK spP 20 c m) sp_cmds (init spK))) t = Some y /\
    o_box y = BFreed /\ o_vst y = VDropped.
