(** Property C19, instantiated with the real machine model: a system of threads each running the
    rust-cc machine ([exec_top K P fuel], one top-level command per step, per-thread state =
    the whole [machine] including its own buffer, flags, counters and configuration) under ANY
    interleaving behaves, per thread, exactly like that thread's sequential run; hence the
    machine-level safety theorem C01 holds for every thread of every interleaving.  What the
    model does not exhibit: that the crate's statics really are thread-local and that Cc is
    !Send/!Sync (tools/check_threads.py probes those on the real crate). *)
From Coq Require Import List.
From RC Require Import Hdr Machine Inv InvP Threads.
From RC.Props Require Import C01 C19.
Import ListNotations.

Theorem C19_machine_independent :
  forall (K : conf) (P : prog) (fuel : nat) (sched : list (tid * cmd)) (s : sys machine) (t : tid),
  run_sched machine cmd (fun m c => exec_top K P fuel c m) s sched t
  = fold_left (fun m c => exec_top K P fuel c m) (proj cmd t sched) (s t).
Proof. intros. exact (C19_independent machine cmd (fun m c => exec_top K P fuel c m) sched s t). Qed.
Print Assumptions C19_machine_independent.

(** every thread of every interleaving started from fresh collectors satisfies the C01 invariant *)
Theorem C19_machine_safety :
  forall (K : conf) (P : prog) (fuel : nat) (sched : list (tid * cmd)) (t : tid),
  (k_clean K = true -> k_weak K = true) -> wf_prog P = true ->
  let m := run_sched machine cmd (fun m c => exec_top K P fuel c m) (fun _ => init K) sched t in
  forallb (fun e => match e with EBad Fuel _ | EBad Abort _ => false | _ => true end) (log m) = true ->
  inv_b K [] m = true /\ no_badU m = true /\ (no_panic_yet m = true -> exact_b [] m = true).
Proof.
  intros K P fuel sched t Hc Hw. cbv zeta. rewrite C19_machine_independent.
  exact (C01_safety K P fuel (proj cmd t sched) Hc Hw).
Qed.
Print Assumptions C19_machine_safety.

Check C19_machine_independent :
  forall (K : conf) (P : prog) (fuel : nat) (sched : list (tid * cmd)) (s : sys machine) (t : tid),
  run_sched machine cmd (fun m c => exec_top K P fuel c m) s sched t
  = fold_left (fun m c => exec_top K P fuel c m) (proj cmd t sched) (s t).
