(** C11 (lists) - "The intrusive lists of src/lists.rs implement the abstract list operations of
    the machine model".

    Statements only; every proof is [exact <theorem of Lists.v>].  [Lists.v] transcribes every
    function of src/lists.rs over the [next]/[prev] fields of the allocation headers; the
    theorems below say that on a well-formed list (of any length) each function computes the
    abstract operation Machine.v uses for it, fires no debug assertion and leaves every node
    outside its footprint untouched.  tools/check_lists.py compares the transcription with the
    real functions operation by operation. *)
From Coq Require Import NArith Bool List.
From stdpp Require Import base list option.
From RC Require Import Hdr Lists.
From RC Require Machine.
Import ListNotations.

(** ** The represented list is determined by the head and the links. *)
Theorem C11_dll_unique : forall first nxf pvf l l',
  dll first nxf pvf l -> dll first nxf pvf l' -> l = l'.
Proof. exact dll_unique. Qed.
Print Assumptions C11_dll_unique.

Theorem C11_sll_unique : forall first la la' nxf l l',
  sll first la nxf l -> sll first la' nxf l' -> l = l'.
Proof. exact sll_unique. Qed.
Print Assumptions C11_sll_unique.

(** An operation whose footprint is disjoint from a list does not disturb it. *)
Theorem C11_dll_other : forall first l fp s s',
  links_same_outside fp s s' -> (forall x, x ∈ l -> x ∉ fp) ->
  dll first (nx s) (pv s) l -> dll first (nx s') (pv s') l.
Proof. exact dll_other. Qed.
Print Assumptions C11_dll_other.

(** ** LinkedList *)

(** [add] = cons; no assertion fires; marks and counters untouched. *)
Theorem C11_ll_add : forall x L s l L' s',
  dll (ll_first L) (nx s) (pv s) l -> x ∉ l -> nx s x = None -> pv s x = None ->
  ll_add x L s = (L', s') ->
  dll (ll_first L') (nx s') (pv s') (x :: l) /\
  fired s' = fired s /\ mk s' = mk s /\ tc s' = tc s /\
  links_same_outside (x :: l) s s'.
Proof. exact ll_add_refines. Qed.
Print Assumptions C11_ll_add.

Theorem C11_ll_add_outside : forall x L s l L' s',
  dll (ll_first L) (nx s) (pv s) l -> outside (nx s) (pv s) l -> x ∉ l ->
  ll_add x L s = (L', s') ->
  dll (ll_first L') (nx s') (pv s') (x :: l) /\ outside (nx s') (pv s') (x :: l) /\
  fired s' = fired s.
Proof. exact ll_add_outside. Qed.
Print Assumptions C11_ll_add_outside.

(** [remove] = [Machine.remove_id]; the removed node is unlinked afterwards. *)
Theorem C11_ll_remove : forall x L s l L' s',
  dll (ll_first L) (nx s) (pv s) l -> x ∈ l ->
  ll_remove x L s = (L', s') ->
  dll (ll_first L') (nx s') (pv s') (remove_id x l) /\ unlinked s' x /\
  fired s' = fired s /\ mk s' = mk s /\ tc s' = tc s /\
  links_same_outside l s s'.
Proof. exact ll_remove_refines. Qed.
Print Assumptions C11_ll_remove.

Theorem C11_ll_remove_outside : forall x L s l L' s',
  dll (ll_first L) (nx s) (pv s) l -> outside (nx s) (pv s) l -> x ∈ l ->
  ll_remove x L s = (L', s') ->
  dll (ll_first L') (nx s') (pv s') (remove_id x l) /\
  outside (nx s') (pv s') (remove_id x l) /\ fired s' = fired s.
Proof. exact ll_remove_outside. Qed.
Print Assumptions C11_ll_remove_outside.

(** [remove_first] = head and tail; the head is marked NonMarked. *)
Theorem C11_ll_remove_first_nil : forall L s,
  dll (ll_first L) (nx s) (pv s) [] -> ll_remove_first L s = (None, L, s).
Proof. exact ll_remove_first_nil. Qed.
Print Assumptions C11_ll_remove_first_nil.

Theorem C11_ll_remove_first : forall x L s l r L' s',
  dll (ll_first L) (nx s) (pv s) (x :: l) ->
  ll_remove_first L s = (r, L', s') ->
  r = Some x /\ dll (ll_first L') (nx s') (pv s') l /\ unlinked s' x /\
  mk s' x = NM /\ (forall y, y <> x -> mk s' y = mk s y) /\
  fired s' = fired s /\ tc s' = tc s /\ links_same_outside (x :: l) s s'.
Proof. exact ll_remove_first_refines. Qed.
Print Assumptions C11_ll_remove_first.

(** [Drop] terminates, empties the list, leaves every former member unlinked and NonMarked and
    touches nothing else. *)
Theorem C11_ll_drop : forall l L s fuel,
  dll (ll_first L) (nx s) (pv s) l -> length l < fuel ->
  exists s', ll_drop fuel L s = Some (LL None, s') /\
    (forall x, x ∈ l -> unlinked s' x /\ mk s' x = NM) /\
    (forall y, y ∉ l -> mk s' y = mk s y) /\
    fired s' = fired s /\ tc s' = tc s /\ links_same_outside l s s'.
Proof. exact ll_drop_refines. Qed.
Print Assumptions C11_ll_drop.

Theorem C11_ll_drop_outside : forall l L s fuel,
  dll (ll_first L) (nx s) (pv s) l -> outside (nx s) (pv s) l -> length l < fuel ->
  exists s', ll_drop fuel L s = Some (LL None, s') /\
    outside (nx s') (pv s') [] /\ (forall x, x ∈ l -> mk s' x = NM) /\ fired s' = fired s.
Proof. exact ll_drop_outside. Qed.
Print Assumptions C11_ll_drop_outside.

(** [iter] yields the list, [is_empty] decides emptiness. *)
Theorem C11_ll_iter : forall L s l fuel,
  dll (ll_first L) (nx s) (pv s) l -> length l <= fuel -> ll_iter fuel L s = l.
Proof. exact ll_iter_refines. Qed.
Print Assumptions C11_ll_iter.

Theorem C11_ll_is_empty : forall L s l,
  dll (ll_first L) (nx s) (pv s) l -> ll_is_empty L = true <-> l = [].
Proof. exact ll_is_empty_refines. Qed.
Print Assumptions C11_ll_is_empty.

Theorem C11_iter_contains : forall first s l fuel p,
  dll first (nx s) (pv s) l -> length l <= fuel ->
  iter_contains fuel first s p = true <-> p ∈ l.
Proof. exact iter_contains_refines. Qed.
Print Assumptions C11_iter_contains.

(** Lists sharing the arena do not interfere (instance of the frame clauses). *)
Theorem C11_sll_other : forall first la l fp s s',
  links_same_outside fp s s' -> (forall x, x ∈ l -> x ∉ fp) ->
  sll first la (nx s) l -> sll first la (nx s') l.
Proof. exact sll_other. Qed.
Print Assumptions C11_sll_other.

Theorem C11_ll_add_preserves_others : forall x L s l L' s' firstB lB firstQ lastQ lQ,
  dll (ll_first L) (nx s) (pv s) l -> x ∉ l -> unlinked s x ->
  dll firstB (nx s) (pv s) lB -> sll firstQ lastQ (nx s) lQ ->
  (forall y, y ∈ lB -> y ∉ x :: l) -> (forall y, y ∈ lQ -> y ∉ x :: l) ->
  ll_add x L s = (L', s') ->
  dll firstB (nx s') (pv s') lB /\ sll firstQ lastQ (nx s') lQ.
Proof. exact ll_add_preserves_others. Qed.
Print Assumptions C11_ll_add_preserves_others.

(** ** PossibleCycles: the same, and the cached size is the length. *)
Theorem C11_pc_add : forall x P s l P' s',
  pcl P s l -> x ∉ l -> nx s x = None -> pv s x = None ->
  pc_add x P s = (P', s') ->
  pcl P' s' (x :: l) /\ pc_size P' = N.succ (pc_size P) /\
  fired s' = fired s /\ mk s' = mk s /\ tc s' = tc s /\
  links_same_outside (x :: l) s s'.
Proof. exact pc_add_refines. Qed.
Print Assumptions C11_pc_add.

Theorem C11_pc_remove : forall x P s l P' s',
  pcl P s l -> x ∈ l ->
  pc_remove x P s = (P', s') ->
  pcl P' s' (remove_id x l) /\ pc_size P' = (pc_size P - 1)%N /\ pc_size P <> 0%N /\
  unlinked s' x /\ fired s' = fired s /\ mk s' = mk s /\ tc s' = tc s /\
  links_same_outside l s s'.
Proof. exact pc_remove_refines. Qed.
Print Assumptions C11_pc_remove.

Theorem C11_pc_remove_first_nil : forall P s,
  pcl P s [] -> pc_remove_first P s = (None, P, s).
Proof. exact pc_remove_first_nil. Qed.
Print Assumptions C11_pc_remove_first_nil.

Theorem C11_pc_remove_first : forall x P s l r P' s',
  pcl P s (x :: l) ->
  pc_remove_first P s = (r, P', s') ->
  r = Some x /\ pcl P' s' l /\ pc_size P' = (pc_size P - 1)%N /\ unlinked s' x /\
  mk s' x = NM /\ (forall y, y <> x -> mk s' y = mk s y) /\
  fired s' = fired s /\ tc s' = tc s /\ links_same_outside (x :: l) s s'.
Proof. exact pc_remove_first_refines. Qed.
Print Assumptions C11_pc_remove_first.

Theorem C11_pc_drop : forall l P s fuel,
  pcl P s l -> length l < fuel ->
  exists s', pc_drop fuel P s = Some (PCL None 0, s') /\
    (forall x, x ∈ l -> unlinked s' x /\ mk s' x = NM) /\
    (forall y, y ∉ l -> mk s' y = mk s y) /\
    fired s' = fired s /\ tc s' = tc s /\ links_same_outside l s s'.
Proof. exact pc_drop_refines. Qed.
Print Assumptions C11_pc_drop.

Theorem C11_pc_iter : forall P s l fuel,
  pcl P s l -> length l <= fuel -> pc_iter fuel P s = l.
Proof. exact pc_iter_refines. Qed.
Print Assumptions C11_pc_iter.

Theorem C11_pc_is_empty : forall P s l, pcl P s l -> pc_is_empty P = true <-> l = [].
Proof. exact pc_is_empty_refines. Qed.
Print Assumptions C11_pc_is_empty.

Theorem C11_pc_size : forall P s l, pcl P s l -> pc_size P = N.of_nat (length l).
Proof. exact pc_size_refines. Qed.
Print Assumptions C11_pc_size.

(** [swap_list] exchanges the two lists (given the length of the incoming one). *)
Theorem C11_pc_swap_list : forall P A n s lp la P' A',
  pcl P s lp -> dll (ll_first A) (nx s) (pv s) la -> n = N.of_nat (length la) ->
  pc_swap_list A n P = (P', A') ->
  pcl P' s la /\ dll (ll_first A') (nx s) (pv s) lp.
Proof. exact pc_swap_list_refines. Qed.
Print Assumptions C11_pc_swap_list.

(** [mark_self_and_append]: the result represents [self ++ to_append], every member of the old
    self list is marked and has its tracing counter reset, the size grows by [n]. *)
Theorem C11_pc_mark_self_and_append : forall fuel m A n P s lp la,
  pcl P s lp -> dll (ll_first A) (nx s) (pv s) la ->
  (forall x, x ∈ lp -> x ∉ la) ->
  (forall x, x ∈ lp -> tc s x <> tc_reserved) ->
  length lp < fuel ->
  exists P' s', pc_mark_self_and_append fuel m A n P s = Some (P', s') /\
    dll (pc_first P') (nx s') (pv s') (lp ++ la) /\
    pc_size P' = (pc_size P + n)%N /\
    (forall x, x ∈ lp -> mk s' x = m /\ tc s' x = 0%N) /\
    (forall y, y ∉ lp -> mk s' y = mk s y /\ tc s' y = tc s y) /\
    fired s' = fired s /\ links_same_outside (lp ++ la) s s'.
Proof. exact pc_mark_self_and_append_refines. Qed.
Print Assumptions C11_pc_mark_self_and_append.

(** The re-buffering of __collect (lib.rs:333-349) is [pc := L ++ pc] with
    [pc_size := length L + pc_size] and every member of [L] marked with a reset tracing
    counter: what [Machine.step_finalize_list] does. *)
Theorem C11_rebuffer : forall fuel m P A s lp L P1 A1,
  pcl P s lp -> dll (ll_first A) (nx s) (pv s) L ->
  (forall x, x ∈ L -> x ∉ lp) ->
  (forall x, x ∈ L -> tc s x <> tc_reserved) ->
  length L < fuel ->
  pc_swap_list A (N.of_nat (length L)) P = (P1, A1) ->
  exists P' s', pc_mark_self_and_append fuel m A1 (pc_size P) P1 s = Some (P', s') /\
    pcl P' s' (L ++ lp) /\
    pc_size P' = (N.of_nat (length L) + pc_size P)%N /\
    (forall x, x ∈ L -> mk s' x = m /\ tc s' x = 0%N) /\
    (forall y, y ∉ L -> mk s' y = mk s y /\ tc s' y = tc s y) /\
    fired s' = fired s /\ links_same_outside (L ++ lp) s s'.
Proof. exact rebuffer_refines. Qed.
Print Assumptions C11_rebuffer.

(** ** LinkedQueue: [add] = snoc, [poll] = head/tail, FIFO. *)
Theorem C11_q_add : forall x Q s l Q' s',
  sll (q_first Q) (q_last Q) (nx s) l -> x ∉ l -> nx s x = None -> pv s x = None ->
  q_add x Q s = (Q', s') ->
  sll (q_first Q') (q_last Q') (nx s') (l ++ [x]) /\
  fired s' = fired s /\ mk s' = mk s /\ tc s' = tc s /\ pv s' = pv s /\
  (forall y, y ∉ l -> nx s' y = nx s y).
Proof. exact q_add_refines. Qed.
Print Assumptions C11_q_add.

Theorem C11_q_poll_nil : forall Q s,
  sll (q_first Q) (q_last Q) (nx s) [] -> q_poll Q s = (None, Q, s).
Proof. exact q_poll_nil. Qed.
Print Assumptions C11_q_poll_nil.

Theorem C11_q_poll : forall x Q s l r Q' s',
  sll (q_first Q) (q_last Q) (nx s) (x :: l) ->
  q_poll Q s = (r, Q', s') ->
  r = Some x /\ sll (q_first Q') (q_last Q') (nx s') l /\ nx s' x = None /\
  mk s' x = NM /\ (forall y, y <> x -> mk s' y = mk s y /\ nx s' y = nx s y) /\
  fired s' = fired s /\ tc s' = tc s /\ pv s' = pv s.
Proof. exact q_poll_refines. Qed.
Print Assumptions C11_q_poll.

Theorem C11_q_drop : forall l Q s fuel,
  sll (q_first Q) (q_last Q) (nx s) l -> length l < fuel ->
  exists s', q_drop fuel Q s = Some (LQ None None, s') /\
    (forall x, x ∈ l -> nx s' x = None /\ mk s' x = NM) /\
    (forall y, y ∉ l -> nx s' y = nx s y /\ mk s' y = mk s y) /\
    fired s' = fired s /\ tc s' = tc s /\ pv s' = pv s.
Proof. exact q_drop_refines. Qed.
Print Assumptions C11_q_drop.

Theorem C11_q_peek : forall Q s l, sll (q_first Q) (q_last Q) (nx s) l -> q_peek Q = head l.
Proof. exact q_peek_refines. Qed.
Print Assumptions C11_q_peek.

Theorem C11_q_is_empty : forall Q s l,
  sll (q_first Q) (q_last Q) (nx s) l -> q_is_empty Q = true <-> l = [].
Proof. exact q_is_empty_refines. Qed.
Print Assumptions C11_q_is_empty.

Theorem C11_queue_fifo : forall xs s Q1 s1 rs Q2 s2,
  NoDup xs -> (forall x, x ∈ xs -> unlinked s x) ->
  q_add_all xs q_new s = (Q1, s1) ->
  q_poll_n (length xs) Q1 s1 = (rs, Q2, s2) ->
  rs = map Some xs /\ q_first Q2 = None /\ q_last Q2 = None.
Proof. exact queue_fifo. Qed.
Print Assumptions C11_queue_fifo.

(** ** Misuse: what the debug assertions catch and what they cannot see. *)
Theorem C11_ll_add_linked_fires : forall x L s,
  nx s x <> None \/ pv s x <> None -> fired (ll_add x L s).2 = true.
Proof. exact ll_add_linked_fires. Qed.
Theorem C11_pc_add_linked_fires : forall x P s,
  nx s x <> None \/ pv s x <> None -> fired (pc_add x P s).2 = true.
Proof. exact pc_add_linked_fires. Qed.
Theorem C11_q_add_linked_fires : forall x Q s,
  nx s x <> None \/ pv s x <> None -> fired (q_add x Q s).2 = true.
Proof. exact q_add_linked_fires. Qed.
Print Assumptions C11_ll_add_linked_fires.
Print Assumptions C11_pc_add_linked_fires.
Print Assumptions C11_q_add_linked_fires.

Theorem C11_ll_add_member_fires : forall first l x L s,
  dll first (nx s) (pv s) l -> x ∈ l -> l <> [x] -> fired (ll_add x L s).2 = true.
Proof. exact ll_add_member_fires. Qed.
Print Assumptions C11_ll_add_member_fires.

Theorem C11_ll_add_singleton_again_undetected : forall x L s L' s',
  dll (ll_first L) (nx s) (pv s) [x] -> ll_add x L s = (L', s') ->
  fired s' = fired s /\ ll_first L' = Some x /\ nx s' x = Some x /\ pv s' x = Some x /\
  forall l, ~ dll (ll_first L') (nx s') (pv s') l.
Proof. exact ll_add_singleton_again_undetected. Qed.
Print Assumptions C11_ll_add_singleton_again_undetected.

Theorem C11_ll_remove_unlinked_undetected : forall x L s,
  unlinked s x -> ll_remove x L s = (LL None, s).
Proof. exact ll_remove_unlinked_undetected. Qed.
Print Assumptions C11_ll_remove_unlinked_undetected.

Theorem C11_pc_remove_empty_underflows : forall x P s,
  pc_size P = 0%N -> fired (pc_remove x P s).2 = true /\ pc_size (pc_remove x P s).1 = usize_max.
Proof. exact pc_remove_empty_underflows. Qed.
Print Assumptions C11_pc_remove_empty_underflows.

Theorem C11_reset_tracing_counter_reserved_fires : forall p s,
  tc s p = tc_reserved -> fired (reset_tracing_counter p s) = true.
Proof. exact reset_tracing_counter_reserved_fires. Qed.
Print Assumptions C11_reset_tracing_counter_reserved_fires.

(** ** Bridge to Machine.v: the abstract results above are the machine's expressions. *)
Theorem C11_bridge_remove_id : forall x l, Lists.remove_id x l = Machine.remove_id x l.
Proof. exact (fun x l => eq_refl). Qed.
Print Assumptions C11_bridge_remove_id.

Theorem C11_bridge_add : forall x P s l P' s',
  pcl P s l -> x ∉ l -> unlinked s x -> pc_add x P s = (P', s') ->
  pcl P' s' (abs_add x l) /\ pc_size P' = N.succ (pc_size P) /\ fired s' = fired s.
Proof. exact bridge_add. Qed.
Theorem C11_bridge_remove : forall x P s l P' s',
  pcl P s l -> x ∈ l -> pc_remove x P s = (P', s') ->
  pcl P' s' (Machine.remove_id x l) /\ pc_size P' = (pc_size P - 1)%N /\ pc_size P <> 0%N /\
  unlinked s' x /\ fired s' = fired s.
Proof. exact bridge_remove. Qed.
Theorem C11_bridge_pop : forall L s l r L' s',
  dll (ll_first L) (nx s) (pv s) l -> ll_remove_first L s = (r, L', s') ->
  r = (abs_pop l).1 /\ dll (ll_first L') (nx s') (pv s') (abs_pop l).2 /\ fired s' = fired s.
Proof. exact bridge_pop. Qed.
Theorem C11_bridge_enqueue : forall c Q s q Q' s',
  sll (q_first Q) (q_last Q) (nx s) q -> c ∉ q -> unlinked s c -> q_add c Q s = (Q', s') ->
  sll (q_first Q') (q_last Q') (nx s') (abs_enqueue c q) /\ fired s' = fired s.
Proof. exact bridge_enqueue. Qed.
Theorem C11_bridge_dequeue : forall Q s q r Q' s',
  sll (q_first Q) (q_last Q) (nx s) q -> q_poll Q s = (r, Q', s') ->
  r = (abs_pop q).1 /\ sll (q_first Q') (q_last Q') (nx s') (abs_pop q).2 /\ fired s' = fired s.
Proof. exact bridge_dequeue. Qed.
Theorem C11_bridge_rebuffer : forall fuel P A s old L P1 A1,
  pcl P s old -> dll (ll_first A) (nx s) (pv s) L ->
  (forall x, x ∈ L -> x ∉ old) -> (forall x, x ∈ L -> tc s x <> tc_reserved) ->
  length L < fuel ->
  pc_swap_list A (N.of_nat (length L)) P = (P1, A1) ->
  exists P' s', pc_mark_self_and_append fuel PC A1 (pc_size P) P1 s = Some (P', s') /\
    pcl P' s' (L ++ old) /\
    pc_size P' = (N.of_nat (length L) + pc_size P)%N /\
    (forall x, x ∈ L -> mk s' x = PC /\ tc s' x = 0%N) /\
    (forall y, y ∉ L -> mk s' y = mk s y /\ tc s' y = tc s y) /\
    fired s' = fired s.
Proof. exact bridge_rebuffer. Qed.
Print Assumptions C11_bridge_add.
Print Assumptions C11_bridge_remove.
Print Assumptions C11_bridge_pop.
Print Assumptions C11_bridge_enqueue.
Print Assumptions C11_bridge_dequeue.
Print Assumptions C11_bridge_rebuffer.

(** ** Pins: the definitions the statements are about. *)
Check (dll : ptr -> (id -> ptr) -> (id -> ptr) -> list id -> Prop).
Check (outside : (id -> ptr) -> (id -> ptr) -> list id -> Prop).
Check (sll : ptr -> ptr -> (id -> ptr) -> list id -> Prop).
Check (pcl : PossibleCycles -> pstate -> list id -> Prop).
Check (ll_add : id -> LinkedList -> pstate -> LinkedList * pstate).
Check (ll_remove : id -> LinkedList -> pstate -> LinkedList * pstate).
Check (ll_remove_first : LinkedList -> pstate -> option id * LinkedList * pstate).
Check (ll_drop : nat -> LinkedList -> pstate -> option (LinkedList * pstate)).
Check (pc_add : id -> PossibleCycles -> pstate -> PossibleCycles * pstate).
Check (pc_remove : id -> PossibleCycles -> pstate -> PossibleCycles * pstate).
Check (pc_remove_first : PossibleCycles -> pstate -> option id * PossibleCycles * pstate).
Check (pc_swap_list : LinkedList -> N -> PossibleCycles -> PossibleCycles * LinkedList).
Check (pc_mark_self_and_append :
         nat -> mark -> LinkedList -> N -> PossibleCycles -> pstate -> option (PossibleCycles * pstate)).
Check (pc_drop : nat -> PossibleCycles -> pstate -> option (PossibleCycles * pstate)).
Check (q_add : id -> LinkedQueue -> pstate -> LinkedQueue * pstate).
Check (q_poll : LinkedQueue -> pstate -> option id * LinkedQueue * pstate).
Check (q_drop : nat -> LinkedQueue -> pstate -> option (LinkedQueue * pstate)).
Check (debug_assert_nones : id -> pstate -> pstate).
Check (eq_refl : Lists.remove_id = Machine.remove_id).
Check ((fun x l => eq_refl) : forall x l, abs_add x l = x :: l).
Check ((fun c q => eq_refl) : forall c q, abs_enqueue c q = q ++ [c]).
Check ((fun L old => eq_refl) : forall L old, abs_rebuffer L old = L ++ old).
