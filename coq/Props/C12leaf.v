(** C12 (leaf half) - State::is_tracing is the documented formula of the three flags, in both
    cfg variants of the crate ([ff] = feature "finalization"), and is false in the initial state.
    Statements only; [StateGen] is regenerated from src/state.rs on every run. *)
From Coq Require Import Bool.
From RC Require Import Hdr StateSpec.
From RC.gen Require StateGen.

Theorem C12_is_tracing_formula : forall ff collecting finalizing dropping : bool,
  StateGen.is_tracing ff collecting finalizing dropping =
  Hdr.is_tracing_spec ff collecting finalizing dropping.
Proof. exact gen_is_tracing_spec. Qed.
Print Assumptions C12_is_tracing_formula.

Theorem C12_is_tracing_initial : forall ff : bool,
  StateGen.is_tracing ff StateGen.State_new_collecting StateGen.State_new_finalizing
                      StateGen.State_new_dropping = false.
Proof. exact gen_is_tracing_initial. Qed.
Print Assumptions C12_is_tracing_initial.

Check C12_is_tracing_formula : forall ff collecting finalizing dropping : bool,
  StateGen.is_tracing ff collecting finalizing dropping =
  (if ff then collecting && negb finalizing && negb dropping else collecting && negb dropping).
Check C12_is_tracing_initial : forall ff : bool,
  StateGen.is_tracing ff StateGen.State_new_collecting StateGen.State_new_finalizing
                      StateGen.State_new_dropping = false.
