(** C08 - "Weak: [upgrade] returns Some exactly when the target is still alive (allocated, value
    live, not being destroyed or collected); a Weak created by [Weak::new] never upgrades".
    Statements only; every proof is [exact <lemma>] (SafeProps.v, SafeFinalPropsA.v,
    SafeFinalProps.v).
    - Safety half (proved): a non-zero [Weak::strong_count], hence a successful upgrade, implies
      that the target is allocated, live, outside the dying set and not marked dropped; dead
      targets (all the ways of being dead) report 0 and the upgrade returns None; so does a
      [Weak::new()] handle.  State-level over part A's invariant [SInv K b E W m], every [K].
    - The converse ("alive => Some") is FALSE in the crate and in the model: finding F4, exhibited
      below by computation ([C08_refuted_F4], [C08_refuted_F4_corpus]).
    - The exact statement with the exception ([C08_upgrade_iff], [C08_F4_is_the_only_exception]):
      the count is non-zero exactly when the value is alive, its destruction has not begun and
      the state is not a known-finding state [KnownF4]. *)
From Coq Require Import NArith Bool List Lia.
From stdpp Require Import base list option.
From RecordUpdate Require Import RecordSet.
From RC Require Import Hdr Machine RunInd Inv InvP SafeMain SafeProps Pass PassMain SafeFinalPropsA SafeFinalProps SafeFinalC08 SafeFinalWeak.
Import ListNotations RecordSetNotations.
Local Open Scope N_scope.

(** a Weak handle that exists and reports a non-zero strong count points to an allocated box
    whose value is live, outside the dying set, not marked dropped; the count reported is the real
    one (the state is unchanged: nothing is logged) *)
Theorem C08_upgrade_safe :
  forall (K : conf) (b : bool) (E : list id) (W : list wref) (m : machine) (o : id) (sc : N),
  SInv K b E W m -> k_weak K = true -> (0 < wrefs m o + cnt_wr o W)%nat ->
  weak_strong_count (WTo o) m = (m, sc) -> sc <> 0 ->
  exists x : obj, get m o = Some x /\ o_box x = BAlloc /\ o_vst x = VLive /\ mem_id o (dead m) = false /\
                  is_dropped (o_hdr x) = false /\ h_rc (o_hdr x) = sc.
Proof. exact SafeProps.upgrade_safe. Qed.
Print Assumptions C08_upgrade_safe.

(** [Weak::new()]: strong count 0 *)
Theorem C08_weak_new_count_zero :
  forall m : machine, weak_strong_count WNull m = (m, 0).
Proof. exact SafeFinalPropsA.weak_null_count. Qed.
Print Assumptions C08_weak_new_count_zero.

(** [Weak::new()] never upgrades ([rec] arbitrary, no invariant) *)
Theorem C08_weak_new_never_upgrades :
  forall (K : conf) (rec : call -> machine -> machine * outcome) (self : option id) (w : wloc) (dst : loc)
         (m : machine) (rw : rwloc) (rd : rloc),
  k_weak K = true -> wresolve self w m = (m, Some rw) -> resolve self dst m = (m, Some rd) ->
  read_wloc rw m = Some WNull ->
  cmd_upgrade K rec self w dst m = ok m RNone.
Proof. exact SafeFinalPropsA.weak_new_never_upgrades. Qed.
Print Assumptions C08_weak_new_never_upgrades.

(** a Weak whose target's value is being destroyed, was destroyed, was moved out, is under
    construction, whose box was freed, which belongs to the dying set, is marked dropped or has
    strong count 0 reports strong count 0; nothing is logged *)
Theorem C08_dead_never_upgrades :
  forall (K : conf) (b : bool) (E : list id) (W : list wref) (m : machine) (o : id) (x : obj),
  SInv K b E W m -> k_weak K = true -> (0 < wrefs m o + cnt_wr o W)%nat -> get m o = Some x ->
  (o_vst x = VDropping \/ o_vst x = VDropped \/ o_vst x = VMoved \/ o_vst x = VUninit \/ o_box x = BFreed \/
   o_box x = BNotYet \/ mem_id o (dead m) = true \/ is_dropped (o_hdr x) = true \/ h_rc (o_hdr x) = 0) ->
  weak_strong_count (WTo o) m = (m, 0).
Proof. exact SafeFinalProps.dead_never_upgrades. Qed.
Print Assumptions C08_dead_never_upgrades.

(** ... and [Weak::upgrade] returns None, changing nothing *)
Theorem C08_dead_upgrade_none :
  forall (K : conf) (rec : call -> machine -> machine * outcome) (b : bool) (E : list id) (m : machine)
         (self : option id) (w : wloc) (dst : loc) (rw : rwloc) (rd : rloc) (o : id) (x : obj),
  SInv K b E [] m -> k_weak K = true ->
  wresolve self w m = (m, Some rw) -> resolve self dst m = (m, Some rd) -> read_wloc rw m = Some (WTo o) ->
  (0 < wrefs m o)%nat -> get m o = Some x ->
  (o_vst x = VDropping \/ o_vst x = VDropped \/ o_vst x = VMoved \/ o_vst x = VUninit \/ o_box x = BFreed \/
   o_box x = BNotYet \/ mem_id o (dead m) = true \/ is_dropped (o_hdr x) = true \/ h_rc (o_hdr x) = 0) ->
  cmd_upgrade K rec self w dst m = ok m RNone.
Proof. exact SafeFinalProps.dead_upgrade_none. Qed.
Print Assumptions C08_dead_upgrade_none.

(** ** Finding F4: the converse fails.  Objects 0 (class 1, finalizer = script 0) and 1 (class 2)
    form a cycle; object 2 (class 3, Drop = script 1, one Weak field pointing to object 1) is
    owned by the untraced field 1 of object 0.  The collection finds the garbage cycle {0,1} and
    runs the finalizer of 0, which drops object 2 by a plain [Cc::drop]; that sets [dropping];
    the Drop impl of object 2 upgrades its Weak to object 1, which is alive but linked in the
    collector's list: [Weak::strong_count] returns 0 and the upgrade returns None. *)

(** the corpus program /verif/corpus/f4_upgrade_none_in_finalize_pass.prog plus one command: the
    finalizer of object 0 afterwards clones its handle to object 1 into slot 4.  Final state: well-
    formed program, no misbehaviour, invariant and exact counts hold; the log has [ERes RNone] (the
    upgrade's result) immediately after the entry of object 2's Drop; object 1 is allocated, live,
    count 2, not dying, held by slot 4, and no destructor entry / free of object 1 was ever logged:
    it was alive when the upgrade returned None *)
Theorem C08_refuted_F4 :
  exists (K : conf) (fuel : nat),
    let prog := Prog [Cls 2 [true; true] 1 false None None;
                 Cls 2 [true; false] 0 false (Some 0%nat) None;
                 Cls 1 [true] 0 false None None;
                 Cls 0 [] 1 false None (Some 1%nat)]
                [[CDrop (LFS 1); CClone (LFS 0) (LS 4)]; [CUpgrade (WFS 0) (LS 5); CDrop (LS 5)]]
                [CCfgAuto false; CNew (LS 0) 1; CNew (LS 1) 2; CNew (LS 2) 3; CClone (LS 1) (LFA 0 0);
                 CClone (LS 0) (LFA 1 0); CDowngrade (LS 1) (WFA 2 0); CMove (LS 2) (LFA 0 1);
                 CDrop (LS 0); CDrop (LS 1); CCollect; CSObs] in
    let m := run_main K prog fuel (init K) in
    wf_prog prog = true /\ no_bad m = true /\ inv_b K [] m = true /\ exact_b [] m = true /\
    (exists (l1 l2 : list event) (f : flags), log m = l1 ++ ERes RNone :: ECb KDrop 2 f :: l2 /\ fl_d f = true) /\
    forallb (fun e : event => match e with
                              | ECb KDrop o' _ => negb (Nat.eqb o' 1%nat)
                              | EFree o' _ _ | ESFree o' => negb (Nat.eqb o' 1%nat)
                              | _ => true end) (log m) = true /\
    (exists x : obj, get m 1%nat = Some x /\ o_box x = BAlloc /\ o_vst x = VLive /\ h_rc (o_hdr x) = 2 /\
               is_dropped (o_hdr x) = false /\ mem_id 1%nat (dead m) = false) /\
    slots m !! 4%nat = Some (Some 1%nat) /\
    (exists y : obj, get m 2%nat = Some y /\ o_cls y = 3%nat /\ o_vst y = VDropped).
Proof. exact SafeFinalPropsA.F4_upgrade_none_target_alive. Qed.
Print Assumptions C08_refuted_F4.

(** the corpus program itself (first program of the file).  Object 1 is collected by the NEXT
    iteration of the collection loop, so the final state does not show it; the order of the log
    does: before the upgrade returned None ([l2]) object 1 and its side record had been allocated,
    its destructor had not been entered and nothing of it had been freed; afterwards ([l1]) the
    collector still ran object 1's finalizer and only later destroyed it *)
Theorem C08_refuted_F4_corpus :
  exists (K : conf) (fuel : nat),
    let prog := Prog [Cls 2 [true; true] 1 false None None;
                 Cls 2 [true; false] 0 false (Some 0%nat) None;
                 Cls 1 [true] 0 false None None;
                 Cls 0 [] 1 false None (Some 1%nat)]
                [[CDrop (LFS 1)]; [CUpgrade (WFS 0) (LS 5); CDrop (LS 5)]]
                [CCfgAuto false; CNew (LS 0) 1; CNew (LS 1) 2; CNew (LS 2) 3; CClone (LS 1) (LFA 0 0);
                 CClone (LS 0) (LFA 1 0); CDowngrade (LS 1) (WFA 2 0); CMove (LS 2) (LFA 0 1);
                 CDrop (LS 0); CDrop (LS 1); CCollect; CSObs] in
    let m := run_main K prog fuel (init K) in
    wf_prog prog = true /\ no_bad m = true /\ inv_b K [] m = true /\
    exists (l1 l2 : list event) (f : flags), log m = l1 ++ ERes RNone :: ECb KDrop 2 f :: l2 /\
      In (EAlloc 1%nat (k_nsize K) (k_nalign K)) l2 /\ In (ESAlloc 1%nat) l2 /\
      forallb (fun e : event => match e with
                              | ECb KDrop o' _ => negb (Nat.eqb o' 1%nat)
                              | EFree o' _ _ | ESFree o' => negb (Nat.eqb o' 1%nat)
                              | _ => true end) l2 = true /\
      (exists f1 : flags, In (ECb KFin 1 f1) l1) /\ (exists f2 : flags, In (ECb KDrop 1 f2) l1).
Proof. exact SafeFinalPropsA.F4_corpus. Qed.
Print Assumptions C08_refuted_F4_corpus.

(** ** The equivalence, with the exact exception.
    [KnownF4 m o]: [o] is linked in a tracing / finalization list (mark IL or IQ) while the
    [dropping] flag is set and [o] is not in the dying set: the F4 situation. *)
Theorem C08_upgrade_iff :
  forall (K : conf) (b : bool) (E : list id) (W : list wref) (m : machine) (o : id) (x : obj),
  SInv K b E W m -> k_weak K = true -> (0 < wrefs m o + cnt_wr o W)%nat -> get m o = Some x ->
  ((weak_strong_count (WTo o) m).2 <> 0 <->
   o_box x = BAlloc /\ o_vst x = VLive /\ mem_id o (dead m) = false /\ h_rc (o_hdr x) <> 0 /\
   ~ (is_in_list_or_queue (hdr_of m o) = true /\ st_dropping m = true /\ mem_id o (dead m) = false)).
Proof. exact SafeFinalC08.upgrade_iff. Qed.
Print Assumptions C08_upgrade_iff.

Theorem C08_F4_is_the_only_exception :
  forall (K : conf) (b : bool) (E : list id) (W : list wref) (m : machine) (o : id) (x : obj),
  SInv K b E W m -> k_weak K = true -> (0 < wrefs m o + cnt_wr o W)%nat -> get m o = Some x ->
  o_box x = BAlloc -> o_vst x = VLive -> mem_id o (dead m) = false -> h_rc (o_hdr x) <> 0 ->
  (weak_strong_count (WTo o) m).2 = 0 ->
  is_in_list_or_queue (hdr_of m o) = true /\ st_dropping m = true /\ mem_id o (dead m) = false.
Proof. exact SafeFinalC08.F4_is_the_only_exception. Qed.
Print Assumptions C08_F4_is_the_only_exception.

(** when the count is non-zero it is the strong count of the target *)
Theorem C08_upgrade_count :
  forall (K : conf) (b : bool) (E : list id) (W : list wref) (m : machine) (o : id) (x : obj),
  SInv K b E W m -> k_weak K = true -> (0 < wrefs m o + cnt_wr o W)%nat -> get m o = Some x ->
  (weak_strong_count (WTo o) m).2 <> 0 -> (weak_strong_count (WTo o) m).2 = h_rc (o_hdr x).
Proof. exact SafeFinalC08.upgrade_count. Qed.
Print Assumptions C08_upgrade_count.

(** ** Weak handles keep nothing alive.  [werase m] forgets everything Weak-related: the Weak
    variables of the program ([wslots], [wparam]), the Cleanable registrations ([cslots]), the
    Weak fields and the side records of all objects.  The tracing pass (the function that
    decides what a collection reclaims) commutes with it, and [refs] (the number of strong
    handles, the quantity the count invariant and every reclamation decision rest on) does not
    see it: two states that differ only in Weak-related state give the same result list. *)
Print werase.
Theorem C08_no_keepalive_pass :
  forall (K : conf) (P : prog) (m m' : machine), werase m' = werase m ->
  (trace_pass K P m').2 = (trace_pass K P m).2 /\
  werase (trace_pass K P m').1 = werase (trace_pass K P m).1.
Proof. exact SafeFinalWeak.trace_pass_weak_indep. Qed.
Print Assumptions C08_no_keepalive_pass.

Theorem C08_no_keepalive_pass_commutes :
  forall (K : conf) (P : prog) (m : machine),
  trace_pass K P (werase m) = (werase (trace_pass K P m).1, (trace_pass K P m).2).
Proof. exact SafeFinalWeak.trace_pass_werase. Qed.
Print Assumptions C08_no_keepalive_pass_commutes.

Theorem C08_no_keepalive_refs :
  forall (m m' : machine) (o : id), werase m' = werase m -> refs m' o = refs m o.
Proof. exact SafeFinalWeak.refs_weak_indep. Qed.
Print Assumptions C08_no_keepalive_refs.

(** ** Pins *)
Check C08_upgrade_iff :
  forall (K : conf) (b : bool) (E : list id) (W : list wref) (m : machine) (o : id) (x : obj),
  SInv K b E W m -> k_weak K = true -> (0 < wrefs m o + cnt_wr o W)%nat -> get m o = Some x ->
  ((weak_strong_count (WTo o) m).2 <> 0 <->
   o_box x = BAlloc /\ o_vst x = VLive /\ mem_id o (dead m) = false /\ h_rc (o_hdr x) <> 0 /\
   ~ (is_in_list_or_queue (hdr_of m o) = true /\ st_dropping m = true /\ mem_id o (dead m) = false)).
Check C08_F4_is_the_only_exception :
  forall (K : conf) (b : bool) (E : list id) (W : list wref) (m : machine) (o : id) (x : obj),
  SInv K b E W m -> k_weak K = true -> (0 < wrefs m o + cnt_wr o W)%nat -> get m o = Some x ->
  o_box x = BAlloc -> o_vst x = VLive -> mem_id o (dead m) = false -> h_rc (o_hdr x) <> 0 ->
  (weak_strong_count (WTo o) m).2 = 0 ->
  is_in_list_or_queue (hdr_of m o) = true /\ st_dropping m = true /\ mem_id o (dead m) = false.
Check C08_no_keepalive_pass :
  forall (K : conf) (P : prog) (m m' : machine), werase m' = werase m ->
  (trace_pass K P m').2 = (trace_pass K P m).2 /\
  werase (trace_pass K P m').1 = werase (trace_pass K P m).1.
Check C08_upgrade_safe :
  forall (K : conf) (b : bool) (E : list id) (W : list wref) (m : machine) (o : id) (sc : N),
  SInv K b E W m -> k_weak K = true -> (0 < wrefs m o + cnt_wr o W)%nat ->
  weak_strong_count (WTo o) m = (m, sc) -> sc <> 0 ->
  exists x : obj, get m o = Some x /\ o_box x = BAlloc /\ o_vst x = VLive /\ mem_id o (dead m) = false /\
                  is_dropped (o_hdr x) = false /\ h_rc (o_hdr x) = sc.
Check C08_weak_new_count_zero :
  forall m : machine, weak_strong_count WNull m = (m, 0).
Check C08_weak_new_never_upgrades :
  forall (K : conf) (rec : call -> machine -> machine * outcome) (self : option id) (w : wloc) (dst : loc)
         (m : machine) (rw : rwloc) (rd : rloc),
  k_weak K = true -> wresolve self w m = (m, Some rw) -> resolve self dst m = (m, Some rd) ->
  read_wloc rw m = Some WNull ->
  cmd_upgrade K rec self w dst m = ok m RNone.
Check C08_dead_never_upgrades :
  forall (K : conf) (b : bool) (E : list id) (W : list wref) (m : machine) (o : id) (x : obj),
  SInv K b E W m -> k_weak K = true -> (0 < wrefs m o + cnt_wr o W)%nat -> get m o = Some x ->
  (o_vst x = VDropping \/ o_vst x = VDropped \/ o_vst x = VMoved \/ o_vst x = VUninit \/ o_box x = BFreed \/
   o_box x = BNotYet \/ mem_id o (dead m) = true \/ is_dropped (o_hdr x) = true \/ h_rc (o_hdr x) = 0) ->
  weak_strong_count (WTo o) m = (m, 0).
Check C08_dead_upgrade_none :
  forall (K : conf) (rec : call -> machine -> machine * outcome) (b : bool) (E : list id) (m : machine)
         (self : option id) (w : wloc) (dst : loc) (rw : rwloc) (rd : rloc) (o : id) (x : obj),
  SInv K b E [] m -> k_weak K = true ->
  wresolve self w m = (m, Some rw) -> resolve self dst m = (m, Some rd) -> read_wloc rw m = Some (WTo o) ->
  (0 < wrefs m o)%nat -> get m o = Some x ->
  (o_vst x = VDropping \/ o_vst x = VDropped \/ o_vst x = VMoved \/ o_vst x = VUninit \/ o_box x = BFreed \/
   o_box x = BNotYet \/ mem_id o (dead m) = true \/ is_dropped (o_hdr x) = true \/ h_rc (o_hdr x) = 0) ->
  cmd_upgrade K rec self w dst m = ok m RNone.
Check C08_refuted_F4 :
  exists (K : conf) (fuel : nat),
    let prog := Prog [Cls 2 [true; true] 1 false None None;
                 Cls 2 [true; false] 0 false (Some 0%nat) None;
                 Cls 1 [true] 0 false None None;
                 Cls 0 [] 1 false None (Some 1%nat)]
                [[CDrop (LFS 1); CClone (LFS 0) (LS 4)]; [CUpgrade (WFS 0) (LS 5); CDrop (LS 5)]]
                [CCfgAuto false; CNew (LS 0) 1; CNew (LS 1) 2; CNew (LS 2) 3; CClone (LS 1) (LFA 0 0);
                 CClone (LS 0) (LFA 1 0); CDowngrade (LS 1) (WFA 2 0); CMove (LS 2) (LFA 0 1);
                 CDrop (LS 0); CDrop (LS 1); CCollect; CSObs] in
    let m := run_main K prog fuel (init K) in
    wf_prog prog = true /\ no_bad m = true /\ inv_b K [] m = true /\ exact_b [] m = true /\
    (exists (l1 l2 : list event) (f : flags), log m = l1 ++ ERes RNone :: ECb KDrop 2 f :: l2 /\ fl_d f = true) /\
    forallb (fun e : event => match e with
                              | ECb KDrop o' _ => negb (Nat.eqb o' 1%nat)
                              | EFree o' _ _ | ESFree o' => negb (Nat.eqb o' 1%nat)
                              | _ => true end) (log m) = true /\
    (exists x : obj, get m 1%nat = Some x /\ o_box x = BAlloc /\ o_vst x = VLive /\ h_rc (o_hdr x) = 2 /\
               is_dropped (o_hdr x) = false /\ mem_id 1%nat (dead m) = false) /\
    slots m !! 4%nat = Some (Some 1%nat) /\
    (exists y : obj, get m 2%nat = Some y /\ o_cls y = 3%nat /\ o_vst y = VDropped).
Check C08_refuted_F4_corpus :
  exists (K : conf) (fuel : nat),
    let prog := Prog [Cls 2 [true; true] 1 false None None;
                 Cls 2 [true; false] 0 false (Some 0%nat) None;
                 Cls 1 [true] 0 false None None;
                 Cls 0 [] 1 false None (Some 1%nat)]
                [[CDrop (LFS 1)]; [CUpgrade (WFS 0) (LS 5); CDrop (LS 5)]]
                [CCfgAuto false; CNew (LS 0) 1; CNew (LS 1) 2; CNew (LS 2) 3; CClone (LS 1) (LFA 0 0);
                 CClone (LS 0) (LFA 1 0); CDowngrade (LS 1) (WFA 2 0); CMove (LS 2) (LFA 0 1);
                 CDrop (LS 0); CDrop (LS 1); CCollect; CSObs] in
    let m := run_main K prog fuel (init K) in
    wf_prog prog = true /\ no_bad m = true /\ inv_b K [] m = true /\
    exists (l1 l2 : list event) (f : flags), log m = l1 ++ ERes RNone :: ECb KDrop 2 f :: l2 /\
      In (EAlloc 1%nat (k_nsize K) (k_nalign K)) l2 /\ In (ESAlloc 1%nat) l2 /\
      forallb (fun e : event => match e with
                              | ECb KDrop o' _ => negb (Nat.eqb o' 1%nat)
                              | EFree o' _ _ | ESFree o' => negb (Nat.eqb o' 1%nat)
                              | _ => true end) l2 = true /\
      (exists f1 : flags, In (ECb KFin 1 f1) l1) /\ (exists f2 : flags, In (ECb KDrop 1 f2) l1).
