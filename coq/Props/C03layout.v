(** C03 (layout half) - "every allocation the crate makes is released at most once, with exactly
    the layout it was allocated with ... for values of any size and alignment including zero-sized
    and over-aligned types".
    Statements only; every proof is [exact <lemma of Layout.v>].  [hdr] is the header prefix of
    [CcBox<T>] (end offset of the fields before [elem], largest alignment among them), [t] the
    layout of the payload; both are arbitrary: the quantifier covers every payload size (0..4 KiB
    and beyond) and every power-of-two alignment (1..4096 and beyond), whether smaller or larger
    than the header's.  The numbers of the compiled crate are compared with [ccbox] by
    tools/check_layout.py for a grid of payload layouts and every release route. *)
From Coq Require Import NArith List.
From RC Require Import Layout.
Import ListNotations.
Local Open Scope N_scope.

(** ** The box layout is well formed for every header and payload *)

(** The size is a multiple of the alignment ([Layout::from_size_align] accepts it). *)
Theorem C03_box_size_aligned : forall hdr t : layout,
  pow2 (l_align hdr) -> wf_layout t ->
  box_size hdr t mod box_align hdr t = 0.
Proof. exact ccbox_size_aligned. Qed.
Print Assumptions C03_box_size_aligned.

(** The payload lies inside the box. *)
Theorem C03_elem_fits : forall hdr t : layout,
  pow2 (l_align hdr) -> wf_layout t ->
  elem_off hdr t + l_size t <= box_size hdr t.
Proof. exact ccbox_elem_fits. Qed.
Print Assumptions C03_elem_fits.

(** The box alignment is the larger of the header's and the payload's ... *)
Theorem C03_box_align : forall hdr t : layout,
  box_align hdr t = N.max (l_align hdr) (l_align t).
Proof. exact ccbox_align. Qed.
Print Assumptions C03_box_align.

(** ... and a power of two. *)
Theorem C03_box_align_pow2 : forall hdr t : layout,
  pow2 (l_align hdr) -> wf_layout t -> pow2 (box_align hdr t).
Proof. exact ccbox_align_pow2. Qed.
Print Assumptions C03_box_align_pow2.

(** Every box is a block of positive size (the header is never empty), also for zero-sized [T]. *)
Theorem C03_box_nonempty : forall hdr t : layout,
  pow2 (l_align hdr) -> wf_layout t -> 0 < l_size hdr -> 0 < box_size hdr t.
Proof. exact ccbox_size_pos. Qed.
Print Assumptions C03_box_nonempty.

(** Zero-sized payload: the box is the (padded) header alone. *)
Theorem C03_zero_sized : forall hdr t : layout,
  l_size t = 0 -> box_size hdr t = pad_to (box_align hdr t) (elem_off hdr t).
Proof. exact ccbox_zst_size. Qed.
Print Assumptions C03_zero_sized.

(** Over-aligned payload (alignment at least the header's, e.g. 16 ... 4096 against a header
    alignment of 8): the box ends exactly where the payload ends, no tail padding. *)
Theorem C03_over_aligned : forall hdr t : layout,
  wf_layout t -> l_align hdr <= l_align t ->
  box_size hdr t = elem_off hdr t + l_size t.
Proof. exact ccbox_no_tail_pad. Qed.
Print Assumptions C03_over_aligned.

(** Both at once: a zero-sized over-aligned payload sits one-past-the-end of its box. *)
Theorem C03_zero_sized_over_aligned : forall hdr t : layout,
  wf_layout t -> l_size t = 0 -> l_align hdr <= l_align t ->
  box_size hdr t = elem_off hdr t.
Proof. exact ccbox_zst_overaligned. Qed.
Print Assumptions C03_zero_sized_over_aligned.

(** Non-vacuity at the corners of the quantifier (the measured x86_64 header, alignment 4096). *)
Theorem C03_over_aligned_4096 :
  ccbox ex_hdr {| l_size := 4096; l_align := 4096 |} = ({| l_size := 8192; l_align := 4096 |}, 4096).
Proof. exact ex_4096_4096. Qed.
Print Assumptions C03_over_aligned_4096.

Theorem C03_zero_sized_4096 :
  ccbox ex_hdr {| l_size := 0; l_align := 4096 |} = ({| l_size := 4096; l_align := 4096 |}, 4096).
Proof. exact ex_zst_4096. Qed.
Print Assumptions C03_zero_sized_4096.

(** ** Released with exactly the layout it was allocated with *)

(** The layout is a function of [(hdr, T)] alone: the one recomputed when the box is released
    equals the one used to allocate it. *)
Theorem C03_release_layout_eq : forall hdr t alloc_l free_l : layout,
  alloc_l = fst (ccbox hdr t) -> free_l = fst (ccbox hdr t) -> free_l = alloc_l.
Proof. exact release_layout_eq. Qed.
Print Assumptions C03_release_layout_eq.

(** ** The allocation ledger (the check the probe's logging allocator performs) *)

(** Released at most once: after a successful [free] a second [free] of the same block fails. *)
Theorem C03_no_double_free : forall (b : N * layout) (l l' : list (N * layout)),
  NoDup (map fst l) -> ledger_free b l = Some l' -> ledger_free b l' = None.
Proof. exact ledger_no_double_free. Qed.
Print Assumptions C03_no_double_free.

(** A [free] with the right address but another size or alignment is rejected. *)
Theorem C03_wrong_layout_rejected : forall (base : N) (lay lay' : layout) (l : list (N * layout)),
  NoDup (map fst ((base, lay) :: l)) ->
  l_size lay' <> l_size lay \/ l_align lay' <> l_align lay ->
  ledger_free (base, lay') ((base, lay) :: l) = None.
Proof. exact ledger_wrong_layout_rejected. Qed.
Print Assumptions C03_wrong_layout_rejected.

(** ** Pins *)
Check C03_box_size_aligned : forall hdr t : layout,
  pow2 (l_align hdr) -> wf_layout t -> box_size hdr t mod box_align hdr t = 0.
Check C03_elem_fits : forall hdr t : layout,
  pow2 (l_align hdr) -> wf_layout t -> elem_off hdr t + l_size t <= box_size hdr t.
Check C03_box_align : forall hdr t : layout, box_align hdr t = N.max (l_align hdr) (l_align t).
Check C03_box_align_pow2 : forall hdr t : layout,
  pow2 (l_align hdr) -> wf_layout t -> pow2 (box_align hdr t).
Check C03_box_nonempty : forall hdr t : layout,
  pow2 (l_align hdr) -> wf_layout t -> 0 < l_size hdr -> 0 < box_size hdr t.
Check C03_zero_sized : forall hdr t : layout,
  l_size t = 0 -> box_size hdr t = pad_to (box_align hdr t) (elem_off hdr t).
Check C03_over_aligned : forall hdr t : layout,
  wf_layout t -> l_align hdr <= l_align t -> box_size hdr t = elem_off hdr t + l_size t.
Check C03_zero_sized_over_aligned : forall hdr t : layout,
  wf_layout t -> l_size t = 0 -> l_align hdr <= l_align t -> box_size hdr t = elem_off hdr t.
Check C03_over_aligned_4096 :
  ccbox ex_hdr {| l_size := 4096; l_align := 4096 |} = ({| l_size := 8192; l_align := 4096 |}, 4096).
Check C03_zero_sized_4096 :
  ccbox ex_hdr {| l_size := 0; l_align := 4096 |} = ({| l_size := 4096; l_align := 4096 |}, 4096).
Check C03_release_layout_eq : forall hdr t alloc_l free_l : layout,
  alloc_l = fst (ccbox hdr t) -> free_l = fst (ccbox hdr t) -> free_l = alloc_l.
Check C03_no_double_free : forall (b : N * layout) (l l' : list (N * layout)),
  NoDup (map fst l) -> ledger_free b l = Some l' -> ledger_free b l' = None.
Check C03_wrong_layout_rejected : forall (base : N) (lay lay' : layout) (l : list (N * layout)),
  NoDup (map fst ((base, lay) :: l)) ->
  l_size lay' <> l_size lay \/ l_align lay' <> l_align lay ->
  ledger_free (base, lay') ((base, lay) :: l) = None.
