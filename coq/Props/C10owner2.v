(** C10, OWNER-LEVEL reading, final form.  Statements only; proofs are applications of lemmas of
    CleanWalkOwner4.v.

    [C10_owner_all_ran].  Hypotheses (all explicit):
      - [k_clean K -> k_weak K], [wf_prog P];
      - [rust_ok P (cmds1 ++ cmds2)]: the program is expressible in safe Rust in the sense of
        CoverStep.v (needed for [Quiet.MapsOwned], CoverMain.cover_programs);
      - the log of the final state [m] contains no [EBad Fuel] / [EBad Abort] and no
        [ERes RPanicked] ([no_panic_yet m]: strong counts are exact);
      - at the earlier top-level state [m1] the Cleaner of [o] names [mo];
      - in [m] the value of [o] is [VDropped] AND ITS CLEANER FIELD IS [None].  The last conjunct
        is the one hypothesis that is not a consequence of the others in the model: it fails
        exactly when the owner is destroyed during its own [Cleaner::register]
        ([Props/C10owner.C10_owner_level_false], a run that safe Rust cannot produce); the drop
        glue of an owner always clears the field (Machine.step_drop_fields).
    Conclusion: the value of [mo] is [VDropped]; no Cleaner names it; all its slots are vacant;
    every action it stored at [m1] has run exactly once.

    [C10_prog_map_state]: at every top-level state of a clean run the value of a CleanerMap is
    [VLive] or [VDropped] (never [VDropping], [VUninit], [VMoved]) - proved by a second walk
    (CleanWalkOwner2/3/4.v: view [o_vst]/[o_ismap], check "[try_unwrap] never reaches a map"). *)
From Coq Require Import NArith Bool List Lia.
From stdpp Require Import base list option.
From RC Require Import Hdr Machine RunInd Inv.
From RC Require Import Clean CleanThm CleanLog CleanEx CleanProg.
From RC Require Import CleanWalkOwner4.
From RC Require CoverStep.
Import ListNotations.

Theorem C10_owner_all_ran : forall K P fuel cmds1 cmds2 o mo xo xo',
  (k_clean K = true -> k_weak K = true) -> wf_prog P = true ->
  let m1 := fold_left (fun m c => exec_top K P fuel c m) cmds1 (init K) in
  let m := fold_left (fun m c => exec_top K P fuel c m) (cmds1 ++ cmds2) (init K) in
  CoverStep.rust_ok P (cmds1 ++ cmds2) = true ->
  forallb (fun e => match e with EBad Fuel _ | EBad Abort _ => false | _ => true end) (log m) = true ->
  no_panic_yet m = true ->
  get m1 o = Some xo -> o_cleaner xo = Some mo ->
  get m o = Some xo' -> o_vst xo' = VDropped -> o_cleaner xo' = None ->
  (exists xm, get m mo = Some xm /\ o_ismap xm = true /\ o_vst xm = VDropped) /\
  unlinked_m m mo /\ all_vacant m mo /\
  forall k a s, slot_at m1 mo k = Some (MAction a s) ->
    count_occ Nat.eq_dec (executed_aids (log m)) a = 1.
Proof. intros K P fuel cmds1 cmds2 o mo xo xo' Hc Hw. exact (prog_owner_all_ran K P Hc Hw fuel cmds1 cmds2 o mo xo xo'). Qed.
Print Assumptions C10_owner_all_ran.

Theorem C10_prog_map_state : forall K P fuel cmds mo x,
  (k_clean K = true -> k_weak K = true) -> wf_prog P = true ->
  let m := fold_left (fun m c => exec_top K P fuel c m) cmds (init K) in
  forallb (fun e => match e with EBad Fuel _ | EBad Abort _ => false | _ => true end) (log m) = true ->
  get m mo = Some x -> o_ismap x = true -> o_vst x = VLive \/ o_vst x = VDropped.
Proof. intros K P fuel cmds mo x Hc Hw. exact (prog_map_state K P Hc Hw fuel cmds mo x). Qed.
Print Assumptions C10_prog_map_state.

(** ** Example: owner 0 with two actions is dropped at top level; both actions ran exactly once *)
Definition w_pre : list cmd :=
  [CCfgAuto false; CNew (LS 0) 1; CRegister (NSlot 0) 0 0; CRegister (NSlot 0) 0 1].
Definition w_post : list cmd := [CDrop (LS 0)].
Notation o_pre := (fold_left (fun m c => exec_top exK exP 40 c m) w_pre (init exK)).
Notation o_end := (fold_left (fun m c => exec_top exK exP 40 c m) (w_pre ++ w_post) (init exK)).
Lemma w_conf : k_clean exK = true -> k_weak exK = true. Proof. intros _. vm_compute. reflexivity. Qed.
Lemma w_wf : wf_prog exP = true. Proof. vm_compute. reflexivity. Qed.
Lemma w_rust : CoverStep.rust_ok exP (w_pre ++ w_post) = true. Proof. vm_compute. reflexivity. Qed.
Lemma w_flags : forallb (fun e => match e with EBad Fuel _ | EBad Abort _ => false | _ => true end) (log o_end) = true /\
                no_panic_yet o_end = true.
Proof. vm_compute. auto. Qed.
Lemma w_owner1 : exists xo, get o_pre 0 = Some xo /\ o_cleaner xo = Some 1.
Proof.
  assert (E : (o_cleaner <$> get o_pre 0) = Some (Some 1)) by (vm_compute; reflexivity).
  destruct (get o_pre 0) as [x|]; [|discriminate]. cbn in E. injection E as E. eauto.
Qed.
Lemma w_owner2 : exists xo', get o_end 0 = Some xo' /\ o_vst xo' = VDropped /\ o_cleaner xo' = None.
Proof.
  assert (E : ((fun x => (o_vst x, o_cleaner x)) <$> get o_end 0) = Some (VDropped, None)) by (vm_compute; reflexivity).
  destruct (get o_end 0) as [x|]; [|discriminate]. cbn in E. injection E as E1 E2. eauto.
Qed.
Lemma w_stored a : a < 2 -> exists k s, slot_at o_pre 1 k = Some (MAction a s).
Proof. intros Ha. destruct a as [|[|a]]; [exists 0, 0|exists 1, 0|lia]; vm_compute; reflexivity. Qed.

Example ex_owner_all_ran :
  all_vacant o_end 1 /\ forall a, a < 2 -> count_occ Nat.eq_dec (executed_aids (log o_end)) a = 1.
Proof.
  destruct w_owner1 as (xo & H1 & H2). destruct w_owner2 as (xo' & H3 & H4 & H5). destruct w_flags as [F1 F2].
  destruct (C10_owner_all_ran exK exP 40 w_pre w_post 0 1 xo xo' w_conf w_wf w_rust F1 F2 H1 H2 H3 H4 H5)
    as (_ & _ & Hv & Hall).
  split; [exact Hv|]. intros a Ha. destruct (w_stored a Ha) as (k & s & Hs). exact (Hall k a s Hs).
Qed.
Print Assumptions ex_owner_all_ran.

Check C10_owner_all_ran : forall K P fuel cmds1 cmds2 o mo xo xo',
  (k_clean K = true -> k_weak K = true) -> wf_prog P = true ->
  let m1 := fold_left (fun m c => exec_top K P fuel c m) cmds1 (init K) in
  let m := fold_left (fun m c => exec_top K P fuel c m) (cmds1 ++ cmds2) (init K) in
  CoverStep.rust_ok P (cmds1 ++ cmds2) = true ->
  forallb (fun e => match e with EBad Fuel _ | EBad Abort _ => false | _ => true end) (log m) = true ->
  no_panic_yet m = true ->
  get m1 o = Some xo -> o_cleaner xo = Some mo ->
  get m o = Some xo' -> o_vst xo' = VDropped -> o_cleaner xo' = None ->
  (exists xm, get m mo = Some xm /\ o_ismap xm = true /\ o_vst xm = VDropped) /\
  unlinked_m m mo /\ all_vacant m mo /\
  forall k a s, slot_at m1 mo k = Some (MAction a s) ->
    count_occ Nat.eq_dec (executed_aids (log m)) a = 1.
Check C10_prog_map_state : forall K P fuel cmds mo x,
  (k_clean K = true -> k_weak K = true) -> wf_prog P = true ->
  let m := fold_left (fun m c => exec_top K P fuel c m) cmds (init K) in
  forallb (fun e => match e with EBad Fuel _ | EBad Abort _ => false | _ => true end) (log m) = true ->
  get m mo = Some x -> o_ismap x = true -> o_vst x = VLive \/ o_vst x = VDropped.
