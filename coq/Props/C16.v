(** C16 - "the strong, tracing and weak counters saturate at their maximum (the increment returns
    an error and leaves the words unchanged), never wrap and never spill into the flag bits".
    Statements only; every proof is [exact <lemma of CounterSpec.v / WeakSpec.v>].
    [CounterMarkerGen] / [WeakCounterGen] are regenerated from src/counter_marker.rs and
    src/weak/weak_counter_marker.rs on every run; the lemmas are exhaustive over all 2^16 values of
    each word.  [decode s] = [Hdr.hdr_decode] of the two words, [wf s] = both words < 65536;
    [snd (op s) = true] is [Err(OverflowError)].  The value 16383 of the strong count is reserved
    (never reached, see [C16_strong_no_wrap]); for the tracing count it means "already dropped". *)
From Coq Require Import NArith Bool.
From RC Require Import Hdr CounterSpec WeakSpec.
From RC.gen Require CounterMarkerGen WeakCounterGen.
Module G := CounterMarkerGen. Module W := WeakCounterGen.
Local Open Scope N_scope.

(** ** Strong counter *)
Theorem C16_strong_max : G.MAX = 16382 /\ G.COUNTER_MASK = 16383.
Proof. exact gen_max_val. Qed.
Print Assumptions C16_strong_max.

Theorem C16_strong_saturates : forall s : G.counter_marker,
  wf s -> h_rc (decode s) = max_rc -> G.increment_counter s = (s, true).
Proof. exact inc_rc_saturates. Qed.
Print Assumptions C16_strong_saturates.

Theorem C16_strong_increment : forall s : G.counter_marker,
  wf s -> h_rc (decode s) < max_rc ->
  let s' := fst (G.increment_counter s) in
  snd (G.increment_counter s) = false /\
  h_rc (decode s') = h_rc (decode s) + 1 /\ h_tc (decode s') = h_tc (decode s) /\
  h_mark (decode s') = h_mark (decode s) /\ h_fin (decode s') = h_fin (decode s) /\
  h_side (decode s') = h_side (decode s) /\ wf s'.
Proof. exact inc_rc_increments. Qed.
Print Assumptions C16_strong_increment.

Theorem C16_strong_no_wrap : forall s : G.counter_marker,
  wf s -> h_rc (decode s) <> 16383 ->
  let s' := fst (G.increment_counter s) in
  h_rc (decode s) <= h_rc (decode s') /\ h_rc (decode s') <= max_rc /\ h_rc (decode s') <> 16383.
Proof. exact inc_rc_no_wrap. Qed.
Print Assumptions C16_strong_no_wrap.

Theorem C16_decrement_zero : forall s : G.counter_marker,
  wf s -> h_rc (decode s) = 0 -> G.decrement_counter s = (s, true).
Proof. exact dec_rc_zero. Qed.
Print Assumptions C16_decrement_zero.

Theorem C16_decrement_strong : forall s : G.counter_marker,
  wf s -> 0 < h_rc (decode s) ->
  let s' := fst (G.decrement_counter s) in
  snd (G.decrement_counter s) = false /\
  h_rc (decode s') = h_rc (decode s) - 1 /\ h_tc (decode s') = h_tc (decode s) /\
  h_mark (decode s') = h_mark (decode s) /\ h_fin (decode s') = h_fin (decode s) /\
  h_side (decode s') = h_side (decode s) /\ wf s'.
Proof. exact dec_rc_decrements. Qed.
Print Assumptions C16_decrement_strong.

(** The abstract header operations used by the machine model are exactly the generated code. *)
Theorem C16_strong_model : forall s : G.counter_marker,
  wf s -> h_rc (decode s) <> 16383 ->
  match inc_rc (decode s) with
  | None => G.increment_counter s = (s, true)
  | Some h' => snd (G.increment_counter s) = false /\
               decode (fst (G.increment_counter s)) = h' /\ wf (fst (G.increment_counter s))
  end.
Proof. exact gen_inc_rc_spec. Qed.
Print Assumptions C16_strong_model.

Theorem C16_decrement_model : forall s : G.counter_marker,
  wf s ->
  match dec_rc (decode s) with
  | None => G.decrement_counter s = (s, true)
  | Some h' => snd (G.decrement_counter s) = false /\
               decode (fst (G.decrement_counter s)) = h' /\ wf (fst (G.decrement_counter s))
  end.
Proof. exact gen_dec_rc_spec. Qed.
Print Assumptions C16_decrement_model.

(** ** Tracing counter *)
Theorem C16_tracing_saturates : forall s : G.counter_marker,
  wf s -> h_tc (decode s) = max_rc -> G.increment_tracing_counter s = (s, true).
Proof. exact inc_tc_saturates. Qed.
Print Assumptions C16_tracing_saturates.

Theorem C16_tracing_increment : forall s : G.counter_marker,
  wf s -> h_tc (decode s) < max_rc ->
  let s' := fst (G.increment_tracing_counter s) in
  snd (G.increment_tracing_counter s) = false /\
  h_tc (decode s') = h_tc (decode s) + 1 /\ h_rc (decode s') = h_rc (decode s) /\
  h_mark (decode s') = h_mark (decode s) /\ h_fin (decode s') = h_fin (decode s) /\
  h_side (decode s') = h_side (decode s) /\ wf s'.
Proof. exact inc_tc_increments. Qed.
Print Assumptions C16_tracing_increment.

Theorem C16_tracing_no_wrap : forall s : G.counter_marker,
  wf s -> h_tc (decode s) <> 16383 ->
  let s' := fst (G.increment_tracing_counter s) in
  h_tc (decode s) <= h_tc (decode s') /\ h_tc (decode s') <= max_rc /\ h_tc (decode s') <> 16383.
Proof. exact inc_tc_no_wrap. Qed.
Print Assumptions C16_tracing_no_wrap.

Theorem C16_tracing_model : forall s : G.counter_marker,
  wf s -> h_tc (decode s) <> 16383 ->
  match inc_tc (decode s) with
  | None => G.increment_tracing_counter s = (s, true)
  | Some h' => snd (G.increment_tracing_counter s) = false /\
               decode (fst (G.increment_tracing_counter s)) = h' /\
               wf (fst (G.increment_tracing_counter s))
  end.
Proof. exact gen_inc_tc_spec. Qed.
Print Assumptions C16_tracing_model.

(** ** Debug builds: no debug assertion fires and no arithmetic overflows on non-reserved counts *)
Theorem C16_strong_debug : forall s : G.counter_marker,
  wf s -> h_rc (decode s) <> 16383 ->
  G.counter_asserts s = true /\ G.counter_noovf s = true /\
  G.increment_counter_asserts s = true /\ G.increment_counter_noovf s = true /\
  G.decrement_counter_asserts s = true /\ G.decrement_counter_noovf s = true.
Proof. exact gen_rc_asserts. Qed.
Print Assumptions C16_strong_debug.

(** ** Weak counter *)
Theorem C16_weak_max : W.MAX = 32767.
Proof. exact gen_wk_max_val. Qed.
Print Assumptions C16_weak_max.

Theorem C16_weak_saturates : forall s : W.weak_counter_marker,
  wwf s -> w_cnt (wdecode s) = max_weak -> W.increment_counter s = (s, true).
Proof. exact wk_inc_saturates. Qed.
Print Assumptions C16_weak_saturates.

Theorem C16_weak_increment : forall s : W.weak_counter_marker,
  wwf s -> w_cnt (wdecode s) < max_weak ->
  let s' := fst (W.increment_counter s) in
  snd (W.increment_counter s) = false /\ w_cnt (wdecode s') = w_cnt (wdecode s) + 1 /\
  w_acc (wdecode s') = w_acc (wdecode s) /\ wwf s'.
Proof. exact wk_inc_increments. Qed.
Print Assumptions C16_weak_increment.

Theorem C16_weak_no_wrap : forall s : W.weak_counter_marker,
  wwf s ->
  let s' := fst (W.increment_counter s) in
  w_cnt (wdecode s) <= w_cnt (wdecode s') /\ w_cnt (wdecode s') <= max_weak.
Proof. exact wk_inc_no_wrap. Qed.
Print Assumptions C16_weak_no_wrap.

Theorem C16_decrement_weak_zero : forall s : W.weak_counter_marker,
  wwf s -> w_cnt (wdecode s) = 0 -> W.decrement_counter s = (s, true).
Proof. exact wk_dec_zero. Qed.
Print Assumptions C16_decrement_weak_zero.

Theorem C16_decrement_weak : forall s : W.weak_counter_marker,
  wwf s -> 0 < w_cnt (wdecode s) ->
  let s' := fst (W.decrement_counter s) in
  snd (W.decrement_counter s) = false /\ w_cnt (wdecode s') = w_cnt (wdecode s) - 1 /\
  w_acc (wdecode s') = w_acc (wdecode s) /\ wwf s'.
Proof. exact wk_dec_decrements. Qed.
Print Assumptions C16_decrement_weak.

Theorem C16_weak_model : forall s : W.weak_counter_marker,
  wwf s ->
  match inc_wk (wdecode s) with
  | None => W.increment_counter s = (s, true)
  | Some v => snd (W.increment_counter s) = false /\
              wdecode (fst (W.increment_counter s)) = v /\ wwf (fst (W.increment_counter s))
  end.
Proof. exact gen_wk_inc_spec. Qed.
Print Assumptions C16_weak_model.

(** ** Pins *)
Check C16_strong_max : G.MAX = 16382 /\ G.COUNTER_MASK = 16383.
Check C16_strong_saturates : forall s : G.counter_marker,
  G.tracing_counter_cell s < 65536 /\ G.counter_cell s < 65536 ->
  h_rc (hdr_decode (G.tracing_counter_cell s) (G.counter_cell s)) = 16382 ->
  G.increment_counter s = (s, true).
Check C16_strong_increment : forall s : G.counter_marker,
  wf s -> h_rc (decode s) < 16382 ->
  let s' := fst (G.increment_counter s) in
  snd (G.increment_counter s) = false /\
  h_rc (decode s') = h_rc (decode s) + 1 /\ h_tc (decode s') = h_tc (decode s) /\
  h_mark (decode s') = h_mark (decode s) /\ h_fin (decode s') = h_fin (decode s) /\
  h_side (decode s') = h_side (decode s) /\ wf s'.
Check C16_strong_no_wrap : forall s : G.counter_marker,
  wf s -> h_rc (decode s) <> 16383 ->
  let s' := fst (G.increment_counter s) in
  h_rc (decode s) <= h_rc (decode s') /\ h_rc (decode s') <= 16382 /\ h_rc (decode s') <> 16383.
Check C16_tracing_saturates : forall s : G.counter_marker,
  wf s -> h_tc (decode s) = 16382 -> G.increment_tracing_counter s = (s, true).
Check C16_weak_max : W.MAX = 32767.
Check C16_weak_saturates : forall s : W.weak_counter_marker,
  W.weak_counter_cell s < 65536 -> w_cnt (wk_decode (W.weak_counter_cell s)) = 32767 ->
  W.increment_counter s = (s, true).
Check C16_weak_increment : forall s : W.weak_counter_marker,
  wwf s -> w_cnt (wdecode s) < 32767 ->
  let s' := fst (W.increment_counter s) in
  snd (W.increment_counter s) = false /\ w_cnt (wdecode s') = w_cnt (wdecode s) + 1 /\
  w_acc (wdecode s') = w_acc (wdecode s) /\ wwf s'.
Check C16_weak_no_wrap : forall s : W.weak_counter_marker,
  wwf s ->
  let s' := fst (W.increment_counter s) in
  w_cnt (wdecode s) <= w_cnt (wdecode s') /\ w_cnt (wdecode s') <= 32767.
