(** C11 - "introspection counters match reality": allocated_bytes() is the sum of the sizes of
    the managed allocations that exist, buffered_objects_count() is the number of distinct
    objects linked in POSSIBLE_CYCLES, executions_count() grows by exactly one per collection
    started.  Statements only; every proof is [exact <lemma of Buf.v>].

    The state invariant is [Ibuf K A m] ([Buf.Ibuf_spec] spells it out); it is established for
    every configuration, program, fuel and command list, on every path including panics,
    modulo [clean]: the model logged no use-after-free, double free, failed debug assertion
    or fuel exhaustion ([EBad] kinds [UseAfterFree DoubleFree AssertFail Fuel]).  Those events
    are excluded by the companion invariants (I-count / I-ref); see the report at the end. *)
From Coq Require Import NArith Bool List Lia.
From stdpp Require Import base list option.
From RecordUpdate Require Import RecordSet.
From RC Require Import Hdr Machine RunInd BufBase BufPass BufStep Buf.
Import ListNotations RecordSetNotations.
Local Open Scope N_scope.

(** ** A. the invariant of every run *)

(** activation level: the [RunInd.run_ind] instance.  [Pre c m] = "for some active list [A],
    [G K A m]" (with the collecting flag as the call kind requires); [Post] gives, for every such
    [A]: the frame (log only grows, collecting flag restored, [st_exec] monotone and constant
    inside a collection, no box ever goes back to not-yet-allocated), the invariant again unless
    the outcome is [OFuel], and [st_exec' = succ st_exec] for [KCollect]. *)
Theorem C11_run_buf : forall K P n, rec_ok (Pre K) (Post K) (run K P n).
Proof. exact run_buf_rec_ok. Qed.
Print Assumptions C11_run_buf.

Theorem C11_run_buf_explicit : forall K P n A c m,
  PreA K A c m ->
  frame m (run K P n c m).1 /\
  ((run K P n c m).2 <> OFuel -> goalA K A c (run K P n c m).1) /\
  (c = KCollect -> (run K P n c m).2 <> OFuel ->
   st_exec (run K P n c m).1 = N.succ (st_exec m)).
Proof. exact run_buf. Qed.
Print Assumptions C11_run_buf_explicit.

(** program level, unconditional form: invariant or a logged misbehaviour *)
Theorem C11_prog_G : forall K P fuel cmds,
  G K [] (fold_left (fun m c => exec_top K P fuel c m) cmds (init K)).
Proof. exact prog_G. Qed.
Print Assumptions C11_prog_G.

Theorem C11_prog_buf : forall K P fuel cmds,
  let m := fold_left (fun m c => exec_top K P fuel c m) cmds (init K) in
  (forall b o, In (EBad b o) (log m) -> badk b = false) -> Ibuf K [] m.
Proof. exact prog_buf. Qed.
Print Assumptions C11_prog_buf.

(** what [Ibuf] says *)
Theorem C11_Ibuf_spec : forall K A m,
  Ibuf K A m ->
  (NoDup (pc m) /\ pc_size m = N.of_nat (length (pc m))) /\
  ((forall o, o ∈ pc m -> exists x, get m o = Some x /\ h_mark (o_hdr x) = PC /\ o_box x <> BNotYet) /\
   (forall o x, get m o = Some x -> h_mark (o_hdr x) = PC -> o ∈ pc m)) /\
  (NoDup A /\
   (forall o, o ∈ A -> exists x, get m o = Some x /\ h_mark (o_hdr x) = IL /\ o_box x <> BNotYet) /\
   (forall o x, alloc m o x -> h_mark (o_hdr x) = IL -> o ∈ A) /\
   (forall o x, get m o = Some x -> h_mark (o_hdr x) <> IQ)) /\
  st_alloc m = bytes K m /\
  pc_alive m = true /\
  (forall o, ~ In (EBad Underflow o) (log m)) /\
  (A <> [] -> st_collecting m = true) /\
  (forall o, o ∈ pc m -> h_tc (hdr_of m o) = 0).
Proof. exact Ibuf_spec. Qed.
Print Assumptions C11_Ibuf_spec.

(** I-tc: every buffered object has tracing counter 0 (the conjunct defect F1 broke; restored
    by [reset_buffered] when a tracing phase unwinds) *)
Theorem C11_buffered_tc_zero : forall K A m,
  Ibuf K A m -> forall o, o ∈ pc m -> h_tc (hdr_of m o) = 0.
Proof. exact buffered_tc_zero. Qed.
Print Assumptions C11_buffered_tc_zero.

(** the tracing pass leaves whatever is still buffered with tracing counter 0, on every
    non-fuel outcome (no hypothesis on the start state) *)
Theorem C11_trace_pass_tc_zero : forall K P m,
  (trace_pass K P m).2 <> PFuel ->
  forall o x, get (trace_pass K P m).1 o = Some x -> o ∈ pc (trace_pass K P m).1 -> h_tc (o_hdr x) = 0.
Proof. exact BufPass.trace_pass_pcz. Qed.
Print Assumptions C11_trace_pass_tc_zero.

(** ** B. allocated_bytes / buffered_objects_count / executions_count as observed *)
Theorem C11_bytes : forall K A self m,
  Ibuf K A m ->
  cmd_s_obs K self m =
  (emit (ERes ROk)
     (emit (ESObs (bytes K m) (Some (N.of_nat (length (pc m)))) (st_exec m)
                  (fl_t (cur_flags K m))) m), ONormal).
Proof. exact sobs_ok. Qed.
Print Assumptions C11_bytes.

(** every activation of the observation command, at any nesting depth, is [cmd_s_obs] *)
Theorem C11_sobs_activation : forall K P n self m,
  run K P (S n) (KCmd self CSObs) m = cmd_s_obs K self m.
Proof. exact run_s_obs. Qed.
Print Assumptions C11_sobs_activation.

Theorem C11_bytes_top : forall K P fuel cmds n,
  let m := fold_left (fun m c => exec_top K P fuel c m) cmds (init K) in
  clean m ->
  log (exec_top K P (S n) CSObs m) =
  ERes ROk :: ESObs (bytes K m) (Some (N.of_nat (length (pc m)))) (st_exec m) (fl_t (cur_flags K m))
           :: log m.
Proof. exact sobs_top. Qed.
Print Assumptions C11_bytes_top.

(** ** C. buffered_objects_count = number of distinct objects marked PossibleCycles *)
Theorem C11_buffered : forall K A m,
  Ibuf K A m ->
  NoDup (pc m) /\ pc_size m = N.of_nat (length (pc m)) /\ pc m ≡ₚ buffered_ids m /\
  length (pc m) = length (buffered_ids m) /\
  (forall o, o ∈ pc m -> exists x, get m o = Some x /\ h_mark (o_hdr x) = PC /\ o_box x <> BNotYet).
Proof. exact buffered_count. Qed.
Print Assumptions C11_buffered.

Theorem C11_add_enter : forall K A m o x,
  Ibuf K A m -> get m o = Some x -> h_mark (o_hdr x) <> PC ->
  pc (add_to_list o m) = o :: pc m /\ pc_size (add_to_list o m) = N.succ (pc_size m) /\ o ∉ pc m.
Proof. exact add_to_list_enter. Qed.
Theorem C11_add_noop : forall K A m o, Ibuf K A m -> o ∈ pc m -> add_to_list o m = m.
Proof. exact add_to_list_noop. Qed.
Theorem C11_remove_leave : forall K A m o,
  Ibuf K A m -> o ∈ pc m ->
  pc (remove_from_list o m) = remove_id o (pc m) /\
  N.succ (pc_size (remove_from_list o m)) = pc_size m /\
  (forall o', o' ∈ pc (remove_from_list o m) <-> o' ∈ pc m /\ o' <> o).
Proof. exact remove_from_list_leave. Qed.
Theorem C11_remove_noop : forall K A m o, Ibuf K A m -> o ∉ pc m -> remove_from_list o m = m.
Proof. exact remove_from_list_noop. Qed.
Print Assumptions C11_add_enter.
Print Assumptions C11_add_noop.
Print Assumptions C11_remove_leave.
Print Assumptions C11_remove_noop.

Theorem C11_mark_alive : forall K A self l m,
  G K A m ->
  let '(m1, r) := resolve self l m in
  forall o, r ≫= (fun r => read_loc r m1) = Some o ->
  let m' := (cmd_mark_alive self l m).1 in dirty m' \/ o ∉ pc m'.
Proof. exact mark_alive_unbuffers. Qed.
Theorem C11_clone : forall K A o h m,
  G K A m -> inc_rc (hdr_of m o) = Some h ->
  let m' := remove_from_list o (uhdr o (fun _ => h) m) in dirty m' \/ o ∉ pc m'.
Proof. exact clone_unbuffers. Qed.
Theorem C11_downgrade : forall K A o k rw m,
  G K A m ->
  let m1 := remove_from_list o (uside o (fun _ => k) m) in
  let m' := weak_drop_opt (read_wloc rw m1) (write_wloc rw (Some (WTo o)) m1) in
  dirty m' \/ o ∉ pc m'.
Proof. exact downgrade_unbuffers. Qed.
Theorem C11_try_unwrap : forall K A o r v m,
  G K A m ->
  let m1 := remove_from_list o (write_loc r None m) in
  let m2 := drop_metadata K o (upd o (fun x => x <| o_vst := VMoved |>) m1 <| values ::= <[v := Some o]> |>) in
  (dirty m1 \/ o ∉ pc m2) /\ pc (dealloc K o m2) = pc m2.
Proof. exact try_unwrap_unbuffers. Qed.
Theorem C11_drop_buffers : forall K A o m,
  Ibuf K A m -> is_Some (get m o) -> o ∈ pc (add_to_list o (dec_rc_m o m)).
Proof. exact drop_buffers. Qed.
Print Assumptions C11_mark_alive.
Print Assumptions C11_clone.
Print Assumptions C11_downgrade.
Print Assumptions C11_try_unwrap.
Print Assumptions C11_drop_buffers.

(** ** D. executions_count *)
Theorem C11_exec_mono : forall K P n A c m,
  PreA K A c m -> st_exec m <= st_exec (run K P n c m).1.
Proof. exact exec_mono. Qed.
Theorem C11_exec_inside : forall K P n A c m,
  PreA K A c m -> st_collecting m = true -> st_exec (run K P n c m).1 = st_exec m.
Proof. exact exec_inside. Qed.
Theorem C11_exec_collect : forall K P n A m,
  PreA K A KCollect m -> (run K P n KCollect m).2 <> OFuel ->
  st_exec (run K P n KCollect m).1 = N.succ (st_exec m).
Proof. exact exec_collect. Qed.
Theorem C11_collecting_restored : forall K P n A c m,
  PreA K A c m -> st_collecting (run K P n c m).1 = st_collecting m.
Proof. exact collecting_restored. Qed.
Theorem C11_trigger_starts : forall K rec m,
  step_trigger K rec m =
  if negb (st_collecting m) && pc_alive m && should_collect m then
    let '(m1, r) := rec KCollect m in
    match r with ONormal => (adjust_trigger_point K m1, ONormal) | _ => (m1, r) end
  else (m, ONormal).
Proof. exact step_trigger_spec. Qed.
Theorem C11_collect_cycles_starts : forall K rec m,
  step_collect_cycles K rec m =
  if st_collecting m then (m, ONormal)
  else if pc_alive m then
    let '(m1, r) := rec KCollect m in
    match r with ONormal => (adjust_trigger_point K m1, ONormal) | _ => (m1, r) end
  else (adjust_trigger_point K m, ONormal).
Proof. exact step_collect_cycles_spec. Qed.
Print Assumptions C11_exec_mono.
Print Assumptions C11_exec_inside.
Print Assumptions C11_exec_collect.
Print Assumptions C11_collecting_restored.
Print Assumptions C11_trigger_starts.
Print Assumptions C11_collect_cycles_starts.

(** ** The collection pass: bookkeeping of the tracing phases and of the two pass ends *)
Theorem C11_trace_pass : forall K P m,
  GI K [] [] m ->
  match (trace_pass K P m).2 with
  | PDone L => GI K L [] (trace_pass K P m).1
  | PPanicked => GI K [] [] (trace_pass K P m).1
  | PFuel => True
  end.
Proof. exact BufPass.trace_pass_buf. Qed.
Theorem C11_trace_pass_frame : forall K P m, frame m (trace_pass K P m).1.
Proof. exact BufPass.frame_trace_pass. Qed.
Theorem C11_trace_pass_drains : forall K P m L,
  (trace_pass K P m).2 = PDone L -> pc (trace_pass K P m).1 = [].
Proof. exact BufPass.trace_pass_done_pc. Qed.
Theorem C11_drop_pass_frees : forall K rec L old_d m o,
  o ∈ L -> is_Some (get m o) -> box_of (step_drop_list K rec L [] old_d m).1 o = Some BFreed.
Proof. exact drop_pass_frees. Qed.
Theorem C11_finalize_pass_rebuffers : forall K P rec L old_f m,
  pc (step_finalize_list K P rec L [] true old_f m).1 = L ++ pc m /\
  pc_size (step_finalize_list K P rec L [] true old_f m).1 = N.of_nat (length L) + pc_size m.
Proof. exact finalize_pass_rebuffers. Qed.
Theorem C11_collect_succ : forall K rec m,
  (forall c m0, st_exec (rec c m0).1 = st_exec m0) ->
  st_exec (step_collect K rec m).1 = N.succ (st_exec m).
Proof. exact step_collect_succ. Qed.
Print Assumptions C11_trace_pass.
Print Assumptions C11_trace_pass_frame.
Print Assumptions C11_trace_pass_drains.
Print Assumptions C11_drop_pass_frees.
Print Assumptions C11_finalize_pass_rebuffers.
Print Assumptions C11_collect_succ.

(** ** Pins *)
Check Ibuf : conf -> list id -> machine -> Prop.
Check bytes : conf -> machine -> N.
Check badk : bad -> bool.
Check C11_prog_buf : forall K P fuel cmds,
  let m := fold_left (fun m c => exec_top K P fuel c m) cmds (init K) in
  (forall b o, In (EBad b o) (log m) -> badk b = false) -> Ibuf K [] m.
Check C11_bytes : forall K A self m,
  Ibuf K A m ->
  cmd_s_obs K self m =
  (emit (ERes ROk)
     (emit (ESObs (bytes K m) (Some (N.of_nat (length (pc m)))) (st_exec m)
                  (fl_t (cur_flags K m))) m), ONormal).
Check C11_exec_collect : forall K P n A m,
  PreA K A KCollect m -> (run K P n KCollect m).2 <> OFuel ->
  st_exec (run K P n KCollect m).1 = N.succ (st_exec m).
Example badk_table :
  map badk [UseAfterDrop; UseAfterFree; DoubleDrop; DoubleFree; UninitDrop; AssertFail;
            Underflow; BadState; Abort; Fuel]
  = [false; true; false; true; false; true; false; false; false; true].
Proof. reflexivity. Qed.
Example bytes_def : forall K m,
  bytes K m = foldr (fun x a => (match o_box x with BAlloc => (box_layout K x).1 | _ => 0 end) + a) 0 (heap m).
Proof. reflexivity. Qed.

(** ** Non-vacuity: a two-object cycle, buffered by dropping the handles, then collected *)
Definition K0 : conf := Conf false false false false false 48 8 64 8 100.
Definition K1 : conf := Conf true true true true true 48 8 64 8 100.
Definition P0 : prog := Prog [Cls 1 [true] 0 false None None] [] [].
Definition cmds_a : list cmd :=
  [CNew (LS 0) 0; CNew (LS 1) 0; CClone (LS 1) (LFA 0 0); CClone (LS 0) (LFA 1 0); CDrop (LS 1)].
Definition cmds_b : list cmd := cmds_a ++ [CSObs; CDrop (LS 0)].
Definition cmds_c : list cmd := cmds_b ++ [CSObs; CCollect].
Definition st K cmds := fold_left (fun m c => exec_top K P0 100 c m) cmds (init K).

(** the hypothesis of [C11_prog_buf] holds of these runs, so the invariant does *)
Example ex_clean : cleanb (st K0 cmds_c) = true /\ cleanb (st K1 cmds_c) = true.
Proof. split; vm_compute; reflexivity. Qed.
Example ex_Ibuf : Ibuf K0 [] (st K0 cmds_c) /\ Ibuf K1 [] (st K1 cmds_c).
Proof. split; apply C11_prog_buf, cleanb_clean; vm_compute; reflexivity. Qed.

(** one object buffered, 96 bytes; then two; after the collection nothing, one execution *)
Example ex_obs_a :
  (bytes K0 (st K0 cmds_a), pc (st K0 cmds_a), pc_size (st K0 cmds_a), st_exec (st K0 cmds_a))
  = (96, [1%nat], 1, 0).
Proof. vm_compute. reflexivity. Qed.
Example ex_obs_b :
  (bytes K0 (st K0 cmds_b), pc (st K0 cmds_b), pc_size (st K0 cmds_b), st_exec (st K0 cmds_b))
  = (96, [0%nat; 1%nat], 2, 0).
Proof. vm_compute. reflexivity. Qed.
Example ex_obs_c :
  (bytes K0 (st K0 cmds_c), pc (st K0 cmds_c), pc_size (st K0 cmds_c), st_exec (st K0 cmds_c),
   map o_box (heap (st K0 cmds_c)))
  = (0, [], 0, 1, [BFreed; BFreed]).
Proof. vm_compute. reflexivity. Qed.
(** the same numbers are what the program observed (finalization on: the list is finalized,
    re-buffered, traced again and dropped in the next iteration of the same collection) *)
Example ex_log :
  List.filter (fun e => match e with ESObs _ _ _ _ => true | _ => false end)
         (log (st K1 (cmds_c ++ [CSObs])))
  = [ESObs 0 (Some 0) 1 false; ESObs 96 (Some 2) 0 false; ESObs 96 (Some 1) 0 false].
Proof. vm_compute. reflexivity. Qed.
Example ex_bytes_top :
  log (exec_top K0 P0 100 CSObs (st K0 cmds_b)) =
  ERes ROk :: ESObs 96 (Some 2) 0 false :: log (st K0 cmds_b).
Proof.
  etransitivity.
  - apply (C11_bytes_top K0 P0 100 cmds_b 99). apply cleanb_clean. vm_compute. reflexivity.
  - vm_compute. reflexivity.
Qed.

(** an unwound tracing phase (the first Trace::trace call panics): everything is un-marked
    except what is still buffered; the counters stay exact *)
Definition cmds_p : list cmd := cmds_b ++ [CArm KTrace 1; CCollect; CSObs].
Example ex_panic :
  let m := st K1 cmds_p in
  cleanb m = true /\
  (bytes K1 m, pc m, pc_size m, st_exec m, map (fun x => h_mark (o_hdr x)) (heap m))
  = (96, [1%nat], 1, 1, [NM; PC]) /\
  In (ERes RPanicked) (log m).
Proof. vm_compute. split; [reflexivity|]. split; [reflexivity|]. tauto. Qed.
(** F1 scenario: x, z, y buffered (pc = [y; z; x]) with y -> x; the pass counts the edge
    y -> x (tc x = 1 while x is still buffered), then the trace call of z panics: the unwind
    guard zeroes the counter of x, which stays buffered *)
Definition cmds_f1 : list cmd :=
  [CNew (LS 0) 0; CNew (LS 1) 0; CNew (LS 2) 0; CClone (LS 0) (LFA 1 0);
   CClone (LS 0) (LS 3); CDrop (LS 3); CClone (LS 2) (LS 3); CDrop (LS 3);
   CClone (LS 1) (LS 3); CDrop (LS 3); CArm KTrace 2; CCollect].
Example ex_f1 :
  let m := st K1 cmds_f1 in
  cleanb m = true /\
  (pc m, map (fun x => (h_mark (o_hdr x), h_tc (o_hdr x))) (heap m))
  = ([0%nat], [(PC, 0); (NM, 0); (NM, 0)]) /\
  In (ERes RPanicked) (log m).
Proof. vm_compute. split; [reflexivity|]. split; [reflexivity|]. tauto. Qed.
Example ex_f1_tc : forall o, o ∈ pc (st K1 cmds_f1) -> h_tc (hdr_of (st K1 cmds_f1) o) = 0.
Proof. apply (C11_buffered_tc_zero K1 []), C11_prog_buf, cleanb_clean. vm_compute. reflexivity. Qed.

Example ex_panic_Ibuf : Ibuf K1 [] (st K1 cmds_p).
Proof. apply C11_prog_buf, cleanb_clean. vm_compute. reflexivity. Qed.

(** [Pre] of the collection entry point is satisfiable *)
Example ex_pre : PreA K0 [] KCollect (st K0 cmds_b).
Proof.
  split; [right; apply C11_prog_buf, cleanb_clean; vm_compute; reflexivity|vm_compute; reflexivity].
Qed.

(** ** Why "every buffered object is allocated" is not part of [Ibuf]
    (DESIGN I-buf lists it).  It is not inductive without I-count: [Clone for Cc] has no
    liveness check, so from a state that satisfies [Ibuf] and has every buffered object
    allocated, but holds two handles to an object whose strong count is 1, one [CDrop] frees the
    object while its own Drop impl re-buffers it - and the model logs no [EBad] at all.  With
    I-count (rc >= number of handles) that start state is unreachable. *)
Definition Px : prog :=
  Prog [Cls 1 [true] 0 false None (Some 0%nat)]
       [[CClone (LS 0) (LS 1); CClone (LS 0) (LS 2); CDrop (LS 1)]] [].
Definition mx : machine :=
  init K0 <| heap := [Obj (Hdr 1 0 NM false false) VLive BAlloc None 0 false [None] [] None
                          false [] [] false] |>
          <| st_alloc := 48 |>
          <| slots := [Some 0%nat; None; None; Some 0%nat; None; None] |>.
Example ex_needs_count :
  let m' := exec_top K0 Px 100 (CDrop (LS 3)) mx in
  (map o_box (heap m'), pc m', pc_size m', st_alloc m',
   existsb (fun e => match e with EBad _ _ => true | _ => false end) (log m'))
  = ([BFreed], [0%nat], 1, 0, false).
Proof. vm_compute. reflexivity. Qed.
