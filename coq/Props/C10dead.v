(** C10, program level: goals (1) and (2) of Props/C10prog.v.  Statements only; every proof is
    an application of a lemma of CleanWalkProg.v.

    For every configuration with [k_clean -> k_weak], every well-formed program, every fuel and
    every command sequence whose log contains no [EBad Fuel] / [EBad Abort] (same formulation as
    Props/C04.v):
    (1) [C10_prog_dead_map_vacant]: every CleanerMap object whose value is [VDropped] has only
        vacant slots (and is named by no Cleaner: [C10_prog_dead_map_unlinked]);
    (2) [C10_prog_dead_map_all_ran]: every action such a map stored at an earlier top-level state
        has run exactly once.
    Method (CleanWalk*.v): a walk over all activations of the marked interpreter [Life.mrun] for
    the invariant [J] and the frame relation [R] (CleanWalkRel.v); the facts of the count layer
    it needs at activation entries are the decidable check [chkW] ([C10_dead_chk_ok]); the two
    facts the previous attempt missed are consequences of [R]: (a) a value that never got a box
    and is not being destroyed is untouched by a nested activation ([r_v]), (b) [Cc::drop] of a
    map without actions touches no other object ([CleanWalkStep.quiet]). *)
From Coq Require Import NArith Bool List Lia.
From stdpp Require Import base list option.
From RC Require Import Hdr Machine RunInd Inv Life.
From RC Require Import Clean CleanThm CleanLog CleanEx CleanProg.
From RC Require Import CleanWalk CleanWalkRel CleanWalkChk CleanWalkStep CleanWalkThm CleanWalkProg.
Import ListNotations.

Theorem C10_prog_dead_map_vacant : forall K P fuel cmds mo x,
  (k_clean K = true -> k_weak K = true) -> wf_prog P = true ->
  let m := fold_left (fun m c => exec_top K P fuel c m) cmds (init K) in
  forallb (fun e => match e with EBad Fuel _ | EBad Abort _ => false | _ => true end) (log m) = true ->
  get m mo = Some x -> o_ismap x = true -> o_vst x = VDropped -> all_vacant m mo.
Proof. intros K P fuel cmds mo x Hc Hw. exact (prog_dead_map_vacant K P Hc Hw fuel cmds mo x). Qed.
Print Assumptions C10_prog_dead_map_vacant.

Theorem C10_prog_dead_map_unlinked : forall K P fuel cmds mo x,
  (k_clean K = true -> k_weak K = true) -> wf_prog P = true ->
  let m := fold_left (fun m c => exec_top K P fuel c m) cmds (init K) in
  forallb (fun e => match e with EBad Fuel _ | EBad Abort _ => false | _ => true end) (log m) = true ->
  get m mo = Some x -> o_ismap x = true -> o_vst x = VDropped -> unlinked_m m mo.
Proof. intros K P fuel cmds mo x Hc Hw. exact (prog_dead_map_unlinked K P Hc Hw fuel cmds mo x). Qed.
Print Assumptions C10_prog_dead_map_unlinked.

Theorem C10_prog_dead_map_all_ran : forall K P fuel cmds1 cmds2 mo x,
  (k_clean K = true -> k_weak K = true) -> wf_prog P = true ->
  let m1 := fold_left (fun m c => exec_top K P fuel c m) cmds1 (init K) in
  let m := fold_left (fun m c => exec_top K P fuel c m) (cmds1 ++ cmds2) (init K) in
  forallb (fun e => match e with EBad Fuel _ | EBad Abort _ => false | _ => true end) (log m) = true ->
  get m mo = Some x -> o_ismap x = true -> o_vst x = VDropped ->
  forall k a s, slot_at m1 mo k = Some (MAction a s) ->
    count_occ Nat.eq_dec (executed_aids (log m)) a = 1.
Proof. intros K P fuel cmds1 cmds2 mo x Hc Hw. exact (prog_dead_map_all_ran K P Hc Hw fuel cmds1 cmds2 mo x). Qed.
Print Assumptions C10_prog_dead_map_all_ran.

(** the per-activation statement behind them, and the check it relies on *)
Theorem C10_dead_nested_inv : forall mu K P n,
  rec_ok (Pre3 mu) (Post3 mu) (mrun K P (chkW K P) mu n).
Proof. exact C10W_nested_inv. Qed.
Print Assumptions C10_dead_nested_inv.

Theorem C10_dead_chk_ok : forall K P b E A c m,
  InvP.Pre K (SafeColl.PreC K) b E c m -> SafeCollQ.Q K A c m -> chkW K P c m = true.
Proof. exact chkW_ok. Qed.
Print Assumptions C10_dead_chk_ok.

(** ** Example: owner 0 with a Cleaner, map 1 with three actions, the second one panics
    (script 1 = [CPanic]); the owner is dropped at top level: the map value is destroyed, the
    remaining action runs while unwinding.  The theorems apply: the map is vacant and each of the
    three actions ran exactly once. *)
Definition p_pre : list cmd :=
  [CCfgAuto false; CNew (LS 0) 1; CRegister (NSlot 0) 0 0; CRegister (NSlot 0) 1 1;
   CRegister (NSlot 0) 0 2].
Definition p_post : list cmd := [CDrop (LS 0)].
Notation m_pre := (fold_left (fun m c => exec_top exK exP 40 c m) p_pre (init exK)).
Notation m_end := (fold_left (fun m c => exec_top exK exP 40 c m) (p_pre ++ p_post) (init exK)).

Lemma ex_conf : k_clean exK = true -> k_weak exK = true.
Proof. intros _. vm_compute. reflexivity. Qed.
Lemma ex_wf : wf_prog exP = true.
Proof. vm_compute. reflexivity. Qed.
Lemma ex_clean :
  forallb (fun e => match e with EBad Fuel _ | EBad Abort _ => false | _ => true end) (log m_end) = true.
Proof. vm_compute. reflexivity. Qed.
Lemma ex_map : exists x, get m_end 1 = Some x /\ o_ismap x = true /\ o_vst x = VDropped.
Proof.
  assert (E : ((fun x => (o_ismap x, o_vst x)) <$> get m_end 1) = Some (true, VDropped)) by (vm_compute; reflexivity).
  destruct (get m_end 1) as [x|]; [|discriminate]. cbn in E. injection E as E1 E2. eauto.
Qed.
Lemma ex_panicked : In (ERes RPanicked) (log m_end).
Proof. vm_compute. auto 20. Qed.
Lemma ex_stored a : a < 3 -> exists k s, slot_at m_pre 1 k = Some (MAction a s).
Proof.
  intros Ha. destruct a as [|[|[|a]]]; [exists 0, 0|exists 1, 1|exists 2, 0|lia]; vm_compute; reflexivity.
Qed.

Example ex_dead_map_vacant : all_vacant m_end 1.
Proof.
  destruct ex_map as (x & Hx & Hm & Hv).
  exact (C10_prog_dead_map_vacant exK exP 40 (p_pre ++ p_post) 1 x ex_conf ex_wf ex_clean Hx Hm Hv).
Qed.
Example ex_dead_map_all_ran :
  forall a, a < 3 -> count_occ Nat.eq_dec (executed_aids (log m_end)) a = 1.
Proof.
  intros a Ha. destruct (ex_stored a Ha) as (k & s & Hs). destruct ex_map as (x & Hx & Hm & Hv).
  exact (C10_prog_dead_map_all_ran exK exP 40 p_pre p_post 1 x ex_conf ex_wf ex_clean Hx Hm Hv k a s Hs).
Qed.
Print Assumptions ex_dead_map_vacant.
Print Assumptions ex_dead_map_all_ran.

Check C10_prog_dead_map_vacant : forall K P fuel cmds mo x,
  (k_clean K = true -> k_weak K = true) -> wf_prog P = true ->
  let m := fold_left (fun m c => exec_top K P fuel c m) cmds (init K) in
  forallb (fun e => match e with EBad Fuel _ | EBad Abort _ => false | _ => true end) (log m) = true ->
  get m mo = Some x -> o_ismap x = true -> o_vst x = VDropped -> all_vacant m mo.
Check C10_prog_dead_map_unlinked : forall K P fuel cmds mo x,
  (k_clean K = true -> k_weak K = true) -> wf_prog P = true ->
  let m := fold_left (fun m c => exec_top K P fuel c m) cmds (init K) in
  forallb (fun e => match e with EBad Fuel _ | EBad Abort _ => false | _ => true end) (log m) = true ->
  get m mo = Some x -> o_ismap x = true -> o_vst x = VDropped -> unlinked_m m mo.
Check C10_prog_dead_map_all_ran : forall K P fuel cmds1 cmds2 mo x,
  (k_clean K = true -> k_weak K = true) -> wf_prog P = true ->
  let m1 := fold_left (fun m c => exec_top K P fuel c m) cmds1 (init K) in
  let m := fold_left (fun m c => exec_top K P fuel c m) (cmds1 ++ cmds2) (init K) in
  forallb (fun e => match e with EBad Fuel _ | EBad Abort _ => false | _ => true end) (log m) = true ->
  get m mo = Some x -> o_ismap x = true -> o_vst x = VDropped ->
  forall k a s, slot_at m1 mo k = Some (MAction a s) ->
    count_occ Nat.eq_dec (executed_aids (log m)) a = 1.
Check C10_dead_nested_inv : forall mu K P n,
  rec_ok (Pre3 mu) (Post3 mu) (mrun K P (chkW K P) mu n).
