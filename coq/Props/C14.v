(** C14 - "[Cc::new_cyclic]: while the closure runs the object under construction is dead to the
    outside (strong count 0, no [Weak] upgrades to it); on normal return the destination receives
    a live handle with count 1; if the closure (or the trigger, or the clone of the self-weak)
    panics, the allocation is released without ever running the value's destructor or finalizer".
    Statements only; every proof is [exact <lemma>] (LifeCyc.v, LifeFin.v, LifeAct.v, SafeCyclic.v,
    SafeProps.v). *)
From Coq Require Import NArith Bool List Lia.
From stdpp Require Import base list option.
From RecordUpdate Require Import RecordSet.
From RC Require Import Hdr Machine RunInd Inv InvP SafeMain SafeColl SafeCyclic SafeProps Life LifeInv LifeCyc LifeFin LifeAct.
Import ListNotations RecordSetNotations.
Local Open Scope N_scope.

(** ** dead inside.  In every state satisfying part A's invariant - in particular at the entry of
    every activation, [InvP.Pre] - an object that is allocated and not yet initialised has
    strong count 0; a [Weak] to it reports strong count 0 and [upgrade] returns [None] (the
    state is unchanged, nothing is logged) *)
Theorem C14_dead_inside :
  forall (K : conf) (b : bool) (E : list id) (W : list wref) (m : machine) (o : id) (x : obj),
  SInv K b E W m -> get m o = Some x -> o_vst x = VUninit -> o_box x = BAlloc ->
  h_rc (o_hdr x) = 0 /\ is_dropped (o_hdr x) = false.
Proof. exact LifeCyc.dead_inside. Qed.
Print Assumptions C14_dead_inside.
Theorem C14_dead_inside_count :
  forall (K : conf) (b : bool) (E : list id) (W : list wref) (m : machine) (o : id) (x : obj),
  SInv K b E W m -> k_weak K = true -> (0 < wrefs m o + cnt_wr o W)%nat ->
  get m o = Some x -> o_vst x = VUninit -> weak_strong_count (WTo o) m = (m, 0).
Proof. exact LifeCyc.dead_inside_count. Qed.
Print Assumptions C14_dead_inside_count.
Theorem C14_dead_inside_upgrade :
  forall (K : conf) (rec : call -> machine -> machine * outcome) (b : bool) (E : list id) (m : machine)
         (self : option id) (w : wloc) (dst : loc) (rw : rwloc) (rd : rloc) (o : id) (x : obj),
  SInv K b E [] m -> k_weak K = true ->
  wresolve self w m = (m, Some rw) -> resolve self dst m = (m, Some rd) -> read_wloc rw m = Some (WTo o) ->
  (0 < wrefs m o)%nat -> get m o = Some x -> o_vst x = VUninit ->
  cmd_upgrade K rec self w dst m = ok m RNone.
Proof. exact LifeCyc.dead_inside_upgrade. Qed.
Print Assumptions C14_dead_inside_upgrade.

(** "at the entry of every activation", nested ones (the whole closure) included: [Life.mrun] is
    the interpreter that appends a marker [mu] to the ghost field [dead] whenever an activation
    starts in a state where [chk14] fails (some allocated [VUninit] object with non-zero strong
    count) and is otherwise [run] ([LifeAct.mrun_unfold], [LifeAct.mrun_is_run_plus_markers]); on
    every clean run of a well-formed program it never does: the marked run IS the real run *)
Print uninit_dead_obj. Print chk14.
Check LifeAct.mrun_unfold. Check LifeAct.mrun_is_run_plus_markers.
Theorem C14_dead_inside_every_activation :
  forall (K : conf) (P : prog) (fuel : nat) (cmds : list cmd) (mu : nat),
  (k_clean K = true -> k_weak K = true) -> wf_prog P = true ->
  let m := fold_left (fun m c => exec_top K P fuel c m) cmds (init K) in
  forallb (fun e => match e with EBad Fuel _ | EBad Abort _ => false | _ => true end) (log m) = true ->
  (length (heap m) <= mu)%nat ->
  fold_left (fun m0 c => mexec_top K P chk14 mu fuel c m0) cmds (init K) = m.
Proof. exact LifeAct.uninit_dead_every_activation. Qed.
Print Assumptions C14_dead_inside_every_activation.

(** ** after.  On normal (or panicking) return of [new_cyclic] part A's post-condition holds: the
    invariant (with exact counts when [b = true] and the outcome is normal) and the frame; an
    observation through a handle then reports exactly the number of existing handles
    ([C04_strong_count_exact]).  Locally: the state in which the new handle is stored has the
    object live with strong count exactly 1. *)
Theorem C14_after_post :
  forall (K : conf) (P : prog) (PreC : bool -> list id -> call -> machine -> Prop)
         (PostC : bool -> list id -> call -> machine -> machine -> outcome -> Prop)
         (rec : call -> machine -> machine * outcome),
  (forall (b : bool) (E : list id), rec_ok (Pre K PreC b E) (Post K PostC b E) rec) ->
  (k_clean K = true -> k_weak K = true) ->
  forall (b : bool) (E : list id) (self : option id) (m : machine),
  NoBad m -> SInv K b E [] m ->
  forall (dst : loc) (cls script : nat) (sw : bool),
  self_ok E self [CNewCyclic dst cls script sw] m ->
  Post K PostC b E (KCmd self (CNewCyclic dst cls script sw)) m
       (cmd_new_cyclic K P rec self dst cls script sw m).1 (cmd_new_cyclic K P rec self dst cls script sw m).2.
Proof. exact SafeCyclic.cmd_new_cyclic_ok. Qed.
Print Assumptions C14_after_post.
Theorem C14_after_exact_count :
  forall (K : conf) (E : list id) (self : option id) (l : loc) (m : machine) (r : rloc) (o : id),
  SInv K true E [] m -> resolve self l m = (m, Some r) -> read_loc r m = Some o -> good_h m o ->
  exists x : obj, get m o = Some x /\
    cmd_obs self l m = ok (emit (EObs o (N.of_nat (refs m o + cnt_id o E)) (N.of_nat (wrefs m o)) (h_fin (o_hdr x)) true) m) ROk.
Proof. exact SafeProps.obs_reports_exact_count. Qed.
Print Assumptions C14_after_exact_count.
Print cyc_publish.
Theorem C14_after_publish :
  forall (o : id) (m : machine) (x : obj),
  get m o = Some x -> h_rc (o_hdr x) = 0 ->
  exists x' : obj, get (cyc_publish o m) o = Some x' /\ o_vst x' = VLive /\ h_rc (o_hdr x') = 1 /\ o_box x' = o_box x.
Proof. exact LifeCyc.cyc_publish_state. Qed.
Print Assumptions C14_after_publish.

(** ** panic.  Every way [new_cyclic] can unwind: (a) the guard ran ([cyc_guard]: release the
    side record if unused, free the box, then drop the parameter) - the closure or the clone of
    the self-weak panicked; (b) the allocation trigger panicked - nothing was allocated; (c) the
    final store panicked - the value is initialised and owned by the destination.  The guard
    frees the box WITHOUT touching the value state and logs the [EFree] with the box's layout. *)
Print cyc_guard.
Theorem C14_panic_cases :
  forall (K : conf) (P : prog) (rec : call -> machine -> machine * outcome) (self : option id) (dst : loc)
         (cls script : nat) (sw : bool) (m : machine),
  (cmd_new_cyclic K P rec self dst cls script sw m).2 = OPanic ->
  let o := length (heap (resolve self dst m).1) in
  (exists mX : machine, (cmd_new_cyclic K P rec self dst cls script sw m).1 = cyc_guard K o mX) \/
  (exists mX : machine, rec KTrigger mX = ((cmd_new_cyclic K P rec self dst cls script sw m).1, OPanic)) \/
  (exists (r : rloc) (mX : machine), rec (KStore r o) mX = ((cmd_new_cyclic K P rec self dst cls script sw m).1, OPanic)).
Proof. exact LifeCyc.cyc_panic_cases. Qed.
Print Assumptions C14_panic_cases.
Theorem C14_panic_frees :
  forall (K : conf) (o : id) (m : machine) (x : obj),
  get m o = Some x ->
  exists x' : obj, get (cyc_guard K o m) o = Some x' /\ o_box x' = BFreed /\ o_vst x' = o_vst x /\
    In (EFree o (box_layout K x).1 (box_layout K x).2) (log (cyc_guard K o m)).
Proof. exact LifeCyc.cyc_guard_frees. Qed.
Print Assumptions C14_panic_frees.
(** the side record: [cyc_guard] calls [drop_metadata] (weak count is at least 1, the
    parameter: the record is marked inaccessible, not freed) and then drops the parameter
    ([weak_drop]): the record is freed at that point iff the count drops to 0, i.e. iff the
    closure saved no clone of the parameter; see the two runs in [C14_nonvacuous] below, and
    Props/C09.v for the general law of side records.  (No separate theorem: it is the
    definition of [Machine.drop_metadata] / [Machine.weak_drop].) *)

(** no touch: an object that is [VUninit] in some reached state (it is under construction, or its
    construction failed) is still [VUninit] with the same box state in every later state, and no
    destructor entry and no finalizer entry for it is ever logged; and the model never detects a
    drop of an uninitialised value ([C03_no_double]) *)
Theorem C14_panic_no_touch :
  forall (K : conf) (P : prog) (fuel : nat) (cmds1 cmds2 : list cmd),
  (k_clean K = true -> k_weak K = true) -> wf_prog P = true ->
  let m1 := fold_left (fun m c => exec_top K P fuel c m) cmds1 (init K) in
  let m2 := fold_left (fun m c => exec_top K P fuel c m) (cmds1 ++ cmds2) (init K) in
  forallb (fun e => match e with EBad Fuel _ | EBad Abort _ => false | _ => true end) (log m2) = true ->
  forall (o : id) (x : obj), get m1 o = Some x -> o_vst x = VUninit ->
    (exists x' : obj, get m2 o = Some x' /\ o_vst x' = VUninit /\ o_box x' = o_box x) /\
    (forall f : flags, ~ In (ECb KDrop o f) (log m2)) /\ (forall f : flags, ~ In (ECb KFin o f) (log m2)).
Proof. exact LifeFin.prog_uninit_never_touched. Qed.
Print Assumptions C14_panic_no_touch.

(** ** Pins *)
Check C14_dead_inside :
  forall (K : conf) (b : bool) (E : list id) (W : list wref) (m : machine) (o : id) (x : obj),
  SInv K b E W m -> get m o = Some x -> o_vst x = VUninit -> o_box x = BAlloc ->
  h_rc (o_hdr x) = 0 /\ is_dropped (o_hdr x) = false.
Check C14_panic_no_touch :
  forall (K : conf) (P : prog) (fuel : nat) (cmds1 cmds2 : list cmd),
  (k_clean K = true -> k_weak K = true) -> wf_prog P = true ->
  let m1 := fold_left (fun m c => exec_top K P fuel c m) cmds1 (init K) in
  let m2 := fold_left (fun m c => exec_top K P fuel c m) (cmds1 ++ cmds2) (init K) in
  forallb (fun e => match e with EBad Fuel _ | EBad Abort _ => false | _ => true end) (log m2) = true ->
  forall (o : id) (x : obj), get m1 o = Some x -> o_vst x = VUninit ->
    (exists x' : obj, get m2 o = Some x' /\ o_vst x' = VUninit /\ o_box x' = o_box x) /\
    (forall f : flags, ~ In (ECb KDrop o f) (log m2)) /\ (forall f : flags, ~ In (ECb KFin o f) (log m2)).

(** ** Non-vacuity.  Two [new_cyclic] whose closures panic; the second one first saves a clone of
    its parameter in a weak slot.  Both objects end uninitialised and freed, no destructor or
    finalizer entry; the side record of the first is freed at once, that of the second survives
    with weak count 1; upgrading the saved clone returns [None]. *)
Definition exPc : prog := Prog [Cls 0 [] 1 false None None] [[CPanic]; [CWClone WP (WS 0); CPanic]] [].
Definition exCyc : machine :=
  fold_left (fun m c => exec_top SafeFinalPropsA.exK exPc 60 c m)
            [CNewCyclic (LS 0) 0 0 false; CNewCyclic (LS 1) 0 1 false; CUpgrade (WS 0) (LS 2)]%nat (init SafeFinalPropsA.exK).
Example C14_nonvacuous :
  wf_prog exPc = true /\
  forallb (fun e => match e with EBad Fuel _ | EBad Abort _ => false | _ => true end) (log exCyc) = true /\
  map (fun x => (o_vst x, o_box x, o_side x)) (heap exCyc) =
    [(VUninit, BFreed, Some (Side (Wk 0 false) true)); (VUninit, BFreed, Some (Side (Wk 1 false) false))] /\
  log exCyc =
    [ERes RNone; ERes RPanicked; EFree 1%nat 48 8; ERes ROk; ECb KClosure 1%nat (Flags false false false false);
     ESAlloc 1%nat; EAlloc 1%nat 48 8; ERes RPanicked; ESFree 0%nat; EFree 0%nat 48 8;
     ECb KClosure 0%nat (Flags false false false false); ESAlloc 0%nat; EAlloc 0%nat 48 8].
Proof. repeat split; vm_compute; reflexivity. Qed.
