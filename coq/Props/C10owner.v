(** C10, OWNER-LEVEL reading (goal (3) of Props/C10prog.v): "when the value of an object with a
    Cleaner has been destroyed, the map its Cleaner named has been destroyed, hence every action
    ever stored in it has run exactly once".  Statements only.

    RESULT: the statement is FALSE in the model ([C10_owner_level_false], executed): a clean,
    panic-free, [no_bad] run of a well-formed program ends with an owner [VDropped]/[BFreed]
    whose Cleaner names a live map holding an action that never ran.  The owner is destroyed
    DURING ITS OWN [Cleaner::register]: the [Cc::new] of the map starts a collection, a finalizer
    drops the slot that holds the last handle of the owner; [register] then stores the map in the
    dead owner.  In safe Rust [register(&self)] keeps the owner borrowed, so client code cannot
    do this; the harness and the model reach the node through a raw pointer ([NSlot]) without
    holding a handle: replaying the program on the harness is a use-after-free in the harness,
    not a defect of rust-cc.  See CleanWalkOwnerEx.v.

    What IS proved ([C10_owner_partial]): in a clean, panic-free run, if [o]'s Cleaner named
    [mo] at an earlier top-level state, [o] is [VDropped] now and its Cleaner field has been
    cleared (exactly the hypothesis that the counterexample violates), then [mo] is a map that no
    Cleaner names, no strong handle to it exists ([refs m mo = 0]), its strong count is 0 if its
    box is still allocated, and - under [Quiet.MapsOwned m], the open hypothesis of Quiet.v "every
    allocated live CleanerMap has a positive strong count" - its value is not alive.  Remaining
    for "[mo] is [VDropped]" (then [C10_prog_dead_map_vacant] / [C10_prog_dead_map_all_ran]
    apply): [MapsOwned] at top-level states, and "no map is [VDropping] / [VUninit] / [VMoved] at
    a top-level state".
    [C10_prog_R]: the frame relation between two top-level states of a clean run. *)
From Coq Require Import NArith Bool List Lia.
From stdpp Require Import base list option.
From RC Require Import Hdr Machine RunInd Inv.
From RC Require Import Clean CleanThm CleanLog CleanEx CleanProg.
From RC Require Import CleanWalk CleanWalkRel CleanWalkOwner CleanWalkOwnerEx.
From RC Require Quiet SafeMain.
Import ListNotations.

Theorem C10_prog_R : forall K P fuel cmds1 cmds2,
  (k_clean K = true -> k_weak K = true) -> wf_prog P = true ->
  let m1 := fold_left (fun m c => exec_top K P fuel c m) cmds1 (init K) in
  let m := fold_left (fun m c => exec_top K P fuel c m) (cmds1 ++ cmds2) (init K) in
  forallb (fun e => match e with EBad Fuel _ | EBad Abort _ => false | _ => true end) (log m) = true ->
  R None (length (zv m1)) (zv m1) (zv m).
Proof. intros K P fuel cmds1 cmds2 Hc Hw. exact (prog_R K P Hc Hw fuel cmds1 cmds2). Qed.
Print Assumptions C10_prog_R.

Theorem C10_owner_partial : forall K P fuel cmds1 cmds2 o mo xo xo',
  (k_clean K = true -> k_weak K = true) -> wf_prog P = true ->
  let m1 := fold_left (fun m c => exec_top K P fuel c m) cmds1 (init K) in
  let m := fold_left (fun m c => exec_top K P fuel c m) (cmds1 ++ cmds2) (init K) in
  forallb (fun e => match e with EBad Fuel _ | EBad Abort _ => false | _ => true end) (log m) = true ->
  no_panic_yet m = true ->
  get m1 o = Some xo -> o_cleaner xo = Some mo ->
  get m o = Some xo' -> o_vst xo' = VDropped -> o_cleaner xo' = None ->
  exists xm, get m mo = Some xm /\ o_ismap xm = true /\ unlinked_m m mo /\ refs m mo = 0 /\
             (o_box xm = BAlloc -> h_rc (o_hdr xm) = 0%N) /\
             (Quiet.MapsOwned m -> o_vst xm <> VLive).
Proof. intros K P fuel cmds1 cmds2 o mo xo xo' Hc Hw. exact (prog_owner_partial K P Hc Hw fuel cmds1 cmds2 o mo xo xo'). Qed.
Print Assumptions C10_owner_partial.

(** the counterexample to the unrestricted statement *)
Theorem C10_owner_level_false :
  (k_clean ownK = true -> k_weak ownK = true) /\ wf_prog ownP = true /\
  SafeMain.clean own_m = true /\ no_panic_yet own_m = true /\ no_bad own_m = true /\
  (exists xo, get own_m 0 = Some xo /\ o_ismap xo = false /\ o_vst xo = VDropped /\
              o_box xo = BFreed /\ o_cleaner xo = Some 2) /\
  (exists xm, get own_m 2 = Some xm /\ o_ismap xm = true /\ o_vst xm = VLive /\ o_box xm = BAlloc /\
              h_rc (o_hdr xm) = 1%N /\ o_mslots xm = [MAction 0 1]) /\
  executed_aids (log own_m) = [] /\ next_aid own_m = 1.
Proof. exact owner_level_false. Qed.
Print Assumptions C10_owner_level_false.

(** ** the hypotheses of [C10_owner_partial] are satisfiable: owner 0 with two actions is
    dropped at top level (no panic); its map 1 ends unlinked, without handle *)
Definition q_pre : list cmd :=
  [CCfgAuto false; CNew (LS 0) 1; CRegister (NSlot 0) 0 0; CRegister (NSlot 0) 0 1].
Definition q_post : list cmd := [CDrop (LS 0)].
Notation n_pre := (fold_left (fun m c => exec_top exK exP 40 c m) q_pre (init exK)).
Notation n_end := (fold_left (fun m c => exec_top exK exP 40 c m) (q_pre ++ q_post) (init exK)).
Lemma q_conf : k_clean exK = true -> k_weak exK = true. Proof. intros _. vm_compute. reflexivity. Qed.
Lemma q_wf : wf_prog exP = true. Proof. vm_compute. reflexivity. Qed.
Lemma q_flags : forallb (fun e => match e with EBad Fuel _ | EBad Abort _ => false | _ => true end) (log n_end) = true /\
                no_panic_yet n_end = true.
Proof. vm_compute. auto. Qed.
Lemma q_owner1 : exists xo, get n_pre 0 = Some xo /\ o_cleaner xo = Some 1.
Proof.
  assert (E : (o_cleaner <$> get n_pre 0) = Some (Some 1)) by (vm_compute; reflexivity).
  destruct (get n_pre 0) as [x|]; [|discriminate]. cbn in E. injection E as E. eauto.
Qed.
Lemma q_owner2 : exists xo', get n_end 0 = Some xo' /\ o_vst xo' = VDropped /\ o_cleaner xo' = None.
Proof.
  assert (E : ((fun x => (o_vst x, o_cleaner x)) <$> get n_end 0) = Some (VDropped, None)) by (vm_compute; reflexivity).
  destruct (get n_end 0) as [x|]; [|discriminate]. cbn in E. injection E as E1 E2. eauto.
Qed.
Example ex_owner_partial :
  exists xm, get n_end 1 = Some xm /\ o_ismap xm = true /\ unlinked_m n_end 1 /\ refs n_end 1 = 0.
Proof.
  destruct q_owner1 as (xo & H1 & H2). destruct q_owner2 as (xo' & H3 & H4 & H5). destruct q_flags as [F1 F2].
  destruct (C10_owner_partial exK exP 40 q_pre q_post 0 1 xo xo' q_conf q_wf F1 F2 H1 H2 H3 H4 H5)
    as (xm & A & B & C & D & _).
  exists xm. auto.
Qed.
Print Assumptions ex_owner_partial.

Check C10_prog_R : forall K P fuel cmds1 cmds2,
  (k_clean K = true -> k_weak K = true) -> wf_prog P = true ->
  let m1 := fold_left (fun m c => exec_top K P fuel c m) cmds1 (init K) in
  let m := fold_left (fun m c => exec_top K P fuel c m) (cmds1 ++ cmds2) (init K) in
  forallb (fun e => match e with EBad Fuel _ | EBad Abort _ => false | _ => true end) (log m) = true ->
  R None (length (zv m1)) (zv m1) (zv m).
Check C10_owner_partial : forall K P fuel cmds1 cmds2 o mo xo xo',
  (k_clean K = true -> k_weak K = true) -> wf_prog P = true ->
  let m1 := fold_left (fun m c => exec_top K P fuel c m) cmds1 (init K) in
  let m := fold_left (fun m c => exec_top K P fuel c m) (cmds1 ++ cmds2) (init K) in
  forallb (fun e => match e with EBad Fuel _ | EBad Abort _ => false | _ => true end) (log m) = true ->
  no_panic_yet m = true ->
  get m1 o = Some xo -> o_cleaner xo = Some mo ->
  get m o = Some xo' -> o_vst xo' = VDropped -> o_cleaner xo' = None ->
  exists xm, get m mo = Some xm /\ o_ismap xm = true /\ unlinked_m m mo /\ refs m mo = 0 /\
             (o_box xm = BAlloc -> h_rc (o_hdr xm) = 0%N) /\
             (Quiet.MapsOwned m -> o_vst xm <> VLive).
