(** C07 - "panics from callbacks are contained at every crash point": the collector-flag part.
    Statements only; every proof is [exact <lemma of Flags*.v>].

    Out of fuel ([OFuel]) is an artefact of the fuelled model, not a behaviour of the crate: an
    activation cut short by [OFuel] leaves the flags as they were at the cut.  [exec_top]
    records it as [EBad Fuel 0]; every program-level statement is about runs whose log does not
    contain that event ([fuel_out]). *)
From Coq Require Import NArith Bool List.
From stdpp Require Import base list option.
From RecordUpdate Require Import RecordSet.
From RC Require Import Hdr Machine RunInd Flags Flags2 Flags3 Flags4 Flags5 Flags6.
Import ListNotations RecordSetNotations.

(** Theorem 1. Every activation started in a state allowed by [Pre] (script-level calls:
    [is_tracing() = false]; [KCollect]: not collecting; [KCollectLoop]/[KCollectOnce]:
    collecting; [KFinalizeList]: finalizing, not tracing; [KDropList]: dropping) keeps the log
    [log_ok] and, unless it ran out of fuel, leaves exactly the flags [target c m] (the flags of
    [m]; for the two list passes with the saved flag restored) - whatever the outcome. *)
Theorem C07_run_flags : forall K P n c m,
  Pre K c m -> Post K c m (run K P n c m).1 (run K P n c m).2.
Proof. exact run_flags. Qed.
Print Assumptions C07_run_flags.

Theorem C07_run_flags_restored : forall K P n c m,
  Pre K c m ->
  log_ok K (log (run K P n c m).1) /\
  ((run K P n c m).2 <> OFuel -> ctl (run K P n c m).1 = target c m).
Proof. exact run_flags_restored. Qed.
Print Assumptions C07_run_flags_restored.

(** Theorem 2. After every top-level command, whatever panicked inside it, the collector is
    idle. *)
Theorem C07_idle : forall K P fuel cmds,
  let m := fold_left (fun m c => exec_top K P fuel c m) cmds (init K) in
  ~ fuel_out m ->
  st_collecting m = false /\ st_finalizing m = false /\ st_dropping m = false /\
  panicking m = false.
Proof. exact Flags4.C07_idle. Qed.
Print Assumptions C07_idle.

Theorem C07_idle_step : forall K P fuel c m,
  idle m -> log_ok K (log m) ->
  (run K P fuel (KCmd None c) m).2 <> OFuel ->
  idle (exec_top K P fuel c m) /\ log_ok K (log (exec_top K P fuel c m)).
Proof. exact exec_top_idle. Qed.
Print Assumptions C07_idle_step.

(** ... so a later collection can start: [collect_cycles] enters [collect] ... *)
Theorem C07_collect_can_start : forall K P n m,
  st_collecting m = false -> pc_alive m = true ->
  run K P (S (S n)) KCollectCycles m =
  (let '(m1, r) := run K P n (KCollectLoop (if k_fin K then 10 else 1)%nat)
                      (m <| st_collecting := true |> <| st_exec ::= N.succ |>) in
   let m2 := m1 <| st_collecting := false |> in
   match r with ONormal => (adjust_trigger_point K m2, ONormal) | _ => (m2, r) end).
Proof. exact Flags4.C07_collect_can_start. Qed.
Print Assumptions C07_collect_can_start.

(** ... and runs exactly one collection, whatever happens inside it. *)
Theorem C07_collect_starts_once : forall K P n m,
  st_collecting m = false -> pc_alive m = true -> log_ok K (log m) ->
  st_exec (run K P (S (S n)) KCollectCycles m).1 = N.succ (st_exec m).
Proof. exact Flags5.C07_collect_starts_once. Qed.
Print Assumptions C07_collect_starts_once.

(** Theorem 3. A panic is never swallowed below the top level: an activation that returns
    normally did not reach a sub-activation that panicked, aborted or ran out of fuel (its
    result does not depend on [rec] at such points). *)
Theorem C07_propagates : forall K P rec rec' k m,
  (forall k' m', (rec k' m').2 = ONormal -> rec' k' m' = rec k' m') ->
  (step K P rec k m).2 = ONormal -> step K P rec' k m = step K P rec k m.
Proof. exact step_strict. Qed.
Print Assumptions C07_propagates.

Theorem C07_unwinding_not_normal : forall f m, (unwinding f m).2 <> ONormal.
Proof. exact unwinding_not_normal. Qed.
Print Assumptions C07_unwinding_not_normal.

Theorem C07_script_propagates : forall rec self c cs m,
  (rec (KCmd self c) m).2 <> ONormal ->
  step_script rec self (c :: cs) m = rec (KCmd self c) m.
Proof. exact step_script_propagates. Qed.
Print Assumptions C07_script_propagates.

(** At the top level the panic is reported: [ERes RPanicked] is logged by [exec_top] only, and
    exactly when the command's outcome was [OPanic]. *)
Theorem C07_exec_top_panicked : forall K P fuel c m,
  (run K P fuel (KCmd None c) m).2 = OPanic ->
  head (log (exec_top K P fuel c m)) = Some (ERes RPanicked).
Proof. exact exec_top_panicked. Qed.
Print Assumptions C07_exec_top_panicked.

Theorem C07_exec_top_panicked_iff : forall K P fuel c m,
  exists k, log (exec_top K P fuel c m) = k ++ log m /\
            (In (ERes RPanicked) k <-> (run K P fuel (KCmd None c) m).2 = OPanic).
Proof. exact exec_top_panicked_iff. Qed.
Print Assumptions C07_exec_top_panicked_iff.

(** A run that completed normally does not depend on the remaining fuel. *)
Theorem C07_run_normal_stable : forall K P n n' k m,
  (run K P n k m).2 = ONormal -> (n <= n')%nat -> run K P n' k m = run K P n k m.
Proof. exact run_normal_stable. Qed.
Print Assumptions C07_run_normal_stable.

Check C07_run_flags : forall K P n c m,
  Pre K c m -> Post K c m (run K P n c m).1 (run K P n c m).2.
Check C07_idle : forall K P fuel cmds,
  let m := fold_left (fun m c => exec_top K P fuel c m) cmds (init K) in
  ~ fuel_out m ->
  st_collecting m = false /\ st_finalizing m = false /\ st_dropping m = false /\
  panicking m = false.
Check C07_collect_starts_once : forall K P n m,
  st_collecting m = false -> pc_alive m = true -> log_ok K (log m) ->
  st_exec (run K P (S (S n)) KCollectCycles m).1 = N.succ (st_exec m).
Check C07_propagates : forall K P rec rec' k m,
  (forall k' m', (rec k' m').2 = ONormal -> rec' k' m' = rec k' m') ->
  (step K P rec k m).2 = ONormal -> step K P rec' k m = step K P rec k m.
Check C07_exec_top_panicked_iff : forall K P fuel c m,
  exists k, log (exec_top K P fuel c m) = k ++ log m /\
            (In (ERes RPanicked) k <-> (run K P fuel (KCmd None c) m).2 = OPanic).

(** ** Non-vacuity on a concrete program ([ex_cmds]: three garbage cycles, the finalizers of the
    second one panic inside the collector; see Flags4.v) *)
Example ex_not_fuel_out : ~ fuel_out ex_m.
Proof. rewrite fuel_out_existsb. vm_compute. discriminate. Qed.

Example ex_idle : idle ex_m.
Proof. exact (C07_idle exK exP 100 ex_cmds ex_not_fuel_out). Qed.

(** a panic did happen and was reported *)
Example ex_has_panicked :
  has_res (fun r => match r with RPanicked => true | _ => false end) (log ex_m) = true.
Proof. vm_compute. reflexivity. Qed.

(** three collections ran: one before, one during (the panicking one), one after *)
Example ex_exec : st_exec ex_m = 3%N.
Proof. vm_compute. reflexivity. Qed.

(** the hypotheses of [C07_collect_starts_once] hold after the panic, and a fourth collection
    starts *)
Example ex_can_collect_again :
  st_collecting ex_m = false /\ pc_alive ex_m = true /\ log_ok exK (log ex_m) /\
  st_exec (run exK exP 52 KCollectCycles ex_m).1 = 4%N.
Proof.
  split; [vm_compute; reflexivity|]. split; [vm_compute; reflexivity|].
  split; [exact (Flags4.C12_log exK exP 100 ex_cmds ex_not_fuel_out)|].
  vm_compute. reflexivity.
Qed.

(** a top-level command whose outcome is [OPanic] (the second [collect] of [ex_cmds]) *)
Example ex_outcome_panic :
  let m := run_prog exK exP 100 (ex_cycle 0 ++ [CCollect; CSObs] ++ ex_cycle 1) (init exK) in
  (run exK exP 100 (KCmd None CCollect) m).2 = OPanic.
Proof. vm_compute. reflexivity. Qed.

(** [C07_propagates] is not vacuous: an activation with sub-activations that returns normally *)
Example ex_normal_step :
  (step exK exP (run exK exP 10) (KScript None [CSObs; CSObs]) (init exK)).2 = ONormal.
Proof. vm_compute. reflexivity. Qed.

(** why the program-level statements exclude runs that ran out of fuel: with fuel 5 the tail call
    [KFinalizeList] of [step_collect_once] is cut ([run 0 c m = (m, OFuel)]) after [finalizing]
    was set, and nothing restores it: the top-level state is not idle *)
Example ex_fuel_breaks_idle :
  let m := run_prog exK exP 5 (ex_cycle 0 ++ [CCollect]) (init exK) in
  fuel_out m /\ st_finalizing m = true.
Proof. split; [rewrite fuel_out_existsb|]; vm_compute; reflexivity. Qed.
