(** C13, program level - "outside collections, finalizers and destructors, [Cc::try_unwrap] returns
    Ok(value) exactly when [strong_count()] is 1: the value is moved out unchanged without being
    finalized or dropped, its allocation is released, it leaves the buffer, and every Weak to it
    stops upgrading; otherwise it returns Err with the very same pointer, and counts, buffering and
    finalization state are unchanged".
    Statements only; every proof is [exact <lemma>] (C13Prog.v, C13ProgVal.v, C13ProgEx.v).
    Every theorem is about the state [m] reached by an arbitrary command list [cmds] of an arbitrary
    well-formed program [P] under an arbitrary configuration [K] (with cleaners only if weak-ptrs)
    and fuel, provided the run was not cut by fuel / aborted (same formulation as
    [C04_program_count]); the command is a top-level [try_unwrap] of the handle in slot [i] into
    the empty value slot [v].  The hypotheses [NoBad], [SInv], "box allocated" and "collector flags
    idle" of the state-level [C13_try_unwrap_ok] are discharged from reachability. *)
From Coq Require Import NArith Bool List Lia.
From stdpp Require Import base list option.
From RecordUpdate Require Import RecordSet.
From RC Require Import Hdr Machine RunInd Inv InvP SafeMain SafeProps C13Prog C13ProgVal C13ProgEx.
Import ListNotations RecordSetNotations.
Local Open Scope N_scope.

(** (1) the header count is 1: Ok.  The log of the returned machine [mf] grows by [EFree]/[ESFree]
    events only (no callback entry: no finalizer, no Drop; no [EBad]); the box of [o] is freed with
    the layout of its value; the value is [VMoved] and recorded in value slot [v]; a surviving side
    record is no longer accessible; [o] is not in the buffer; the state in which the next command
    runs is [mf] plus the result event *)
Theorem C13_prog_ok :
  forall (K : conf) (P : prog) (fuel : nat) (cmds : list cmd),
  (k_clean K = true -> k_weak K = true) -> wf_prog P = true ->
  let m := fold_left (fun m c => exec_top K P fuel c m) cmds (init K) in
  forallb (fun e => match e with EBad Fuel _ | EBad Abort _ => false | _ => true end) (log m) = true ->
  forall (i v : nat) (o : id),
  slots m !! i = Some (Some o) -> values m !! v = Some None -> h_rc (hdr_of m o) = 1 ->
  exists (mf : machine) (x : obj), get m o = Some x /\ o_box x = BAlloc /\ o_vst x = VLive /\
    cmd_try_unwrap K None (LS i) v m = ok mf RUnwrapOk /\
    exec_top K P fuel (CTryUnwrap (LS i) v) m = emit (ERes RUnwrapOk) mf /\
    (exists l' : list event, log mf = l' ++ log m /\
       forallb (fun e : event => match e with EFree _ _ _ | ESFree _ => true | _ => false end) l' = true) /\
    In (EFree o (box_layout K x).1 (box_layout K x).2) (log mf) /\
    (exists y : obj, get mf o = Some y /\ o_vst y = VMoved /\ o_box y = BFreed /\
               (forall s : side, o_side y = Some s -> sd_freed s = false -> w_acc (sd_wk s) = false)) /\
    o ∉ pc mf /\ values mf !! v = Some (Some o).
Proof. exact C13Prog.prog_try_unwrap_ok. Qed.
Print Assumptions C13_prog_ok.

(** (1') "moved out unchanged, allocation released": the object [y] in [mf] is the object [x] of [m]
    except for header, value state ([VMoved]), box state ([BFreed]) and side record (class, strong
    and Weak fields, cleaner field, borrow flags are the same); no other object of the heap is
    touched; the handle left slot [i] and no strong handle to [o] remains; the other program
    variables are unchanged; the allocator's byte counter decreases by the size of the box *)
Theorem C13_prog_value :
  forall (K : conf) (P : prog) (fuel : nat) (cmds : list cmd),
  (k_clean K = true -> k_weak K = true) -> wf_prog P = true ->
  let m := fold_left (fun m c => exec_top K P fuel c m) cmds (init K) in
  forallb (fun e => match e with EBad Fuel _ | EBad Abort _ => false | _ => true end) (log m) = true ->
  forall (i v : nat) (o : id),
  slots m !! i = Some (Some o) -> values m !! v = Some None -> h_rc (hdr_of m o) = 1 ->
  exists (mf : machine) (x y : obj), cmd_try_unwrap K None (LS i) v m = ok mf RUnwrapOk /\
    get m o = Some x /\ get mf o = Some y /\
    y = x <| o_hdr := o_hdr y |> <| o_vst := VMoved |> <| o_box := BFreed |> <| o_side := o_side y |> /\
    (forall t : id, t <> o -> get mf t = get m t) /\
    slots mf = <[i := None]> (slots m) /\ values mf = <[v := Some o]> (values m) /\
    bag mf = bag m /\ wslots mf = wslots m /\ cslots mf = cslots m /\ wparam mf = wparam m /\
    refs mf o = 0%nat /\
    st_alloc mf = st_alloc m - (box_layout K x).1.
Proof. exact C13ProgVal.prog_try_unwrap_value. Qed.
Print Assumptions C13_prog_value.

(** (2a) "exactly when [strong_count()] is 1", also after caught panics: a top-level
    [strong_count] through the same slot reports the header count [rc] of [o] (at least the number
    of existing strong handles, equal to it while no panic was caught); [try_unwrap] answers Ok iff
    [rc = 1]; otherwise it answers Err and returns the machine unchanged (so the state in which the
    next command runs is [m] plus the result event: same pointer in the slot, same counts, same
    buffer, same finalization state) *)
Theorem C13_prog_count :
  forall (K : conf) (P : prog) (fuel : nat) (cmds : list cmd),
  (k_clean K = true -> k_weak K = true) -> wf_prog P = true ->
  let m := fold_left (fun m c => exec_top K P fuel c m) cmds (init K) in
  forallb (fun e => match e with EBad Fuel _ | EBad Abort _ => false | _ => true end) (log m) = true ->
  forall (i v : nat) (o : id),
  slots m !! i = Some (Some o) -> values m !! v = Some None ->
  exists (mf : machine) (r : res) (x : obj), get m o = Some x /\ hdr_of m o = o_hdr x /\
    cmd_obs None (LS i) m =
      ok (emit (EObs o (h_rc (o_hdr x)) (N.of_nat (wrefs m o)) (h_fin (o_hdr x)) true) m) ROk /\
    N.of_nat (refs m o) <= h_rc (o_hdr x) /\
    (no_panic_yet m = true -> h_rc (o_hdr x) = N.of_nat (refs m o)) /\
    cmd_try_unwrap K None (LS i) v m = ok mf r /\
    exec_top K P fuel (CTryUnwrap (LS i) v) m = emit (ERes r) mf /\
    (r = RUnwrapOk <-> h_rc (o_hdr x) = 1) /\
    (h_rc (o_hdr x) <> 1 -> r = RUnwrapErr /\ mf = m).
Proof. exact C13Prog.prog_try_unwrap_count. Qed.
Print Assumptions C13_prog_count.

(** (2) while no panic was caught: Ok iff exactly one strong handle to [o] exists ([refs], Inv.v:
    handles in slots, the bag, strong fields and cleaner fields); otherwise Err, machine unchanged *)
Theorem C13_prog_iff :
  forall (K : conf) (P : prog) (fuel : nat) (cmds : list cmd),
  (k_clean K = true -> k_weak K = true) -> wf_prog P = true ->
  let m := fold_left (fun m c => exec_top K P fuel c m) cmds (init K) in
  forallb (fun e => match e with EBad Fuel _ | EBad Abort _ => false | _ => true end) (log m) = true ->
  forall (i v : nat) (o : id),
  slots m !! i = Some (Some o) -> values m !! v = Some None -> no_panic_yet m = true ->
  exists (mf : machine) (r : res), cmd_try_unwrap K None (LS i) v m = ok mf r /\
    (r = RUnwrapOk <-> refs m o = 1%nat) /\
    (refs m o <> 1%nat -> r = RUnwrapErr /\ mf = m).
Proof. exact C13Prog.prog_try_unwrap_iff. Qed.
Print Assumptions C13_prog_iff.

(** (3) after an Ok every Weak slot [j] that points to [o] (the Weak slots are not touched by the
    command) reports strong count 0 and [upgrade] returns None without changing anything, for
    every destination - both in the machine [mf] returned by the command and in the state [m'] in
    which the next top-level command runs ([rec] arbitrary: the answer does not depend on the
    callees); the weak count still counts these handles *)
Theorem C13_prog_weak_dead :
  forall (K : conf) (P : prog) (fuel : nat) (cmds : list cmd),
  (k_clean K = true -> k_weak K = true) -> wf_prog P = true ->
  let m := fold_left (fun m c => exec_top K P fuel c m) cmds (init K) in
  forallb (fun e => match e with EBad Fuel _ | EBad Abort _ => false | _ => true end) (log m) = true ->
  forall (i v : nat) (o : id),
  slots m !! i = Some (Some o) -> values m !! v = Some None -> h_rc (hdr_of m o) = 1 ->
  exists mf : machine, cmd_try_unwrap K None (LS i) v m = ok mf RUnwrapOk /\
    let m' := exec_top K P fuel (CTryUnwrap (LS i) v) m in
    m' = emit (ERes RUnwrapOk) mf /\ wslots mf = wslots m /\ wslots m' = wslots m /\
    forall j : nat, wslots m !! j = Some (Some (WTo o)) ->
      k_weak K = true /\ (0 < wrefs m' o)%nat /\ wrefs mf o = wrefs m' o /\
      (forall (rec : call -> machine -> machine * outcome) (dst : loc) (rd : rloc),
         resolve None dst m' = (m', Some rd) -> cmd_upgrade K rec None (WS j) dst m' = ok m' RNone) /\
      cmd_w_obs K None (WS j) m' = ok (emit (EWObs 0 (N.of_nat (wrefs m' o))) m') ROk /\
      (forall (rec : call -> machine -> machine * outcome) (dst : loc) (rd : rloc),
         resolve None dst mf = (mf, Some rd) -> cmd_upgrade K rec None (WS j) dst mf = ok mf RNone) /\
      cmd_w_obs K None (WS j) mf = ok (emit (EWObs 0 (N.of_nat (wrefs mf o))) mf) ROk.
Proof. exact C13Prog.prog_try_unwrap_weak_dead. Qed.
Print Assumptions C13_prog_weak_dead.

(** (3') the same for every weak location a top-level command can name ([WS j]: Weak slot; [WFA a j]:
    Weak field [j] of the object held by slot [a]) that holds a Weak to [o] after the command *)
Theorem C13_prog_weak_dead_loc :
  forall (K : conf) (P : prog) (fuel : nat) (cmds : list cmd),
  (k_clean K = true -> k_weak K = true) -> wf_prog P = true ->
  let m := fold_left (fun m c => exec_top K P fuel c m) cmds (init K) in
  forallb (fun e => match e with EBad Fuel _ | EBad Abort _ => false | _ => true end) (log m) = true ->
  forall (i v : nat) (o : id),
  slots m !! i = Some (Some o) -> values m !! v = Some None -> h_rc (hdr_of m o) = 1 ->
  exists mf : machine, cmd_try_unwrap K None (LS i) v m = ok mf RUnwrapOk /\
    let m' := exec_top K P fuel (CTryUnwrap (LS i) v) m in
    m' = emit (ERes RUnwrapOk) mf /\
    forall (w : wloc) (rw : rwloc), wresolve None w m' = (m', Some rw) -> read_wloc rw m' = Some (WTo o) ->
      k_weak K = true /\ (0 < wrefs m' o)%nat /\
      (forall (rec : call -> machine -> machine * outcome) (dst : loc) (rd : rloc),
         resolve None dst m' = (m', Some rd) -> cmd_upgrade K rec None w dst m' = ok m' RNone) /\
      cmd_w_obs K None w m' = ok (emit (EWObs 0 (N.of_nat (wrefs m' o))) m') ROk.
Proof. exact C13Prog.prog_try_unwrap_weak_dead_loc. Qed.
Print Assumptions C13_prog_weak_dead_loc.

(** ** The hypotheses are satisfiable (closed examples, by computation).  Class 0 has one traced
    field, one Weak field, a finalizer and a Drop impl (both scripts log an observation when they
    run).  Objects 0 and 1, object 1 owned by field 0 of object 0, a Weak to object 0 in Weak slot 0,
    a second handle to object 0 created and dropped again: all hypotheses of (1), (1'), (2), (3)
    hold for [i = 0, v = 0, o = 0, j = 0] (object 0 still has its finalizer to run); the run then
    continues as the theorems say: [try_unwrap] Ok, [upgrade] None, Weak counts (0, 1), and the
    four newest events contain no callback entry *)
Theorem C13_prog_example_ok :
  exists (K : conf) (fuel : nat),
    let P := Prog [Cls 1 [true] 1 false (Some 0%nat) (Some 1%nat)] [[CSObs]; [CSObs]] [] in
    let cmds := [CNew (LS 0) 0; CNew (LS 1) 0; CMove (LS 1) (LFA 0 0); CDowngrade (LS 0) (WS 0);
                 CClone (LS 0) (LS 2); CDrop (LS 2)] in
    let m := fold_left (fun m c => exec_top K P fuel c m) cmds (init K) in
    let m2 := fold_left (fun m c => exec_top K P fuel c m)
                        [CTryUnwrap (LS 0) 0; CUpgrade (WS 0) (LS 3); CWObs (WS 0)] m in
    (k_clean K = true -> k_weak K = true) /\ wf_prog P = true /\
    forallb (fun e => match e with EBad Fuel _ | EBad Abort _ => false | _ => true end) (log m) = true /\
    slots m !! 0%nat = Some (Some 0%nat) /\ values m !! 0%nat = Some None /\ h_rc (hdr_of m 0%nat) = 1 /\
    no_panic_yet m = true /\ refs m 0%nat = 1%nat /\ wslots m !! 0%nat = Some (Some (WTo 0%nat)) /\
    (exists x : obj, get m 0%nat = Some x /\ o_fields x = [Some 1%nat] /\ needs_fin (o_hdr x) = true) /\
    no_bad m2 = true /\
    firstn 4 (log m2) = [ERes ROk; EWObs 0 1; ERes RNone; ERes RUnwrapOk] /\
    values m2 !! 0%nat = Some (Some 0%nat) /\ slots m2 !! 0%nat = Some None /\ slots m2 !! 3%nat = Some None.
Proof. exact C13ProgEx.c13_example_ok. Qed.
Print Assumptions C13_prog_example_ok.

(** the same without the final drop: two handles, [try_unwrap] answers Err and changes nothing *)
Theorem C13_prog_example_err :
  exists (K : conf) (fuel : nat),
    let P := Prog [Cls 1 [true] 1 false (Some 0%nat) (Some 1%nat)] [[CSObs]; [CSObs]] [] in
    let cmds := [CNew (LS 0) 0; CNew (LS 1) 0; CMove (LS 1) (LFA 0 0); CDowngrade (LS 0) (WS 0);
                 CClone (LS 0) (LS 2)] in
    let m := fold_left (fun m c => exec_top K P fuel c m) cmds (init K) in
    (k_clean K = true -> k_weak K = true) /\ wf_prog P = true /\
    forallb (fun e => match e with EBad Fuel _ | EBad Abort _ => false | _ => true end) (log m) = true /\
    slots m !! 0%nat = Some (Some 0%nat) /\ values m !! 0%nat = Some None /\
    no_panic_yet m = true /\ refs m 0%nat = 2%nat /\ h_rc (hdr_of m 0%nat) = 2 /\
    exec_top K P fuel (CTryUnwrap (LS 0) 0) m = emit (ERes RUnwrapErr) m.
Proof. exact C13ProgEx.c13_example_err. Qed.
Print Assumptions C13_prog_example_err.

(** ** Pins *)
Check C13_prog_ok :
  forall (K : conf) (P : prog) (fuel : nat) (cmds : list cmd),
  (k_clean K = true -> k_weak K = true) -> wf_prog P = true ->
  let m := fold_left (fun m c => exec_top K P fuel c m) cmds (init K) in
  forallb (fun e => match e with EBad Fuel _ | EBad Abort _ => false | _ => true end) (log m) = true ->
  forall (i v : nat) (o : id),
  slots m !! i = Some (Some o) -> values m !! v = Some None -> h_rc (hdr_of m o) = 1 ->
  exists (mf : machine) (x : obj), get m o = Some x /\ o_box x = BAlloc /\ o_vst x = VLive /\
    cmd_try_unwrap K None (LS i) v m = ok mf RUnwrapOk /\
    exec_top K P fuel (CTryUnwrap (LS i) v) m = emit (ERes RUnwrapOk) mf /\
    (exists l' : list event, log mf = l' ++ log m /\
       forallb (fun e : event => match e with EFree _ _ _ | ESFree _ => true | _ => false end) l' = true) /\
    In (EFree o (box_layout K x).1 (box_layout K x).2) (log mf) /\
    (exists y : obj, get mf o = Some y /\ o_vst y = VMoved /\ o_box y = BFreed /\
               (forall s : side, o_side y = Some s -> sd_freed s = false -> w_acc (sd_wk s) = false)) /\
    o ∉ pc mf /\ values mf !! v = Some (Some o).
Check C13_prog_value :
  forall (K : conf) (P : prog) (fuel : nat) (cmds : list cmd),
  (k_clean K = true -> k_weak K = true) -> wf_prog P = true ->
  let m := fold_left (fun m c => exec_top K P fuel c m) cmds (init K) in
  forallb (fun e => match e with EBad Fuel _ | EBad Abort _ => false | _ => true end) (log m) = true ->
  forall (i v : nat) (o : id),
  slots m !! i = Some (Some o) -> values m !! v = Some None -> h_rc (hdr_of m o) = 1 ->
  exists (mf : machine) (x y : obj), cmd_try_unwrap K None (LS i) v m = ok mf RUnwrapOk /\
    get m o = Some x /\ get mf o = Some y /\
    y = x <| o_hdr := o_hdr y |> <| o_vst := VMoved |> <| o_box := BFreed |> <| o_side := o_side y |> /\
    (forall t : id, t <> o -> get mf t = get m t) /\
    slots mf = <[i := None]> (slots m) /\ values mf = <[v := Some o]> (values m) /\
    bag mf = bag m /\ wslots mf = wslots m /\ cslots mf = cslots m /\ wparam mf = wparam m /\
    refs mf o = 0%nat /\
    st_alloc mf = st_alloc m - (box_layout K x).1.
Check C13_prog_count :
  forall (K : conf) (P : prog) (fuel : nat) (cmds : list cmd),
  (k_clean K = true -> k_weak K = true) -> wf_prog P = true ->
  let m := fold_left (fun m c => exec_top K P fuel c m) cmds (init K) in
  forallb (fun e => match e with EBad Fuel _ | EBad Abort _ => false | _ => true end) (log m) = true ->
  forall (i v : nat) (o : id),
  slots m !! i = Some (Some o) -> values m !! v = Some None ->
  exists (mf : machine) (r : res) (x : obj), get m o = Some x /\ hdr_of m o = o_hdr x /\
    cmd_obs None (LS i) m =
      ok (emit (EObs o (h_rc (o_hdr x)) (N.of_nat (wrefs m o)) (h_fin (o_hdr x)) true) m) ROk /\
    N.of_nat (refs m o) <= h_rc (o_hdr x) /\
    (no_panic_yet m = true -> h_rc (o_hdr x) = N.of_nat (refs m o)) /\
    cmd_try_unwrap K None (LS i) v m = ok mf r /\
    exec_top K P fuel (CTryUnwrap (LS i) v) m = emit (ERes r) mf /\
    (r = RUnwrapOk <-> h_rc (o_hdr x) = 1) /\
    (h_rc (o_hdr x) <> 1 -> r = RUnwrapErr /\ mf = m).
Check C13_prog_iff :
  forall (K : conf) (P : prog) (fuel : nat) (cmds : list cmd),
  (k_clean K = true -> k_weak K = true) -> wf_prog P = true ->
  let m := fold_left (fun m c => exec_top K P fuel c m) cmds (init K) in
  forallb (fun e => match e with EBad Fuel _ | EBad Abort _ => false | _ => true end) (log m) = true ->
  forall (i v : nat) (o : id),
  slots m !! i = Some (Some o) -> values m !! v = Some None -> no_panic_yet m = true ->
  exists (mf : machine) (r : res), cmd_try_unwrap K None (LS i) v m = ok mf r /\
    (r = RUnwrapOk <-> refs m o = 1%nat) /\
    (refs m o <> 1%nat -> r = RUnwrapErr /\ mf = m).
Check C13_prog_weak_dead :
  forall (K : conf) (P : prog) (fuel : nat) (cmds : list cmd),
  (k_clean K = true -> k_weak K = true) -> wf_prog P = true ->
  let m := fold_left (fun m c => exec_top K P fuel c m) cmds (init K) in
  forallb (fun e => match e with EBad Fuel _ | EBad Abort _ => false | _ => true end) (log m) = true ->
  forall (i v : nat) (o : id),
  slots m !! i = Some (Some o) -> values m !! v = Some None -> h_rc (hdr_of m o) = 1 ->
  exists mf : machine, cmd_try_unwrap K None (LS i) v m = ok mf RUnwrapOk /\
    let m' := exec_top K P fuel (CTryUnwrap (LS i) v) m in
    m' = emit (ERes RUnwrapOk) mf /\ wslots mf = wslots m /\ wslots m' = wslots m /\
    forall j : nat, wslots m !! j = Some (Some (WTo o)) ->
      k_weak K = true /\ (0 < wrefs m' o)%nat /\ wrefs mf o = wrefs m' o /\
      (forall (rec : call -> machine -> machine * outcome) (dst : loc) (rd : rloc),
         resolve None dst m' = (m', Some rd) -> cmd_upgrade K rec None (WS j) dst m' = ok m' RNone) /\
      cmd_w_obs K None (WS j) m' = ok (emit (EWObs 0 (N.of_nat (wrefs m' o))) m') ROk /\
      (forall (rec : call -> machine -> machine * outcome) (dst : loc) (rd : rloc),
         resolve None dst mf = (mf, Some rd) -> cmd_upgrade K rec None (WS j) dst mf = ok mf RNone) /\
      cmd_w_obs K None (WS j) mf = ok (emit (EWObs 0 (N.of_nat (wrefs mf o))) mf) ROk.
Check C13_prog_weak_dead_loc :
  forall (K : conf) (P : prog) (fuel : nat) (cmds : list cmd),
  (k_clean K = true -> k_weak K = true) -> wf_prog P = true ->
  let m := fold_left (fun m c => exec_top K P fuel c m) cmds (init K) in
  forallb (fun e => match e with EBad Fuel _ | EBad Abort _ => false | _ => true end) (log m) = true ->
  forall (i v : nat) (o : id),
  slots m !! i = Some (Some o) -> values m !! v = Some None -> h_rc (hdr_of m o) = 1 ->
  exists mf : machine, cmd_try_unwrap K None (LS i) v m = ok mf RUnwrapOk /\
    let m' := exec_top K P fuel (CTryUnwrap (LS i) v) m in
    m' = emit (ERes RUnwrapOk) mf /\
    forall (w : wloc) (rw : rwloc), wresolve None w m' = (m', Some rw) -> read_wloc rw m' = Some (WTo o) ->
      k_weak K = true /\ (0 < wrefs m' o)%nat /\
      (forall (rec : call -> machine -> machine * outcome) (dst : loc) (rd : rloc),
         resolve None dst m' = (m', Some rd) -> cmd_upgrade K rec None w dst m' = ok m' RNone) /\
      cmd_w_obs K None w m' = ok (emit (EWObs 0 (N.of_nat (wrefs m' o))) m') ROk.
Check C13_prog_example_ok :
  exists (K : conf) (fuel : nat),
    let P := Prog [Cls 1 [true] 1 false (Some 0%nat) (Some 1%nat)] [[CSObs]; [CSObs]] [] in
    let cmds := [CNew (LS 0) 0; CNew (LS 1) 0; CMove (LS 1) (LFA 0 0); CDowngrade (LS 0) (WS 0);
                 CClone (LS 0) (LS 2); CDrop (LS 2)] in
    let m := fold_left (fun m c => exec_top K P fuel c m) cmds (init K) in
    let m2 := fold_left (fun m c => exec_top K P fuel c m)
                        [CTryUnwrap (LS 0) 0; CUpgrade (WS 0) (LS 3); CWObs (WS 0)] m in
    (k_clean K = true -> k_weak K = true) /\ wf_prog P = true /\
    forallb (fun e => match e with EBad Fuel _ | EBad Abort _ => false | _ => true end) (log m) = true /\
    slots m !! 0%nat = Some (Some 0%nat) /\ values m !! 0%nat = Some None /\ h_rc (hdr_of m 0%nat) = 1 /\
    no_panic_yet m = true /\ refs m 0%nat = 1%nat /\ wslots m !! 0%nat = Some (Some (WTo 0%nat)) /\
    (exists x : obj, get m 0%nat = Some x /\ o_fields x = [Some 1%nat] /\ needs_fin (o_hdr x) = true) /\
    no_bad m2 = true /\
    firstn 4 (log m2) = [ERes ROk; EWObs 0 1; ERes RNone; ERes RUnwrapOk] /\
    values m2 !! 0%nat = Some (Some 0%nat) /\ slots m2 !! 0%nat = Some None /\ slots m2 !! 3%nat = Some None.
Check C13_prog_example_err :
  exists (K : conf) (fuel : nat),
    let P := Prog [Cls 1 [true] 1 false (Some 0%nat) (Some 1%nat)] [[CSObs]; [CSObs]] [] in
    let cmds := [CNew (LS 0) 0; CNew (LS 1) 0; CMove (LS 1) (LFA 0 0); CDowngrade (LS 0) (WS 0);
                 CClone (LS 0) (LS 2)] in
    let m := fold_left (fun m c => exec_top K P fuel c m) cmds (init K) in
    (k_clean K = true -> k_weak K = true) /\ wf_prog P = true /\
    forallb (fun e => match e with EBad Fuel _ | EBad Abort _ => false | _ => true end) (log m) = true /\
    slots m !! 0%nat = Some (Some 0%nat) /\ values m !! 0%nat = Some None /\
    no_panic_yet m = true /\ refs m 0%nat = 2%nat /\ h_rc (hdr_of m 0%nat) = 2 /\
    exec_top K P fuel (CTryUnwrap (LS 0) 0) m = emit (ERes RUnwrapErr) m.
