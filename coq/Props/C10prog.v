(** C10, program level (follow-up to Props/C10.v).  Statements only; every proof is
    [exact <lemma of CleanProg.v>].

    STATUS of the three intended theorems (K with [k_clean -> k_weak], [wf_prog P], clean run):

    (1) [C10_prog_dead_map_vacant] (every map object with [o_vst = VDropped] has only vacant
        slots): NOT PROVED.  Validated by [vm_compute] (CleanProgEx.v: panicking action by
        script and by fuse - the remaining actions run while unwinding -; the F5 program; a map
        buffered in POSSIBLE_CYCLES; an owner destroyed by the collector); the hypothesis "no
        [EBad Abort]" is necessary ([CleanProgEx.ex_double_panic_aborts]: a second panic aborts
        and leaves a [VDropped] map with an action).  What is missing: the invariant has to talk
        about [o_vst], which is outside the cleaner view [cv]; its preservation by
        [Cleaner::register] needs two facts of the count / no-dangling layer at points that are
        not activation entries (so [Life.mrun_ind] does not provide them): after the collection
        started by [Cc::new] inside [register] (a) the fresh, not yet boxed map is still
        [VLive] ([InvP.of_notyet] of the nested [KTrigger]) and (b) [Cc::drop] of the spare empty
        map touches no other object ([InvP.quiet_map] of the nested [KDropCc]).  What IS proved
        here: once a map is named by no Cleaner and vacant at a top-level state it stays so
        ([C10_prog_vacant_stays]); per activation: [C10.C10_drop_value_post].
    (2) [C10_prog_dead_map_all_ran]: proved with the conclusion of (1) as hypothesis
        ([C10_prog_dead_map_all_ran_partial]: [all_vacant m mo] instead of "[mo] is a map whose
        value is [VDropped]").
    (3) owner-level reading: neither proved nor refuted; the candidate counterexamples (map
        buffered after a [clean()], owner destroyed by the collector, F5) all behave correctly
        at top level (CleanProgEx.v).  Note that a destroyed owner has [o_cleaner = None] (the
        drop glue clears the field), so (3) needs a history formulation, and its proof the fact
        "an allocated live map with strong count 0 is linked in a collector list", which is
        not a conjunct of [InvP.SInv]. *)
From Coq Require Import NArith Bool List.
From stdpp Require Import base list option.
From RecordUpdate Require Import RecordSet.
From RC Require Import Hdr Machine RunInd Clean CleanFrame CleanStep CleanStep2 CleanThm CleanLog CleanProg.
Import ListNotations RecordSetNotations.

(** Two top-level states of the same run (the later one not cut by fuel) are related by [Rel]:
    [CI] afterwards, [next_aid] and the executed aids only grow, [K1] (an action stored before is
    still in its slot or has run), [K2] (an action stored afterwards was in the same slot before
    or is new), [K3], [KC], [KU]. *)
Theorem C10_prog_suffix_rel : forall K P fuel cmds1 cmds2,
  let m1 := fold_left (fun m c => exec_top K P fuel c m) cmds1 (init K) in
  let m := fold_left (fun m c => exec_top K P fuel c m) (cmds1 ++ cmds2) (init K) in
  fuel_free m -> Rel (cv m1) (cv m).
Proof. exact prog_suffix_Rel. Qed.
Print Assumptions C10_prog_suffix_rel.

(** A map that no Cleaner names and whose slots are all vacant at a top-level state (e.g. after
    the drop of its value, [C10.C10_drop_value_post]) is never named by a Cleaner and never
    receives an action again. *)
Theorem C10_prog_vacant_stays : forall K P fuel cmds1 cmds2 mo x,
  let m1 := fold_left (fun m c => exec_top K P fuel c m) cmds1 (init K) in
  let m := fold_left (fun m c => exec_top K P fuel c m) (cmds1 ++ cmds2) (init K) in
  forallb (fun e => match e with EBad Fuel _ | EBad Abort _ => false | _ => true end) (log m) = true ->
  get m1 mo = Some x -> unlinked_m m1 mo -> all_vacant m1 mo ->
  unlinked_m m mo /\ all_vacant m mo.
Proof. exact prog_vacant_stays_clean. Qed.
Print Assumptions C10_prog_vacant_stays.

(** (2), with the conclusion of (1) as hypothesis: if every slot of [mo] is vacant in the final
    state of a clean run, every action that [mo] stored at an earlier top-level state has run
    exactly once.
    INTENDED ([C10_prog_dead_map_all_ran]): the same with
    [get m mo = Some x -> o_ismap x = true -> o_vst x = VDropped] instead of [all_vacant m mo];
    missing: (1), see the header. *)
Theorem C10_prog_dead_map_all_ran_partial : forall K P fuel cmds1 cmds2 mo,
  let m1 := fold_left (fun m c => exec_top K P fuel c m) cmds1 (init K) in
  let m := fold_left (fun m c => exec_top K P fuel c m) (cmds1 ++ cmds2) (init K) in
  forallb (fun e => match e with EBad Fuel _ | EBad Abort _ => false | _ => true end) (log m) = true ->
  all_vacant m mo ->
  forall k a s, slot_at m1 mo k = Some (MAction a s) ->
    count_occ Nat.eq_dec (executed_aids (log m)) a = 1.
Proof. exact prog_vacant_all_ran_clean. Qed.
Print Assumptions C10_prog_dead_map_all_ran_partial.

Check C10_prog_suffix_rel : forall K P fuel cmds1 cmds2,
  let m1 := fold_left (fun m c => exec_top K P fuel c m) cmds1 (init K) in
  let m := fold_left (fun m c => exec_top K P fuel c m) (cmds1 ++ cmds2) (init K) in
  fuel_free m -> Rel (cv m1) (cv m).
Check C10_prog_vacant_stays : forall K P fuel cmds1 cmds2 mo x,
  let m1 := fold_left (fun m c => exec_top K P fuel c m) cmds1 (init K) in
  let m := fold_left (fun m c => exec_top K P fuel c m) (cmds1 ++ cmds2) (init K) in
  forallb (fun e => match e with EBad Fuel _ | EBad Abort _ => false | _ => true end) (log m) = true ->
  get m1 mo = Some x -> unlinked_m m1 mo -> all_vacant m1 mo ->
  unlinked_m m mo /\ all_vacant m mo.
Check C10_prog_dead_map_all_ran_partial : forall K P fuel cmds1 cmds2 mo,
  let m1 := fold_left (fun m c => exec_top K P fuel c m) cmds1 (init K) in
  let m := fold_left (fun m c => exec_top K P fuel c m) (cmds1 ++ cmds2) (init K) in
  forallb (fun e => match e with EBad Fuel _ | EBad Abort _ => false | _ => true end) (log m) = true ->
  all_vacant m mo ->
  forall k a s, slot_at m1 mo k = Some (MAction a s) ->
    count_occ Nat.eq_dec (executed_aids (log m)) a = 1.
