(** C09 - "the weak count is exact ([weak_count] = number of existing Weak handles); the side
    record (the weak metadata) stays allocated exactly as long as a Weak or the box needs it and is
    freed exactly once".
    Statements only; every proof is [exact <lemma of SafeFinalProps.v>].  State-level over part
    A's invariant [SInv K b E W m] (InvP.v) and [NoBad m] (= [no_badU m = true]: no model-detected
    misbehaviour other than Fuel / Abort / counter underflow was logged), for every [K].
    [wrefs m o] (Inv.v) is the number of Weak handles to [o] in weak slots, the parameters of
    running new_cyclic closures, Cleanable handles and Weak fields; [W] are Weak handles in
    flight inside straight-line code ([W = []] at every call boundary).  Unlike the strong count,
    the weak count is exact also after panics ([b] arbitrary). *)
From Coq Require Import NArith Bool List Lia.
From stdpp Require Import base list option.
From RecordUpdate Require Import RecordSet.
From RC Require Import Hdr Machine RunInd Inv InvP SafeMain SafeProps Pass PassMain SafeFinalPropsA SafeFinalProps.
Import ListNotations RecordSetNotations.
Local Open Scope N_scope.

(** allocated box: the side record exists iff a Weak exists or existed (header bit), is not
    freed, is accessible, and its counter is the number of existing Weak handles *)
Theorem C09_weak_count_exact :
  forall (K : conf) (b : bool) (E : list id) (m : machine) (o : id) (x : obj),
  SInv K b E [] m -> get m o = Some x -> o_box x = BAlloc ->
  match o_side x with
  | Some s => w_cnt (sd_wk s) = N.of_nat (wrefs m o) /\ sd_freed s = false /\ w_acc (sd_wk s) = true
  | None => wrefs m o = 0%nat
  end.
Proof. exact SafeFinalProps.weak_count_exact. Qed.
Print Assumptions C09_weak_count_exact.

(** the same at inner points, counting the Weak handles in flight; plus the header bit and the
    bound *)
Theorem C09_weak_count_exact_inflight :
  forall (K : conf) (b : bool) (E : list id) (W : list wref) (m : machine) (o : id) (x : obj),
  SInv K b E W m -> get m o = Some x -> o_box x = BAlloc ->
  match o_side x with
  | Some s => w_cnt (sd_wk s) = N.of_nat (wrefs m o + cnt_wr o W) /\ sd_freed s = false /\
              w_acc (sd_wk s) = true /\ h_side (o_hdr x) = true /\ w_cnt (sd_wk s) <= max_weak
  | None => (wrefs m o + cnt_wr o W = 0)%nat /\ h_side (o_hdr x) = false
  end.
Proof. exact SafeFinalProps.weak_count_exact_W. Qed.
Print Assumptions C09_weak_count_exact_inflight.

(** [Cc::weak_count] as observed by the program is the number of existing Weak handles *)
Theorem C09_obs_weak_count :
  forall (K : conf) (b : bool) (E : list id) (self : option id) (l : loc) (m : machine) (r : rloc) (o : id),
  SInv K b E [] m -> resolve self l m = (m, Some r) -> read_loc r m = Some o ->
  (exists x : obj, get m o = Some x /\ o_box x = BAlloc /\ o_vst x = VLive /\ mem_id o (dead m) = false /\ o_ismap x = false) ->
  exists (rc : N) (fin : bool),
    cmd_obs self l m = ok (emit (EObs o rc (N.of_nat (wrefs m o)) fin true) m) ROk.
Proof. exact SafeFinalProps.obs_weak_count. Qed.
Print Assumptions C09_obs_weak_count.

(** [Weak::weak_count] through an existing Weak handle: the exact number, whatever the state of
    the target (alive, dropped, freed); nothing is logged *)
Theorem C09_weak_weak_count :
  forall (K : conf) (b : bool) (E : list id) (W : list wref) (m : machine) (o : id),
  SInv K b E W m -> (0 < wrefs m o + cnt_wr o W)%nat ->
  weak_weak_count (WTo o) m = (m, N.of_nat (wrefs m o + cnt_wr o W)).
Proof. exact SafeFinalProps.weak_weak_count_exact. Qed.
Print Assumptions C09_weak_weak_count.

(** freed box with a Weak handle left: the side record is still there, not freed, no longer
    accessible, counter exact *)
Theorem C09_side_alive_while_weak :
  forall (K : conf) (b : bool) (E : list id) (m : machine) (o : id) (x : obj),
  SInv K b E [] m -> get m o = Some x -> o_box x = BFreed -> (0 < wrefs m o)%nat ->
  exists s : side, o_side x = Some s /\ sd_freed s = false /\ w_cnt (sd_wk s) = N.of_nat (wrefs m o) /\
                   w_acc (sd_wk s) = false.
Proof. exact SafeFinalProps.side_alive_while_weak_freed. Qed.
Print Assumptions C09_side_alive_while_weak.

(** allocated box with a Weak handle: side record there, not freed, accessible, counter exact *)
Theorem C09_side_alive_while_weak_alloc :
  forall (K : conf) (b : bool) (E : list id) (m : machine) (o : id) (x : obj),
  SInv K b E [] m -> get m o = Some x -> o_box x = BAlloc -> (0 < wrefs m o)%nat ->
  exists s : side, o_side x = Some s /\ sd_freed s = false /\ w_cnt (sd_wk s) = N.of_nat (wrefs m o) /\
                   w_acc (sd_wk s) = true.
Proof. exact SafeFinalProps.side_alive_while_weak_alloc. Qed.
Print Assumptions C09_side_alive_while_weak_alloc.

(** a freed side record has no Weak handle left and belongs to a freed box (nothing can use it
    again) *)
Theorem C09_side_freed_no_weak :
  forall (K : conf) (b : bool) (E : list id) (m : machine) (o : id) (x : obj) (s : side),
  SInv K b E [] m -> get m o = Some x -> o_box x <> BNotYet -> o_side x = Some s -> sd_freed s = true ->
  wrefs m o = 0%nat /\ o_box x = BFreed.
Proof. exact SafeFinalProps.side_freed_no_weak. Qed.
Print Assumptions C09_side_freed_no_weak.

(** no double free ([sfree] / [dealloc] on something already freed), no use after free or drop,
    no double drop was ever logged *)
Theorem C09_side_freed_once :
  forall m : machine, NoBad m ->
  forall o : nat, ~ In (EBad DoubleFree o) (log m) /\ ~ In (EBad UseAfterFree o) (log m) /\
                  ~ In (EBad UseAfterDrop o) (log m) /\ ~ In (EBad DoubleDrop o) (log m).
Proof. exact SafeFinalProps.side_freed_once. Qed.
Print Assumptions C09_side_freed_once.

(** ** Pins *)
Check C09_weak_count_exact :
  forall (K : conf) (b : bool) (E : list id) (m : machine) (o : id) (x : obj),
  SInv K b E [] m -> get m o = Some x -> o_box x = BAlloc ->
  match o_side x with
  | Some s => w_cnt (sd_wk s) = N.of_nat (wrefs m o) /\ sd_freed s = false /\ w_acc (sd_wk s) = true
  | None => wrefs m o = 0%nat
  end.
Check C09_weak_count_exact_inflight :
  forall (K : conf) (b : bool) (E : list id) (W : list wref) (m : machine) (o : id) (x : obj),
  SInv K b E W m -> get m o = Some x -> o_box x = BAlloc ->
  match o_side x with
  | Some s => w_cnt (sd_wk s) = N.of_nat (wrefs m o + cnt_wr o W) /\ sd_freed s = false /\
              w_acc (sd_wk s) = true /\ h_side (o_hdr x) = true /\ w_cnt (sd_wk s) <= max_weak
  | None => (wrefs m o + cnt_wr o W = 0)%nat /\ h_side (o_hdr x) = false
  end.
Check C09_obs_weak_count :
  forall (K : conf) (b : bool) (E : list id) (self : option id) (l : loc) (m : machine) (r : rloc) (o : id),
  SInv K b E [] m -> resolve self l m = (m, Some r) -> read_loc r m = Some o ->
  (exists x : obj, get m o = Some x /\ o_box x = BAlloc /\ o_vst x = VLive /\ mem_id o (dead m) = false /\ o_ismap x = false) ->
  exists (rc : N) (fin : bool),
    cmd_obs self l m = ok (emit (EObs o rc (N.of_nat (wrefs m o)) fin true) m) ROk.
Check C09_weak_weak_count :
  forall (K : conf) (b : bool) (E : list id) (W : list wref) (m : machine) (o : id),
  SInv K b E W m -> (0 < wrefs m o + cnt_wr o W)%nat ->
  weak_weak_count (WTo o) m = (m, N.of_nat (wrefs m o + cnt_wr o W)).
Check C09_side_alive_while_weak :
  forall (K : conf) (b : bool) (E : list id) (m : machine) (o : id) (x : obj),
  SInv K b E [] m -> get m o = Some x -> o_box x = BFreed -> (0 < wrefs m o)%nat ->
  exists s : side, o_side x = Some s /\ sd_freed s = false /\ w_cnt (sd_wk s) = N.of_nat (wrefs m o) /\
                   w_acc (sd_wk s) = false.
Check C09_side_alive_while_weak_alloc :
  forall (K : conf) (b : bool) (E : list id) (m : machine) (o : id) (x : obj),
  SInv K b E [] m -> get m o = Some x -> o_box x = BAlloc -> (0 < wrefs m o)%nat ->
  exists s : side, o_side x = Some s /\ sd_freed s = false /\ w_cnt (sd_wk s) = N.of_nat (wrefs m o) /\
                   w_acc (sd_wk s) = true.
Check C09_side_freed_no_weak :
  forall (K : conf) (b : bool) (E : list id) (m : machine) (o : id) (x : obj) (s : side),
  SInv K b E [] m -> get m o = Some x -> o_box x <> BNotYet -> o_side x = Some s -> sd_freed s = true ->
  wrefs m o = 0%nat /\ o_box x = BFreed.
Check C09_side_freed_once :
  forall m : machine, NoBad m ->
  forall o : nat, ~ In (EBad DoubleFree o) (log m) /\ ~ In (EBad UseAfterFree o) (log m) /\
                  ~ In (EBad UseAfterDrop o) (log m) /\ ~ In (EBad DoubleDrop o) (log m).
