(** C02 - "unreachable cycles are completely reclaimed by collect_cycles()": when
    collect_cycles() is called outside a collection and returns normally - repeated until a call
    runs no finalizer and no destructor - every object that is unreachable from program-held Ccs
    and is not pinned through an untraced Cc field of another unreclaimed object has been
    finalized if due, dropped and deallocated, and allocated_bytes() equals the total size of the
    objects that remain.

    Statements only; every proof is [exact <lemma>] (PassMain.v, Quiet.v, QuietCover.v).

    What is proved, and what is not.
    - [C02_pass_complete] (PassMain): one tracing pass from a state with EXACT counts puts into
      its list [L] every visited object whose visited ancestors are all [unpinned].
    - [C02_cover_sound]: the executable coverage checker [Cover.cover_b] implies the propositional
      coverage invariant [Cover P m] (I-cover: every allocated live object outside the dying set is
      program-reachable, or reachable through reported edges from the buffer, or pinned).
    - [C02_quiet_pass]: in a state with exact counts ([SInv K true [] [] m], which
      [SafeFinal.safe_programs_sinv] proves of every panic-free program state), the buffer
      invariant and I-cover, a completed pass collects EVERY allocated live object that is neither
      program-reachable nor pinned.
    - [C02_quiet_partial] / [C02_quiet_prog_partial]: a [collect_cycles()] that returns normally
      and is quiet (logs no finalizer / destructor / cleaning-action entry and no deallocation)
      leaves the object graph unchanged, the buffer empty, [allocated_bytes] = the size of what
      remains, and every allocated live object is program-reachable, pinned or in the dying set
      (abandoned by an earlier panicking drop pass; empty in panic-free histories).
      PARTIAL: the history half is a hypothesis.  [Cover P m] at the state where the collection
      starts is evaluated by the executable checker [cover_b] after every top-level command of
      every program of every check run ([modelrun --inv]), and its preservation is proved for
      the collector's own steps (QuietCover.v) but NOT yet for the mutator steps.  [MapsOwned m]
      (every allocated live CleanerMap has a positive strong count) is a second, small history
      hypothesis: it only excludes a buffered CleanerMap with count 0, whose library-internal
      empty finalizer logs nothing.
    - [C02_bytes]: allocated_bytes() = total size of the existing allocations in every state of
      every program (unconditional).

    [Pinned] here is slightly wider than the checker's [pin_targets]: a handle still stored in a
    freed or never-allocated box also pins its target (see the header of Quiet.v: [SInv] does
    not exclude such stale handles, and a stale handle is counted in the strong count). *)
From Coq Require Import NArith Bool List Lia.
From stdpp Require Import base list option.
From RecordUpdate Require Import RecordSet.
From RC Require BufBase Buf.
From RC Require Import Hdr Machine RunInd Inv InvP SafeHelpers SafeMain Pass PassMain Cover SafeCollPass SafeFinal Quiet QuietCover.
Import ListNotations RecordSetNotations.
Local Open Scope N_scope.

(** ** Vocabulary *)
Print Reach.
Print ProgReach.
Print Covered.
Print reported.
Print PinRoot.
Print Pinned.
Print Quiet.Cover.
Print MapsOwned.
Print loud.
Print quiet.
Print gsim.

(** ** The tracing pass is complete *)
Theorem C02_pass_complete :
  forall (K : conf) (P : prog) (m : machine) (ext : id -> N) (m' : machine) (L : list id),
  PassPre P m ext ->
  (forall o, alloc m o -> h_rc (hdr_of m o) = N.of_nat (in_fields m o) + ext o) ->
  trace_pass K P m = (m', PDone L) ->
  forall v, reach P m v ->
    (forall u, reach P m u -> treach P m u v -> unpinned P m ext u) ->
    v ∈ L.
Proof. exact PassMain.pass_complete. Qed.
Print Assumptions C02_pass_complete.

(** ** The executable checker is sound for the propositional invariant *)
Theorem C02_cover_sound :
  forall (P : prog) (m : machine), cover_b P m = true -> Quiet.Cover P m.
Proof. exact Quiet.cover_sound. Qed.
Print Assumptions C02_cover_sound.

(** the buffer-reachability disjunct is exactly PassMain's [reach] *)
Theorem C02_covered_reach :
  forall (P : prog) (m : machine) (o : id), Covered P m o <-> reach P m o.
Proof. exact Quiet.Covered_reach. Qed.
Print Assumptions C02_covered_reach.

(** the three relations are decidable in every state satisfying [SInv] (computed by the
    checker's own closure iteration, whose fuel is proved sufficient) *)
Theorem C02_prog_reach_b_spec :
  forall (K : conf) (b : bool) (E : list id) (W : list wref) (m : machine) (o : id),
  SInv K b E W m -> prog_reach_b m o = true <-> ProgReach m o.
Proof. exact Quiet.prog_reach_b_spec. Qed.
Print Assumptions C02_prog_reach_b_spec.
Theorem C02_pinned_b_spec :
  forall (K : conf) (P : prog) (b : bool) (E : list id) (W : list wref) (m : machine) (o : id),
  SInv K b E W m -> pinned_b P m o = true <-> Pinned P m o.
Proof. exact Quiet.pinned_b_spec. Qed.
Print Assumptions C02_pinned_b_spec.

(** ** One pass collects everything that is neither program-reachable nor pinned *)
Theorem C02_quiet_pass :
  forall (K : conf) (P : prog) (m m' : machine) (L : list id),
  SInv K true [] [] m -> BufBase.Ibuf K [] m -> Quiet.Cover P m ->
  trace_pass K P (m <| st_collecting := true |> <| st_finalizing := false |> <| st_dropping := false |>)
    = (m', PDone L) ->
  forall v x, get m v = Some x -> o_box x = BAlloc -> o_vst x = VLive -> v ∉ dead m ->
    ~ ProgReach m v -> ~ Pinned P m v -> v ∈ L.
Proof. exact Quiet.C02_quiet_pass. Qed.
Print Assumptions C02_quiet_pass.

(** the same for any start state with the heap and buffer of [m], in positive form *)
Theorem C02_quiet_pass_pos :
  forall (K : conf) (P : prog) (m m0 m' : machine) (L : list id),
  SInv K true [] [] m -> BufBase.Ibuf K [] m -> Quiet.Cover P m ->
  heap m0 = heap m -> pc m0 = pc m -> pc_size m0 = pc_size m ->
  trace_pass K P m0 = (m', PDone L) ->
  forall v x, get m v = Some x -> o_box x = BAlloc -> o_vst x = VLive ->
    v ∈ dead m \/ ProgReach m v \/ Pinned P m v \/ v ∈ L.
Proof. exact Quiet.quiet_pass_pos. Qed.
Print Assumptions C02_quiet_pass_pos.

(** ** A quiet collect_cycles() leaves only reachable or pinned objects.
    PARTIAL: [Cover P m] and [MapsOwned m] are hypotheses on the state where the collection
    starts (the history half: [cover_b] is evaluated on every program state of every check run;
    not yet proved inductive for the mutator). *)
Theorem C02_quiet_partial :
  forall (K : conf) (P : prog) (n : nat) (m m1 : machine),
  SInv K true [] [] m -> BufBase.Ibuf K [] m -> Quiet.Cover P m -> MapsOwned m ->
  st_collecting m = false ->
  run K P n KCollectCycles m = (m1, ONormal) -> quiet m m1 ->
  (forall o x, get m1 o = Some x -> o_box x = BAlloc -> o_vst x = VLive -> o ∉ dead m1 ->
     ~ ProgReach m1 o -> ~ Pinned P m1 o -> False) /\
  gsim m m1 /\ pc m1 = [] /\ st_alloc m1 = BufBase.bytes K m1.
Proof. exact Quiet.C02_quiet. Qed.
Print Assumptions C02_quiet_partial.

Theorem C02_quiet_pos_partial :
  forall (K : conf) (P : prog) (n : nat) (m m1 : machine),
  SInv K true [] [] m -> BufBase.Ibuf K [] m -> Quiet.Cover P m -> MapsOwned m ->
  st_collecting m = false ->
  run K P n KCollectCycles m = (m1, ONormal) -> quiet m m1 ->
  forall o x, get m1 o = Some x -> o_box x = BAlloc -> o_vst x = VLive ->
    o ∈ dead m1 \/ ProgReach m1 o \/ Pinned P m1 o.
Proof. exact Quiet.C02_quiet_pos. Qed.
Print Assumptions C02_quiet_pos_partial.

(** the coverage invariant holds again after a quiet collection *)
Theorem C02_quiet_cover_partial :
  forall (K : conf) (P : prog) (n : nat) (m m1 : machine),
  SInv K true [] [] m -> BufBase.Ibuf K [] m -> Quiet.Cover P m -> MapsOwned m ->
  st_collecting m = false ->
  run K P n KCollectCycles m = (m1, ONormal) -> quiet m m1 -> Quiet.Cover P m1.
Proof. exact Quiet.C02_quiet_cover. Qed.
Print Assumptions C02_quiet_cover_partial.

(** for the states of a panic-free program run ([SInv] with exact counts, [Ibuf] and idleness
    are theorems there) *)
Theorem C02_quiet_prog_partial :
  forall (K : conf) (P : prog) (fuel : nat) (cmds : list cmd) (n : nat) (m1 : machine),
  (k_clean K = true -> k_weak K = true) -> wf_prog P = true ->
  let m := fold_left (fun m c => exec_top K P fuel c m) cmds (init K) in
  SafeMain.clean m = true -> no_panic_yet m = true ->
  Quiet.Cover P m -> MapsOwned m ->
  run K P n KCollectCycles m = (m1, ONormal) -> quiet m m1 ->
  (forall o x, get m1 o = Some x -> o_box x = BAlloc -> o_vst x = VLive ->
     o ∈ dead m1 \/ ProgReach m1 o \/ Pinned P m1 o) /\
  gsim m m1 /\ pc m1 = [] /\ st_alloc m1 = BufBase.bytes K m1.
Proof. exact Quiet.C02_quiet_prog. Qed.
Print Assumptions C02_quiet_prog_partial.

(** the readable form of [quiet] *)
Theorem C02_quiet_spec :
  forall (m m1 : machine) (k : list event),
  log m1 = k ++ log m -> (quiet m m1 <-> forallb (fun e => negb (loud e)) k = true).
Proof. exact Quiet.quiet_spec. Qed.
Print Assumptions C02_quiet_spec.

(** ** allocated_bytes() *)
Theorem C02_bytes :
  forall (K : conf) (P : prog) (fuel : nat) (cmds : list cmd),
  let m := fold_left (fun m c => exec_top K P fuel c m) cmds (init K) in
  (forall b o, In (EBad b o) (log m) -> BufBase.badk b = false) -> st_alloc m = BufBase.bytes K m.
Proof. exact Quiet.C02_bytes. Qed.
Print Assumptions C02_bytes.

(** ** The collector's own steps preserve the coverage invariant (QuietCover.v) *)
Print CoverE.

Theorem C02_cover_pass :
  forall (K : conf) (P : prog) (m m0 m' : machine) (L : list id),
  SInv K true [] [] m -> BufBase.Ibuf K [] m -> Quiet.Cover P m ->
  heap m0 = heap m -> pc m0 = pc m -> pc_size m0 = pc_size m ->
  slots m0 = slots m -> bag m0 = bag m -> values m0 = values m -> dead m0 = dead m ->
  trace_pass K P m0 = (m', PDone L) ->
  Quiet.Cover P (m' <| pc := L |>).
Proof. exact QuietCover.Cover_pass. Qed.
Print Assumptions C02_cover_pass.

(** the form of the invariant meant to be inductive at inner points ([E]: handles in flight,
    [A]: active list of the running collection, [X]: objects whose destruction is starting) *)
Theorem C02_coverE_nil :
  forall (P : prog) (m : machine), CoverE P [] [] [] m <-> Quiet.Cover P m.
Proof. exact QuietCover.CoverE_nil. Qed.
Print Assumptions C02_coverE_nil.

Theorem C02_classified_succ :
  forall (P : prog) (E A X : list id) (m : machine) (p c : id),
  CoverE P E A X m -> p ∉ X -> c ∈ all_succ m p -> Cl P E A m c.
Proof. exact QuietCover.classified_succ. Qed.
Print Assumptions C02_classified_succ.

Theorem C02_coverE_add_to_list :
  forall (K : conf) (P : prog) (E A X : list id) (o : id) (m : machine),
  CoverE P E A X m -> CoverE P E A X (add_to_list o m).
Proof. exact QuietCover.CoverE_add_to_list. Qed.
Print Assumptions C02_coverE_add_to_list.

Theorem C02_coverE_remove_from_list :
  forall (K : conf) (P : prog) (E A X : list id) (o : id) (m : machine),
  ProgReachE E m o -> CoverE P E A X m -> CoverE P E A X (remove_from_list o m).
Proof. exact QuietCover.CoverE_remove_from_list. Qed.
Print Assumptions C02_coverE_remove_from_list.

Theorem C02_coverE_write_slot :
  forall (P : prog) (E A X : list id) (i : nat) (v : option id) (m : machine),
  (i < length (slots m))%nat ->
  CoverE P (olist v ++ E) A X m ->
  CoverE P (olist (read_loc (RSlot i) m) ++ E) A X (write_loc (RSlot i) v m).
Proof. exact QuietCover.CoverE_write_slot. Qed.
Print Assumptions C02_coverE_write_slot.

Theorem C02_coverE_write_field :
  forall (P : prog) (E A X : list id) (p : id) (j : nat) (v : option id) (m : machine) (xp : obj),
  get m p = Some xp -> (j < length (o_fields xp))%nat ->
  (forall t, v = Some t -> reported P xp j -> p ∈ dead m \/ Cl P E A m p) ->
  CoverE P (olist v ++ E) A X m ->
  CoverE P (olist (read_loc (RField p j) m) ++ E) A X (write_loc (RField p j) v m).
Proof. exact QuietCover.CoverE_write_field. Qed.
Print Assumptions C02_coverE_write_field.

Theorem C02_coverE_dealloc :
  forall (K : conf) (P : prog) (E A X : list id) (o : id) (m : machine) (x : obj),
  get m o = Some x -> o_vst x <> VLive -> CoverE P E A X m -> CoverE P E A X (dealloc K o m).
Proof. exact QuietCover.CoverE_dealloc. Qed.
Print Assumptions C02_coverE_dealloc.

Theorem C02_coverE_pass :
  forall (K : conf) (P : prog) (m m0 m' : machine) (L : list id),
  SInv K true [] [] m -> BufBase.Ibuf K [] m -> Quiet.Cover P m ->
  heap m0 = heap m -> pc m0 = pc m -> pc_size m0 = pc_size m ->
  slots m0 = slots m -> bag m0 = bag m -> values m0 = values m -> dead m0 = dead m ->
  trace_pass K P m0 = (m', PDone L) ->
  CoverE P [] L [] m' /\ gsim m m'.
Proof. exact QuietCover.CoverE_pass. Qed.
Print Assumptions C02_coverE_pass.

Theorem C02_coverE_rebuffer :
  forall (K : conf) (P : prog) (E X L : list id) (m : machine),
  CoverE P E L X m ->
  CoverE P E [] X
    (fold_left (fun m g => uhdr g (fun h => set_mark PC (reset_tc h)) m) L m
       <| pc ::= fun old => L ++ old |> <| pc_size ::= fun s => (N.of_nat (length L) + s)%N |>).
Proof. exact QuietCover.CoverE_rebuffer. Qed.
Print Assumptions C02_coverE_rebuffer.

Theorem C02_coverE_enter_dead :
  forall (P : prog) (E X L : list id) (m : machine),
  CoverE P E L X m -> CoverE P E [] X (m <| st_dropping := true |> <| dead ::= app L |>).
Proof. exact QuietCover.CoverE_enter_dead. Qed.
Print Assumptions C02_coverE_enter_dead.

(** ** [Pinned] versus the checker's pinned closure *)
Theorem C02_pinned_strict :
  forall (P : prog) (m : machine) (o : id),
  NoStale m -> Pinned P m o -> ProgReach m o \/ PinnedS P m o.
Proof. exact Quiet.Pinned_strict. Qed.
Print Assumptions C02_pinned_strict.
Theorem C02_pinnedS_pinned :
  forall (P : prog) (m : machine) (o : id), PinnedS P m o -> Pinned P m o.
Proof. exact Quiet.PinnedS_Pinned. Qed.
Print Assumptions C02_pinnedS_pinned.

(** ** Pins *)
Check C02_pass_complete.
Check C02_cover_sound : forall P m, cover_b P m = true -> Quiet.Cover P m.
Check C02_quiet_pass.
Check C02_quiet_partial.
Check C02_quiet_prog_partial.
Check C02_bytes.
Check loud : event -> bool.
Check quiet : machine -> machine -> Prop.
Check ProgReach : machine -> id -> Prop.
Check Pinned : prog -> machine -> id -> Prop.
Check Covered : prog -> machine -> id -> Prop.
Check MapsOwned : machine -> Prop.

(** ** Non-vacuity: a concrete program.
    class 0 has two Cc fields, the first traced, the second NOT traced.
    objects 0 and 1: a cycle through traced fields, dropped by the program (garbage);
    object 2: holds itself through its untraced field (pinned) and object 3 through its traced field;
    object 3: only held by object 2 (pinned through it);
    object 4: held by slot 4. *)
Module Ex.
  Definition exK : conf := Conf true true true false false 64 8 64 8 1000.
  Definition exP : prog := Prog [Cls 2 [true; false] 0 false None None] [] [].
  Definition pre : list cmd :=
    [CNew (LS 0) 0; CNew (LS 1) 0; CClone (LS 1) (LFA 0 0); CClone (LS 0) (LFA 1 0);
     CNew (LS 2) 0; CClone (LS 2) (LFA 2 1); CNew (LS 3) 0; CMove (LS 3) (LFA 2 0);
     CNew (LS 4) 0; CDrop (LS 2); CDrop (LS 0); CDrop (LS 1)].
  Definition st (cmds : list cmd) : machine :=
    fold_left (fun m c => exec_top exK exP 100 c m) cmds (init exK).
  Definition live_ids (m : machine) : list nat :=
    omap (fun '(o, x) => match o_box x, o_vst x with BAlloc, VLive => Some o | _, _ => None end)
         (imap (fun o x => (o, x)) (heap m)).
  Definition freed_ids (m : machine) : list nat :=
    omap (fun '(o, x) => match o_box x with BFreed => Some o | _ => None end)
         (imap (fun o x => (o, x)) (heap m)).

  (** (notations, not definitions: the states are only ever evaluated by [vm_compute]) *)
  Notation m0 := (st pre).
  Notation m1 := (st (pre ++ [CCollect])).
  Notation m2 := ((run exK exP 99 KCollectCycles (st (pre ++ [CCollect]))).1).

  (** [C02_quiet_prog_partial] and [safe_programs_sinv] for the programs of this example *)
  Lemma quiet_st cmds n m' :
    SafeMain.clean (st cmds) = true -> no_panic_yet (st cmds) = true ->
    cover_b exP (st cmds) = true -> maps_owned_b (st cmds) = true ->
    run exK exP n KCollectCycles (st cmds) = (m', ONormal) -> quiet (st cmds) m' ->
    (forall o x, get m' o = Some x -> o_box x = BAlloc -> o_vst x = VLive ->
       o ∈ dead m' \/ ProgReach m' o \/ Pinned exP m' o) /\
    gsim (st cmds) m' /\ pc m' = [] /\ st_alloc m' = BufBase.bytes exK m'.
  Proof.
    intros H3 H4 H5 H6 H7 H8.
    exact (C02_quiet_prog_partial exK exP 100 cmds n m' (fun _ => eq_refl) eq_refl H3 H4
             (C02_cover_sound exP _ H5) (maps_owned_sound _ H6) H7 H8).
  Qed.
  Lemma sinv_st cmds : SafeMain.clean (st cmds) = true -> exists b, SInv exK b [] [] (st cmds).
  Proof.
    intros Hcl. destruct (SafeFinal.safe_programs_sinv exK exP 100 cmds (fun _ => eq_refl) eq_refl Hcl) as (b & _ & HI & _).
    exists b. exact HI.
  Qed.

  (** before the first collection: five live objects, the cycle and object 2 are buffered, the
      coverage checker holds *)
  Example before :
    cover_b exP m0 = true /\ live_ids m0 = [0; 1; 2; 3; 4]%nat /\ pc m0 = [1; 0; 2]%nat /\
    st_alloc m0 = 320.
  Proof. vm_compute. repeat split. Qed.

  (** the first collect_cycles() reclaims the cycle (finalized, dropped, freed) and nothing else *)
  Example first_collection :
    live_ids m1 = [2; 3; 4]%nat /\ freed_ids m1 = [0; 1]%nat /\ pc m1 = [] /\ st_alloc m1 = 192 /\
    nloud (log m1) = 6%nat /\ nloud (log m0) = 0%nat.
  Proof. vm_compute. repeat split. Qed.

  (** the hypotheses of [C02_quiet_prog_partial] hold at [m1] ... *)
  Example hyps :
    SafeMain.clean m1 = true /\ no_panic_yet m1 = true /\ cover_b exP m1 = true /\ maps_owned_b m1 = true /\
    run exK exP 99 KCollectCycles m1 = (m2, ONormal) /\ quiet m1 m2.
  Proof. vm_compute. repeat split. Qed.

  (** ... so its conclusion holds of the second, quiet collect_cycles() *)
  Example second_collection_quiet :
    (forall o x, get m2 o = Some x -> o_box x = BAlloc -> o_vst x = VLive ->
       o ∈ dead m2 \/ ProgReach m2 o \/ Pinned exP m2 o) /\
    gsim m1 m2 /\ pc m2 = [] /\ st_alloc m2 = BufBase.bytes exK m2.
  Proof.
    destruct hyps as (H3 & H4 & H5 & H6 & H7 & H8).
    exact (quiet_st (pre ++ [CCollect]) 99 m2 H3 H4 H5 H6 H7 H8).
  Qed.

  (** and what remains is exactly: object 4 (program-reachable, not pinned), objects 2 and 3
      (pinned, not program-reachable) *)
  Example remaining_b :
    live_ids m2 = [2; 3; 4]%nat /\ dead m2 = [1; 0]%nat /\ st_alloc m2 = 192 /\ no_stale_b m2 = true /\
    (prog_reach_b m2 2%nat = false /\ prog_reach_b m2 3%nat = false /\ prog_reach_b m2 4%nat = true) /\
    (pinned_b exP m2 2%nat = true /\ pinned_b exP m2 3%nat = true /\ pinned_b exP m2 4%nat = false).
  Proof. vm_compute. repeat split. Qed.

  Lemma m2_sinv : exists b, SInv exK b [] [] m2.
  Proof.
    assert (Hcl : SafeMain.clean (st (pre ++ [CCollect; CCollect])) = true) by (vm_compute; reflexivity).
    destruct (sinv_st (pre ++ [CCollect; CCollect]) Hcl) as (b & HI).
    exists b. eapply SInv_ieq; [|exact HI]. vm_compute. repeat split.
  Qed.

  Example remaining :
    ProgReach m2 4%nat /\ ~ Pinned exP m2 4%nat /\
    Pinned exP m2 2%nat /\ ~ ProgReach m2 2%nat /\
    Pinned exP m2 3%nat /\ ~ ProgReach m2 3%nat.
  Proof.
    destruct m2_sinv as [b HI].
    pose proof (fun o => C02_prog_reach_b_spec exK b [] [] m2 o HI) as HR.
    pose proof (fun o => C02_pinned_b_spec exK exP b [] [] m2 o HI) as HP.
    destruct remaining_b as (_ & _ & _ & _ & (ER2 & ER3 & ER4) & (EP2 & EP3 & EP4)).
    split; [apply HR, ER4|]. split; [intros H; apply HP in H; congruence|].
    split; [apply HP, EP2|]. split; [intros H; apply HR in H; congruence|].
    split; [apply HP, EP3|]. intros H; apply HR in H; congruence.
  Qed.
End Ex.
