(** * Flags2: pre/post-conditions of the flag discipline and the [step_*] cases. *)
From Coq Require Import NArith Bool List Lia.
From stdpp Require Import base list option.
From RecordUpdate Require Import RecordSet.
From RC Require Import Hdr Machine RunInd Flags.
Import ListNotations RecordSetNotations.

(** calls made from script level: they only need [is_tracing() = false] on entry *)
Definition gen (c : call) : bool :=
  match c with
  | KCmd _ _ | KScript _ _ | KStore _ _ | KDropCc _ | KDropValue _ | KDropFields _ _
  | KDropMapSlots _ _ | KCleanRun _ _ _ | KUnbag _ | KTrigger | KCollectCycles => true
  | _ => false
  end.

Definition cond (K : conf) (c : call) (m : machine) : Prop :=
  match c with
  | KTrigger | KCollectCycles => True
  | KCollect => st_collecting m = false
  | KCollectLoop _ | KCollectOnce => st_collecting m = true
  | KFinalizeList _ _ _ _ => quiet K m /\ st_finalizing m = true
  | KDropList _ _ _ => st_dropping m = true
  | _ => quiet K m
  end.

Definition Pre (K : conf) (c : call) (m : machine) : Prop := log_ok K (log m) /\ cond K c m.

(** the flags an activation must leave behind *)
Definition target (c : call) (m : machine) : bool * bool * bool * bool :=
  match c with
  | KFinalizeList _ _ _ old_f => (st_collecting m, old_f, st_dropping m, panicking m)
  | KDropList _ _ old_d => (st_collecting m, st_finalizing m, old_d, panicking m)
  | _ => ctl m
  end.

(** whatever the outcome; when the activation ran out of fuel (an artefact of the model, not a
    behaviour of the crate) only [log_ok] is kept *)
Definition Post (K : conf) (c : call) (m m' : machine) (r : outcome) : Prop :=
  res (flagsA K) (target c m) (m', r).

Ltac tqs :=
  first [ assumption | apply tq_drop | apply tq_idle | (apply tq_fin; assumption)
        | (eapply tq_panicking; eassumption) ].

Ltac fix_flags :=
  repeat match goal with
         | H : inv _ (_, _, _, _) ?m' |- context [st_collecting ?m'] =>
           progress rewrite (inv_c _ _ _ _ _ _ H)
         | H : inv _ (_, _, _, _) ?m' |- context [st_finalizing ?m'] =>
           progress rewrite (inv_f _ _ _ _ _ _ H)
         | H : inv _ (_, _, _, _) ?m' |- context [st_dropping ?m'] =>
           progress rewrite (inv_d _ _ _ _ _ _ H)
         | H : inv _ (_, _, _, _) ?m' |- context [panicking ?m'] =>
           progress rewrite (inv_p _ _ _ _ _ _ H)
         end.

(** setting a flag back to a saved value *)
Lemma inv_set_c' (K : lpred) c c0 f d p b m :
  inv K (c0, f, d, p) m -> b = c -> inv K (c, f, d, p) (m <| st_collecting := b |>).
Proof. intros H ->. eapply inv_set_c, H. Qed.
Lemma inv_set_f' (K : lpred) c f f0 d p b m :
  inv K (c, f0, d, p) m -> b = f -> inv K (c, f, d, p) (m <| st_finalizing := b |>).
Proof. intros H ->. eapply inv_set_f, H. Qed.
Lemma inv_set_d' (K : lpred) c f d d0 p b m :
  inv K (c, f, d0, p) m -> b = d -> inv K (c, f, d, p) (m <| st_dropping := b |>).
Proof. intros H ->. eapply inv_set_d, H. Qed.

#[export] Hint Extern 1 (inv _ _ (set st_collecting _ _)) =>
  (eapply inv_set_c'; [ | first [reflexivity | eapply inv_c]]) : fl.
#[export] Hint Extern 1 (inv _ _ (set st_finalizing _ _)) =>
  (eapply inv_set_f'; [ | first [reflexivity | eapply inv_f]]) : fl.
#[export] Hint Extern 1 (inv _ _ (set st_dropping _ _)) =>
  (eapply inv_set_d'; [ | first [reflexivity | eapply inv_d]]) : fl.
Lemma inv_set_exec_flags K t g m :
  inv (flagsA K) t m -> inv (flagsA K) t (m <| st_exec ::= g |>).
Proof. intros [H1 H2]. split; [exact H1 | exact H2]. Qed.
#[export] Hint Extern 1 (inv (flagsA _) _ (set st_exec _ _)) => (apply inv_set_exec_flags) : fl.
#[export] Hint Extern 1 (tq _ _) => tqs : fl.
#[export] Hint Extern 2 (inv _ _ (fold_left _ _ _)) => (apply inv_fold; [intros | ]) : fl.
#[export] Hint Extern 2 (res _ _ (unwinding _ _)) => (apply res_unwinding; [intros | ]) : fl.
#[export] Hint Extern 2 (res _ _ (ok _ _)) => (unfold ok) : fl.
#[export] Hint Extern 3 (res _ _ (_, _)) => (apply res_intro) : fl.
#[export] Hint Extern 4 (res _ _ (_, OFuel)) => (eapply res_intro_fuel) : fl.

(** the innermost [match] scrutinee of the goal *)
Ltac inner_scrut k :=
  match goal with
  | |- context [match ?x with _ => _ end] =>
    lazymatch x with
    | context [match _ with _ => _ end] => fail
    | _ => k x
    end
  end.

(** name a compound machine expression and record its invariant *)
Ltac name_inv X :=
  let m' := fresh "m" in let H := fresh "Hn" in
  eassert (H : inv _ _ X) by fl; set (m' := X) in *; clearbody m'.

(** a flag read on a compound machine expression: name it, so that [fix_flags] can replace the
    read by the known value *)
Ltac flag_read :=
  match goal with
  | |- context [st_collecting ?X] => tryif is_var X then fail else name_inv X
  | |- context [st_finalizing ?X] => tryif is_var X then fail else name_inv X
  | |- context [st_dropping ?X] => tryif is_var X then fail else name_inv X
  | |- context [panicking ?X] => tryif is_var X then fail else name_inv X
  end.

(** one step in program order: a call returning a machine is replaced by a fresh machine that
    satisfies the invariant; anything else is case-split *)
Ltac adv_gen ptac :=
  first
  [ flag_read
  | inner_scrut ltac:(fun x =>
    lazymatch type of x with
    | (machine * outcome)%type => ptac x
    | option machine =>
      lazymatch x with
      | weak_clone ?w ?m0 =>
        let E := fresh "E" in let Hm := fresh "Hm" in let m' := fresh "m" in
        eassert (Hm : inv _ _ m0) by fl;
        destruct x as [m'|] eqn:E;
        [ eassert (inv _ _ m') by (eapply inv_weak_clone; [exact Hm|exact E]) | ]
      end
    | (machine * _)%type =>
        let Hr := fresh "Hr" in let m1 := fresh "m" in let y1 := fresh "y" in
        eassert (Hr : inv _ _ x.1) by fl;
        destruct x as [m1 y1]; cbn [fst snd] in Hr
    | _ => destruct x eqn:?
    end) ]; cbv beta iota zeta; cbn [andb negb]; fix_flags.

(** an activation result: split on the outcome; out of fuel means nothing is known about the
    flags *)
Ltac res_pair x :=
  let Hr := fresh "Hr" in let m1 := fresh "m" in let r1 := fresh "r" in
  eassert (Hr : res _ _ x) by fl;
  destruct x as [m1 r1]; destruct r1;
  [ apply res_elim in Hr; [|discriminate]
  | apply res_elim in Hr; [|discriminate]
  | apply res_elim in Hr; [|discriminate]
  | apply res_elim_fuel in Hr ].

Ltac adv1 := adv_gen res_pair.

Ltac go := cbv beta iota zeta; cbn [andb negb]; fix_flags; repeat adv1; fl.

(** ** The step cases, generic in the log predicate [A] (which must accept every [ev_ok] event)
    and in a side condition [okc] on the [collecting] flag.  The hypotheses [rec_*] say what the
    recursive calls guarantee.  Instances: the flag discipline itself ([flagsA], [okc] trivial)
    and, in Flags5, "[executions] does not change while a collection is in progress"
    ([okc c := c = true]). *)
Section StepsGen.
  Context (K : conf) (P : prog) (A : lpred) (okc : bool -> Prop).
  Context (HevA : forall e, ev_ok K e -> lp_ev A e).
  Context (rec : call -> machine -> machine * outcome).
  Implicit Types (m : machine) (c f d p : bool).
  Context (rec_gen : forall k m c f d p, gen k = true -> okc c -> inv A (c, f, d, p) m ->
                       tq K (c, f, d, p) -> res A (c, f, d, p) (rec k m)).
  Context (rec_loop : forall n f d p m,
             inv A (true, f, d, p) m -> res A (true, f, d, p) (rec (KCollectLoop n) m)).
  Context (rec_once : forall f d p m,
             inv A (true, f, d, p) m -> res A (true, f, d, p) (rec KCollectOnce m)).
  Context (rec_finlist : forall L rest any old_f c d p m,
             okc c -> inv A (c, true, d, p) m -> tq K (c, true, d, p) ->
             res A (c, old_f, d, p) (rec (KFinalizeList L rest any old_f) m)).
  Context (rec_droplist : forall L rest old_d c f p m,
             okc c -> inv A (c, f, true, p) m ->
             res A (c, f, old_d, p) (rec (KDropList L rest old_d) m)).

  (** callback entries other than [trace]: logged while [is_tracing()] is false *)
  Lemma inv_emit_cb k o c f d p m :
    inv A (c, f, d, p) m -> tq K (c, f, d, p) ->
    match k with KTrace => False | KFin => f = true | _ => True end ->
    inv A (c, f, d, p) (emit (ECb k o (cur_flags K m)) m).
  Proof.
    intros H Hq Hk. apply inv_emit; [|exact H]. apply HevA. unfold cur_flags.
    rewrite (inv_c _ _ _ _ _ _ H), (inv_f _ _ _ _ _ _ H), (inv_d _ _ _ _ _ _ H).
    cbn in Hq. cbn. rewrite Hq. split; [reflexivity|]. destruct k; auto; contradiction.
  Qed.

  Local Hint Extern 2 (res _ _ (rec _ _)) => (eapply rec_gen; [reflexivity | | | ]) : fl.
  Local Hint Extern 2 (res _ _ (rec (KCollectLoop _) _)) => (eapply rec_loop) : fl.
  Local Hint Extern 2 (res _ _ (rec KCollectOnce _)) => (eapply rec_once) : fl.
  Local Hint Extern 2 (res _ _ (rec (KFinalizeList _ _ _ _) _)) => (eapply rec_finlist) : fl.
  Local Hint Extern 2 (res _ _ (rec (KDropList _ _ _) _)) => (eapply rec_droplist) : fl.
  Local Hint Extern 1 (inv _ _ (emit (ECb _ _ (cur_flags _ _)) _)) =>
    (apply inv_emit_cb; [ | | first [exact I | reflexivity]]) : fl.

  Local Hint Extern 1 (okc _) => assumption : fl.

  (** an activation that runs at script level *)
  Definition gen_ok (X : machine -> machine * outcome) : Prop :=
    forall c f d p m, okc c -> inv A (c, f, d, p) m -> tq K (c, f, d, p) ->
                      res A (c, f, d, p) (X m).

  Lemma f_step_script self cs : gen_ok (step_script rec self cs).
  Proof. intros c f d p m Hc H Hq. unfold step_script. go. Qed.
  Lemma f_step_store r v : gen_ok (step_store rec r v).
  Proof. intros c f d p m Hc H Hq. unfold step_store. go. Qed.
  Lemma f_step_drop_value o : gen_ok (step_drop_value K P rec o).
  Proof. intros c f d p m Hc H Hq. unfold step_drop_value. go. Qed.
  Lemma f_step_drop_fields o j : gen_ok (step_drop_fields rec o j).
  Proof. intros c f d p m Hc H Hq. unfold step_drop_fields. go. Qed.
  Lemma f_step_drop_map_slots o j : gen_ok (step_drop_map_slots rec o j).
  Proof. intros c f d p m Hc H Hq. unfold step_drop_map_slots. go. Qed.
  Lemma f_step_clean_run mo aid s : gen_ok (step_clean_run K P rec mo aid s).
  Proof. intros c f d p m Hc H Hq. unfold step_clean_run. go. Qed.
  Lemma f_step_unbag k : gen_ok (step_unbag rec k).
  Proof. intros c f d p m Hc H Hq. unfold step_unbag. go. Qed.

  (** [Cc::drop]: finalizing / dropping are set around the callbacks and restored on every
      path *)
  Lemma f_step_drop_cc o : gen_ok (step_drop_cc K P rec o).
  Proof.
    intros c f d p m Hc H Hq. unfold step_drop_cc.
    destruct (k_fin K) eqn:Ek; go.
  Qed.

  Lemma f_step_collect_loop k f d p m :
    inv A (true, f, d, p) m -> res A (true, f, d, p) (step_collect_loop rec k m).
  Proof. intros H. unfold step_collect_loop. go. Qed.

  (** [__collect]: the tracing phases run with finalizing/dropping cleared; both are restored
      before anything else happens, also when tracing unwinds *)
  Lemma f_step_collect_once f d p m :
    okc true -> inv A (true, f, d, p) m -> res A (true, f, d, p) (step_collect_once K P rec m).
  Proof.
    intros Hc H. unfold step_collect_once.
    assert (H0 : inv A (true, false, false, p)
                   (m <| st_finalizing := false |> <| st_dropping := false |>)) by fl.
    pose proof (inv_trace_pass K P A (true, false, false, p)
                  (fun o m Hm => HevA _ (ev_ok_trace K A p m o Hm)) _ H0) as H1.
    destruct (trace_pass K P (m <| st_finalizing := false |> <| st_dropping := false |>))
      as [m1 pr]. cbn [fst] in H1. cbv beta iota zeta.
    assert (H2 : inv A (true, f, d, p)
                   (m1 <| st_finalizing := st_finalizing m |> <| st_dropping := st_dropping m |>))
      by fl.
    set (m2 := m1 <| st_finalizing := st_finalizing m |> <| st_dropping := st_dropping m |>) in *.
    clearbody m2. fix_flags.
    destruct pr as [L| |]; [|fl..].
    destruct L as [|g L]; [fl|].
    destruct (k_fin K) eqn:Ek; fl.
  Qed.

  Lemma f_step_finalize_list L rest any old_f c d p m :
    okc c -> inv A (c, true, d, p) m -> tq K (c, true, d, p) ->
    res A (c, old_f, d, p) (step_finalize_list K P rec L rest any old_f m).
  Proof. intros Hc H Hq. unfold step_finalize_list. go. Qed.

  Lemma f_step_drop_list L rest old_d c f p m :
    okc c -> inv A (c, f, true, p) m ->
    res A (c, f, old_d, p) (step_drop_list K rec L rest old_d m).
  Proof. intros Hc H. unfold step_drop_list. go. Qed.

  (** *** commands *)
  Lemma f_cmd_new self dst cls : gen_ok (cmd_new K P rec self dst cls).
  Proof. intros c f d p m Hc H Hq. unfold cmd_new. go. Qed.
  Lemma f_cmd_clone self src dst : gen_ok (cmd_clone rec self src dst).
  Proof. intros c f d p m Hc H Hq. unfold cmd_clone. go. Qed.
  Lemma f_cmd_drop self l : gen_ok (cmd_drop rec self l).
  Proof. intros c f d p m Hc H Hq. unfold cmd_drop. go. Qed.
  Lemma f_cmd_move self src dst : gen_ok (cmd_move rec self src dst).
  Proof. intros c f d p m Hc H Hq. unfold cmd_move. go. Qed.
  Lemma f_cmd_mark_alive self l : gen_ok (cmd_mark_alive self l).
  Proof. intros c f d p m Hc H Hq. unfold cmd_mark_alive. go. Qed.
  Lemma f_cmd_collect self : gen_ok (cmd_collect rec self).
  Proof. intros c f d p m Hc H Hq. unfold cmd_collect. go. Qed.
  Lemma f_cmd_downgrade self l w : gen_ok (cmd_downgrade K self l w).
  Proof. intros c f d p m Hc H Hq. unfold cmd_downgrade. go. Qed.
  Lemma f_cmd_upgrade self w dst : gen_ok (cmd_upgrade K rec self w dst).
  Proof. intros c f d p m Hc H Hq. unfold cmd_upgrade. go. Qed.
  Lemma f_cmd_w_new self w : gen_ok (cmd_w_new K self w).
  Proof. intros c f d p m Hc H Hq. unfold cmd_w_new. go. Qed.
  Lemma f_cmd_w_drop self w : gen_ok (cmd_w_drop K self w).
  Proof. intros c f d p m Hc H Hq. unfold cmd_w_drop. go. Qed.
  Lemma f_cmd_try_unwrap self l v : gen_ok (cmd_try_unwrap K self l v).
  Proof. intros c f d p m Hc H Hq. unfold cmd_try_unwrap. go. Qed.
  Lemma f_cmd_drop_value self v : gen_ok (cmd_drop_value rec self v).
  Proof. intros c f d p m Hc H Hq. unfold cmd_drop_value. go. Qed.
  Lemma f_cmd_fin_again self l : gen_ok (cmd_fin_again K self l).
  Proof. intros c f d p m Hc H Hq. unfold cmd_fin_again. go. Qed.
  Lemma f_cmd_register self nd script cs : gen_ok (cmd_register K P rec self nd script cs).
  Proof. intros c f d p m Hc H Hq. unfold cmd_register. go. Qed.
  Lemma f_cmd_clean self cs : gen_ok (cmd_clean K rec self cs).
  Proof. intros c f d p m Hc H Hq. unfold cmd_clean. go. Qed.
  Lemma f_cmd_c_drop self cs : gen_ok (cmd_c_drop K self cs).
  Proof. intros c f d p m Hc H Hq. unfold cmd_c_drop. go. Qed.
  Lemma f_cmd_unbag self k : gen_ok (cmd_unbag rec self k).
  Proof. intros c f d p m Hc H Hq. unfold cmd_unbag. go. Qed.
  Lemma f_cmd_borrow self nd : gen_ok (cmd_borrow self nd).
  Proof. intros c f d p m Hc H Hq. unfold cmd_borrow. go. Qed.
  Lemma f_cmd_unborrow self nd : gen_ok (cmd_unborrow self nd).
  Proof. intros c f d p m Hc H Hq. unfold cmd_unborrow. go. Qed.
  Lemma f_cmd_cfg_auto self b : gen_ok (cmd_cfg_auto K self b).
  Proof. intros c f d p m Hc H Hq. unfold cmd_cfg_auto. go. Qed.
  Lemma f_cmd_cfg_percent self n e : gen_ok (cmd_cfg_percent K self n e).
  Proof. intros c f d p m Hc H Hq. unfold cmd_cfg_percent. go. Qed.
  Lemma f_cmd_cfg_buffered self b : gen_ok (cmd_cfg_buffered K self b).
  Proof. intros c f d p m Hc H Hq. unfold cmd_cfg_buffered. go. Qed.
  Lemma f_cmd_arm self k v : gen_ok (cmd_arm self k v).
  Proof. intros c f d p m Hc H Hq. unfold cmd_arm. go. Qed.
  Lemma f_cmd_panic self : gen_ok (cmd_panic self).
  Proof. intros c f d p m Hc H Hq. unfold cmd_panic. go. Qed.
  Lemma f_cmd_obs self l : gen_ok (cmd_obs self l).
  Proof. intros c f d p m Hc H Hq. unfold cmd_obs. go. Qed.
  Lemma f_cmd_w_obs self w : gen_ok (cmd_w_obs K self w).
  Proof. intros c f d p m Hc H Hq. unfold cmd_w_obs. go. Qed.
  Lemma f_cmd_w_clone self src dst : gen_ok (cmd_w_clone K self src dst).
  Proof. intros c f d p m Hc H Hq. unfold cmd_w_clone. go. Qed.
  Lemma f_cmd_new_cyclic self dst cls script sw : gen_ok (cmd_new_cyclic K P rec self dst cls script sw).
  Proof. intros c f d p m Hc H Hq. unfold cmd_new_cyclic. go. Qed.
  Lemma f_cmd_bag self l k : gen_ok (cmd_bag self l k).
  Proof.
    intros c f d p m Hc H Hq. unfold cmd_bag. cbv beta iota zeta. adv1.
    destruct (y ≫= λ r, read_loc r m0) as [o|]; [|fl].
    generalize (N.to_nat k). intros n. revert m0 Hr.
    induction n as [|n IH]; intros m0 Hr; [fl|].
    destruct (inc_rc (hdr_of m0 o)) as [h|]; [|fl].
    apply IH. fl.
  Qed.
  (** [sobs] samples [is_tracing()]: false at script level *)
  Lemma f_cmd_s_obs self : gen_ok (cmd_s_obs K self).
  Proof.
    intros c f d p m Hc H Hq. unfold cmd_s_obs, ok. apply res_intro, inv_emit_benign; [exact I|].
    apply inv_emit; [|exact H]. apply HevA.
    unfold cur_flags. cbn [fl_t ev_ok].
    rewrite (inv_c _ _ _ _ _ _ H), (inv_f _ _ _ _ _ _ H), (inv_d _ _ _ _ _ _ H). exact Hq.
  Qed.

  Lemma f_step_cmd self cm : gen_ok (step_cmd K P rec self cm).
  Proof.
    intros c f d p m. destruct cm; cbn [step_cmd];
      [ apply f_cmd_new
      | apply f_cmd_clone
      | apply f_cmd_drop
      | apply f_cmd_move
      | apply f_cmd_mark_alive
      | apply f_cmd_collect
      | apply f_cmd_downgrade
      | apply f_cmd_upgrade
      | apply f_cmd_w_new
      | apply f_cmd_w_clone
      | apply f_cmd_w_drop
      | apply f_cmd_try_unwrap
      | apply f_cmd_drop_value
      | apply f_cmd_fin_again
      | apply f_cmd_new_cyclic
      | apply f_cmd_register
      | apply f_cmd_clean
      | apply f_cmd_c_drop
      | apply f_cmd_bag
      | apply f_cmd_unbag
      | apply f_cmd_borrow
      | apply f_cmd_unborrow
      | apply f_cmd_cfg_auto
      | apply f_cmd_cfg_percent
      | apply f_cmd_cfg_buffered
      | apply f_cmd_arm
      | apply f_cmd_panic
      | apply f_cmd_obs
      | apply f_cmd_w_obs
      | apply f_cmd_s_obs ].
  Qed.

  Definition all_steps_ok : Prop :=
    (forall self cm, gen_ok (step_cmd K P rec self cm)) /\
    (forall self cs, gen_ok (step_script rec self cs)) /\
    (forall r v, gen_ok (step_store rec r v)) /\
    (forall o, gen_ok (step_drop_cc K P rec o)) /\
    (forall o, gen_ok (step_drop_value K P rec o)) /\
    (forall o j, gen_ok (step_drop_fields rec o j)) /\
    (forall o j, gen_ok (step_drop_map_slots rec o j)) /\
    (forall k, gen_ok (step_unbag rec k)) /\
    (forall mo aid s, gen_ok (step_clean_run K P rec mo aid s)) /\
    (forall k f d p m, inv A (true, f, d, p) m ->
       res A (true, f, d, p) (step_collect_loop rec k m)) /\
    (forall f d p m, okc true -> inv A (true, f, d, p) m ->
       res A (true, f, d, p) (step_collect_once K P rec m)) /\
    (forall L rest any old_f c d p m, okc c -> inv A (c, true, d, p) m -> tq K (c, true, d, p) ->
       res A (c, old_f, d, p) (step_finalize_list K P rec L rest any old_f m)) /\
    (forall L rest old_d c f p m, okc c -> inv A (c, f, true, p) m ->
       res A (c, f, old_d, p) (step_drop_list K rec L rest old_d m)).

  Lemma all_steps : all_steps_ok.
  Proof.
    unfold all_steps_ok.
    repeat match goal with |- _ /\ _ => split end;
      auto using f_step_cmd, f_step_script, f_step_store, f_step_drop_cc, f_step_drop_value,
        f_step_drop_fields, f_step_drop_map_slots, f_step_unbag, f_step_clean_run,
        f_step_collect_loop, f_step_collect_once, f_step_finalize_list, f_step_drop_list.
  Qed.
End StepsGen.

(** ** The flag discipline *)
Section Steps.
  Context (K : conf) (P : prog).
  Context (rec : call -> machine -> machine * outcome).
  Context (Hrec : rec_ok (Pre K) (Post K) rec).
  Implicit Types (m : machine) (c f d p : bool).
  Notation A := (flagsA K).

  Lemma rec_gen k m t : gen k = true -> inv A t m -> tq K t -> res A t (rec k m).
  Proof.
    intros Hg H Hq. pose proof (Hrec k m) as HH. unfold Pre, Post in HH.
    destruct H as [<- Hl].
    assert (Ht : target k m = ctl m) by (destruct k; try discriminate; reflexivity).
    rewrite Ht in HH. apply res_eta, HH. split; [exact Hl|].
    destruct k; try discriminate; cbn; auto.
  Qed.
  Lemma rec_collect f d p m :
    inv A (false, f, d, p) m -> res A (false, f, d, p) (rec KCollect m).
  Proof.
    intros H. pose proof (Hrec KCollect m) as HH. unfold Pre, Post in HH. cbn in HH.
    rewrite (inv_ctl _ _ _ H) in HH. apply res_eta, HH. split; [exact (inv_log _ _ _ H)|]. eapply inv_c, H.
  Qed.
  Lemma rec_loop n f d p m :
    inv A (true, f, d, p) m -> res A (true, f, d, p) (rec (KCollectLoop n) m).
  Proof.
    intros H. pose proof (Hrec (KCollectLoop n) m) as HH. unfold Pre, Post in HH. cbn in HH.
    rewrite (inv_ctl _ _ _ H) in HH. apply res_eta, HH. split; [exact (inv_log _ _ _ H)|]. eapply inv_c, H.
  Qed.
  Lemma rec_once f d p m :
    inv A (true, f, d, p) m -> res A (true, f, d, p) (rec KCollectOnce m).
  Proof.
    intros H. pose proof (Hrec KCollectOnce m) as HH. unfold Pre, Post in HH. cbn in HH.
    rewrite (inv_ctl _ _ _ H) in HH. apply res_eta, HH. split; [exact (inv_log _ _ _ H)|]. eapply inv_c, H.
  Qed.
  Lemma rec_finlist L rest any old_f c d p m :
    inv A (c, true, d, p) m -> tq K (c, true, d, p) ->
    res A (c, old_f, d, p) (rec (KFinalizeList L rest any old_f) m).
  Proof.
    intros H Hq. pose proof (Hrec (KFinalizeList L rest any old_f) m) as HH.
    unfold Pre, Post in HH. cbn in HH.
    rewrite (inv_c _ _ _ _ _ _ H), (inv_d _ _ _ _ _ _ H), (inv_p _ _ _ _ _ _ H) in HH.
    apply res_eta, HH. split; [exact (inv_log _ _ _ H)|].
    split; [eapply inv_quiet; eauto | eapply inv_f, H].
  Qed.
  Lemma rec_droplist L rest old_d c f p m :
    inv A (c, f, true, p) m ->
    res A (c, f, old_d, p) (rec (KDropList L rest old_d) m).
  Proof.
    intros H. pose proof (Hrec (KDropList L rest old_d) m) as HH.
    unfold Pre, Post in HH. cbn in HH.
    rewrite (inv_c _ _ _ _ _ _ H), (inv_f _ _ _ _ _ _ H), (inv_p _ _ _ _ _ _ H) in HH.
    apply res_eta, HH. split; [exact (inv_log _ _ _ H)|]. eapply inv_d, H.
  Qed.

  Local Hint Extern 2 (res _ _ (rec _ _)) => (eapply rec_gen; [reflexivity | | ]) : fl.
  Local Hint Extern 2 (res _ _ (rec KCollect _)) => (eapply rec_collect) : fl.
  Local Hint Extern 2 (res _ _ (rec (KCollectLoop _) _)) => (eapply rec_loop) : fl.

  (** the two collection entry points need no hypothesis on the flags *)
  Lemma f_step_trigger c f d p m :
    inv A (c, f, d, p) m -> res A (c, f, d, p) (step_trigger K rec m).
  Proof.
    intros H. unfold step_trigger. destruct (st_collecting m) eqn:Ec; [fl|].
    rewrite (inv_c _ _ _ _ _ _ H) in Ec. subst c. go.
  Qed.
  Lemma f_step_collect_cycles c f d p m :
    inv A (c, f, d, p) m -> res A (c, f, d, p) (step_collect_cycles K rec m).
  Proof.
    intros H. unfold step_collect_cycles. destruct (st_collecting m) eqn:Ec; [fl|].
    rewrite (inv_c _ _ _ _ _ _ H) in Ec. subst c. go.
  Qed.
  Lemma f_step_collect f d p m :
    inv A (false, f, d, p) m -> res A (false, f, d, p) (step_collect K rec m).
  Proof. intros H. unfold step_collect. go. Qed.

  (** the step case of [run_ind] *)
  Lemma flags_step_ok : rec_ok (Pre K) (Post K) (step K P rec).
  Proof.
    pose proof (all_steps K P A (fun _ => True) (fun e He => He) rec
                  (fun k m c f d p Hg _ H Hq => rec_gen k m _ Hg H Hq)
                  rec_loop rec_once
                  (fun L rest any old_f c d p m _ H Hq => rec_finlist L rest any old_f c d p m H Hq)
                  (fun L rest old_d c f p m _ H => rec_droplist L rest old_d c f p m H))
      as (G1 & G2 & G3 & G4 & G5 & G6 & G7 & G8 & G9 & G10 & G11 & G12 & G13).
    intros k m [Hl Hc]. unfold Post. rewrite <- surjective_pairing.
    destruct k; cbn [step]; cbn [cond] in Hc.
    - apply G1; [exact I | apply inv_self, Hl | exact Hc].
    - apply G2; [exact I | apply inv_self, Hl | exact Hc].
    - apply G3; [exact I | apply inv_self, Hl | exact Hc].
    - apply G4; [exact I | apply inv_self, Hl | exact Hc].
    - apply G5; [exact I | apply inv_self, Hl | exact Hc].
    - apply G6; [exact I | apply inv_self, Hl | exact Hc].
    - apply G7; [exact I | apply inv_self, Hl | exact Hc].
    - apply f_step_trigger, inv_self, Hl.
    - apply f_step_collect_cycles, inv_self, Hl.
    - unfold target, ctl. rewrite Hc. apply f_step_collect. rewrite <- Hc. apply inv_self, Hl.
    - unfold target, ctl. rewrite Hc. apply G10. rewrite <- Hc. apply inv_self, Hl.
    - unfold target, ctl. rewrite Hc. apply G11; [exact I|]. rewrite <- Hc. apply inv_self, Hl.
    - destruct Hc as [Hq Hf]. unfold target. apply G12.
      + exact I.
      + rewrite <- Hf. apply inv_self, Hl.
      + unfold quiet in Hq. rewrite Hf in Hq. exact Hq.
    - unfold target. apply G13; [exact I|]. rewrite <- Hc. apply inv_self, Hl.
    - apply G8; [exact I | apply inv_self, Hl | exact Hc].
    - apply G9; [exact I | apply inv_self, Hl | exact Hc].
  Qed.
End Steps.

(** ** Theorem 1: every activation that does not run out of fuel restores the flags exactly,
    whatever its outcome (normal return, panic, abort), and the log stays [log_ok]. *)
Theorem run_flags K P n : rec_ok (Pre K) (Post K) (run K P n).
Proof.
  apply run_ind.
  - intros rec Hrec. apply flags_step_ok. exact Hrec.
  - intros k m [Hl Hc]. unfold Post. eapply res_intro_fuel, inv_self, Hl.
Qed.
