(** * PassEx: concrete heaps satisfying [PassPre] (non-vacuity of the pass theorems). *)
From Coq Require Import NArith Bool List Lia.
From stdpp Require Import base list option numbers list_numbers sets.
From RecordUpdate Require Import RecordSet.
From RC Require Import Hdr Machine Pass PassCount PassRoots PassMain.
Import ListNotations RecordSetNotations.

Definition exK : conf := Conf true true true true true 48 8 64 8 100.
(** class 0: two traced fields; class 1: one untraced field; class 2: one traced field *)
Definition exP : prog :=
  Prog [Cls 2 [true; true] 0 false None None;
        Cls 1 [false] 0 false None None;
        Cls 1 [true] 0 false None None] [] [].

Definition mkobj (rc tc : N) (k : mark) (cls : nat) (fs : list (option id)) : obj :=
  Obj (Hdr rc tc k false false) VLive BAlloc None cls false fs [] None false [] [] false.

(** ** A 2-cycle 0 <-> 1 (garbage) whose member 0 also points to 2, which slot 0 still holds. *)
Definition exA : machine :=
  init exK <| heap := [mkobj 1 0 PC 0 [Some 1; Some 2];
                       mkobj 1 0 PC 2 [Some 0];
                       mkobj 2 0 PC 2 [None]] |>
           <| pc := [0; 1; 2]%nat |> <| pc_size := 3%N |>
           <| slots := [Some 2%nat; None; None; None; None; None] |>.
Definition extA (o : id) : N := match o with 2%nat => 1%N | _ => 0%N end.


Lemma exA_alloc o : alloc exA o → (o < 3)%nat.
Proof. apply alloc_lt. Qed.

Lemma exA_reach o : reach exP exA o → o ∈ [0; 1; 2]%nat.
Proof.
  induction 1 as [o Ho|p c _ IH Hc]; [done|].
  rewrite !elem_of_cons, elem_of_nil in IH. destruct IH as [->|[->|[->|[]]]];
    vm_compute in Hc; set_solver.
Qed.

Lemma exA_pre : PassPre exP exA extA.
Proof.
  split.
  - compute_done.
  - intros o Ho. change (pc exA) with [0; 1; 2]%nat in Ho. set_unfold.
    destruct Ho as [->|[->|[->|[]]]]; done.
  - intros o Ho%exA_alloc. destruct o as [|[|[|o]]]; [by right..|lia].
  - intros o Ho%exA_alloc _. change (pc exA) with [0; 1; 2]%nat.
    destruct o as [|[|[|o]]]; [set_solver..|lia].
  - done.
  - intros o Ho. change (pc exA) with [0; 1; 2]%nat in Ho. set_unfold.
    destruct Ho as [->|[->|[->|[]]]]; done.
  - intros o Ho%exA_alloc. destruct o as [|[|[|o]]]; [by vm_compute..|lia].
  - intros o Ho%exA_reach. set_unfold. destruct Ho as [->|[->|[->|[]]]]; by vm_compute.
  - intros o Ho%exA_reach. set_unfold. destruct Ho as [->|[->|[->|[]]]];
      (split; [eexists; split; [reflexivity|done]|
       split; [eexists; split; [reflexivity|by right]|by vm_compute]]).
Qed.

(** the pass finds exactly the cycle; the externally held object is rescued *)
Example exA_result : (trace_pass exK exP exA).2 = PDone [1; 0]%nat.
Proof. by vm_compute. Qed.

(** [pass_closed] applies: e.g. nothing outside [[1; 0]] holds a handle to 0 or 1 *)
Example exA_closed :
  ∀ o, o ∈ [1; 0]%nat → extA o = 0%N ∧
    ∀ p x j, get exA p = Some x → o_fields x !! j = Some (Some o) → p ∈ [1; 0]%nat.
Proof.
  intros o Ho. destruct (trace_pass exK exP exA) as [m' r] eqn:Hr.
  assert (r = PDone [1; 0]%nat) as -> by (by rewrite <- exA_result, Hr).
  destruct (pass_closed exK exP exA extA m' _ exA_pre Hr o Ho) as (He & Hf & _).
  split; [done|]. intros p x j Hx Hj. by apply (Hf p x j Hx Hj).
Qed.

(** ** An untraced owning field: 0 -(untraced)-> 1 -(traced)-> 0, both unreachable from the
    program.  The handle in the untraced field counts as an external reference to 1, 1 is a
    root, and it rescues 0: nothing is reclaimed. *)
Definition exB : machine :=
  init exK <| heap := [mkobj 1 0 PC 1 [Some 1]; mkobj 1 0 PC 2 [Some 0]] |>
           <| pc := [0; 1]%nat |> <| pc_size := 2%N |>.
Definition extB (o : id) : N := 0%N.

Lemma exB_reach o : reach exP exB o → o ∈ [0; 1]%nat.
Proof.
  induction 1 as [o Ho|p c _ IH Hc]; [done|].
  rewrite !elem_of_cons, elem_of_nil in IH. destruct IH as [->|[->|[]]];
    vm_compute in Hc; set_solver.
Qed.

Lemma exB_pre : PassPre exP exB extB.
Proof.
  split.
  - compute_done.
  - intros o Ho. change (pc exB) with [0; 1]%nat in Ho. set_unfold.
    destruct Ho as [->|[->|[]]]; done.
  - intros o Ho%alloc_lt. destruct o as [|[|o]]; [by right..|cbn in Ho; lia].
  - intros o Ho%alloc_lt _. change (pc exB) with [0; 1]%nat.
    destruct o as [|[|o]]; [set_solver..|cbn in Ho; lia].
  - done.
  - intros o Ho. change (pc exB) with [0; 1]%nat in Ho. set_unfold.
    destruct Ho as [->|[->|[]]]; done.
  - intros o Ho%alloc_lt. destruct o as [|[|o]]; [by vm_compute..|cbn in Ho; lia].
  - intros o Ho%exB_reach. set_unfold. destruct Ho as [->|[->|[]]]; by vm_compute.
  - intros o Ho%exB_reach. set_unfold. destruct Ho as [->|[->|[]]];
      (split; [eexists; split; [reflexivity|done]|
       split; [eexists; split; [reflexivity|by right]|by vm_compute]]).
Qed.

Example exB_result : (trace_pass exK exP exB).2 = PDone [].
Proof. by vm_compute. Qed.

(** ** An unwound pass: the second trace call panics; the buffer keeps the not yet processed
    object with [tc = 0] although the first trace call had already counted an edge into it. *)
Definition exC : machine := exA <| fuse_trace := 2%N |>.
Lemma exC_pre : PassPre exP exC extA.
Proof. by apply (PassPre_heap exP exA exC extA), exA_pre. Qed.
Example exC_result :
  let r := trace_pass exK exP exC in
  r.2 = PPanicked ∧ pc r.1 = [2%nat] ∧ h_tc (hdr_of r.1 2%nat) = 0%N ∧
  h_mark (hdr_of r.1 0%nat) = NM ∧ h_mark (hdr_of r.1 1%nat) = NM.
Proof. by vm_compute. Qed.

(** ** Non-vacuity of [pass_complete]: [exA] satisfies the count hypothesis with equality and
    the two cycle members are unpinned, as is everything that reaches them. *)
Lemma exA_count_eq o :
  alloc exA o → h_rc (hdr_of exA o) = (N.of_nat (in_fields exA o) + extA o)%N.
Proof. intros Ho%exA_alloc. destruct o as [|[|[|o]]]; [by vm_compute..|lia]. Qed.

Lemma exA_get p x : get exA p = Some x → (p < 3)%nat.
Proof. intros H. by apply lookup_lt_Some in H. Qed.

Lemma exA_unpinned o : o ∈ [0; 1]%nat → unpinned exP exA extA o.
Proof.
  intros Ho. set_unfold. split; [by destruct Ho as [->|[->|[]]]|]. split.
  - intros p x j Hx Hj. pose proof (exA_get p x Hx) as Hp.
    destruct p as [|[|[|p]]]; [| | |lia]; injection Hx as <-;
      destruct j as [|[|j]]; destruct Ho as [->|[->|[]]]; try done;
      (split; [apply reach_pc; change (pc exA) with [0; 1; 2]%nat; set_solver|done]).
  - intros p x Hx. pose proof (exA_get p x Hx) as Hp.
    destruct p as [|[|[|p]]]; [| | |lia]; by injection Hx as <-.
Qed.

Lemma exA_treach u v : treach exP exA u v → v ∈ [0; 1]%nat → u ∈ [0; 1]%nat.
Proof.
  induction 1 as [|p c _ IH Hc]; [done|]. intros Hv. apply IH.
  assert (Hp : p ∈ [0; 1; 2]%nat).
  { destruct (decide (p < 3)%nat) as [Hlt|Hge].
    - destruct p as [|[|[|p]]]; [set_solver..|lia].
    - exfalso. unfold kids, traced_children, get in Hc.
      rewrite lookup_ge_None_2 in Hc by (cbn; lia). set_solver. }
  set_unfold. destruct Hp as [->|[->|[->|[]]]]; [tauto|tauto|].
  vm_compute in Hc. set_solver.
Qed.

Example exA_complete : ∀ v, v ∈ [0; 1]%nat → ∀ m' L,
  trace_pass exK exP exA = (m', PDone L) → v ∈ L.
Proof.
  intros v Hv m' L Hr.
  apply (pass_complete exK exP exA extA m' L exA_pre exA_count_eq Hr v).
  - apply reach_pc. change (pc exA) with [0; 1; 2]%nat. clear -Hv. set_solver.
  - intros u _ Ht. apply exA_unpinned. by eapply exA_treach.
Qed.
