(** * SoleCex: [SafeFinalOwn2.SoleFrame] as stated there is false - executed counterexample.

    A clean program (no model-detected misbehaviour, everything is freed at the end) in which the
    activation [KStore (RField t1 0) o] modifies an object that is solely owned, in the entry
    state of that activation, by a value [p] whose destruction is running:

    - [p] (class 2) has a Drop impl: [new s0.0 C]; its field holds [t1], slot 0 holds [t1] too
      (strong count 2); [t1]'s field holds [t2] (count 1);
    - two self-cycles of class 3 are buffered; their Drop impl is [drop s0];
    - [drop s1] destroys [p]; its Drop impl resolves [s0.0] to field 0 of [t1], then [Cc::new]
      triggers a collection (buffered threshold 1), whose drop pass runs [drop s0]: [t1]'s count
      becomes 1, i.e. [t1] and [t2] are now solely owned by the dying [p]; the pending store
      then overwrites [t1]'s field and frees [t2].

    The rig (SafeRig.v, instrumented interpreter [runc]) reports code 33243 = kind 3 ([KStore])
    + 3000 (post-condition) + 243 ([sole_codes]: the essential view of the solely owned objects
    with [wrefs = 0] changed), which is [sole_persist (ex_of c) m m'] of [SoleFrame] for
    [c = KStore (RField t1 0) o].  The un-instrumented run logs no [EBad].
    [SoleTop.sole_frame'] excludes exactly this call by its side condition [SoleStep.Args]
    (the location of a [KStore] does not lie inside a member of the protected set); the call
    [KCmd (new s0.0 C)] that contains it satisfies the frame (at ITS entry [t1] has count 2). *)
From Coq Require Import NArith Bool List.
From stdpp Require Import base list option.
From RC Require Import Hdr Machine Inv InvP SafeRig.
Import ListNotations.
Local Open Scope N_scope.

(* k_fin = false, k_weak = true, k_clean = true, k_auto = true *)
Definition cexK : conf := Conf false true true true true 48 8 64 8 1000000.
Definition cexP : prog := Prog
  [ Cls 1 [true] 0 false None None;           (* 0: t1 *)
    Cls 0 [] 0 false None None;               (* 1: leaf *)
    Cls 1 [true] 0 false None (Some 0%nat);   (* 2: p, Drop = script 0 *)
    Cls 1 [true] 0 false None (Some 1%nat) ]  (* 3: cycle member, Drop = script 1 *)
  [ [CNew (LFA 0 0) 1]; [CDrop (LS 0)] ]
  [ CCfgAuto false;
    CNew (LS 0) 0; CNew (LFA 0 0) 1; CNew (LS 1) 2; CClone (LS 0) (LFA 1 0);
    CNew (LS 2) 3; CClone (LS 2) (LFA 2 0); CDrop (LS 2);
    CNew (LS 2) 3; CClone (LS 2) (LFA 2 0); CDrop (LS 2);
    CCfgBuffered 1; CCfgAuto true;
    CDrop (LS 1) ].

Definition bads_of (m : machine) : list (bad * N) :=
  omap (fun e => match e with EBad b o => Some (b, N.of_nat o) | _ => None end) (log m).

Example cex_wf : wf_prog cexP = true.
Proof. vm_compute. reflexivity. Qed.

(** the rig reports the violation of the frame at the [KStore] activation *)
Example cex_rig :
  bads_of (fold_left (fun m c => exec_topc cexK cexP 60 c m) (p_main cexP) (init cexK))
  = [(BadState, 33241); (BadState, 33243); (BadState, 33244)].
Proof. vm_compute. reflexivity. Qed.

(** the run itself is clean and frees everything *)
Example cex_clean :
  bads_of (fold_left (fun m c => exec_top cexK cexP 60 c m) (p_main cexP) (init cexK)) = [] /\
  forallb (fun x => match o_box x, o_vst x with BFreed, VDropped => true | _, _ => false end)
          (heap (fold_left (fun m c => exec_top cexK cexP 60 c m) (p_main cexP) (init cexK))) = true.
Proof. vm_compute. split; reflexivity. Qed.
