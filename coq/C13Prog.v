(** * C13Prog: program-level form of C13 ([Cc::try_unwrap] at top level, on a slot).
    Discharges the state-level hypotheses of [SafeProps.try_unwrap_ok] ([NoBad], [SInv], box
    allocated, flags idle) from reachability, relates the answer to the number of existing strong
    handles ([refs]), and shows that every Weak to the unwrapped object stops upgrading. *)
From Coq Require Import NArith Bool List Lia.
From stdpp Require Import base list option.
From RecordUpdate Require Import RecordSet.
From RC Require Import Hdr Machine RunInd.
From RC Require Flags Flags4.
From RC Require Import Inv InvP SafeHelpers SafePrims SafeCalls SafeMain SafeProps SafeColl SafeFinal SafeFinalPropsA SafeFinalProps.
Import ListNotations RecordSetNotations.
Local Open Scope N_scope.

(** ** The log extension of the Ok path: allocator events and [EBad] other than Fuel/Abort *)
Definition ev_fs (e : event) : bool :=
  match e with
  | EFree _ _ _ | ESFree _ => true
  | EBad Fuel _ | EBad Abort _ => false
  | EBad _ _ => true
  | _ => false
  end.
Definition ev_alloc (e : event) : bool := match e with EFree _ _ _ | ESFree _ => true | _ => false end.
Definition lx (m m' : machine) : Prop := exists l, log m' = l ++ log m /\ forallb ev_fs l = true.
Lemma lx_refl m : lx m m.
Proof. exists []. split; reflexivity. Qed.
Lemma lx_trans m1 m2 m3 : lx m1 m2 -> lx m2 m3 -> lx m1 m3.
Proof.
  intros (l1 & E1 & F1) (l2 & E2 & F2). exists (l2 ++ l1). split; [rewrite E2, E1, app_assoc; reflexivity|].
  rewrite forallb_app, F1, F2. reflexivity.
Qed.
Lemma lx_log m m' : log m' = log m -> lx m m'.
Proof. intros H. exists []. split; [exact H | reflexivity]. Qed.
Lemma lx_emit e m : ev_fs e = true -> lx m (emit e m).
Proof. intros H. exists [e]. split; [reflexivity | cbn; rewrite H; reflexivity]. Qed.

Section Lx.
  Context (K : conf).
  Implicit Types (m : machine) (o : id) (x : obj).

  Lemma lx_remove_from_list o m : lx m (remove_from_list o m).
  Proof.
    unfold remove_from_list. destruct (is_in_pc (hdr_of m o)); [|apply lx_refl]. destruct (pc_alive m); [|apply lx_refl].
    unfold dec_size. match goal with |- context [if ?c then _ else _] => destruct c end.
    - eapply lx_trans; [|apply lx_emit; reflexivity]. apply lx_log. reflexivity.
    - apply lx_log. reflexivity.
  Qed.
  Lemma lx_sfree o m : lx m (sfree o m).
  Proof.
    unfold sfree. destruct (get m o) as [x|]; [|apply lx_emit; reflexivity].
    destruct (o_side x) as [s|]; [|apply lx_emit; reflexivity].
    destruct (sd_freed s).
    - eapply lx_trans; [apply (lx_emit (EBad DoubleFree o)); reflexivity|].
      eapply lx_trans; [|apply lx_emit; reflexivity]. apply lx_log. reflexivity.
    - eapply lx_trans; [|apply lx_emit; reflexivity]. apply lx_log. reflexivity.
  Qed.
  Lemma lx_drop_metadata o m : lx m (drop_metadata K o m).
  Proof.
    unfold drop_metadata. destruct (negb (k_weak K)); [apply lx_refl|]. destruct (get m o) as [x|]; [|apply lx_emit; reflexivity].
    destruct (h_side (o_hdr x)); [|apply lx_refl]. destruct (o_side x) as [s|]; [|apply lx_emit; reflexivity].
    destruct (w_cnt (sd_wk s) =? 0).
    - destruct (sd_freed s); [eapply lx_trans; [apply (lx_emit (EBad UseAfterFree o)); reflexivity | apply lx_sfree] | apply lx_sfree].
    - destruct (sd_freed s); [eapply lx_trans; [apply (lx_emit (EBad UseAfterFree o)); reflexivity | apply lx_log; reflexivity] | apply lx_log; reflexivity].
  Qed.
  Lemma lx_dealloc o m : lx m (dealloc K o m).
  Proof.
    unfold dealloc. destruct (get m o) as [x|]; [|apply lx_emit; reflexivity]. destruct (box_layout K x) as [sz al].
    eapply lx_trans; [|apply lx_emit; reflexivity].
    match goal with |- lx _ (upd _ _ (?X <| st_alloc ::= _ |>)) => apply (lx_trans _ X); [|apply lx_log; reflexivity] end.
    match goal with |- lx _ (if ?c then _ else _) => destruct c end.
    - eapply lx_trans; [|apply lx_emit; reflexivity]. destruct (o_box x); first [apply lx_refl | apply lx_emit; reflexivity].
    - destruct (o_box x); first [apply lx_refl | apply lx_emit; reflexivity].
  Qed.

  (** every answer of [try_unwrap] through a slot: the log of the machine part grows by [ev_fs]
      events only *)
  Lemma lx_try_unwrap i v m : lx m (let '(m1, _) := cmd_try_unwrap K None (LS i) v m in m1 <| log := tl (log m1) |>).
  Proof.
    unfold cmd_try_unwrap. cbn [resolve].
    destruct (decide (i < nslots)%nat); [|apply lx_log; reflexivity].
    destruct (values m !! v) as [[?|]|]; try (apply lx_log; reflexivity).
    destruct (read_loc (RSlot i) m) as [o|]; [|apply lx_log; reflexivity].
    destruct (negb (h_rc (hdr_of m o) =? 1)); [apply lx_log; reflexivity|].
    destruct (st_collecting m || st_dropping m || (k_fin K && st_finalizing m)); [apply lx_log; reflexivity|].
    unfold ok. eapply lx_trans; [|apply lx_log; reflexivity].
    eapply lx_trans; [|apply lx_dealloc]. eapply lx_trans; [|apply lx_drop_metadata].
    eapply lx_trans; [|apply lx_log; reflexivity]. eapply lx_trans; [|apply lx_remove_from_list]. apply lx_log. reflexivity.
  Qed.
End Lx.

Lemma clean_not_fuel_out m : clean m = true -> ~ Flags4.fuel_out m.
Proof.
  unfold clean, Flags4.fuel_out. intros Hc Hin. rewrite forallb_forall in Hc. specialize (Hc _ Hin). discriminate.
Qed.

Lemma fold_fuel0_slots K P cmds : forall m0,
  slots (fold_left (fun m c => exec_top K P 0 c m) cmds m0) = slots m0.
Proof. induction cmds as [|c cs IH]; intros m0; [reflexivity|]. cbn [fold_left]. rewrite IH. reflexivity. Qed.

Lemma exec_top_try_unwrap K P n l v m mf r :
  cmd_try_unwrap K None l v m = ok mf r ->
  exec_top K P (S n) (CTryUnwrap l v) m = emit (ERes r) mf.
Proof. intros H. unfold exec_top. cbn [run step step_cmd]. rewrite H. reflexivity. Qed.

Lemma ieq_unemit e m : ieq (emit e m) m.
Proof. repeat split. Qed.

(** the machine part of an answer is determined *)
Lemma ok_inj m1 m2 r1 r2 : ok m1 r1 = ok m2 r2 -> m1 = m2 /\ r1 = r2.
Proof.
  unfold ok, emit. intros H. destruct m1, m2. cbn in H. injection H. intros. subst. split; reflexivity.
Qed.

(** ** Weak handles to a freed box whose value was moved out (state level) *)
Section WeakDead.
  Context (K : conf).

  (** any weak location usable at top level ([WS]: a Weak slot; [WFA]: a Weak field of the object
      held by a slot) *)
  Lemma weak_dead_loc b m o y w rw :
    SInv K b [] [] m -> get m o = Some y -> o_box y = BFreed -> o_vst y = VMoved ->
    wresolve None w m = (m, Some rw) -> read_wloc rw m = Some (WTo o) ->
    k_weak K = true /\ (0 < wrefs m o)%nat /\
    (forall rec dst rd, resolve None dst m = (m, Some rd) -> cmd_upgrade K rec None w dst m = ok m RNone) /\
    cmd_w_obs K None w m = ok (emit (EWObs 0 (N.of_nat (wrefs m o))) m) ROk.
  Proof.
    intros HI Hy Hb Hv Hres Hrd.
    assert (Hpos : (0 < wrefs m o)%nat).
    { destruct (wresolve_ok K b [] [] m None w HI (or_introl eq_refl)) as (ro & Hro & Hok).
      rewrite Hres in Hro. injection Hro as <-. destruct (Hok _ eq_refl) as (_ & Hr). destruct (Hr _ Hrd) as (_ & Hp).
      apply Hp. reflexivity. }
    pose proof (sv_obj _ _ _ _ _ HI _ _ Hy) as Hok. apply (okN_freed K _ _ _ _ _ Hb) in Hok.
    destruct Hok as (_ & _ & Hsd). change (cnt_wr o []) with 0%nat in Hsd. rewrite Nat.add_0_r in Hsd.
    assert (Hk : k_weak K = true).
    { destruct (k_weak K) eqn:Hk; [reflexivity|]. exfalso.
      destruct (sv_objx _ _ _ _ _ HI _ _ Hy) as [_ _ _ X4 _ _]. rewrite (X4 Hk) in Hsd. lia. }
    split; [exact Hk|]. split; [exact Hpos|].
    assert (Hdead : weak_strong_count (WTo o) m = (m, 0)).
    { apply (SafeFinalProps.dead_never_upgrades K b [] [] m o y HI Hk); [lia | exact Hy | auto]. }
    split.
    - intros rec dst rd Hdst.
      apply (SafeFinalProps.dead_upgrade_none K rec b [] m None w dst rw rd o y HI Hk Hres Hdst Hrd Hpos Hy). auto.
    - unfold cmd_w_obs. rewrite Hk. cbn [negb]. rewrite Hres. cbn [mbind option_bind]. rewrite Hrd, Hdead.
      unfold weak_weak_count. rewrite Hy. destruct (o_side y) as [s|]; [|lia].
      destruct (sd_freed s); [lia|]. destruct Hsd as (_ & -> & _). reflexivity.
  Qed.

  Lemma weak_dead_state b m o y j :
    SInv K b [] [] m -> get m o = Some y -> o_box y = BFreed -> o_vst y = VMoved ->
    wslots m !! j = Some (Some (WTo o)) ->
    k_weak K = true /\ (0 < wrefs m o)%nat /\
    (forall rec dst rd, resolve None dst m = (m, Some rd) -> cmd_upgrade K rec None (WS j) dst m = ok m RNone) /\
    cmd_w_obs K None (WS j) m = ok (emit (EWObs 0 (N.of_nat (wrefs m o))) m) ROk.
  Proof.
    intros HI Hy Hb Hv Hw.
    assert (Hj : (j < nslots)%nat).
    { rewrite <- (proj1 (proj2 (sv_lens _ _ _ _ _ HI))). eapply lookup_lt_Some; eauto. }
    assert (Hres : wresolve None (WS j) m = (m, Some (RWSlot j))).
    { cbn [wresolve]. rewrite decide_True by exact Hj. reflexivity. }
    assert (Hrd : read_wloc (RWSlot j) m = Some (WTo o)) by (cbn [read_wloc]; rewrite Hw; reflexivity).
    exact (weak_dead_loc b m o y (WS j) (RWSlot j) HI Hy Hb Hv Hres Hrd).
  Qed.
End WeakDead.

(** [try_unwrap] does not touch the Weak slots *)
Section WFrame.
  Context (K : conf).
  Lemma wslots_remove_from_list o m : wslots (remove_from_list o m) = wslots m.
  Proof.
    unfold remove_from_list. destruct (is_in_pc _); [|reflexivity]. destruct (pc_alive m); [|reflexivity].
    unfold dec_size. match goal with |- context [if ?c then _ else _] => destruct c end; reflexivity.
  Qed.
  Lemma wslots_sfree o m : wslots (sfree o m) = wslots m.
  Proof.
    unfold sfree. destruct (get m o) as [x|]; [|reflexivity]. destruct (o_side x) as [s|]; [|reflexivity].
    destruct (sd_freed s); reflexivity.
  Qed.
  Lemma wslots_drop_metadata o m : wslots (drop_metadata K o m) = wslots m.
  Proof.
    unfold drop_metadata. destruct (negb (k_weak K)); [reflexivity|]. destruct (get m o) as [x|]; [|reflexivity].
    destruct (h_side (o_hdr x)); [|reflexivity]. destruct (o_side x) as [s|]; [|reflexivity].
    destruct (w_cnt (sd_wk s) =? 0); [rewrite wslots_sfree|]; destruct (sd_freed s); reflexivity.
  Qed.
  Lemma wslots_dealloc o m : wslots (dealloc K o m) = wslots m.
  Proof.
    unfold dealloc. destruct (get m o) as [x|]; [|reflexivity]. destruct (box_layout K x) as [sz al].
    cbn. match goal with |- context [if ?c then _ else _] => destruct c end; destruct (o_box x); reflexivity.
  Qed.
  Lemma wslots_try_unwrap i v m : wslots (cmd_try_unwrap K None (LS i) v m).1 = wslots m.
  Proof.
    unfold cmd_try_unwrap. cbn [resolve].
    destruct (decide (i < nslots)%nat); [|reflexivity].
    destruct (values m !! v) as [[?|]|]; try reflexivity.
    destruct (read_loc (RSlot i) m) as [o|]; [|reflexivity].
    destruct (negb (h_rc (hdr_of m o) =? 1)); [reflexivity|].
    destruct (st_collecting m || st_dropping m || (k_fin K && st_finalizing m)); [reflexivity|].
    unfold ok. cbn [fst]. change (wslots (emit ?e ?mm)) with (wslots mm).
    rewrite wslots_dealloc, wslots_drop_metadata. cbn. rewrite wslots_remove_from_list. reflexivity.
  Qed.
End WFrame.

Section Prog.
  Context (K : conf) (P : prog) (fuel : nat) (cmds : list cmd).
  Hypothesis Hconf : k_clean K = true -> k_weak K = true.
  Hypothesis Hwf : wf_prog P = true.
  Let m := fold_left (fun m c => exec_top K P fuel c m) cmds (init K).
  Hypothesis Hcl : clean m = true.

  Lemma prog_fuel_pos i o : slots m !! i = Some (Some o) -> exists n, fuel = S n.
  Proof.
    intros Hs. destruct (Nat.eq_dec fuel 0%nat) as [Hf|Hf]; [|exists (Nat.pred fuel); lia]. exfalso.
    unfold m in Hs. rewrite Hf, fold_fuel0_slots in Hs. change (slots (init K)) with (replicate nslots (@None id)) in Hs.
    apply lookup_replicate in Hs as [? _]. discriminate.
  Qed.

  (** what reachability gives about a handle stored in a slot, at top level *)
  Lemma prog_slot_facts i o : slots m !! i = Some (Some o) ->
    exists b x, NoBad m /\ SInv K b [] [] m /\ (no_panic_yet m = true -> b = true) /\
      get m o = Some x /\ o_box x = BAlloc /\ o_vst x = VLive /\
      st_collecting m || st_dropping m || (k_fin K && st_finalizing m) = false /\
      resolve None (LS i) m = (m, Some (RSlot i)) /\ read_loc (RSlot i) m = Some o /\
      N.of_nat (refs m o) <= h_rc (o_hdr x) /\ (b = true -> h_rc (o_hdr x) = N.of_nat (refs m o)).
  Proof.
    intros Hs. destruct (safe_programs_sinv K P fuel cmds Hconf Hwf Hcl) as (b & Hnb & HI & Hex & _).
    fold m in HI, Hnb, Hex.
    assert (Hl : hloc m None false o) by (econstructor 1; eauto).
    destruct (sv_loc _ _ _ _ _ HI _ _ _ Hl) as (x & Hx & Hb & Hm & Hv & Hd).
    exists b, x. split; [exact Hnb|]. split; [exact HI|]. split; [exact Hex|]. split; [exact Hx|]. split; [exact Hb|].
    split; [exact Hv|].
    destruct (Flags4.C07_idle K P fuel cmds (clean_not_fuel_out _ Hcl)) as (I1 & I2 & I3 & _). fold m in I1, I2, I3.
    split; [rewrite I1, I2, I3; destruct (k_fin K); reflexivity|].
    assert (Hi : (i < nslots)%nat).
    { rewrite <- (proj1 (sv_lens _ _ _ _ _ HI)). eapply lookup_lt_Some; eauto. }
    split; [unfold resolve; rewrite decide_True by exact Hi; reflexivity|].
    split; [unfold read_loc; rewrite Hs; reflexivity|].
    destruct (okN_alloc K _ _ _ _ _ (sv_obj _ _ _ _ _ HI _ _ Hx) Hb) as (O1 & O2 & _).
    change (cnt_id o []) with 0%nat in O1, O2. rewrite Nat.add_0_r in O1, O2. split; assumption.
  Qed.

  (** the state after the command is again a reachable state with a clean log *)
  Lemma prog_after i v o mf r : slots m !! i = Some (Some o) ->
    cmd_try_unwrap K None (LS i) v m = ok mf r ->
    exec_top K P fuel (CTryUnwrap (LS i) v) m = emit (ERes r) mf /\
    emit (ERes r) mf = fold_left (fun m c => exec_top K P fuel c m) (cmds ++ [CTryUnwrap (LS i) v]) (init K) /\
    clean (emit (ERes r) mf) = true /\
    exists l, log mf = l ++ log m /\ forallb ev_fs l = true.
  Proof.
    intros Hs Heq. destruct (prog_fuel_pos i o Hs) as (n & Hn).
    assert (Hex : exec_top K P fuel (CTryUnwrap (LS i) v) m = emit (ERes r) mf).
    { rewrite Hn. apply exec_top_try_unwrap, Heq. }
    split; [exact Hex|]. split; [rewrite fold_left_app; cbn [fold_left]; fold m; symmetry; exact Hex|].
    pose proof (lx_try_unwrap K i v m) as Hlx. rewrite Heq in Hlx. unfold ok in Hlx.
    destruct Hlx as (l & Hl & Hf). cbn in Hl. split; [|exists l; split; assumption].
    unfold clean. cbn [emit log set]. cbn. rewrite Hl, forallb_app. fold (clean m). rewrite Hcl, andb_true_r.
    apply forallb_forall. intros e He. rewrite forallb_forall in Hf. specialize (Hf e He).
    destruct e as [| | | | | | | | |bb ?]; try reflexivity. destruct bb; try reflexivity; discriminate.
  Qed.

  (** (1) count 1 (as stored in the header): Ok *)
  Theorem prog_try_unwrap_ok i v o :
    slots m !! i = Some (Some o) -> values m !! v = Some None -> h_rc (hdr_of m o) = 1 ->
    exists mf x, get m o = Some x /\ o_box x = BAlloc /\ o_vst x = VLive /\
      cmd_try_unwrap K None (LS i) v m = ok mf RUnwrapOk /\
      exec_top K P fuel (CTryUnwrap (LS i) v) m = emit (ERes RUnwrapOk) mf /\
      (exists l', log mf = l' ++ log m /\ forallb ev_alloc l' = true) /\
      In (EFree o (box_layout K x).1 (box_layout K x).2) (log mf) /\
      (exists y, get mf o = Some y /\ o_vst y = VMoved /\ o_box y = BFreed /\
                 (forall s, o_side y = Some s -> sd_freed s = false -> w_acc (sd_wk s) = false)) /\
      o ∉ pc mf /\ values mf !! v = Some (Some o).
  Proof.
    intros Hs Hv Hrc.
    destruct (prog_slot_facts i o Hs) as (b & x & Hnb & HI & _ & Hx & Hb & Hlive & Hfl & Hres & Hrd & _).
    rewrite (hdr_of_get _ _ _ Hx) in Hrc.
    destruct (SafeProps.try_unwrap_ok K b [] None (LS i) v m (RSlot i) o x Hnb HI Hres Hv Hrd Hx Hb Hrc Hfl)
      as (mf & Heq & _ & Hin & Hy & Hpc & Hval).
    destruct (prog_after i v o mf RUnwrapOk Hs Heq) as (Hex & Hfold & Hcl' & l & Hl & Hf).
    exists mf, x. repeat (split; [assumption|]). split; [|auto].
    exists l. split; [exact Hl|].
    pose proof (safe_programs_no_bad K P fuel (cmds ++ [CTryUnwrap (LS i) v]) Hconf Hwf) as Hnb'. cbv zeta in Hnb'.
    rewrite <- Hfold in Hnb'. specialize (Hnb' Hcl'). unfold no_bad in Hnb'. cbn in Hnb'. rewrite Hl, forallb_app in Hnb'.
    apply andb_true_iff in Hnb' as [Hnb' _].
    apply forallb_forall. intros e He. rewrite forallb_forall in Hf, Hnb'. specialize (Hf e He). specialize (Hnb' e He).
    destruct e as [| | | | | | | | |bb ?]; try reflexivity; try discriminate. destruct bb; discriminate.
  Qed.

  (** (2a) "exactly when [strong_count()] is 1": the answer in terms of the count that a top-level
      [strong_count] through the same slot reports (no hypothesis on panics) *)
  Theorem prog_try_unwrap_count i v o :
    slots m !! i = Some (Some o) -> values m !! v = Some None ->
    exists mf r x, get m o = Some x /\ hdr_of m o = o_hdr x /\
      cmd_obs None (LS i) m =
        ok (emit (EObs o (h_rc (o_hdr x)) (N.of_nat (wrefs m o)) (h_fin (o_hdr x)) true) m) ROk /\
      N.of_nat (refs m o) <= h_rc (o_hdr x) /\
      (no_panic_yet m = true -> h_rc (o_hdr x) = N.of_nat (refs m o)) /\
      cmd_try_unwrap K None (LS i) v m = ok mf r /\
      exec_top K P fuel (CTryUnwrap (LS i) v) m = emit (ERes r) mf /\
      (r = RUnwrapOk <-> h_rc (o_hdr x) = 1) /\
      (h_rc (o_hdr x) <> 1 -> r = RUnwrapErr /\ mf = m).
  Proof.
    intros Hs Hv.
    destruct (prog_slot_facts i o Hs) as (b & x & Hnb & HI & Hex & Hx & Hb & Hlive & Hfl & Hres & Hrd & Hle & Heqb).
    assert (Hgood : good_h m o).
    { destruct (sv_loc _ _ _ _ _ HI _ _ _ (HL_slot m i o Hs)) as (x' & Hx' & Hb' & Hm' & Hv' & Hd').
      exists x'. auto 6. }
    destruct (SafeFinalProps.obs_never_too_low K b [] None (LS i) m (RSlot i) o HI Hres Hrd Hgood)
      as (y & rc & Hy & Hrc & _ & _ & _ & Hobs).
    assert (y = x) by congruence. subst y. subst rc.
    destruct (N.eq_dec (h_rc (o_hdr x)) 1) as [H1|H1].
    - destruct (prog_try_unwrap_ok i v o Hs Hv) as (mf & x' & Hx' & _ & _ & Heq & Hexec & _).
      { rewrite (hdr_of_get _ _ _ Hx). exact H1. }
      exists mf, RUnwrapOk, x. split; [exact Hx|]. split; [apply (hdr_of_get _ _ _ Hx)|]. split; [exact Hobs|].
      split; [exact Hle|]. split; [intros Hnp; apply Heqb, Hex, Hnp|]. split; [exact Heq|]. split; [exact Hexec|].
      split; [tauto | intros; contradiction].
    - assert (Heq : cmd_try_unwrap K None (LS i) v m = ok m RUnwrapErr).
      { apply (SafeProps.try_unwrap_err K None (LS i) v m (RSlot i) o Hres Hv Hrd). left.
        rewrite (hdr_of_get _ _ _ Hx). exact H1. }
      exists m, RUnwrapErr, x. split; [exact Hx|]. split; [apply (hdr_of_get _ _ _ Hx)|]. split; [exact Hobs|].
      split; [exact Hle|]. split; [intros Hnp; apply Heqb, Hex, Hnp|]. split; [exact Heq|].
      split; [apply (prog_after i v o m RUnwrapErr Hs Heq)|].
      split; [split; [discriminate | intros; contradiction] | auto].
  Qed.

  (** (2) while no panic was caught: Ok exactly when exactly one strong handle to [o] exists *)
  Theorem prog_try_unwrap_iff i v o :
    slots m !! i = Some (Some o) -> values m !! v = Some None -> no_panic_yet m = true ->
    exists mf r, cmd_try_unwrap K None (LS i) v m = ok mf r /\
      (r = RUnwrapOk <-> refs m o = 1%nat) /\
      (refs m o <> 1%nat -> r = RUnwrapErr /\ mf = m).
  Proof.
    intros Hs Hv Hnp.
    destruct (prog_try_unwrap_count i v o Hs Hv) as (mf & r & x & _ & _ & _ & _ & Hrc & Heq & _ & Hiff & Herr).
    specialize (Hrc Hnp). exists mf, r. split; [exact Heq|]. split.
    - rewrite Hiff, Hrc. lia.
    - intros Hne. apply Herr. rewrite Hrc. lia.
  Qed.

  (** (3) after an Ok, every Weak slot that pointed to [o] (before = after: the Weak slots are
      not touched) reports strong count 0 and does not upgrade, both in the machine [mf] returned
      by the command and in the state [m'] in which the next top-level command runs; the weak
      count still counts these handles *)
  Theorem prog_try_unwrap_weak_dead i v o :
    slots m !! i = Some (Some o) -> values m !! v = Some None -> h_rc (hdr_of m o) = 1 ->
    exists mf, cmd_try_unwrap K None (LS i) v m = ok mf RUnwrapOk /\
      let m' := exec_top K P fuel (CTryUnwrap (LS i) v) m in
      m' = emit (ERes RUnwrapOk) mf /\ wslots mf = wslots m /\ wslots m' = wslots m /\
      forall j, wslots m !! j = Some (Some (WTo o)) ->
        k_weak K = true /\ (0 < wrefs m' o)%nat /\ wrefs mf o = wrefs m' o /\
        (forall rec dst rd, resolve None dst m' = (m', Some rd) ->
           cmd_upgrade K rec None (WS j) dst m' = ok m' RNone) /\
        cmd_w_obs K None (WS j) m' = ok (emit (EWObs 0 (N.of_nat (wrefs m' o))) m') ROk /\
        (forall rec dst rd, resolve None dst mf = (mf, Some rd) ->
           cmd_upgrade K rec None (WS j) dst mf = ok mf RNone) /\
        cmd_w_obs K None (WS j) mf = ok (emit (EWObs 0 (N.of_nat (wrefs mf o))) mf) ROk.
  Proof.
    intros Hs Hv Hrc.
    destruct (prog_try_unwrap_ok i v o Hs Hv Hrc) as (mf & x & _ & _ & _ & Heq & Hexec & _ & _ & (y & Hy & Hvy & Hby & _) & _).
    exists mf. split; [exact Heq|]. cbv zeta. rewrite Hexec. split; [reflexivity|].
    assert (Hwf' : wslots mf = wslots m).
    { pose proof (wslots_try_unwrap K i v m) as H. rewrite Heq in H. exact H. }
    split; [exact Hwf'|]. split; [exact Hwf'|]. intros j Hw.
    destruct (prog_after i v o mf RUnwrapOk Hs Heq) as (_ & Hfold & Hcl' & _).
    pose proof (safe_programs_sinv K P fuel (cmds ++ [CTryUnwrap (LS i) v]) Hconf Hwf) as HS. cbv zeta in HS.
    rewrite <- Hfold in HS. destruct (HS Hcl') as (b' & _ & HI' & _).
    assert (HIf : SInv K b' [] [] mf) by (eapply SInv_ieq; [apply ieq_unemit | exact HI']).
    rewrite <- Hwf' in Hw.
    destruct (weak_dead_state K b' (emit (ERes RUnwrapOk) mf) o y j HI' Hy Hby Hvy Hw) as (Hk & Hpos & Hup & Hobs).
    destruct (weak_dead_state K b' mf o y j HIf Hy Hby Hvy Hw) as (_ & _ & Hupf & Hobsf).
    repeat (split; [first [assumption | reflexivity]|]). exact Hobsf.
  Qed.
  (** (3') the same for every weak location usable at top level (a Weak slot, or a Weak field of
      an object held by a slot) that holds a Weak to [o] in the state after the command *)
  Theorem prog_try_unwrap_weak_dead_loc i v o :
    slots m !! i = Some (Some o) -> values m !! v = Some None -> h_rc (hdr_of m o) = 1 ->
    exists mf, cmd_try_unwrap K None (LS i) v m = ok mf RUnwrapOk /\
      let m' := exec_top K P fuel (CTryUnwrap (LS i) v) m in
      m' = emit (ERes RUnwrapOk) mf /\
      forall w rw, wresolve None w m' = (m', Some rw) -> read_wloc rw m' = Some (WTo o) ->
        k_weak K = true /\ (0 < wrefs m' o)%nat /\
        (forall rec dst rd, resolve None dst m' = (m', Some rd) ->
           cmd_upgrade K rec None w dst m' = ok m' RNone) /\
        cmd_w_obs K None w m' = ok (emit (EWObs 0 (N.of_nat (wrefs m' o))) m') ROk.
  Proof.
    intros Hs Hv Hrc.
    destruct (prog_try_unwrap_ok i v o Hs Hv Hrc) as (mf & x & _ & _ & _ & Heq & Hexec & _ & _ & (y & Hy & Hvy & Hby & _) & _).
    exists mf. split; [exact Heq|]. cbv zeta. rewrite Hexec. split; [reflexivity|]. intros w rw Hres Hrd.
    destruct (prog_after i v o mf RUnwrapOk Hs Heq) as (_ & Hfold & Hcl' & _).
    pose proof (safe_programs_sinv K P fuel (cmds ++ [CTryUnwrap (LS i) v]) Hconf Hwf) as HS. cbv zeta in HS.
    rewrite <- Hfold in HS. destruct (HS Hcl') as (b' & _ & HI' & _).
    exact (weak_dead_loc K b' (emit (ERes RUnwrapOk) mf) o y w rw HI' Hy Hby Hvy Hres Hrd).
  Qed.
End Prog.

Print Assumptions prog_try_unwrap_ok.
Print Assumptions prog_try_unwrap_count.
Print Assumptions prog_try_unwrap_iff.
Print Assumptions prog_try_unwrap_weak_dead.
Print Assumptions prog_try_unwrap_weak_dead_loc.
