(** * ForwardSpec: the trait impls of [Cc<T>] generated from src/cc.rs forward to [T]'s own
    implementation, on the dereferenced operands, in the same order.

    [T]'s operations are the projections of one record [Fw.T_ops] (an arbitrary, universally
    quantified bundle [ops]); [deref] is [<Cc<T> as Deref>::deref].  Every lemma is closed by
    [reflexivity]: it holds exactly when the generated body IS the forwarding term.  If cc.rs is
    edited so that e.g. [lt] uses [<=] (the body becomes [T_le ops ..], a different projection),
    [eq] swaps or duplicates an operand, or [le] goes through [partial_cmp], the generated term
    changes and the lemma fails (or the translator fails closed). *)
From RC.gen Require ForwardGen.
Module Fw := ForwardGen.

Section ForwardSpec.
  Variables (T Cc H Fm R : Type) (deref : Cc -> T) (cc_new : T -> Cc) (ops : Fw.T_ops T H Fm R).

  (* T's operations *)
  Notation T_eq := (Fw.T_eq T H Fm R ops).
  Notation T_cmp := (Fw.T_cmp T H Fm R ops).
  Notation T_partial_cmp := (Fw.T_partial_cmp T H Fm R ops).
  Notation T_lt := (Fw.T_lt T H Fm R ops).
  Notation T_le := (Fw.T_le T H Fm R ops).
  Notation T_gt := (Fw.T_gt T H Fm R ops).
  Notation T_ge := (Fw.T_ge T H Fm R ops).
  Notation T_hash := (Fw.T_hash T H Fm R ops).
  Notation T_debug_fmt := (Fw.T_debug_fmt T H Fm R ops).
  Notation T_display_fmt := (Fw.T_display_fmt T H Fm R ops).
  Notation T_default := (Fw.T_default T H Fm R ops).
  (* Cc<T>'s operations, generated from cc.rs *)
  Notation cc_eq := (Fw.cc_eq T Cc H Fm R deref ops).
  Notation cc_cmp := (Fw.cc_cmp T Cc H Fm R deref ops).
  Notation cc_partial_cmp := (Fw.cc_partial_cmp T Cc H Fm R deref ops).
  Notation cc_lt := (Fw.cc_lt T Cc H Fm R deref ops).
  Notation cc_le := (Fw.cc_le T Cc H Fm R deref ops).
  Notation cc_gt := (Fw.cc_gt T Cc H Fm R deref ops).
  Notation cc_ge := (Fw.cc_ge T Cc H Fm R deref ops).
  Notation cc_hash := (Fw.cc_hash T Cc H Fm R deref ops).
  Notation cc_debug_fmt := (Fw.cc_debug_fmt T Cc H Fm R deref ops).
  Notation cc_display_fmt := (Fw.cc_display_fmt T Cc H Fm R deref ops).
  Notation cc_default := (Fw.cc_default T Cc H Fm R cc_new ops).
  Notation cc_as_ref := (Fw.cc_as_ref T Cc deref).
  Notation cc_borrow := (Fw.cc_borrow T Cc deref).

  Theorem cc_eq_spec a b : cc_eq a b = T_eq (deref a) (deref b).
  Proof. reflexivity. Qed.
  Theorem cc_cmp_spec a b : cc_cmp a b = T_cmp (deref a) (deref b).
  Proof. reflexivity. Qed.
  Theorem cc_partial_cmp_spec a b : cc_partial_cmp a b = T_partial_cmp (deref a) (deref b).
  Proof. reflexivity. Qed.
  Theorem cc_lt_spec a b : cc_lt a b = T_lt (deref a) (deref b).
  Proof. reflexivity. Qed.
  Theorem cc_le_spec a b : cc_le a b = T_le (deref a) (deref b).
  Proof. reflexivity. Qed.
  Theorem cc_gt_spec a b : cc_gt a b = T_gt (deref a) (deref b).
  Proof. reflexivity. Qed.
  Theorem cc_ge_spec a b : cc_ge a b = T_ge (deref a) (deref b).
  Proof. reflexivity. Qed.
  Theorem cc_hash_spec a (st : H) : cc_hash a st = T_hash (deref a) st.
  Proof. reflexivity. Qed.
  Theorem cc_debug_fmt_spec a (f : Fm) : cc_debug_fmt a f = T_debug_fmt (deref a) f.
  Proof. reflexivity. Qed.
  Theorem cc_display_fmt_spec a (f : Fm) : cc_display_fmt a f = T_display_fmt (deref a) f.
  Proof. reflexivity. Qed.
  Theorem cc_as_ref_spec a : cc_as_ref a = deref a.
  Proof. reflexivity. Qed.
  Theorem cc_borrow_spec a : cc_borrow a = deref a.
  Proof. reflexivity. Qed.
  Theorem cc_default_spec : cc_default = cc_new T_default.
  Proof. reflexivity. Qed.

  (** [Borrow] requires Eq/Ord/Hash of the borrowed value to agree with those of the owner. *)
  Theorem cc_borrow_coherent a b (st : H) :
    cc_eq a b = T_eq (cc_borrow a) (cc_borrow b) /\
    cc_cmp a b = T_cmp (cc_borrow a) (cc_borrow b) /\
    cc_hash a st = T_hash (cc_borrow a) st.
  Proof. repeat split; reflexivity. Qed.

  Hypothesis deref_new : forall t, deref (cc_new t) = t.

  Theorem cc_default_deref : deref cc_default = T_default.
  Proof. rewrite cc_default_spec. apply deref_new. Qed.
End ForwardSpec.
