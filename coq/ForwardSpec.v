(** * ForwardSpec: the trait impls of [Cc<T>] generated from src/cc.rs forward to [T]'s own
    implementation, on the dereferenced operands, in the same order.

    Every lemma is closed by [reflexivity]: it holds exactly when the generated body IS the
    forwarding term.  If cc.rs is edited so that e.g. [lt] uses [<=], [eq] swaps or duplicates an
    operand, or [le] goes through [partial_cmp], the generated term changes and the lemma fails. *)
From RC.gen Require ForwardGen.
Module Fw := ForwardGen.

Section ForwardSpec.
  Variables (T : Type) (Cc : Type) (deref : Cc -> T) (cc_new : T -> Cc).
  Variables (T_eq : T -> T -> bool) (T_cmp : T -> T -> comparison)
            (T_partial_cmp : T -> T -> option comparison) (T_lt T_le T_gt T_ge : T -> T -> bool).
  Variables (H : Type) (T_hash : T -> H -> H).
  Variables (Fm : Type) (R : Type) (T_debug_fmt T_display_fmt : T -> Fm -> R).
  Variable (T_default : T).

  Theorem cc_eq_spec a b : Fw.cc_eq T Cc deref T_eq a b = T_eq (deref a) (deref b).
  Proof. reflexivity. Qed.
  Theorem cc_cmp_spec a b : Fw.cc_cmp T Cc deref T_cmp a b = T_cmp (deref a) (deref b).
  Proof. reflexivity. Qed.
  Theorem cc_partial_cmp_spec a b :
    Fw.cc_partial_cmp T Cc deref T_partial_cmp a b = T_partial_cmp (deref a) (deref b).
  Proof. reflexivity. Qed.
  Theorem cc_lt_spec a b : Fw.cc_lt T Cc deref T_lt a b = T_lt (deref a) (deref b).
  Proof. reflexivity. Qed.
  Theorem cc_le_spec a b : Fw.cc_le T Cc deref T_le a b = T_le (deref a) (deref b).
  Proof. reflexivity. Qed.
  Theorem cc_gt_spec a b : Fw.cc_gt T Cc deref T_gt a b = T_gt (deref a) (deref b).
  Proof. reflexivity. Qed.
  Theorem cc_ge_spec a b : Fw.cc_ge T Cc deref T_ge a b = T_ge (deref a) (deref b).
  Proof. reflexivity. Qed.
  Theorem cc_hash_spec a (st : H) : Fw.cc_hash T Cc deref H T_hash a st = T_hash (deref a) st.
  Proof. reflexivity. Qed.
  Theorem cc_debug_fmt_spec a (f : Fm) :
    Fw.cc_debug_fmt T Cc deref Fm R T_debug_fmt a f = T_debug_fmt (deref a) f.
  Proof. reflexivity. Qed.
  Theorem cc_display_fmt_spec a (f : Fm) :
    Fw.cc_display_fmt T Cc deref Fm R T_display_fmt a f = T_display_fmt (deref a) f.
  Proof. reflexivity. Qed.
  Theorem cc_as_ref_spec a : Fw.cc_as_ref T Cc deref a = deref a.
  Proof. reflexivity. Qed.
  Theorem cc_borrow_spec a : Fw.cc_borrow T Cc deref a = deref a.
  Proof. reflexivity. Qed.
  Theorem cc_default_spec : Fw.cc_default T Cc cc_new T_default = cc_new T_default.
  Proof. reflexivity. Qed.

  (** [Borrow] requires Eq/Ord/Hash of the borrowed value to agree with those of the owner. *)
  Theorem cc_borrow_coherent a b (st : H) :
    Fw.cc_eq T Cc deref T_eq a b = T_eq (Fw.cc_borrow T Cc deref a) (Fw.cc_borrow T Cc deref b) /\
    Fw.cc_cmp T Cc deref T_cmp a b = T_cmp (Fw.cc_borrow T Cc deref a) (Fw.cc_borrow T Cc deref b) /\
    Fw.cc_hash T Cc deref H T_hash a st = T_hash (Fw.cc_borrow T Cc deref a) st.
  Proof. repeat split; reflexivity. Qed.

  Hypothesis deref_new : forall t, deref (cc_new t) = t.

  Theorem cc_default_deref : deref (Fw.cc_default T Cc cc_new T_default) = T_default.
  Proof. rewrite cc_default_spec. apply deref_new. Qed.
End ForwardSpec.
