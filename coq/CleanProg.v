(** * CleanProg: program-level consequences of the cleaner relation [Rel] between two top-level
    states of the same run (C10, follow-up).

    - [prog_suffix_Rel]: the state after a prefix of the program and the final state are related
      by [Rel] (hence [K1], [K2], [K3], [KU], [KC]) when the run did not run out of fuel;
    - [prog_vacant_stays]: a map that no Cleaner names and whose slots are all vacant at some
      top-level state stays so for ever;
    - [prog_vacant_all_ran]: if all slots of a map are vacant in the final state, every action
      that was stored in it at some earlier top-level state has run exactly once. *)
From Coq Require Import NArith Bool List Lia.
From stdpp Require Import base list option.
From RecordUpdate Require Import RecordSet.
From RC Require Import Hdr Machine RunInd.
From RC Require Import Clean CleanFrame CleanStep CleanStep2 CleanThm CleanLog.
Import ListNotations RecordSetNotations.

Section Prog.
  Context (K : conf) (P : prog) (fuel : nat).
  Notation run_from cmds m0 := (fold_left (fun m c => exec_top K P fuel c m) cmds m0).

  Lemma exec_top_Rel c m :
    CI m -> fuel_free (exec_top K P fuel c m) -> Rel (cv m) (cv (exec_top K P fuel c m)).
  Proof.
    intros HI Hff. unfold exec_top in *.
    pose proof (run_clean K P fuel (KCmd None c) m (conj HI I)) as [HR _].
    destruct (run K P fuel (KCmd None c) m) as [m' r]. cbn [fst snd] in *.
    destruct r; unfold res in HR; cbn [fst snd] in HR.
    - exact HR.
    - rewrite cv_emit by reflexivity. exact HR.
    - rewrite cv_emit_bad. exact HR.
    - exfalso. apply (Hff 0). cbn. left.
  Qed.

  Lemma CI_run_from cmds m0 : CI m0 -> CI (run_from cmds m0).
  Proof.
    revert m0. induction cmds as [|c cmds IH]; intros m0 HI; cbn; [exact HI|].
    apply IH, CI_exec_top, HI.
  Qed.

  Lemma fuel_free_run_from cmds m0 : fuel_free (run_from cmds m0) -> fuel_free m0.
  Proof.
    revert m0. induction cmds as [|c cmds IH]; intros m0 Hff; cbn in *; [exact Hff|].
    eapply exec_top_fuel_free, IH, Hff.
  Qed.

  Lemma run_from_Rel cmds m0 :
    CI m0 -> fuel_free (run_from cmds m0) -> Rel (cv m0) (cv (run_from cmds m0)).
  Proof.
    revert m0. induction cmds as [|c cmds IH]; intros m0 HI Hff; cbn in *.
    - apply Rel_refl, HI.
    - eapply Rel_trans; [|apply IH; [apply CI_exec_top, HI|exact Hff]].
      apply exec_top_Rel; [exact HI|]. eapply fuel_free_run_from, Hff.
  Qed.

  Theorem prog_suffix_Rel cmds1 cmds2 :
    let m1 := run_from cmds1 (init K) in
    let m := run_from (cmds1 ++ cmds2) (init K) in
    fuel_free m -> Rel (cv m1) (cv m).
  Proof.
    cbv zeta. rewrite fold_left_app. intros Hff.
    apply run_from_Rel; [apply prog_CI|exact Hff].
  Qed.

  (** a map that no Cleaner names never receives an action again *)
  Theorem prog_vacant_stays cmds1 cmds2 mo x :
    let m1 := run_from cmds1 (init K) in
    let m := run_from (cmds1 ++ cmds2) (init K) in
    fuel_free m -> get m1 mo = Some x -> unlinked_m m1 mo -> all_vacant m1 mo ->
    unlinked_m m mo /\ all_vacant m mo.
  Proof.
    cbv zeta. intros Hff Hx Hu Hv.
    pose proof (prog_suffix_Rel cmds1 cmds2 Hff) as HR. cbv zeta in HR.
    destruct HR as ((_ & (_ & _ & (_ & _ & _ & HKU)) & _) & _).
    destruct (HKU mo) as [Hu' Hs'].
    - unfold cv. cbn [cv_h]. rewrite fmap_length. eapply lookup_lt_Some, Hx.
    - apply unlinked_cv, Hu.
    - split; [apply unlinked_cv_inv, Hu'|].
      intros k sl Hsl. destruct sl as [|a s]; [reflexivity|]. exfalso.
      rewrite <- slotv_cv in Hsl. apply Hs' in Hsl. rewrite slotv_cv in Hsl.
      specialize (Hv k _ Hsl). discriminate.
  Qed.

  (** if the map is vacant in the end, whatever it stored at an earlier top-level state has
      run exactly once *)
  Theorem prog_vacant_all_ran cmds1 cmds2 mo :
    let m1 := run_from cmds1 (init K) in
    let m := run_from (cmds1 ++ cmds2) (init K) in
    fuel_free m -> all_vacant m mo ->
    forall k a s, slot_at m1 mo k = Some (MAction a s) ->
      count_occ Nat.eq_dec (executed_aids (log m)) a = 1.
  Proof.
    cbv zeta. intros Hff Hv k a s Hs.
    pose proof (prog_suffix_Rel cmds1 cmds2 Hff) as HR. cbv zeta in HR.
    pose proof (prog_CI K P fuel cmds1) as HI1.
    pose proof (cis_lt _ (CI_spell _ HI1) _ _ _ _ Hs) as Hlt.
    destruct HR as ((_ & (Hn & _ & _) & HK2) & _ & _).
    change (cv_n (cv (run_from cmds1 (init K)))) with (next_aid (run_from cmds1 (init K))) in Hn.
    change (cv_n (cv (run_from (cmds1 ++ cmds2) (init K))))
      with (next_aid (run_from (cmds1 ++ cmds2) (init K))) in Hn.
    destruct (C10_never_lost K P fuel (cmds1 ++ cmds2) Hff a ltac:(lia)) as [[Hst _]|[Hc _]]; [|exact Hc].
    exfalso. destruct Hst as (o' & k' & s' & Hs').
    pose proof Hs' as Hs2. rewrite <- slotv_cv in Hs2.
    destruct (HK2 o' k' a s' Hs2) as [H1|Hge].
    - rewrite slotv_cv in H1.
      destruct (cis_inj _ (CI_spell _ HI1) _ _ _ _ _ _ _ Hs H1) as [<- <-].
      specialize (Hv k _ Hs'). discriminate.
    - change (cv_n (cv (run_from cmds1 (init K)))) with (next_aid (run_from cmds1 (init K))) in Hge. lia.
  Qed.
End Prog.

Print Assumptions prog_suffix_Rel.
Print Assumptions prog_vacant_stays.
Print Assumptions prog_vacant_all_ran.

(** ** The same with the [forallb] formulation of "clean run" used by Props/C04.v *)
From RC Require SafeMain.

Lemma clean_fuel_free m : SafeMain.clean m = true -> fuel_free m.
Proof.
  unfold SafeMain.clean. intros Hc o Ho. rewrite forallb_forall in Hc.
  apply elem_of_list_In in Ho. specialize (Hc _ Ho). discriminate.
Qed.

Theorem prog_vacant_all_ran_clean K P fuel cmds1 cmds2 mo :
  let m1 := fold_left (fun m c => exec_top K P fuel c m) cmds1 (init K) in
  let m := fold_left (fun m c => exec_top K P fuel c m) (cmds1 ++ cmds2) (init K) in
  forallb (fun e => match e with EBad Fuel _ | EBad Abort _ => false | _ => true end) (log m) = true ->
  all_vacant m mo ->
  forall k a s, slot_at m1 mo k = Some (MAction a s) ->
    count_occ Nat.eq_dec (executed_aids (log m)) a = 1.
Proof.
  cbv zeta. intros Hc. apply prog_vacant_all_ran. apply clean_fuel_free. exact Hc.
Qed.

Theorem prog_vacant_stays_clean K P fuel cmds1 cmds2 mo x :
  let m1 := fold_left (fun m c => exec_top K P fuel c m) cmds1 (init K) in
  let m := fold_left (fun m c => exec_top K P fuel c m) (cmds1 ++ cmds2) (init K) in
  forallb (fun e => match e with EBad Fuel _ | EBad Abort _ => false | _ => true end) (log m) = true ->
  get m1 mo = Some x -> unlinked_m m1 mo -> all_vacant m1 mo ->
  unlinked_m m mo /\ all_vacant m mo.
Proof.
  cbv zeta. intros Hc. apply prog_vacant_stays. apply clean_fuel_free. exact Hc.
Qed.
