(** * Containers: the built-in [Trace] / [Finalize] impls of rust-cc (property C17).

    A hand-written executable model of the container impls of /repo/src/trace.rs (plus the
    [Weak], [Cleaner], [Cleanable] impls of src/weak/mod.rs and src/cleaners/mod.rs).
    The file is extraction-free and is evaluated with [vm_compute] by the correspondence check
    tools/check_containers.py, which runs [visit] / [fin_visit] and the real impls on the same
    (generated) container values and compares the per-leaf visit counts.

    ** What is modelled

    A [value] is a container *value* (not a type): which variant of an [Option]/[Result] is
    present, how long a [Vec] is, whether a [RefCell] is currently borrowed, and which [Cc]
    sits at which position.  Two kinds of observable leaves exist:

    - [VLeaf c]: a [Cc<_>] handle whose pointee has identity [c].  [Trace for Cc<T>]
      (src/cc.rs:343-349) reports the pointee to the collector: this is the *only* impl that
      reports anything, so the list computed by [visit] is exactly the sequence of
      [CcBox::trace] calls made by one [Trace::trace] call on the value.  [Finalize for Cc<T>]
      is EMPTY (src/cc.rs:351): finalizing a container does not finalize what its [Cc]s point
      to.
    - [VUser c]: a value of a user type whose [Trace] impl reports nothing and whose
      [Finalize::finalize] records [c].  It is the observable leaf of [fin_visit]: the list
      computed by [fin_visit] is the sequence of user [finalize] calls made by one
      [Finalize::finalize] call on the value.

    - [VZst]: a value of a ZERO-SIZED user type (no fields, hence no identity): its [Trace]
      reports no [Cc] but records the call, and its [finalize] records the call, both under
      the fixed tag [zst_tag].  Sequences of zero-sized elements ([Vec<Zst>], [[Zst; N]],
      [Box<[Zst]>]) must be traced / finalized once per element like any other.

    Besides [visit] (the [Cc]s reported) the model has [utrace]: the sequence of [trace] calls
    that reach user values ([VUser c] records [c], [VZst] records [zst_tag]); it is what the
    probes observe for element types that cannot hold a [Cc].

    [VWeak c] is a [Weak<_>] whose pointee has identity [c]: the identity is carried only so
    that the probes can check that the pointee is *not* reported.

    A boxed slice [Box<[T]>] is [VBox (VSlice l)]: the [Box] impl derefs to the unsized [[T]]
    whose own impl iterates (two impls compose, exactly as in the code).

    Tuples exist for arity 1..12 only ([wf]); the theorems below hold for every value, well
    formed or not, so they hold a fortiori for the implemented arities. *)
From Coq Require Import List Arith Bool Lia PeanoNat.
Import ListNotations.

Set Implicit Arguments.

(** Borrow state of a [RefCell] at the time of the call. *)
Inductive bstate := BFree | BShared | BMut.

Inductive value : Type :=
| VLeaf (c : nat)                         (* Cc<_>                       *)
| VUser (c : nat)                         (* user type, counting finalize *)
| VZst                                    (* zero-sized user type          *)
| VScalar                                 (* (), bool, ints, floats, char, String, ... *)
| VWeak (c : nat)                         (* Weak<_>                     *)
| VCleaner                                (* cleaners::Cleaner           *)
| VCleanable                              (* cleaners::Cleanable         *)
| VPhantom                                (* PhantomData<_>              *)
| VTuple (l : list value)                 (* (A,) ... (A,..,L)           *)
| VArray (l : list value)                 (* [T; N]                      *)
| VSlice (l : list value)                 (* [T] (unsized, behind a Box) *)
| VVec (l : list value)                   (* Vec<T>                      *)
| VBox (v : value)                        (* Box<T>, T: ?Sized           *)
| VSome (v : value) | VNone               (* Option<T>                   *)
| VOk (v : value) | VErr (v : value)      (* Result<R, E>                *)
| VRefCell (b : bstate) (v : value)       (* RefCell<T>                  *)
| VManuallyDrop (v : value)               (* ManuallyDrop<T>             *)
| VAssertUnwindSafe (v : value).          (* AssertUnwindSafe<T>         *)

(** ** Induction principle with [Forall] hypotheses for the list children. *)
Section value_ind.
  Variable P : value -> Prop.
  Hypothesis HLeaf : forall c, P (VLeaf c).
  Hypothesis HUser : forall c, P (VUser c).
  Hypothesis HZst : P VZst.
  Hypothesis HScalar : P VScalar.
  Hypothesis HWeak : forall c, P (VWeak c).
  Hypothesis HCleaner : P VCleaner.
  Hypothesis HCleanable : P VCleanable.
  Hypothesis HPhantom : P VPhantom.
  Hypothesis HTuple : forall l, Forall P l -> P (VTuple l).
  Hypothesis HArray : forall l, Forall P l -> P (VArray l).
  Hypothesis HSlice : forall l, Forall P l -> P (VSlice l).
  Hypothesis HVec : forall l, Forall P l -> P (VVec l).
  Hypothesis HBox : forall v, P v -> P (VBox v).
  Hypothesis HSome : forall v, P v -> P (VSome v).
  Hypothesis HNone : P VNone.
  Hypothesis HOk : forall v, P v -> P (VOk v).
  Hypothesis HErr : forall v, P v -> P (VErr v).
  Hypothesis HRefCell : forall b v, P v -> P (VRefCell b v).
  Hypothesis HManuallyDrop : forall v, P v -> P (VManuallyDrop v).
  Hypothesis HAssertUnwindSafe : forall v, P v -> P (VAssertUnwindSafe v).

  Fixpoint value_ind' (v : value) : P v :=
    let fix go (l : list value) : Forall P l :=
      match l with
      | [] => Forall_nil P
      | x :: t => Forall_cons x (value_ind' x) (go t)
      end in
    match v with
    | VLeaf c => HLeaf c
    | VUser c => HUser c
    | VZst => HZst
    | VScalar => HScalar
    | VWeak c => HWeak c
    | VCleaner => HCleaner
    | VCleanable => HCleanable
    | VPhantom => HPhantom
    | VTuple l => HTuple (go l)
    | VArray l => HArray (go l)
    | VSlice l => HSlice (go l)
    | VVec l => HVec (go l)
    | VBox v => HBox (value_ind' v)
    | VSome v => HSome (value_ind' v)
    | VNone => HNone
    | VOk v => HOk (value_ind' v)
    | VErr v => HErr (value_ind' v)
    | VRefCell b v => HRefCell b (value_ind' v)
    | VManuallyDrop v => HManuallyDrop (value_ind' v)
    | VAssertUnwindSafe v => HAssertUnwindSafe (value_ind' v)
    end.
End value_ind.

(** ** Well-formedness: the only arity restriction is on tuples (1..12, trace.rs:465-478);
    an unsized slice only occurs directly behind a [Box]. *)
Fixpoint wf (v : value) : bool :=
  match v with
  | VTuple l => (1 <=? length l) && (length l <=? 12) && forallb wf l
  | VArray l | VVec l => forallb wf l
  | VSlice _ => false
  | VBox (VSlice l) => forallb wf l
  | VBox v | VSome v | VOk v | VErr v | VRefCell _ v | VManuallyDrop v | VAssertUnwindSafe v => wf v
  | _ => true
  end.

(** ** Specification: what a correct [Trace] / [Finalize] must report. *)

(** All [Cc]s owned by the value, in field order, irrespective of borrows.  A [Weak] owns
    nothing; [Cleaner]/[Cleanable] own nothing that the user can name. *)
Fixpoint owned (v : value) : list nat :=
  match v with
  | VLeaf c => [c]
  | VUser _ | VZst | VScalar | VWeak _ | VCleaner | VCleanable | VPhantom | VNone => []
  | VTuple l | VArray l | VSlice l | VVec l => flat_map owned l
  | VBox v | VSome v | VOk v | VErr v | VRefCell _ v | VManuallyDrop v | VAssertUnwindSafe v => owned v
  end.

(** ... except those below a [RefCell] that is currently borrowed (shared or mutably):
    these must report nothing. *)
Fixpoint owned_unborrowed (v : value) : list nat :=
  match v with
  | VLeaf c => [c]
  | VUser _ | VZst | VScalar | VWeak _ | VCleaner | VCleanable | VPhantom | VNone => []
  | VTuple l | VArray l | VSlice l | VVec l => flat_map owned_unborrowed l
  | VRefCell BFree v => owned_unborrowed v
  | VRefCell _ _ => []
  | VBox v | VSome v | VOk v | VErr v | VManuallyDrop v | VAssertUnwindSafe v => owned_unborrowed v
  end.

(** The tag under which the (identity-less) zero-sized user values are recorded. *)
Definition zst_tag : nat := 999.

(** All user values contained in the value, in field order (a [Cc] *points to* its pointee,
    it does not contain it). *)
Fixpoint users (v : value) : list nat :=
  match v with
  | VUser c => [c]
  | VZst => [zst_tag]
  | VLeaf _ | VScalar | VWeak _ | VCleaner | VCleanable | VPhantom | VNone => []
  | VTuple l | VArray l | VSlice l | VVec l => flat_map users l
  | VBox v | VSome v | VOk v | VErr v | VRefCell _ v | VManuallyDrop v | VAssertUnwindSafe v => users v
  end.

(** ... except those below a *mutably* borrowed [RefCell]. *)
Fixpoint users_unlocked (v : value) : list nat :=
  match v with
  | VUser c => [c]
  | VZst => [zst_tag]
  | VLeaf _ | VScalar | VWeak _ | VCleaner | VCleanable | VPhantom | VNone => []
  | VTuple l | VArray l | VSlice l | VVec l => flat_map users_unlocked l
  | VRefCell BMut _ => []
  | VRefCell _ v => users_unlocked v
  | VBox v | VSome v | VOk v | VErr v | VManuallyDrop v | VAssertUnwindSafe v => users_unlocked v
  end.

(** ... except those below a [RefCell] that is borrowed at all (what [trace] may reach). *)
Fixpoint users_unborrowed (v : value) : list nat :=
  match v with
  | VUser c => [c]
  | VZst => [zst_tag]
  | VLeaf _ | VScalar | VWeak _ | VCleaner | VCleanable | VPhantom | VNone => []
  | VTuple l | VArray l | VSlice l | VVec l => flat_map users_unborrowed l
  | VRefCell BFree v => users_unborrowed v
  | VRefCell _ _ => []
  | VBox v | VSome v | VOk v | VErr v | VManuallyDrop v | VAssertUnwindSafe v => users_unborrowed v
  end.

(** A declarative, position-based reading of the same specification: [cc_at v p c] says that
    the [Cc] [c] sits at position [p] (a path of child indices) of [v] and that no [RefCell]
    on the way is borrowed. *)
Inductive cc_at : value -> list nat -> nat -> Prop :=
| at_leaf c : cc_at (VLeaf c) [] c
| at_tuple l i x p c : nth_error l i = Some x -> cc_at x p c -> cc_at (VTuple l) (i :: p) c
| at_array l i x p c : nth_error l i = Some x -> cc_at x p c -> cc_at (VArray l) (i :: p) c
| at_slice l i x p c : nth_error l i = Some x -> cc_at x p c -> cc_at (VSlice l) (i :: p) c
| at_vec l i x p c : nth_error l i = Some x -> cc_at x p c -> cc_at (VVec l) (i :: p) c
| at_box v p c : cc_at v p c -> cc_at (VBox v) (0 :: p) c
| at_some v p c : cc_at v p c -> cc_at (VSome v) (0 :: p) c
| at_ok v p c : cc_at v p c -> cc_at (VOk v) (0 :: p) c
| at_err v p c : cc_at v p c -> cc_at (VErr v) (0 :: p) c
| at_refcell v p c : cc_at v p c -> cc_at (VRefCell BFree v) (0 :: p) c
| at_md v p c : cc_at v p c -> cc_at (VManuallyDrop v) (0 :: p) c
| at_aus v p c : cc_at v p c -> cc_at (VAssertUnwindSafe v) (0 :: p) c.

(** No [RefCell] inside the value is borrowed. *)
Fixpoint unborrowed (v : value) : bool :=
  match v with
  | VTuple l | VArray l | VSlice l | VVec l => forallb unborrowed l
  | VRefCell BFree v => unborrowed v
  | VRefCell _ _ => false
  | VBox v | VSome v | VOk v | VErr v | VManuallyDrop v | VAssertUnwindSafe v => unborrowed v
  | _ => true
  end.

(** No [RefCell] inside the value is mutably borrowed. *)
Fixpoint unlocked (v : value) : bool :=
  match v with
  | VTuple l | VArray l | VSlice l | VVec l => forallb unlocked l
  | VRefCell BMut _ => false
  | VRefCell _ v => unlocked v
  | VBox v | VSome v | VOk v | VErr v | VManuallyDrop v | VAssertUnwindSafe v => unlocked v
  | _ => true
  end.

(** ** Implementation: one clause per impl, transcribed from the code. *)

(** [RefCell::try_borrow_mut] succeeds iff there is no outstanding borrow at all;
    [RefCell::try_borrow] succeeds iff there is no outstanding *mutable* borrow. *)
Definition try_borrow_mut_ok (b : bstate) : bool :=
  match b with BFree => true | BShared | BMut => false end.
Definition try_borrow_ok (b : bstate) : bool :=
  match b with BFree | BShared => true | BMut => false end.

(** The sequence of [CcBox::trace] calls performed by [Trace::trace(&v, ctx)]. *)
Fixpoint visit (v : value) : list nat :=
  match v with
  (* src/cc.rs:343-349  Trace for Cc<T>: CcBox::trace(self.inner.cast(), ctx) *)
  | VLeaf c => [c]
  (* probe-side user type: hand-written Trace with an empty body *)
  | VUser _ => []
  (* probe-side zero-sized user type: hand-written Trace that reports no Cc *)
  | VZst => []
  (* trace.rs:174-241  empty_trace!: fn trace(&self, _) {} *)
  | VScalar => []
  (* src/weak/mod.rs:203-208  Trace for Weak<T>: empty body *)
  | VWeak _ => []
  (* src/cleaners/mod.rs:112-120  Trace for Cleaner: empty body (must NOT trace cleaner_map) *)
  | VCleaner => []
  (* src/cleaners/mod.rs:162-166  Trace for Cleanable: empty body *)
  | VCleanable => []
  (* trace.rs:257-260  Trace for PhantomData<T>: empty body *)
  | VPhantom => []
  (* trace.rs:421-437, 465-478  tuple_finalize_trace!: match self { (A,..) => { A.trace(ctx); .. } } *)
  | VTuple l => flat_map visit l
  (* trace.rs:367-374  Trace for [T; N]: for elem in self { elem.trace(ctx) } *)
  | VArray l => flat_map visit l
  (* trace.rs:385-392  Trace for [T]: for elem in self { elem.trace(ctx) } *)
  | VSlice l => flat_map visit l
  (* trace.rs:403-410  Trace for Vec<T>: for elem in self { elem.trace(ctx) } *)
  | VVec l => flat_map visit l
  (* trace.rs:264-273, 302-305  deref_trace! for Box<T: ?Sized>: trace(deref(self), ctx) *)
  | VBox v => visit v
  (* trace.rs:329-336  Trace for Option<T>: if let Some(inner) = self { inner.trace(ctx) } *)
  | VSome v => visit v
  | VNone => []
  (* trace.rs:347-355  Trace for Result<R, E>: Ok(ok) => ok.trace(ctx), Err(err) => err.trace(ctx) *)
  | VOk v => visit v
  | VErr v => visit v
  (* trace.rs:311-318  Trace for RefCell<T>: if let Ok(borrow) = self.try_borrow_mut() { borrow.trace(ctx) } *)
  | VRefCell b v => if try_borrow_mut_ok b then visit v else []
  (* trace.rs:264-273, 302-305  deref_trace! for ManuallyDrop<T: ?Sized> *)
  | VManuallyDrop v => visit v
  (* trace.rs:264-273, 307-309  deref_trace! for AssertUnwindSafe<T> *)
  | VAssertUnwindSafe v => visit v
  end.

(** The sequence of user [finalize] calls performed by [Finalize::finalize(&v)]. *)
Fixpoint fin_visit (v : value) : list nat :=
  match v with
  (* src/cc.rs:351  impl Finalize for Cc<T> {}  (default empty method, trace.rs:63-64) *)
  | VLeaf _ => []
  (* probe-side user type: finalize records its identity *)
  | VUser c => [c]
  (* probe-side zero-sized user type: finalize records the call under [zst_tag] *)
  | VZst => [zst_tag]
  (* trace.rs:182-183  empty_trace!: impl Finalize for $this {} *)
  | VScalar => []
  (* src/weak/mod.rs:210-211  impl Finalize for Weak<T> {} *)
  | VWeak _ => []
  (* src/cleaners/mod.rs:122  impl Finalize for Cleaner {} *)
  | VCleaner => []
  (* src/cleaners/mod.rs:168  impl Finalize for Cleanable {} *)
  | VCleanable => []
  (* trace.rs:262  impl Finalize for PhantomData<T> {} *)
  | VPhantom => []
  (* trace.rs:439-453  tuple_finalize_trace!: (A,..) => { A.finalize(); .. } *)
  | VTuple l => flat_map fin_visit l
  (* trace.rs:376-383  Finalize for [T; N]: for elem in self { elem.finalize() } *)
  | VArray l => flat_map fin_visit l
  (* trace.rs:394-401  Finalize for [T] *)
  | VSlice l => flat_map fin_visit l
  (* trace.rs:412-419  Finalize for Vec<T> *)
  | VVec l => flat_map fin_visit l
  (* trace.rs:275-282  deref_trace! Finalize half: finalize(deref(self)) *)
  | VBox v => fin_visit v
  (* trace.rs:338-345  Finalize for Option<T>: if let Some(value) = self { value.finalize() } *)
  | VSome v => fin_visit v
  | VNone => []
  (* trace.rs:357-365  Finalize for Result<R, E>: both arms forward *)
  | VOk v => fin_visit v
  | VErr v => fin_visit v
  (* trace.rs:320-327  Finalize for RefCell<T>: if let Ok(borrow) = self.try_borrow() { borrow.finalize() } *)
  | VRefCell b v => if try_borrow_ok b then fin_visit v else []
  (* trace.rs:275-282  deref_trace! Finalize half, ManuallyDrop / AssertUnwindSafe *)
  | VManuallyDrop v => fin_visit v
  | VAssertUnwindSafe v => fin_visit v
  end.

(** The sequence of user [trace] calls performed by [Trace::trace(&v, ctx)]: same clauses as
    [visit] (the impls forward [trace] to their contents; what differs is the leaf).  A [Cc]
    does not trace its pointee during the call (src/cc.rs:343-349 only touches counters). *)
Fixpoint utrace (v : value) : list nat :=
  match v with
  | VLeaf _ => []
  | VUser c => [c]
  | VZst => [zst_tag]
  | VScalar | VWeak _ | VCleaner | VCleanable | VPhantom | VNone => []
  (* trace.rs:421-437 tuples; 367-374 arrays; 385-392 slices; 403-410 Vec *)
  | VTuple l => flat_map utrace l
  | VArray l => flat_map utrace l
  | VSlice l => flat_map utrace l
  | VVec l => flat_map utrace l
  (* trace.rs:264-273 deref_trace!; 329-336 Option; 347-355 Result *)
  | VBox v | VSome v | VOk v | VErr v | VManuallyDrop v | VAssertUnwindSafe v => utrace v
  (* trace.rs:311-318 RefCell: try_borrow_mut *)
  | VRefCell b v => if try_borrow_mut_ok b then utrace v else []
  end.

(** ** Generic list lemmas. *)

Lemma flat_map_ext_Forall (A B : Type) (f g : A -> list B) (l : list A) :
  Forall (fun x => f x = g x) l -> flat_map f l = flat_map g l.
Proof. induction 1; simpl; congruence. Qed.

Lemma Forall_forallb_imp (A : Type) (P : A -> Prop) (f : A -> bool) (l : list A) :
  Forall (fun x => f x = true -> P x) l -> forallb f l = true -> Forall P l.
Proof.
  induction 1; simpl; intros Hb; constructor;
    apply andb_true_iff in Hb; destruct Hb; auto.
Qed.

(** [sub l1 l2]: [l1] is a subsequence of [l2] (order preserved). *)
Inductive sub (A : Type) : list A -> list A -> Prop :=
| sub_nil : sub [] []
| sub_skip x l1 l2 : sub l1 l2 -> sub l1 (x :: l2)
| sub_keep x l1 l2 : sub l1 l2 -> sub (x :: l1) (x :: l2).
#[global] Hint Constructors sub : core.

Lemma sub_refl (A : Type) (l : list A) : sub l l.
Proof. induction l; auto. Qed.

Lemma sub_nil_l (A : Type) (l : list A) : sub [] l.
Proof. induction l; auto. Qed.

Lemma sub_app (A : Type) (a1 a2 b1 b2 : list A) :
  sub a1 a2 -> sub b1 b2 -> sub (a1 ++ b1) (a2 ++ b2).
Proof. induction 1; simpl; auto. Qed.

Lemma sub_flat_map (A B : Type) (f g : A -> list B) (l : list A) :
  Forall (fun x => sub (f x) (g x)) l -> sub (flat_map f l) (flat_map g l).
Proof. induction 1; simpl; auto using sub_app. Qed.

Lemma sub_In (A : Type) (l1 l2 : list A) x : sub l1 l2 -> In x l1 -> In x l2.
Proof. induction 1; simpl; intuition. Qed.

Lemma sub_NoDup (A : Type) (l1 l2 : list A) : sub l1 l2 -> NoDup l2 -> NoDup l1.
Proof.
  induction 1; intros Hnd; auto.
  - inversion Hnd; auto.
  - inversion Hnd; subst. constructor; auto.
    intros Hin. eauto using sub_In.
Qed.

Lemma sub_count_le (l1 l2 : list nat) c :
  sub l1 l2 -> count_occ Nat.eq_dec l1 c <= count_occ Nat.eq_dec l2 c.
Proof.
  induction 1; simpl; auto; destruct (Nat.eq_dec x c); lia.
Qed.

Lemma NoDup_count_occ_1 (l : list nat) c :
  NoDup l -> In c l -> count_occ Nat.eq_dec l c = 1.
Proof.
  intros Hnd Hin.
  pose proof (proj1 (NoDup_count_occ Nat.eq_dec l) Hnd c).
  pose proof (proj1 (count_occ_In Nat.eq_dec l c) Hin). lia.
Qed.

(** ** C17, trace half. *)

(** Main theorem: one [trace] call reports exactly the [Cc]s the value owns outside borrowed
    [RefCell]s, in field order - each position once, nothing else. *)
Theorem visit_owned : forall v, visit v = owned_unborrowed v.
Proof.
  induction v using value_ind'; simpl; auto using flat_map_ext_Forall.
  destruct b; simpl; auto.
Qed.

(** With no borrowed [RefCell] inside, that is every owned [Cc]. *)
Lemma owned_unborrowed_all : forall v, unborrowed v = true -> owned_unborrowed v = owned v.
Proof.
  induction v using value_ind'; simpl; intros Hb; auto;
    try (apply flat_map_ext_Forall; eapply Forall_forallb_imp; eauto; fail).
  destruct b; simpl in *; auto; discriminate.
Qed.

Theorem visit_all_owned : forall v, unborrowed v = true -> visit v = owned v.
Proof. intros. rewrite visit_owned. now apply owned_unborrowed_all. Qed.

(** Whatever the borrow states, nothing that is not owned is ever reported, and never more
    often than it is owned ("never reclaimed early"). *)
Lemma owned_unborrowed_sub : forall v, sub (owned_unborrowed v) (owned v).
Proof.
  induction v using value_ind'; simpl; auto using sub_refl, sub_flat_map.
  destruct b; auto using sub_nil_l.
Qed.

Theorem visit_sub_owned : forall v, sub (visit v) (owned v).
Proof. intros. rewrite visit_owned. apply owned_unborrowed_sub. Qed.

Theorem visit_only_owned : forall v c, In c (visit v) -> In c (owned v).
Proof. intros v c. apply sub_In, visit_sub_owned. Qed.

Theorem visit_count_le_owned : forall v c,
  count_occ Nat.eq_dec (visit v) c <= count_occ Nat.eq_dec (owned v) c.
Proof. intros. apply sub_count_le, visit_sub_owned. Qed.

(** Exactly once: a [Cc] identity is reported as many times as the value owns it (outside
    borrowed cells); when the owned identities are pairwise distinct that is exactly once
    for each owned one and zero times for every other identity. *)
Theorem visit_count : forall v c,
  count_occ Nat.eq_dec (visit v) c = count_occ Nat.eq_dec (owned_unborrowed v) c.
Proof. intros. now rewrite visit_owned. Qed.

Theorem visit_NoDup : forall v, NoDup (owned v) -> NoDup (visit v).
Proof. intros v. apply sub_NoDup, visit_sub_owned. Qed.

Theorem visit_exactly_once : forall v c,
  NoDup (owned v) ->
  count_occ Nat.eq_dec (visit v) c = if in_dec Nat.eq_dec c (owned_unborrowed v) then 1 else 0.
Proof.
  intros v c Hnd. rewrite visit_count.
  destruct (in_dec Nat.eq_dec c (owned_unborrowed v)) as [Hin|Hnin].
  - apply NoDup_count_occ_1; auto.
    eapply sub_NoDup; [apply owned_unborrowed_sub | assumption].
  - now apply count_occ_not_In.
Qed.

Theorem visit_exactly_once_unborrowed : forall v c,
  unborrowed v = true -> NoDup (owned v) ->
  count_occ Nat.eq_dec (visit v) c = if in_dec Nat.eq_dec c (owned v) then 1 else 0.
Proof.
  intros v c Hb Hnd. rewrite visit_exactly_once by assumption.
  now rewrite owned_unborrowed_all.
Qed.

(** Position-based reading: [c] is reported iff it sits at some position of the value that is
    not below a borrowed [RefCell]. *)
Lemma in_flat_map_nth (f : value -> list nat) (l : list value) c :
  In c (flat_map f l) <-> exists i x, nth_error l i = Some x /\ In c (f x).
Proof.
  rewrite in_flat_map. split.
  - intros (x & Hin & Hc). apply In_nth_error in Hin. destruct Hin as [i Hi]. eauto.
  - intros (i & x & Hi & Hc). apply nth_error_In in Hi. eauto.
Qed.

Theorem visit_iff_cc_at : forall v c, In c (visit v) <-> exists p, cc_at v p c.
Proof.
  intros v c. rewrite visit_owned. revert c.
  induction v using value_ind'; simpl; intros k;
    try (split; [intros [] | intros [p Hp]; inversion Hp]; fail);
    try (rewrite in_flat_map_nth; split;
         [ intros (i & x & Hi & Hc);
           pose proof (proj1 (Forall_forall _ _) H x (nth_error_In _ _ Hi) k) as IH;
           apply IH in Hc; destruct Hc as [p Hp]; exists (i :: p); econstructor; eauto
         | intros [p Hp]; inversion Hp; subst;
           match goal with Hn : nth_error _ ?i = Some ?x |- _ =>
             exists i, x; split; [exact Hn|];
             apply (proj1 (Forall_forall _ _) H x (nth_error_In _ _ Hn) k); eauto end ]; fail);
    try (rewrite IHv; split;
         [ intros [p Hp]; exists (0 :: p); constructor; exact Hp
         | intros [p Hp]; inversion Hp; subst; eauto ]; fail).
  - (* VLeaf *)
    split.
    + intros [<- | []]. exists []. constructor.
    + intros [p Hp]. inversion Hp; subst. now left.
  - (* VRefCell *)
    destruct b; simpl.
    + rewrite IHv. split.
      * intros [p Hp]. exists (0 :: p). constructor. exact Hp.
      * intros [p Hp]. inversion Hp; subst. eauto.
    + split; [intros [] | intros [p Hp]; inversion Hp].
    + split; [intros [] | intros [p Hp]; inversion Hp].
Qed.

(** Non-owning and data-only types report nothing. *)
Theorem visit_weak : forall c, visit (VWeak c) = [].        Proof. reflexivity. Qed.
Theorem visit_cleaner : visit VCleaner = [].                Proof. reflexivity. Qed.
Theorem visit_cleanable : visit VCleanable = [].            Proof. reflexivity. Qed.
Theorem visit_phantom : visit VPhantom = [].                Proof. reflexivity. Qed.
Theorem visit_scalar : visit VScalar = [].                  Proof. reflexivity. Qed.
Theorem visit_none : visit VNone = [].                      Proof. reflexivity. Qed.

(** A borrowed [RefCell] (shared or mutable) reports nothing, an unborrowed one forwards. *)
Theorem visit_refcell_borrowed : forall b v, b <> BFree -> visit (VRefCell b v) = [].
Proof. intros [] v Hb; simpl; congruence. Qed.
Theorem visit_refcell_free : forall v, visit (VRefCell BFree v) = visit v.
Proof. reflexivity. Qed.

(** Element-wise reading for the sequence containers: the report of the container is the
    concatenation, in order, of the reports of its elements, for every length. *)
Theorem visit_elements : forall l,
  visit (VTuple l) = concat (map visit l) /\ visit (VArray l) = concat (map visit l) /\
  visit (VSlice l) = concat (map visit l) /\ visit (VVec l) = concat (map visit l).
Proof. intros; simpl; rewrite flat_map_concat_map; auto. Qed.

(** ** C17, finalize half. *)

Theorem fin_visit_users : forall v, fin_visit v = users_unlocked v.
Proof.
  induction v using value_ind'; simpl; auto using flat_map_ext_Forall.
  destruct b; simpl; auto.
Qed.

Lemma users_unlocked_all : forall v, unlocked v = true -> users_unlocked v = users v.
Proof.
  induction v using value_ind'; simpl; intros Hb; auto;
    try (apply flat_map_ext_Forall; eapply Forall_forallb_imp; eauto; fail).
  destruct b; simpl in *; auto; discriminate.
Qed.

Theorem fin_visit_all_users : forall v, unlocked v = true -> fin_visit v = users v.
Proof. intros. rewrite fin_visit_users. now apply users_unlocked_all. Qed.

Lemma users_unlocked_sub : forall v, sub (users_unlocked v) (users v).
Proof.
  induction v using value_ind'; simpl; auto using sub_refl, sub_flat_map.
  destruct b; auto using sub_nil_l.
Qed.

Theorem fin_visit_sub_users : forall v, sub (fin_visit v) (users v).
Proof. intros. rewrite fin_visit_users. apply users_unlocked_sub. Qed.

Theorem fin_visit_NoDup : forall v, NoDup (users v) -> NoDup (fin_visit v).
Proof. intros v. apply sub_NoDup, fin_visit_sub_users. Qed.

Theorem fin_visit_exactly_once : forall v c,
  NoDup (users v) ->
  count_occ Nat.eq_dec (fin_visit v) c = if in_dec Nat.eq_dec c (users_unlocked v) then 1 else 0.
Proof.
  intros v c Hnd. rewrite fin_visit_users.
  destruct (in_dec Nat.eq_dec c (users_unlocked v)) as [Hin|Hnin].
  - apply NoDup_count_occ_1; auto.
    eapply sub_NoDup; [apply users_unlocked_sub | assumption].
  - now apply count_occ_not_In.
Qed.

(** A shared borrow does not stop finalization (it does stop tracing); a mutable one does. *)
Theorem fin_visit_refcell : forall b v,
  fin_visit (VRefCell b v) = match b with BMut => [] | _ => fin_visit v end.
Proof. intros [] v; reflexivity. Qed.

Theorem fin_visit_cc_empty : forall c, fin_visit (VLeaf c) = [].   Proof. reflexivity. Qed.
Theorem fin_visit_weak : forall c, fin_visit (VWeak c) = [].       Proof. reflexivity. Qed.
Theorem fin_visit_cleaner : fin_visit VCleaner = [].               Proof. reflexivity. Qed.
Theorem fin_visit_cleanable : fin_visit VCleanable = [].           Proof. reflexivity. Qed.
Theorem fin_visit_phantom : fin_visit VPhantom = [].               Proof. reflexivity. Qed.
Theorem fin_visit_scalar : fin_visit VScalar = [].                 Proof. reflexivity. Qed.

Theorem fin_visit_zst : fin_visit VZst = [zst_tag].                Proof. reflexivity. Qed.

(** ** C17, user-leaf reading of the trace half (covers zero-sized element types). *)

Theorem utrace_users : forall v, utrace v = users_unborrowed v.
Proof.
  induction v using value_ind'; simpl; auto using flat_map_ext_Forall.
  destruct b; simpl; auto.
Qed.

Lemma users_unborrowed_all : forall v, unborrowed v = true -> users_unborrowed v = users v.
Proof.
  induction v using value_ind'; simpl; intros Hb; auto;
    try (apply flat_map_ext_Forall; eapply Forall_forallb_imp; eauto; fail).
  destruct b; simpl in *; auto; discriminate.
Qed.

Theorem utrace_all_users : forall v, unborrowed v = true -> utrace v = users v.
Proof. intros. rewrite utrace_users. now apply users_unborrowed_all. Qed.

(** A sequence of [n] zero-sized elements is traced and finalized exactly [n] times, whatever
    the sequence container. *)
Lemma flat_map_repeat_single (A B : Type) (f : A -> list B) (x : A) (y : B) n :
  f x = [y] -> flat_map f (repeat x n) = repeat y n.
Proof. intros H. induction n; simpl; auto. now rewrite H, IHn. Qed.

Theorem zst_sequences : forall n,
  let l := repeat VZst n in
  utrace (VVec l) = repeat zst_tag n /\ utrace (VArray l) = repeat zst_tag n /\
  utrace (VBox (VSlice l)) = repeat zst_tag n /\
  fin_visit (VVec l) = repeat zst_tag n /\ fin_visit (VArray l) = repeat zst_tag n /\
  fin_visit (VBox (VSlice l)) = repeat zst_tag n.
Proof.
  intros n l. unfold l. simpl.
  repeat split; apply flat_map_repeat_single; reflexivity.
Qed.

(** ** Executable glue for the correspondence check (not part of the property).

    [counts k l] is the per-identity count vector of [l] over identities [0..k-1]: the
    shape in which the probes report what they observed. *)
Definition counts (k : nat) (l : list nat) : list nat :=
  map (fun c => count_occ Nat.eq_dec l c) (seq 0 k).

(** Verdict of the collector on the probe graph "holder owns the value; every owned leaf
    points back to the holder; no other handles": the whole cycle is reclaimed iff every
    leaf's tracing count equals its strong count, i.e. iff the value reported every owned
    [Cc] as often as it owns it (this is the link to C01/C02, checked here end to end against
    the real collector, not proved in this file). *)
Definition balanced (k : nat) (v : value) : bool :=
  forallb (fun c => count_occ Nat.eq_dec (visit v) c =? count_occ Nat.eq_dec (owned v) c) (seq 0 k).

Lemma balanced_unborrowed k v : unborrowed v = true -> balanced k v = true.
Proof.
  intros Hb. unfold balanced. rewrite visit_all_owned by assumption.
  apply forallb_forall. intros c _. apply Nat.eqb_refl.
Qed.

(** Expected outcome of the probes' end-to-end experiments, as count vectors
    [holder :: leaf 0 :: ... :: leaf (k-1)] of [Drop] calls after [collect_cycles()].
    A leaf the value does not own (a [Weak] target, an identity used by a user value) is only
    held by the probe's external handle and dies when that handle is dropped. *)
Definition e2e_expect (k : nat) (v : value) : list nat :=
  let b := if balanced k v then 1 else 0 in
  b :: map (fun c => if count_occ Nat.eq_dec (owned v) c =? 0 then 1 else b) (seq 0 k).

(** Same graph, but the first owned leaf [j] keeps an external handle during the collection:
    [j :: holder :: leaves]; nothing reachable from [j] - i.e. nothing at all - may be
    reclaimed.  [[]] when the value owns no [Cc]. *)
Definition keep_expect (k : nat) (v : value) : list nat :=
  match owned v with
  | [] => []
  | j :: _ => j :: 0 :: map (fun c => if count_occ Nat.eq_dec (owned v) c =? 0 then 1 else 0) (seq 0 k)
  end.
