(** * CleanWalkOwner2: a second, small walk over all activations of the marked interpreter:
    the view [vv] (per object: [o_vst], [o_ismap]), the invariant [M] ("the value of a CleanerMap is
    live, being destroyed or destroyed - never uninitialised or moved out") and the relation
    [ND e h0 h] ("an object that is [VDropping] afterwards was so before", except the object [e]
    whose own drop glue is running); frames, tactics and the activations handled generically. *)
From Coq Require Import NArith Bool List Lia.
From stdpp Require Import base list option.
From RecordUpdate Require Import RecordSet.
From RC Require Import Hdr Machine RunInd Inv.
From RC Require Import Clean CleanFrame CleanStep CleanUFrame.
From RC Require Pass.
Import ListNotations RecordSetNotations.

Definition vobj2 : Type := (vstate * bool)%type.
Definition vview (x : obj) : vobj2 := (o_vst x, o_ismap x).
Definition vv (m : machine) : list vobj2 := vview <$> heap m.

Lemma vv_lookup m o x : get m o = Some x -> vv m !! o = Some (vview x).
Proof. unfold get, vv. intros H. rewrite list_lookup_fmap. unfold Machine.id in *. rewrite H. reflexivity. Qed.
Lemma vv_lookup_inv m o w : vv m !! o = Some w -> exists x, get m o = Some x /\ w = vview x.
Proof.
  unfold get, vv. rewrite list_lookup_fmap. unfold Machine.id in *.
  destruct (heap m !! o) as [x|]; [|discriminate]. intros [= <-]. eauto.
Qed.
Lemma vv_length m : length (vv m) = length (heap m).
Proof. unfold vv. apply fmap_length. Qed.

Lemma vv_upd_alter (f : obj -> obj) (g : vobj2 -> vobj2) o m :
  (forall x, vview (f x) = g (vview x)) -> vv (upd o f m) = alter g o (vv m).
Proof.
  intros Hf. unfold vv, upd. cbn. apply list_alter_fmap.
  apply Forall_forall. intros x _. apply Hf.
Qed.
Lemma alter_id_l2 {A} (l : list A) o : alter (fun v => v) o l = l.
Proof. revert o. induction l as [|a l IH]; intros [|o]; cbn; f_equal; auto. Qed.
Lemma alter_ge_l2 {A} (g : A -> A) (l : list A) o : length l <= o -> alter g o l = l.
Proof. revert o. induction l as [|a l IH]; intros [|o] H; cbn in *; try reflexivity; [lia|]. f_equal. apply IH. lia. Qed.
Lemma vv_upd_same (f : obj -> obj) o m :
  (forall x, vview (f x) = vview x) -> vv (upd o f m) = vv m.
Proof. intros Hf. rewrite (vv_upd_alter f (fun v => v)) by exact Hf. apply alter_id_l2. Qed.

Lemma vv_set_pc f m : vv (set pc f m) = vv m. Proof. reflexivity. Qed.
Lemma vv_set_pc_size f m : vv (set pc_size f m) = vv m. Proof. reflexivity. Qed.
Lemma vv_set_pc_alive f m : vv (set pc_alive f m) = vv m. Proof. reflexivity. Qed.
Lemma vv_set_st_collecting f m : vv (set st_collecting f m) = vv m. Proof. reflexivity. Qed.
Lemma vv_set_st_finalizing f m : vv (set st_finalizing f m) = vv m. Proof. reflexivity. Qed.
Lemma vv_set_st_dropping f m : vv (set st_dropping f m) = vv m. Proof. reflexivity. Qed.
Lemma vv_set_st_alloc f m : vv (set st_alloc f m) = vv m. Proof. reflexivity. Qed.
Lemma vv_set_st_exec f m : vv (set st_exec f m) = vv m. Proof. reflexivity. Qed.
Lemma vv_set_cf_thr f m : vv (set cf_thr f m) = vv m. Proof. reflexivity. Qed.
Lemma vv_set_cf_pnum f m : vv (set cf_pnum f m) = vv m. Proof. reflexivity. Qed.
Lemma vv_set_cf_pexp f m : vv (set cf_pexp f m) = vv m. Proof. reflexivity. Qed.
Lemma vv_set_cf_buf f m : vv (set cf_buf f m) = vv m. Proof. reflexivity. Qed.
Lemma vv_set_cf_auto f m : vv (set cf_auto f m) = vv m. Proof. reflexivity. Qed.
Lemma vv_set_slots f m : vv (set slots f m) = vv m. Proof. reflexivity. Qed.
Lemma vv_set_wslots f m : vv (set wslots f m) = vv m. Proof. reflexivity. Qed.
Lemma vv_set_cslots f m : vv (set cslots f m) = vv m. Proof. reflexivity. Qed.
Lemma vv_set_values f m : vv (set values f m) = vv m. Proof. reflexivity. Qed.
Lemma vv_set_bag f m : vv (set bag f m) = vv m. Proof. reflexivity. Qed.
Lemma vv_set_wparam f m : vv (set wparam f m) = vv m. Proof. reflexivity. Qed.
Lemma vv_set_fuse_trace f m : vv (set fuse_trace f m) = vv m. Proof. reflexivity. Qed.
Lemma vv_set_fuse_fin f m : vv (set fuse_fin f m) = vv m. Proof. reflexivity. Qed.
Lemma vv_set_fuse_drop f m : vv (set fuse_drop f m) = vv m. Proof. reflexivity. Qed.
Lemma vv_set_fuse_action f m : vv (set fuse_action f m) = vv m. Proof. reflexivity. Qed.
Lemma vv_set_fuse_closure f m : vv (set fuse_closure f m) = vv m. Proof. reflexivity. Qed.
Lemma vv_set_panicking f m : vv (set panicking f m) = vv m. Proof. reflexivity. Qed.
Lemma vv_set_dead f m : vv (set dead f m) = vv m. Proof. reflexivity. Qed.
Lemma vv_set_next_aid f m : vv (set next_aid f m) = vv m. Proof. reflexivity. Qed.
Lemma vv_set_log f m : vv (set log f m) = vv m. Proof. reflexivity. Qed.
#[export] Hint Rewrite
 vv_set_pc vv_set_pc_size vv_set_pc_alive vv_set_st_collecting vv_set_st_finalizing vv_set_st_dropping vv_set_st_alloc vv_set_st_exec vv_set_cf_thr vv_set_cf_pnum vv_set_cf_pexp vv_set_cf_buf vv_set_cf_auto vv_set_slots vv_set_wslots vv_set_cslots vv_set_values vv_set_bag vv_set_wparam vv_set_fuse_trace vv_set_fuse_fin vv_set_fuse_drop vv_set_fuse_action vv_set_fuse_closure vv_set_panicking vv_set_dead vv_set_next_aid vv_set_log : cv.

Lemma vv_emit e m : vv (emit e m) = vv m. Proof. reflexivity. Qed.
Lemma vv_emit_bad b o m : vv (emit_bad b o m) = vv m. Proof. reflexivity. Qed.
#[export] Hint Rewrite vv_emit vv_emit_bad : cv.
#[export] Hint Rewrite vv_upd_same using (intros; reflexivity) : cv.
Lemma vv_uhdr o f m : vv (uhdr o f m) = vv m.
Proof. unfold uhdr. apply vv_upd_same. reflexivity. Qed.
Lemma vv_uside o f m : vv (uside o f m) = vv m.
Proof. unfold uside. apply vv_upd_same. reflexivity. Qed.
#[export] Hint Rewrite vv_uhdr vv_uside : cv.

Ltac vv_solve := intros; brk; cbn [fst snd]; cvs; reflexivity.

Section Frame.
  Context (K : conf) (P : prog).
  Implicit Types (m : machine).

  Lemma vv_dec_size o m : vv (dec_size o m) = vv m.
  Proof. unfold dec_size. vv_solve. Qed.
  Hint Rewrite vv_dec_size : cv.
  Lemma vv_remove_from_list o m : vv (remove_from_list o m) = vv m.
  Proof. unfold remove_from_list. vv_solve. Qed.
  Lemma vv_add_to_list o m : vv (add_to_list o m) = vv m.
  Proof. unfold add_to_list. vv_solve. Qed.
  Lemma vv_dec_rc_m o m : vv (dec_rc_m o m) = vv m.
  Proof. unfold dec_rc_m. vv_solve. Qed.
  Lemma vv_dealloc o m : vv (dealloc K o m) = vv m.
  Proof. unfold dealloc. vv_solve. Qed.
  Lemma vv_sfree o m : vv (sfree o m) = vv m.
  Proof. unfold sfree. vv_solve. Qed.
  Hint Rewrite vv_remove_from_list vv_add_to_list vv_dec_rc_m vv_dealloc vv_sfree : cv.
  Lemma vv_drop_metadata o m : vv (drop_metadata K o m) = vv m.
  Proof. unfold drop_metadata. vv_solve. Qed.
  Lemma vv_init_side o m : vv (init_side o m) = vv m.
  Proof. unfold init_side. vv_solve. Qed.
  Lemma vv_weak_strong_count w m : vv (weak_strong_count w m).1 = vv m.
  Proof. unfold weak_strong_count. vv_solve. Qed.
  Lemma vv_weak_weak_count w m : vv (weak_weak_count w m).1 = vv m.
  Proof. unfold weak_weak_count. vv_solve. Qed.
  Lemma vv_weak_clone w m m' : weak_clone w m = Some m' -> vv m' = vv m.
  Proof. unfold weak_clone. intros E; revert E; brk; intros [= <-]; cvs; reflexivity. Qed.
  Lemma vv_weak_drop w m : vv (weak_drop w m) = vv m.
  Proof. unfold weak_drop. vv_solve. Qed.
  Hint Rewrite vv_drop_metadata vv_init_side vv_weak_strong_count vv_weak_weak_count
    vv_weak_drop : cv.
  Lemma vv_weak_drop_opt w m : vv (weak_drop_opt w m) = vv m.
  Proof. unfold weak_drop_opt. vv_solve. Qed.
  Hint Rewrite vv_weak_drop_opt : cv.

  Lemma vv_node_via_slot i m : vv (node_via_slot i m).1 = vv m.
  Proof. unfold node_via_slot. vv_solve. Qed.
  Hint Rewrite vv_node_via_slot : cv.
  Lemma vv_resolve self l m : vv (resolve self l m).1 = vv m.
  Proof.
    unfold resolve. destruct l as [i|j|i j]; cbn [fst]; auto.
    - brk; reflexivity.
    - pose proof (vv_node_via_slot i m) as H.
      destruct (node_via_slot i m) as [m1 n]. cbn [fst] in H. brk; cbn [fst]; exact H.
  Qed.
  Lemma vv_wresolve self l m : vv (wresolve self l m).1 = vv m.
  Proof.
    unfold wresolve. destruct l as [i|j|i j|]; cbn [fst]; auto.
    - brk; reflexivity.
    - pose proof (vv_node_via_slot i m) as H.
      destruct (node_via_slot i m) as [m1 n]. cbn [fst] in H. brk; cbn [fst]; exact H.
  Qed.
  Lemma vv_nresolve self n m : vv (nresolve self n m).1 = vv m.
  Proof. unfold nresolve. vv_solve. Qed.
  Lemma vv_write_loc r v m : vv (write_loc r v m) = vv m.
  Proof. unfold write_loc. vv_solve. Qed.
  Lemma vv_write_wloc r v m : vv (write_wloc r v m) = vv m.
  Proof. unfold write_wloc. vv_solve. Qed.
  Hint Rewrite vv_resolve vv_wresolve vv_nresolve vv_write_loc vv_write_wloc : cv.

  Lemma vv_box_alloc o m : vv (box_alloc K o m) = vv m.
  Proof. unfold box_alloc. vv_solve. Qed.
  Lemma vv_map_insert mo a s m : vv (map_insert mo a s m).1 = vv m.
  Proof. unfold map_insert. vv_solve. Qed.
  Lemma vv_set_fuse k n m : vv (set_fuse k n m) = vv m.
  Proof. unfold set_fuse. vv_solve. Qed.
  Hint Rewrite vv_box_alloc vv_map_insert vv_set_fuse : cv.
  Lemma vv_tick k m : vv (tick k m).1 = vv m.
  Proof. unfold tick. vv_solve. Qed.
  Lemma vv_adjust m : vv (adjust K m) = vv m.
  Proof. unfold adjust. vv_solve. Qed.
  Hint Rewrite vv_tick vv_adjust : cv.
  Lemma vv_adjust_trigger_point m : vv (adjust_trigger_point K m) = vv m.
  Proof. unfold adjust_trigger_point. vv_solve. Qed.
  Hint Rewrite vv_adjust_trigger_point : cv.

  Lemma vv_fold {B} (f : machine -> B -> machine) :
    (forall m a, vv (f m a) = vv m) -> forall l m, vv (fold_left f l m) = vv m.
  Proof.
    intros Hf l. induction l as [|a l IH]; cbn; intros m; [reflexivity|].
    rewrite IH. apply Hf.
  Qed.
  Lemma vv_unmark_all l m : vv (unmark_all l m) = vv m.
  Proof. unfold unmark_all. apply vv_fold. intros; cvs; reflexivity. Qed.
  Hint Rewrite vv_unmark_all : cv.

  Lemma vv_new_node c m :
    vv (new_node P c m).1 = vv m ++ [(VLive, false)].
  Proof. unfold new_node, vv. cbn. rewrite fmap_app. reflexivity. Qed.
  Lemma vv_new_map m : vv (new_map m).1 = vv m ++ [(VLive, true)].
  Proof. unfold new_map, vv. cbn. rewrite fmap_app. reflexivity. Qed.

  Lemma vv_trace_pass m : vv (trace_pass K P m).1 = vv m.
  Proof.
    destruct (trace_pass K P m) as [m' r] eqn:E. cbn [fst].
    pose proof (Pass.mf_heap K _ _ (Pass.pass_frame K P m m' r E)) as Hh.
    unfold vv. induction Hh as [|x y l l' Hxy _ IH]; [reflexivity|]. cbn. f_equal; [|exact IH].
    destruct Hxy as (t & k & ->). reflexivity.
  Qed.
End Frame.

#[export] Hint Rewrite vv_dec_size vv_remove_from_list vv_add_to_list vv_dec_rc_m vv_dealloc
  vv_sfree vv_drop_metadata vv_init_side vv_weak_strong_count vv_weak_weak_count vv_weak_drop
  vv_weak_drop_opt vv_node_via_slot vv_resolve vv_wresolve vv_nresolve vv_write_loc
  vv_write_wloc vv_box_alloc vv_map_insert vv_set_fuse vv_tick vv_adjust vv_adjust_trigger_point
  vv_unmark_all vv_new_node vv_new_map vv_trace_pass : cv.
#[export] Hint Rewrite @vv_fold using (intros; autorewrite with cv; reflexivity) : cv.

(** ** the invariant and the relation *)
Implicit Types (h : list vobj2) (w : vobj2).
Definition okv (v : vstate) : Prop := v = VLive \/ v = VDropping \/ v = VDropped.
Definition M h : Prop := forall o w, h !! o = Some w -> w.2 = true -> okv w.1.
Definition ND (e : option nat) (h0 h : list vobj2) : Prop :=
  forall p w', h !! p = Some w' -> w'.1 = VDropping -> e = Some p \/ exists w, h0 !! p = Some w /\ w.1 = VDropping.

Lemma ND_refl e h : ND e h h.
Proof. intros p w' H1 H2. right. eauto. Qed.
Lemma ND_trans e h0 h1 h2 : ND e h0 h1 -> ND e h1 h2 -> ND e h0 h2.
Proof.
  intros A B p w' H1 H2. destruct (B p w' H1 H2) as [H|(w1 & H3 & H4)]; [left; exact H|]. exact (A p w1 H3 H4).
Qed.
Lemma ND_weaken e h0 h : ND None h0 h -> ND e h0 h.
Proof. intros A p w' H1 H2. destruct (A p w' H1 H2) as [H|H]; [discriminate|right; exact H]. Qed.
Lemma ND_app e h w0 : w0.1 <> VDropping -> ND e h (h ++ [w0]).
Proof.
  intros Hw p w' H1 H2. right. apply lookup_app_Some in H1 as [H1|[_ H1]]; [eauto|].
  destruct (p - length h) as [|i]; cbn in H1; [|discriminate]. injection H1 as <-. contradiction.
Qed.
Lemma lookup_alter_cases2 {A} (g : A -> A) o (l : list A) o' v' :
  alter g o l !! o' = Some v' ->
  (o' = o /\ exists v, l !! o = Some v /\ v' = g v) \/ (o' <> o /\ l !! o' = Some v').
Proof.
  destruct (decide (o' = o)) as [->|Hne].
  - rewrite list_lookup_alter. destruct (l !! o) as [v|]; cbn; [|discriminate].
    intros [= <-]. left. eauto.
  - rewrite list_lookup_alter_ne by congruence. auto.
Qed.
Lemma ND_alter e g o h :
  (forall w, h !! o = Some w -> (g w).1 = VDropping -> e = Some o \/ w.1 = VDropping) -> ND e h (alter g o h).
Proof.
  intros Hg p w' H1 H2. apply lookup_alter_cases2 in H1 as [(-> & v & Hv & ->)|(_ & H1)]; [|right; eauto].
  destruct (Hg v Hv H2) as [H|H]; [left; exact H|right; eauto].
Qed.
Lemma M_nil : M [].
Proof. intros o w H. rewrite lookup_nil in H. discriminate. Qed.
Lemma M_app h w0 : M h -> (w0.2 = true -> okv w0.1) -> M (h ++ [w0]).
Proof.
  intros HM Hw o w H1. apply lookup_app_Some in H1 as [H1|[_ H1]]; [exact (HM o w H1)|].
  destruct (o - length h) as [|i]; cbn in H1; [|discriminate]. injection H1 as <-. exact Hw.
Qed.
Lemma M_alter g o h :
  M h -> (forall w, h !! o = Some w -> (g w).2 = w.2 /\ (w.2 = true -> okv (g w).1)) -> M (alter g o h).
Proof.
  intros HM Hg p w' H1 Hm. apply lookup_alter_cases2 in H1 as [(-> & v & Hv & ->)|(_ & H1)]; [|exact (HM p w' H1 Hm)].
  destruct (Hg v Hv) as [E H]. apply H. congruence.
Qed.
Definition vset (v : vstate) (w : vobj2) : vobj2 := (v, w.2).

Definition st2 : Type := option (option nat * list vobj2).
Definition RMv (s : st2) h : Prop := match s with Some (e, h0) => ND e h0 h /\ M h | None => False end.
Definition okr2 (r : outcome) : bool := match r with ONormal | OPanic => true | _ => false end.

Section V.
  Context (mu : id).
  Notation T m := (mem_id mu (dead m) = true).
  Notation TV s m := (mem_id mu (dead m) = true \/ RMv s (vv m)).

  Definition vres (s : st2) (x : machine * outcome) : Prop :=
    match x.2 with ONormal | OPanic => TV s x.1 | _ => True end.
  Definition Pre5 (c : call) (m : machine) : Prop := T m \/ M (vv m).
  Definition Post5 (c : call) (m m' : machine) (r : outcome) : Prop :=
    okr2 r = true -> T m' \/ (mem_id mu (dead m) = false /\ ND None (vv m) (vv m') /\ M (vv m')).

  Lemma Post5_vac c m m' r : T m' -> Post5 c m m' r.
  Proof. intros H _. left. exact H. Qed.
  Lemma Post5_fuel c m : Pre5 c m -> Post5 c m m OFuel.
  Proof. intros _ H. discriminate. Qed.
  Lemma vres_intro s m r : TV s m -> vres s (m, r).
  Proof. intros H. unfold vres. cbn [fst snd]. destruct r; auto. Qed.
  Lemma vres_raise s m m' : TV s m -> vres s (m, raise m').
  Proof. intros H. unfold raise. destruct (panicking m'); apply vres_intro, H. Qed.
  Lemma vres_unwinding s (k : machine -> machine * outcome) m :
    (forall m1, TV s m1 -> vres s (k m1)) -> TV s m -> vres s (unwinding k m).
  Proof.
    intros Hk H. unfold unwinding.
    assert (H1 : TV s (m <| panicking := true |>)) by (cvs; exact H).
    specialize (Hk _ H1). destruct (k (m <| panicking := true |>)) as [m1 r1].
    unfold vres in *. cbn [fst snd] in *. cvs. destruct r1, (panicking m); auto.
  Qed.
  Lemma TV_new s h (d : list id) w0 :
    (mem_id mu d = true \/ RMv s h) -> w0.1 = VLive ->
    mem_id mu d = true \/ RMv s (h ++ [w0]).
  Proof.
    intros [H|H] Hw; [left; exact H|right]. destruct s as [[e h0]|]; [|destruct H]. destruct H as [HR HM]. split.
    - eapply ND_trans; [exact HR|]. apply ND_app. rewrite Hw. discriminate.
    - apply M_app; [exact HM|]. intros _. left. exact Hw.
  Qed.
  Lemma TV_app s h (l d : list id) :
    (mem_id mu d = true \/ RMv s h) -> mem_id mu (l ++ d) = true \/ RMv s h.
  Proof.
    intros [H|H]; [left|right; exact H]. unfold mem_id in *. rewrite existsb_app. apply orb_true_iff. right. exact H.
  Qed.
  (** a value state is written *)
  Lemma TV_vset s (d : list id) h o v :
    (mem_id mu d = true \/ RMv s h) ->
    (mem_id mu d = false -> forall e h0, s = Some (e, h0) ->
       (v = VDropping -> e = Some o) /\ (okv v \/ forall w, h !! o = Some w -> w.2 = false)) ->
    mem_id mu d = true \/ RMv s (alter (vset v) o h).
  Proof.
    intros [H|H] Hc; [left; exact H|]. destruct (mem_id mu d) eqn:Hd; [left; reflexivity|right].
    destruct s as [[e h0]|]; [|destruct H]. destruct H as [HR HM]. destruct (Hc eq_refl e h0 eq_refl) as [H1 H2]. split.
    - eapply ND_trans; [exact HR|]. apply ND_alter. intros w _ Hv. left. apply H1. exact Hv.
    - apply M_alter; [exact HM|]. intros w Hw. split; [reflexivity|]. intros Hm. cbn.
      destruct H2 as [H2|H2]; [exact H2|]. rewrite (H2 w Hw) in Hm. discriminate.
  Qed.

  Section RecCall.
    Context (rec : call -> machine -> machine * outcome).
    Context (Hrec : rec_ok Pre5 Post5 rec).
    Lemma rec_call2 c s m : TV s m -> vres s (rec c m).
    Proof.
      intros H. destruct (mem_id mu (dead m)) eqn:Hg.
      - pose proof (Hrec c m (or_introl Hg)) as HP. destruct (rec c m) as [m' r]. cbn [fst snd] in HP.
        unfold vres. cbn [fst snd]. destruct r; try exact I.
        + destruct (HP eq_refl) as [HT|[HT _]]; [left; exact HT|congruence].
        + destruct (HP eq_refl) as [HT|[HT _]]; [left; exact HT|congruence].
      - destruct H as [H|H]; [discriminate|]. destruct s as [[e h0]|]; [|destruct H].
        pose proof (Hrec c m (or_intror (proj2 H))) as HP.
        destruct (rec c m) as [m' r]. cbn [fst snd] in HP. unfold vres. cbn [fst snd].
        destruct r; try exact I;
          (destruct (HP eq_refl) as [HT|(_ & HR & HM)]; [left; exact HT|right];
           split; [eapply ND_trans; [apply H|apply ND_weaken, HR]|exact HM]).
    Qed.
  End RecCall.
End V.

Notation TV mu s m := (mem_id mu (dead m) = true \/ RMv s (vv m)).

Ltac relV rtac :=
  cvs;
  first [ eassumption
        | (eapply TV_new; [eassumption|reflexivity])
        | (eapply TV_app; eassumption)
        | (left; assumption)
        | (left; match goal with H : _ \/ RMv None _ |- _ => destruct H as [H|[]]; exact H end)
        | rtac ].
Ltac finV rtac :=
  unfold ok;
  lazymatch goal with
  | |- vres _ _ (unwinding _ _) => apply vres_unwinding; [intros; finV rtac | relV rtac]
  | |- vres _ _ (_, OAbort) => exact I
  | |- vres _ _ (_, OFuel) => exact I
  | |- vres _ _ (_, raise _) => apply vres_raise; relV rtac
  | |- vres _ _ (_, _) => apply vres_intro; relV rtac
  | |- vres _ _ (_ _ _) => eapply rec_call2; [eassumption | relV rtac]
  end.
Ltac res_pairV rtac x :=
  let Hr := fresh "Hr" in let m1 := fresh "m" in let r1 := fresh "r" in
  match goal with |- vres ?mu ?s _ => assert (Hr : vres mu s x) by finV rtac end;
  destruct x as [m1 r1]; destruct r1; unfold vres in Hr; cbn [fst snd] in Hr.
Ltac mach_pairV rtac x :=
  let Hr := fresh "Hr" in let m1 := fresh "m" in let y1 := fresh "y" in
  match goal with |- vres ?mu ?s _ => assert (Hr : TV mu s x.1) by relV rtac end;
  destruct x as [m1 y1]; cbn [fst snd] in Hr.
Ltac adv1V rtac :=
  inner_scrut ltac:(fun x =>
    lazymatch type of x with
    | (machine * outcome)%type => res_pairV rtac x
    | option machine =>
      lazymatch x with
      | weak_clone ?w ?m0 =>
        let E := fresh "E" in let m' := fresh "m" in
        destruct x as [m'|] eqn:E;
        [ match goal with |- vres ?mu ?s _ =>
            assert (TV mu s m') by (rewrite (vv_weak_clone _ _ _ E), (dd_weak_clone _ _ _ E); relV rtac) end | ]
      end
    | (machine * _)%type => mach_pairV rtac x
    | _ => destruct x eqn:?
    end); cbv beta iota zeta; cbn [negb andb orb].
Ltac goV rtac := cbv beta iota zeta; cbn [negb andb orb]; repeat adv1V rtac; finV rtac.

Definition gen_okV (mu : id) (X : machine -> machine * outcome) : Prop :=
  forall s m, TV mu s m -> vres mu s (X m).

Section StepsV.
  Context (mu : id) (K : conf) (P : prog).
  Context (rec : call -> machine -> machine * outcome).
  Context (Hrec : rec_ok (Pre5 mu) (Post5 mu) rec).
  Implicit Types (m : machine).

  Ltac g := intros s m H; goV fail.
  Lemma v_step_script self cs : gen_okV mu (step_script rec self cs). Proof. unfold step_script. g. Qed.
  Lemma v_step_store r v : gen_okV mu (step_store rec r v). Proof. unfold step_store. g. Qed.
  Lemma v_step_drop_fields o j : gen_okV mu (step_drop_fields rec o j). Proof. unfold step_drop_fields. g. Qed.
  Lemma v_step_drop_map_slots o j : gen_okV mu (step_drop_map_slots rec o j). Proof. unfold step_drop_map_slots. g. Qed.
  Lemma v_step_clean_run mo a sc : gen_okV mu (step_clean_run K P rec mo a sc). Proof. unfold step_clean_run. g. Qed.
  Lemma v_step_unbag k : gen_okV mu (step_unbag rec k). Proof. unfold step_unbag. g. Qed.
  Lemma v_step_trigger : gen_okV mu (step_trigger K rec). Proof. unfold step_trigger. g. Qed.
  Lemma v_step_collect_cycles : gen_okV mu (step_collect_cycles K rec). Proof. unfold step_collect_cycles. g. Qed.
  Lemma v_step_collect : gen_okV mu (step_collect K rec). Proof. unfold step_collect. g. Qed.
  Lemma v_step_collect_loop k : gen_okV mu (step_collect_loop rec k). Proof. unfold step_collect_loop. g. Qed.
  Lemma v_step_collect_once : gen_okV mu (step_collect_once K P rec). Proof. unfold step_collect_once. g. Qed.
  Lemma v_step_finalize_list L rest a f : gen_okV mu (step_finalize_list K P rec L rest a f).
  Proof. unfold step_finalize_list. g. Qed.
  Lemma v_step_drop_list L rest d : gen_okV mu (step_drop_list K rec L rest d). Proof. unfold step_drop_list. g. Qed.
  Lemma v_step_drop_cc o : gen_okV mu (step_drop_cc K P rec o).
  Proof. unfold step_drop_cc. intros s m H. destruct (k_fin K) eqn:Ek; goV fail. Qed.
  Lemma v_cmd_new self dst cls : gen_okV mu (cmd_new K P rec self dst cls). Proof. unfold cmd_new. g. Qed.
  Lemma v_cmd_clone self src dst : gen_okV mu (cmd_clone rec self src dst). Proof. unfold cmd_clone. g. Qed.
  Lemma v_cmd_drop self l : gen_okV mu (cmd_drop rec self l). Proof. unfold cmd_drop. g. Qed.
  Lemma v_cmd_move self src dst : gen_okV mu (cmd_move rec self src dst). Proof. unfold cmd_move. g. Qed.
  Lemma v_cmd_mark_alive self l : gen_okV mu (cmd_mark_alive self l). Proof. unfold cmd_mark_alive. g. Qed.
  Lemma v_cmd_collect self : gen_okV mu (cmd_collect rec self). Proof. unfold cmd_collect. g. Qed.
  Lemma v_cmd_downgrade self l wl : gen_okV mu (cmd_downgrade K self l wl). Proof. unfold cmd_downgrade. g. Qed.
  Lemma v_cmd_upgrade self wl dst : gen_okV mu (cmd_upgrade K rec self wl dst). Proof. unfold cmd_upgrade. g. Qed.
  Lemma v_cmd_w_new self wl : gen_okV mu (cmd_w_new K self wl). Proof. unfold cmd_w_new. g. Qed.
  Lemma v_cmd_w_clone self src dst : gen_okV mu (cmd_w_clone K self src dst). Proof. unfold cmd_w_clone. g. Qed.
  Lemma v_cmd_w_drop self wl : gen_okV mu (cmd_w_drop K self wl). Proof. unfold cmd_w_drop. g. Qed.
  Lemma v_cmd_drop_value self v : gen_okV mu (cmd_drop_value rec self v). Proof. unfold cmd_drop_value. g. Qed.
  Lemma v_cmd_fin_again self l : gen_okV mu (cmd_fin_again K self l). Proof. unfold cmd_fin_again. g. Qed.
  Lemma v_cmd_register self nd sc c : gen_okV mu (cmd_register K P rec self nd sc c). Proof. unfold cmd_register. g. Qed.
  Lemma v_cmd_clean self c : gen_okV mu (cmd_clean K rec self c). Proof. unfold cmd_clean. g. Qed.
  Lemma v_cmd_c_drop self c : gen_okV mu (cmd_c_drop K self c). Proof. unfold cmd_c_drop. g. Qed.
  Lemma v_cmd_unbag self k : gen_okV mu (cmd_unbag rec self k). Proof. unfold cmd_unbag. g. Qed.
  Lemma v_cmd_borrow self nd : gen_okV mu (cmd_borrow self nd). Proof. unfold cmd_borrow. g. Qed.
  Lemma v_cmd_unborrow self nd : gen_okV mu (cmd_unborrow self nd). Proof. unfold cmd_unborrow. g. Qed.
  Lemma v_cmd_cfg_auto self b : gen_okV mu (cmd_cfg_auto K self b). Proof. unfold cmd_cfg_auto. g. Qed.
  Lemma v_cmd_cfg_percent self n e : gen_okV mu (cmd_cfg_percent K self n e). Proof. unfold cmd_cfg_percent. g. Qed.
  Lemma v_cmd_cfg_buffered self b : gen_okV mu (cmd_cfg_buffered K self b). Proof. unfold cmd_cfg_buffered. g. Qed.
  Lemma v_cmd_arm self k v : gen_okV mu (cmd_arm self k v). Proof. unfold cmd_arm. g. Qed.
  Lemma v_cmd_panic self : gen_okV mu (cmd_panic self). Proof. unfold cmd_panic. g. Qed.
  Lemma v_cmd_obs self l : gen_okV mu (cmd_obs self l). Proof. unfold cmd_obs. g. Qed.
  Lemma v_cmd_w_obs self wl : gen_okV mu (cmd_w_obs K self wl). Proof. unfold cmd_w_obs. g. Qed.
  Lemma v_cmd_s_obs self : gen_okV mu (cmd_s_obs K self). Proof. unfold cmd_s_obs. g. Qed.
  Lemma v_cmd_bag self l k : gen_okV mu (cmd_bag self l k).
  Proof.
    intros s m H. unfold cmd_bag. cbv beta iota zeta. adv1V fail.
    destruct (y ≫= λ r, read_loc r m0) as [o|]; [|goV fail].
    generalize (N.to_nat k). intros n. revert m0 Hr.
    induction n as [|n IH]; intros m0 Hr; [goV fail|].
    destruct (inc_rc (hdr_of m0 o)) as [h|]; [|goV fail].
    apply IH. relV fail.
  Qed.
End StepsV.
