(** * CleanWalkOwner3: the second walk completed ([drop_value], [try_unwrap], [new_cyclic]),
    its lift to programs ("at a top-level state of a clean run no object is [VDropping] and the
    value of every CleanerMap is live or [VDropped]"), and the owner-level theorem of C10. *)
From Coq Require Import NArith Bool List Lia.
From stdpp Require Import base list option.
From RecordUpdate Require Import RecordSet.
From RC Require Import Hdr Machine RunInd Inv.
From RC Require Import InvP SafeHelpers SafeMain SafeColl SafeFinal LifeGhost Life.
From RC Require Import Clean CleanFrame CleanStep CleanThm CleanLog CleanProg CleanUFrame.
From RC Require Import CleanWalk CleanWalkRel CleanWalkStep6 CleanWalkProg CleanWalkOwner CleanWalkOwner2.
From RC Require Quiet CoverStep CoverMain.
Import ListNotations RecordSetNotations.

(** ** the check: [try_unwrap] never reaches a CleanerMap *)
Definition nm (m : machine) (t : id) : bool :=
  match get m t with Some x => negb (o_ismap x) | None => true end.
Definition onm (m : machine) (f : option id) : bool := match f with Some t => nm m t | None => true end.
Definition refs_nomap (m : machine) : bool :=
  forallb (onm m) (slots m) && forallb (fun x => forallb (onm m) (o_fields x)) (heap m).
Definition chkV (c : call) (m : machine) : bool :=
  match c with KCmd self (CTryUnwrap l v) => refs_nomap m | _ => true end.

Lemma chkV_dl c s m : chkV c (dl s m) = chkV c m.
Proof. destruct c as [self cm| | | | | | | | | | | | | | |]; try reflexivity. Qed.

Lemma chkV_ok K b E A c m : InvP.Pre K (PreC K) b E c m -> SafeCollQ.Q K A c m -> chkV c m = true.
Proof.
  intros Hpre _. destruct c as [self cm| | | | | | | | | | | | | | |]; try reflexivity.
  destruct cm; try reflexivity. cbn [chkV].
  destruct Hpre as (_ & HS & _). cbn [own_of app] in HS.
  unfold refs_nomap. apply andb_true_iff. split.
  - apply forallb_forall. intros [t|] Hin; [|reflexivity]. cbn.
    apply elem_of_list_In, elem_of_list_lookup in Hin. destruct Hin as (i & Hi).
    destruct (sv_loc K _ _ _ _ HS None false t (HL_slot m i t Hi)) as (xt & Hxt & _ & Hnm & _).
    unfold nm. rewrite Hxt, (Hnm eq_refl). reflexivity.
  - apply forallb_forall. intros x Hin.
    apply elem_of_list_In, elem_of_list_lookup in Hin. destruct Hin as (p & Hp).
    apply forallb_forall. intros [t|] Hin; [|reflexivity]. cbn.
    apply elem_of_list_In, elem_of_list_lookup in Hin. destruct Hin as (j & Hj).
    destruct (sv_loc K _ _ _ _ HS (Some p) false t (HL_field m p x j t Hp Hj)) as (xt & Hxt & _ & Hnm & _).
    unfold nm. rewrite Hxt, (Hnm eq_refl). reflexivity.
Qed.

Lemma nm_spec m o : nm m o = true -> forall w, vv m !! o = Some w -> w.2 = false.
Proof.
  unfold nm. intros H w Hw. destruct (vv_lookup_inv _ _ _ Hw) as (x & Hx & ->). rewrite Hx in H.
  cbn. apply negb_true_iff, H.
Qed.

Lemma read_loc_nomap m m1 r o :
  refs_nomap m = true -> heap m1 = heap m -> slots m1 = slots m -> read_loc r m1 = Some o -> nm m o = true.
Proof.
  intros Hrb Eh Es Hrd. unfold refs_nomap in Hrb. apply andb_true_iff in Hrb as [Hs Hf].
  rewrite forallb_forall in Hs, Hf. destruct r as [i|p j]; cbn in Hrd.
  - rewrite Es in Hrd. destruct (slots m !! i) as [[t|]|] eqn:Ei; cbn in Hrd; try discriminate. injection Hrd as ->.
    assert (Hin : In (Some o) (slots m)) by (apply elem_of_list_In, elem_of_list_lookup; exists i; exact Ei).
    exact (Hs _ Hin).
  - unfold get in Hrd. rewrite Eh in Hrd. destruct (heap m !! p) as [xp|] eqn:Ep; cbn in Hrd; [|discriminate].
    destruct (o_fields xp !! j) as [[t|]|] eqn:Ej; cbn in Hrd; try discriminate. injection Hrd as ->.
    assert (Hin : In xp (heap m)) by (apply elem_of_list_In, elem_of_list_lookup; exists p; exact Ep).
    specialize (Hf _ Hin). rewrite forallb_forall in Hf.
    assert (Hin2 : In (Some o) (o_fields xp)) by (apply elem_of_list_In, elem_of_list_lookup; exists j; exact Ej).
    exact (Hf _ Hin2).
Qed.

Section S.
  Context (mu : id) (K : conf) (P : prog).
  Context (rec : call -> machine -> machine * outcome).
  Context (Hrec : rec_ok (Pre5 mu) (Post5 mu) rec).
  Implicit Types (m : machine).
  Notation tn m := (mem_id mu (dead m) = true).
  Notation gd m := (mem_id mu (dead m) = false).

  Lemma vres_None x : vres mu None x -> okr2 x.2 = true -> tn x.1.
  Proof. unfold vres. destruct x.2; intros H Hr; try discriminate; destruct H as [H|[]]; exact H. Qed.

  Lemma post_of_vres c m x : gd m -> vres mu (Some (None, vv m)) x -> Post5 mu c m x.1 x.2.
  Proof.
    intros Hg Ht Hr. destruct (mem_id mu (dead x.1)) eqn:Hg'; [left; reflexivity|right].
    unfold vres in Ht. destruct x.2; try discriminate; (destruct Ht as [Ht|[HR HM]]; [congruence|auto]).
  Qed.
  Lemma post_close c m o x :
    gd m -> vres mu (Some (Some o, vv m)) x -> (forall w, vv x.1 !! o = Some w -> w.1 <> VDropping) ->
    Post5 mu c m x.1 x.2.
  Proof.
    intros Hg Ht Hf Hr. destruct (mem_id mu (dead x.1)) eqn:Hg'; [left; reflexivity|right].
    assert (H : RMv (Some (Some o, vv m)) (vv x.1)).
    { unfold vres in Ht. destruct x.2; try discriminate; (destruct Ht as [Ht|Ht]; [congruence|exact Ht]). }
    destruct H as [HR HM]. split; [exact Hg|]. split; [|exact HM].
    intros p w' H1 H2. destruct (HR p w' H1 H2) as [[= <-]|H]; [exfalso; exact (Hf w' H1 H2)|right; exact H].
  Qed.
  Lemma gen_post5 X c m : gen_okV mu X -> Pre5 mu c m -> Post5 mu c m (X m).1 (X m).2.
  Proof.
    intros HX HP. destruct (mem_id mu (dead m)) eqn:Hg.
    - intros Hr. left. apply vres_None; [apply HX; left; exact Hg|exact Hr].
    - destruct HP as [HP|HM]; [congruence|]. apply post_of_vres; [exact Hg|]. apply HX. right. split; [apply ND_refl|exact HM].
  Qed.

  Lemma dv_final o m x :
    get m o = Some x -> (o_vst x = VLive \/ o_vst x = VMoved) ->
    forall w, vv (step_drop_value K P rec o m).1 !! o = Some w -> w.1 <> VDropping.
  Proof.
    intros Ex Hv. unfold step_drop_value. rewrite Ex.
    assert (HF : forall m' (r : outcome) w, vv (upd o (fun x0 => x0 <| o_vst := VDropped |>) m', r).1 !! o = Some w -> w.1 <> VDropping).
    { intros m' r w. cbn [fst]. rewrite (vv_upd_alter _ (vset VDropped)) by (intros; reflexivity).
      intros Hw. apply lookup_alter_cases2 in Hw as [(_ & v & _ & ->)|(Hne & _)]; [cbn; discriminate|congruence]. }
    destruct Hv as [-> | ->]; cbv zeta;
      repeat (inner_scrut ltac:(fun y => destruct y)); apply HF.
  Qed.

  Lemma V_step_drop_value o m :
    Pre5 mu (KDropValue o) m -> Post5 mu (KDropValue o) m (step_drop_value K P rec o m).1 (step_drop_value K P rec o m).2.
  Proof.
    intros HP. destruct (mem_id mu (dead m)) eqn:Hg.
    { intros Hr. left. apply vres_None; [|exact Hr]. unfold step_drop_value.
      assert (H : TV mu None m) by (left; exact Hg). goV fail. }
    destruct HP as [HP|HM]; [congruence|].
    destruct (get m o) as [x|] eqn:Ex.
    2: { apply post_of_vres; [exact Hg|]. unfold step_drop_value. rewrite Ex.
         assert (H : TV mu (Some (None, vv m)) m) by (right; split; [apply ND_refl|exact HM]). goV fail. }
    assert (Hs : forall e, TV mu (Some (e, vv m)) m) by (intros e; right; split; [apply ND_refl|exact HM]).
    destruct (o_vst x) eqn:Ev.
    1, 5: (apply (post_close _ m o); [exact Hg| |apply (dv_final o m x Ex); rewrite Ev; auto];
           pose proof (Hs (Some o)) as H; unfold step_drop_value; rewrite Ex, Ev;
           goV ltac:(first
             [ (rewrite (vv_upd_alter _ (vset VDropping)) by (intros; reflexivity); cvs;
                eapply TV_vset; [eassumption|];
                intros _ e h0 [= <- <-]; split; [reflexivity|left; right; left; reflexivity])
             | (rewrite (vv_upd_alter _ (vset VDropped)) by (intros; reflexivity); cvs;
                eapply TV_vset; [eassumption|];
                intros _ e h0 _; split; [discriminate|left; right; right; reflexivity]) ])).
    all: (apply post_of_vres; [exact Hg|]; pose proof (Hs None) as H; unfold step_drop_value; rewrite Ex, Ev; goV fail).
  Qed.

  Lemma V_cmd_try_unwrap self l v m :
    Pre5 mu (KCmd self (CTryUnwrap l v)) m -> chkV (KCmd self (CTryUnwrap l v)) m = true ->
    Post5 mu (KCmd self (CTryUnwrap l v)) m (cmd_try_unwrap K self l v m).1 (cmd_try_unwrap K self l v m).2.
  Proof.
    intros HP Hchk. destruct (mem_id mu (dead m)) eqn:Hg.
    { intros Hr. left. apply vres_None; [|exact Hr]. unfold cmd_try_unwrap.
      assert (H : TV mu None m) by (left; exact Hg). goV fail. }
    destruct HP as [HP|HM]; [congruence|]. cbn [chkV] in Hchk.
    apply post_of_vres; [exact Hg|].
    assert (H : TV mu (Some (None, vv m)) m) by (right; split; [apply ND_refl|exact HM]).
    unfold cmd_try_unwrap.
    pose proof (heap_resolve self l m) as Eh. pose proof (slots_resolve self l m) as Es.
    assert (Hr1 : TV mu (Some (None, vv m)) (resolve self l m).1) by relV fail.
    assert (Ez : vv (resolve self l m).1 = vv m) by (cvs; reflexivity).
    destruct (resolve self l m) as [m1 r]. cbn [fst snd] in *.
    destruct r as [r|]; [|goV fail]. destruct (values m1 !! v) as [[?|]|]; try goV fail.
    destruct (read_loc r m1) as [o|] eqn:Erd; [|goV fail].
    pose proof (nm_spec m o (read_loc_nomap m m1 r o Hchk Eh Es Erd)) as Hb. rewrite <- Ez in Hb.
    goV ltac:(rewrite (vv_upd_alter _ (vset VMoved)) by (intros; reflexivity); cvs;
              eapply TV_vset; [eassumption|]; intros _ e h0 _; split; [discriminate|right; exact Hb]).
  Qed.

  Lemma v_cmd_new_cyclic self dst cls sc sw : gen_okV mu (cmd_new_cyclic K P rec self dst cls sc sw).
  Proof.
    intros s m H. unfold cmd_new_cyclic. destruct (negb (k_weak K)); [goV fail|].
    assert (Hr1 : TV mu s (resolve self dst m).1) by relV fail.
    destruct (resolve self dst m) as [m0 r]. cbn [fst snd] in *.
    destruct r as [r|]; [|goV fail].
    assert (Hr2 : TV mu s (new_node P cls m0).1) by relV fail.
    assert (Eo : (new_node P cls m0).2 = length (heap m0)) by reflexivity.
    pose proof (vv_new_node P cls m0) as E1.
    destruct (new_node P cls m0) as [m1 o]. cbn [fst snd] in *.
    assert (Hw1 : forall w, vv m1 !! o = Some w -> w.2 = false).
    { intros w Hw.
      assert (Hs : (vv m0 ++ [(VLive, false)]) !! length (vv m0) = Some (VLive, false)).
      { rewrite lookup_app_r by apply le_n. rewrite Nat.sub_diag. reflexivity. }
      assert (Eo' : o = length (vv m0)) by (rewrite vv_length; exact Eo).
      rewrite E1, Eo' in Hw. pose proof (eq_trans (eq_sym Hw) Hs) as [= ->]. reflexivity. }
    clear Eo E1.
    goV ltac:(first
      [ (rewrite (vv_upd_alter _ (vset VUninit)) by (intros; reflexivity); cvs;
         eapply TV_vset; [eassumption|]; intros _ e h0 _; split; [discriminate|right; exact Hw1])
      | (rewrite (vv_upd_alter _ (vset VLive)) by (intros; reflexivity); cvs;
         eapply TV_vset; [eassumption|]; intros _ e h0 _; split; [discriminate|left; left; reflexivity]) ]).
  Qed.
End S.
