(** * SafeFinalProg: program-level corollaries of [SafeFinal.safe_programs_closed] /
    [safe_programs_sinv] (every state reached by every well-formed program), and a
    non-vacuity example (a program whose run collects a garbage cycle). *)
From Coq Require Import NArith Bool List Lia.
From stdpp Require Import base list option.
From RecordUpdate Require Import RecordSet.
From RC Require Import Hdr Machine RunInd.
From RC Require BufBase Buf.
From RC Require Import Inv InvP SafeHelpers SafePrims SafeCalls SafeMain SafeProps SafeColl SafeFinal SafeFinalPropsA SafeFinalProps.
Import ListNotations RecordSetNotations.
Local Open Scope N_scope.

Section Prog.
  Context (K : conf) (P : prog) (fuel : nat) (cmds : list cmd).
  Hypothesis Hconf : k_clean K = true -> k_weak K = true.
  Hypothesis Hwf : wf_prog P = true.
  Let m := fold_left (fun m c => exec_top K P fuel c m) cmds (init K).
  Hypothesis Hcl : clean m = true.

  (** everything the program can reach is allocated, alive and outside the dying set *)
  Theorem prog_reach_live o : sreach_any m o ->
    exists x, get m o = Some x /\ o_box x = BAlloc /\ o_vst x = VLive /\ mem_id o (dead m) = false.
  Proof.
    intros Hr. destruct (safe_programs_closed K P fuel cmds Hconf Hwf Hcl) as (Hinv & _).
    exact (SafeFinalPropsA.reach_any_live K [] m Hinv o Hr).
  Qed.

  (** [strong_count] / [weak_count] observed through a slot at top level *)
  Theorem prog_obs_count i o : (i < nslots)%nat -> slots m !! i = Some (Some o) ->
    exists x rc, get m o = Some x /\
      cmd_obs None (LS i) m = ok (emit (EObs o rc (N.of_nat (wrefs m o)) (h_fin (o_hdr x)) true) m) ROk /\
      N.of_nat (refs m o) <= rc <= max_rc /\ (no_panic_yet m = true -> rc = N.of_nat (refs m o)).
  Proof.
    intros Hi Hs. destruct (safe_programs_sinv K P fuel cmds Hconf Hwf Hcl) as (b & Hnb & HI & Hex & _).
    fold m in HI, Hnb, Hex.
    assert (Hl : hloc m None false o) by (econstructor 1; eauto).
    destruct (sv_loc _ _ _ _ _ HI _ _ _ Hl) as (x & Hx & Hb & Hm & Hv & Hd).
    assert (Hres : resolve None (LS i) m = (m, Some (RSlot i))).
    { unfold resolve. rewrite decide_True by exact Hi. reflexivity. }
    assert (Hrd : read_loc (RSlot i) m = Some o) by (unfold read_loc; rewrite Hs; reflexivity).
    assert (Hgood : good_h m o) by (exists x; auto 6).
    destruct (SafeFinalProps.obs_never_too_low K b [] None (LS i) m (RSlot i) o HI Hres Hrd Hgood)
      as (y & rc & Hy & Hrc & O1 & O3 & O2 & Hobs).
    change (cnt_id o []) with 0%nat in O1, O2. rewrite Nat.add_0_r in O1, O2.
    exists y, rc. split; [exact Hy|]. split; [exact Hobs|]. split; [split; assumption|].
    intros Hnp. apply O2, Hex, Hnp.
  Qed.
End Prog.

(** ** Non-vacuity: the corpus program F4 (garbage cycle with finalizers, a Drop impl running an
    upgrade inside the finalization pass) runs clean and its run performs collections. *)
Example f4_clean :
  let m := fold_left (fun m c => exec_top exK f4_prog 60 c m) (p_main f4_prog) (init exK) in
  (k_clean exK = true -> k_weak exK = true) /\ wf_prog f4_prog = true /\ clean m = true /\
  (0 < st_exec m) /\ existsb (fun e => match e with EFree _ _ _ => true | _ => false end) (log m) = true.
Proof. cbv zeta. split; [reflexivity|]. split; [vm_compute; reflexivity|]. split; [vm_compute; reflexivity|]. split; vm_compute; reflexivity. Qed.

Example f4_safe :
  let m := fold_left (fun m c => exec_top exK f4_prog 60 c m) (p_main f4_prog) (init exK) in
  inv_b exK [] m = true /\ no_badU m = true /\ (no_panic_yet m = true -> exact_b [] m = true).
Proof.
  destruct f4_clean as (H1 & H2 & H3 & _). exact (safe_programs_closed exK f4_prog 60 (p_main f4_prog) H1 H2 H3).
Qed.

Print Assumptions prog_reach_live.
Print Assumptions prog_obs_count.
Print Assumptions f4_safe.
