(** * SafeFinal: the collector cases discharged, and the closed program-level safety theorem.

    [SafeMain.safe_programs] is relative to the hypotheses [Hcoll] / [Hfuel_coll] / [Hlog].
    [Hcoll] cannot be instantiated as stated there: [KTrigger] / [KCollectCycles] carry part A's
    generic pre-condition, which does not contain the buffer-and-marks invariant ([Buf.Ibuf]:
    no duplicate in [pc], mark PC <-> member of [pc], no IL/IQ mark outside a pass, [tc = 0] on
    [pc]) that the tracing pass needs.  The closed theorem is therefore proved by a combined
    induction over [run K P n]:

      [Pre b E c m -> Q K A c m -> Post b E c m (run K P n c m)]

    where [Q K A c m := BufStep.PreA K A c m /\ nofuel m] is the precondition of the buffer
    invariant.  The collector activations are part B's lemmas (SafeCollTop/Once/Fin/Drop3);
    the non-collector activations reuse part A's [step_ok_noncollector] on the guarded function
    [guarded K Qdec A (run K P n)] (which is [rec_ok] unconditionally because the
    post-condition of [OFuel] is [True]) together with the call-closure theorem
    [SafeCollGuard.closure]. *)
From Coq Require Import NArith Bool List Lia.
From stdpp Require Import base list option.
From RecordUpdate Require Import RecordSet.
From RC Require Import Hdr Machine RunInd.
From RC Require BufBase BufPass BufStep Buf Flags3.
From RC Require SafeCollDec SafeCollNf SafeCollGuard.
From RC Require Import Inv InvP SafeHelpers SafePrims SafeCalls SafeGlue SafeDrop SafeCmd SafeCyclic SafeMain.
From RC Require Import SafeColl SafeCollFr SafeCollHdr SafeCollTop SafeCollPass SafeCollDead SafeCollOnce SafeCollFin
                       SafeCollDrop SafeCollDrop2 SafeCollDrop3.
Import ListNotations RecordSetNotations.
Local Open Scope N_scope.

Section Final.
  Context (K : conf) (P : prog).
  Hypothesis Hconf : k_clean K = true -> k_weak K = true.
  Hypothesis Hwf : wf_prog P = true.

  Definition Qdec (A : list id) (c : call) (m : machine) : Decision (Q K A c m).
  Proof.
    unfold Q. destruct (SafeCollDec.PreA_dec K A c m) as [H1|H1].
    - destruct (decide (forallb (fun e => negb (is_fuel_ev e)) (log m) = true)) as [H2|H2].
      + left. split; assumption.
      + right. intros [_ H]. apply H2, H.
    - right. intros [H _]. apply H1, H.
  Defined.

  (** ** the collector activations (the analogue of [SafeMain]'s [Hcoll]) *)
  Section Coll.
    Context (rec : call -> machine -> machine * outcome).
    Hypothesis HrecQ : forall b E A c m,
      Pre K (PreC K) b E c m -> Q K A c m -> Post K (PostC K) b E c m (rec c m).1 (rec c m).2.
    Hypothesis Hbuf : BufStep.rok K rec.
    Hypothesis Hnf : nfspec rec.

    Theorem coll_ok b E A c m :
      noncollector c = false -> Pre K (PreC K) b E c m -> Q K A c m ->
      Post K (PostC K) b E c m (step K P rec c m).1 (step K P rec c m).2.
    Proof.
      intros Hc Hpre HQ. destruct c; try discriminate Hc; cbn [step].
      - eapply step_trigger_ok; eauto.
      - eapply step_collect_cycles_ok; eauto.
      - apply (step_collect_ok K rec HrecQ Hbuf Hnf b E m Hpre).
      - apply (step_collect_loop_ok K rec HrecQ Hbuf Hnf b E n m Hpre).
      - apply (step_collect_once_ok K P rec HrecQ Hbuf Hnf b E m Hpre).
      - apply (step_finalize_list_ok K P rec HrecQ Hbuf Hnf b E L rest any old_f m Hpre).
      - apply (step_drop_list_ok K rec HrecQ Hbuf Hnf b E L rest old_d m Hpre).
    Qed.
  End Coll.

  (** the analogue of [Hfuel_coll]: nothing is claimed of a run that ran out of fuel *)
  Lemma fuel_ok_all b E c m : Post K (PostC K) b E c m m OFuel.
  Proof. apply Post_fuel. Qed.

  (** ** every run *)
  Theorem run_okQ n : forall b E A c m,
    Pre K (PreC K) b E c m -> Q K A c m -> Post K (PostC K) b E c m (run K P n c m).1 (run K P n c m).2.
  Proof.
    induction n as [|n IH]; intros b E A c m Hpre HQ; cbn [run fst snd].
    - apply fuel_ok_all.
    - destruct (noncollector c) eqn:Hc.
      + rewrite <- (SafeCollGuard.closure K P Qdec A (run K P n) c m (Buf.run_buf K P n) (SafeCollNf.run_nofuel K P n)
                      ltac:(rewrite noncoll_eq; exact Hc) HQ).
        apply (step_ok_noncollector K P (PreC K) (PostC K) Hconf Hwf); [|exact Hc|exact Hpre].
        intros b' E' c' m' Hpre'. unfold SafeCollGuard.guarded.
        destruct (Qdec A c' m') as [HQ'|HQ']; cbn [fst snd].
        * apply (IH b' E' A c' m' Hpre' HQ').
        * apply fuel_ok_all.
      + apply (coll_ok (run K P n) IH (Buf.run_buf K P n) (SafeCollNf.run_nofuel K P n) b E A c m Hc Hpre HQ).
  Qed.

  (** ** every program *)
  Lemma clean_nofuel m : clean m = true -> nofuel m.
  Proof.
    unfold clean, nofuel. rewrite !forallb_forall. intros H e He. specialize (H e He).
    destruct e as [| | | | | | | | |bb o]; try reflexivity. destruct bb; try reflexivity; discriminate.
  Qed.

  Definition TopInvQ (m : machine) : Prop :=
    clean m = true ->
    exists b, NoBad m /\ SInv K b [] [] m /\ (no_panic_yet m = true -> b = true) /\ BufBase.Ibuf K [] m.

  Lemma exec_top_okQ fuel c m : TopInvQ m -> TopInvQ (exec_top K P fuel c m).
  Proof.
    intros HT Hcl. unfold exec_top in *.
    pose proof (Flags3.run_log_mono K P fuel (KCmd None c) m) as Hsuf.
    destruct (run K P fuel (KCmd None c) m) as [m1 r] eqn:Hrun. cbn [fst] in Hsuf.
    assert (Hclm : clean m = true).
    { unfold clean in *. destruct r; [eapply forallb_suffix; eauto | | |];
        (cbn in Hcl; try (apply andb_true_iff in Hcl as [_ Hcl]); try discriminate; eapply forallb_suffix; eauto). }
    destruct (HT Hclm) as (b & Hnb & HI & Hex & HB).
    pose proof (clean_nofuel m Hclm) as Hn.
    assert (HQ : Q K [] (KCmd None c) m) by (split; [right; exact HB | exact Hn]).
    pose proof (run_okQ fuel b [] [] (KCmd None c) m) as HP.
    rewrite Pre_nc in HP by reflexivity. specialize (HP (conj Hnb (conj HI I)) HQ). rewrite Hrun in HP. cbn [fst snd] in HP.
    rewrite Post_nc in HP by reflexivity.
    destruct (Buf.run_buf K P fuel [] (KCmd None c) m (proj1 HQ)) as (_ & HG & _). rewrite Hrun in HG. cbn [fst snd] in HG.
    pose proof (SafeCollNf.run_nofuel K P fuel (KCmd None c) m Hn) as Hn1. rewrite Hrun in Hn1. cbn [fst snd] in Hn1.
    destruct r.
    - destruct HP as (Hnb1 & HI1 & _). exists b. split; [exact Hnb1|]. split; [exact HI1|]. split.
      + intros Hnp. apply Hex. unfold no_panic_yet in *. eapply forallb_suffix; eauto.
      + apply G_Ibuf; [apply HG; discriminate | exact Hnb1 | apply Hn1; discriminate].
    - destruct HP as (Hnb1 & HI1 & _). exists false.
      assert (Hnb2 : NoBad (emit (ERes RPanicked) m1)) by (apply NoBad_emit; split; [reflexivity | exact Hnb1]).
      split; [exact Hnb2|]. split; [eapply SInv_ieq; [apply ieq_emit | exact HI1]|]. split.
      + intros Hnp. cbn in Hnp. discriminate.
      + apply G_Ibuf; [|exact Hnb2|apply nofuel_emit; [reflexivity | apply Hn1; discriminate]].
        eapply BufBase.mild_G; [apply BufBase.mild_emit; reflexivity | apply HG; discriminate].
    - cbn in Hcl. discriminate.
    - cbn in Hcl. discriminate.
  Qed.

  Lemma TopInvQ_init : TopInvQ (init K).
  Proof.
    intros _. exists true. split; [reflexivity|]. split; [apply SInv_init|]. split; [auto|]. apply Buf.init_buf.
  Qed.

  Lemma prog_TopInvQ fuel cmds : TopInvQ (fold_left (fun m c => exec_top K P fuel c m) cmds (init K)).
  Proof.
    generalize (init K) TopInvQ_init. induction cmds as [|c cs IH]; intros m Hm; [exact Hm|].
    cbn [fold_left]. apply IH. apply exec_top_okQ, Hm.
  Qed.
End Final.

(** ** The closed theorems *)
Theorem safe_programs_sinv K P fuel cmds :
  (k_clean K = true -> k_weak K = true) -> wf_prog P = true ->
  let m := fold_left (fun m c => exec_top K P fuel c m) cmds (init K) in
  clean m = true ->
  exists b, NoBad m /\ SInv K b [] [] m /\ (no_panic_yet m = true -> b = true) /\ BufBase.Ibuf K [] m.
Proof. intros Hconf Hwf. cbv zeta. apply (prog_TopInvQ K P Hconf Hwf). Qed.

Theorem safe_programs_closed K P fuel cmds :
  (k_clean K = true -> k_weak K = true) -> wf_prog P = true ->
  let m := fold_left (fun m c => exec_top K P fuel c m) cmds (init K) in
  clean m = true ->
  inv_b K [] m = true /\ no_badU m = true /\ (no_panic_yet m = true -> exact_b [] m = true).
Proof.
  intros Hconf Hwf. cbv zeta. intros Hcl.
  destruct (safe_programs_sinv K P fuel cmds Hconf Hwf Hcl) as (b & Hnb & HI & Hex & _).
  split; [apply Inv_iff; eapply SInv_Inv; exact HI|]. split; [exact Hnb|].
  intros Hnp. rewrite (Hex Hnp) in HI. apply (SInv_exact K), HI.
Qed.

(** with the buffer invariant, also counter underflow is excluded: the full [no_bad] *)
Theorem safe_programs_no_bad K P fuel cmds :
  (k_clean K = true -> k_weak K = true) -> wf_prog P = true ->
  let m := fold_left (fun m c => exec_top K P fuel c m) cmds (init K) in
  clean m = true -> no_bad m = true.
Proof.
  intros Hconf Hwf. cbv zeta. intros Hcl.
  destruct (safe_programs_sinv K P fuel cmds Hconf Hwf Hcl) as (b & Hnb & _ & _ & HB).
  rewrite no_bad_split. unfold NoBad in Hnb. rewrite Hnb. cbn [andb].
  destruct (Buf.Ibuf_spec K [] _ HB) as (_ & _ & _ & _ & _ & Huf & _).
  unfold no_uflow. apply forallb_forall. intros e He. destruct e as [| | | | | | | | |bb o]; try reflexivity.
  destruct bb; try reflexivity. exfalso. apply (Huf o He).
Qed.

Print Assumptions run_okQ.
Print Assumptions safe_programs_sinv.
Print Assumptions safe_programs_closed.
Print Assumptions safe_programs_no_bad.
